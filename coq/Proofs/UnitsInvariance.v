(* C04: results do not depend on the units used to state them.  Dimensional homogeneity of the mass-action term and of
   the default state, on top of the multiplicativity of conversion factors. *)
From Coq Require Import ZArith QArith Qcanon List Lia.
From Verif Require Import Num NumFacts Units UnitsFacts System SystemFacts EngineBuild ReactionText ReactionTextFacts.
Open Scope Qc_scope.

(* a bare number re-scaled together with its declared system denotes the same physical value *)
Theorem bare_rescale v S S' d :
  SI {| qv := v * factor S S' d; qu := S'; qd := d |} = SI {| qv := v; qu := S; qd := d |}.
Proof. exact (SI_convert {| qv := v; qu := S; qd := d |} S'). Qed.

(* conversion factors: exponents multiply as powers *)
Lemma factor_scal s t n d : factor s t (dim_scal n d) = Qcpowz (factor s t d) n.
Proof.
  unfold factor, dim_scal. cbn [dS dT dQ].
  rewrite !Qcpowz_mul_base. rewrite !(Z.mul_comm n). rewrite !Qcpowz_mul_exp. reflexivity.
Qed.

(* ---------- the mass-action term is dimensionally homogeneous ---------- *)
(* terms: (amount x_s, coefficient sub_s) of one reaction in one cell *)
Definition ma (k V : Qc) (terms : list (Qc * Z)) : Qc :=
  k * V * prodQ (map (fun t : Qc * Z => Qcpowz (fst t / V) (snd t)) terms).
Definition total_order (terms : list (Qc * Z)) : Z := fold_right Z.add 0%Z (map snd terms).

Lemma Qcpowz_nonzero' x n : x <> 0 -> Qcpowz x n <> 0.
Proof. apply Qcpowz_nonzero. Qed.

Lemma prod_scaling (V fa fv : Qc) terms : V <> 0 -> fa <> 0 -> fv <> 0 ->
  prodQ (map (fun t : Qc * Z => Qcpowz ((fst t * fa) / (V * fv)) (snd t)) terms)
  = prodQ (map (fun t : Qc * Z => Qcpowz (fst t / V) (snd t)) terms) * Qcpowz (fa / fv) (total_order terms).
Proof.
  intros HV Ha Hv. induction terms as [|[x n] terms IH].
  - cbn. rewrite Qcpowz_0_r. ring.
  - cbn [map fst snd total_order fold_right]. rewrite !prodQ_cons, IH. fold (total_order terms).
    assert (Hr : fa / fv <> 0).
    { intro E. apply Ha. replace fa with ((fa / fv) * fv) by (field; exact Hv). rewrite E. ring. }
    rewrite (Qcpowz_add _ n (total_order terms) Hr).
    replace (x * fa / (V * fv)) with ((x / V) * (fa / fv)) by (field; split; assumption).
    rewrite Qcpowz_mul_base. ring.
Qed.

(* changing the units in which constant, volume and amounts are expressed multiplies the term by the factor of amount / time *)
Theorem mass_action_units (s t : usys) (k V : Qc) terms : V <> 0 ->
  ma (k * factor s t (kdim (total_order terms))) (V * factor s t dim_volume) (map (fun p : Qc * Z => (fst p * factor s t dim_amount, snd p)) terms)
  = ma k V terms * factor s t dim_rate.
Proof.
  intro HV. unfold ma. rewrite map_map. cbn [fst snd].
  pose proof (Qc_pos_neq _ (factor_pos s t dim_amount)) as Ha. pose proof (Qc_pos_neq _ (factor_pos s t dim_volume)) as Hv.
  rewrite (prod_scaling V _ _ terms HV Ha Hv).
  replace (factor s t dim_amount / factor s t dim_volume) with (factor s t (dim_add dim_amount (dim_opp dim_volume)))
    by (rewrite factor_add, factor_opp; reflexivity).
  rewrite <- factor_scal.
  rewrite <- (mass_action_dimension (total_order terms)), !factor_add. ring.
Qed.

(* ---------- the default state depends on the SI values of density and volume only ---------- *)
Theorem default_state_units net s e vol net' s' e' vol' :
  SI (in_env (sp_dens s) (env_label net e) zero_density) = SI (in_env (sp_dens s') (env_label net' e') zero_density) ->
  SI vol = SI vol' ->
  SI (default_entry net s e vol) = SI (default_entry net' s' e' vol').
Proof. intros Hd Hv. rewrite !default_entry_SI, Hd, Hv. reflexivity. Qed.

(* ---------- the diffusion exchange term is dimensionally homogeneous ---------- *)
From Verif Require Import Grid Engine.

Lemma Qceqb_scaled a f : f <> 0 -> Qceqb (a * f) 0 = Qceqb a 0.
Proof.
  intro Hf. destruct (Qceqb a 0) eqn:E.
  - apply Qceqb_eq in E. subst a. apply Qceqb_eq. ring.
  - destruct (Qceqb (a * f) 0) eqn:E'; [|reflexivity]. apply Qceqb_eq in E'. apply Qcmult_integral in E'. destruct E' as [E'|E']; [|contradiction].
    subst a. assert (Qceqb 0 0 = true) by (apply Qceqb_eq; reflexivity). congruence.
Qed.

Lemma Dint_scaling hi hj Di Dj fl fD : fl <> 0 -> fD <> 0 -> hi / Di + hj / Dj <> 0 ->
  Dint (hi * fl) (hj * fl) (Di * fD) (Dj * fD) = Dint hi hj Di Dj * fD.
Proof.
  intros Hl HD Hs. unfold Dint. rewrite !(Qceqb_scaled _ fD HD).
  destruct (Qceqb Di 0) eqn:E1; cbn [orb]; [ring|]. destruct (Qceqb Dj 0) eqn:E2; [ring|].
  assert (HDi : Di <> 0) by (intro E; subst; assert (Qceqb 0 0 = true) by (apply Qceqb_eq; reflexivity); congruence).
  assert (HDj : Dj <> 0) by (intro E; subst; assert (Qceqb 0 0 = true) by (apply Qceqb_eq; reflexivity); congruence).
  replace (hi * fl / (Di * fD) + hj * fl / (Dj * fD)) with ((fl / fD) * (hi / Di + hj / Dj)) by (field; repeat split; assumption).
  remember (hi / Di + hj / Dj) as S eqn:ES. clear ES. field. repeat split; assumption.
Qed.

Definition exch (hi hj Di Dj sf ds xi xj Vi Vj : Qc) : Qc := Dint hi hj Di Dj * sf / ds * (xj / Vj - xi / Vi).

Definition dim_of_exchange : dim :=
  dim_add (dim_add (dim_add dim_diff dim_surface) (dim_opp dim_length)) (dim_add dim_amount (dim_opp dim_volume)).
Lemma dim_of_exchange_is_rate : dim_of_exchange = dim_rate.
Proof. reflexivity. Qed.

Theorem exchange_units (s t : usys) hi hj Di Dj sf ds xi xj Vi Vj :
  ds <> 0 -> Vi <> 0 -> Vj <> 0 -> hi / Di + hj / Dj <> 0 ->
  exch (hi * factor s t dim_length) (hj * factor s t dim_length) (Di * factor s t dim_diff) (Dj * factor s t dim_diff)
       (sf * factor s t dim_surface) (ds * factor s t dim_length)
       (xi * factor s t dim_amount) (xj * factor s t dim_amount) (Vi * factor s t dim_volume) (Vj * factor s t dim_volume)
  = exch hi hj Di Dj sf ds xi xj Vi Vj * factor s t dim_rate.
Proof.
  intros Hds HVi HVj Hs. unfold exch.
  pose proof (Qc_pos_neq _ (factor_pos s t dim_length)) as Hl. pose proof (Qc_pos_neq _ (factor_pos s t dim_diff)) as HD.
  pose proof (Qc_pos_neq _ (factor_pos s t dim_volume)) as Hv.
  rewrite (Dint_scaling _ _ _ _ _ _ Hl HD Hs).
  rewrite <- dim_of_exchange_is_rate. unfold dim_of_exchange. rewrite !factor_add, !factor_opp.
  field. repeat split; assumption.
Qed.
