(* Facts about the unit text model (Model/UnitText.v): print -> parse round trip. *)
From Coq Require Import NArith ZArith List Lia Bool.
From Verif Require Import Num Units ReactionText ReactionTextFacts UnitText.
Open Scope N_scope.

(* ---------- per-symbol facts, by computation over the finite tables ---------- *)
Definition alpha (c : N) : bool := negb (is_sep c) && negb (is_exp_char c) && negb (is_space c) && negb (c =? 117).
Definition base_kinds : list unit_kind := map KSpace all_space ++ map KTime all_time ++ map KAmount all_amount.

(* 'u' occurs in "molecule" only, followed by 'l': treat it separately from alpha *)
Definition sym_ok (w : str) : bool :=
  forallb (fun c => negb (is_sep c) && negb (is_exp_char c) && negb (is_space c)) w
  && str_eqb (u_to_micro w) w && negb (match rev w with c :: _ => c =? 117 | [] => true end).

Lemma symbols_ok : forallb (fun k => sym_ok (sym_of k) && match classify (sym_of k) with Some k' => str_eqb (sym_of k') (sym_of k) | None => false end) base_kinds = true.
Proof. vm_compute. reflexivity. Qed.

Lemma classify_space u : classify (sym_space u) = Some (KSpace u).
Proof. destruct u; vm_compute; reflexivity. Qed.
Lemma classify_time u : classify (sym_time u) = Some (KTime u).
Proof. destruct u; vm_compute; reflexivity. Qed.
Lemma classify_amount u : classify (sym_amount u) = Some (KAmount u).
Proof. destruct u; vm_compute; reflexivity. Qed.

Lemma sym_space_ok u : sym_ok (sym_space u) = true. Proof. destruct u; vm_compute; reflexivity. Qed.
Lemma sym_time_ok u : sym_ok (sym_time u) = true. Proof. destruct u; vm_compute; reflexivity. Qed.
Lemma sym_amount_ok u : sym_ok (sym_amount u) = true. Proof. destruct u; vm_compute; reflexivity. Qed.

(* ---------- the tokeniser on name, exponent text, separator ---------- *)
Definition name_char (c : N) : bool := negb (is_sep c) && negb (is_exp_char c).
Definition exp_char_only (c : N) : bool := negb (is_sep c) && is_exp_char c.

Lemma tokenize_name w : forallb name_char w = true -> forall rest sep name expt,
  tokenize (w ++ rest) sep name expt false = tokenize rest sep (rev w ++ name) expt false.
Proof.
  induction w as [|c w IH]; intros H rest sep name expt; [reflexivity|].
  cbn [forallb] in H. apply andb_true_iff in H. destruct H as (Hc & Hw). unfold name_char in Hc.
  apply andb_true_iff in Hc. destruct Hc as (H1 & H2). apply negb_true_iff in H1, H2.
  cbn [app tokenize]. rewrite H1, H2. cbn [orb]. rewrite (IH Hw). cbn [rev]. rewrite <- app_assoc. reflexivity.
Qed.

Lemma tokenize_exp w : forallb exp_char_only w = true -> w <> [] -> forall rest sep name expt b,
  tokenize (w ++ rest) sep name expt b = tokenize rest sep name (rev w ++ expt) true.
Proof.
  induction w as [|c w IH]; intros H Hne rest sep name expt b; [contradiction|].
  cbn [forallb] in H. apply andb_true_iff in H. destruct H as (Hc & Hw). unfold exp_char_only in Hc.
  apply andb_true_iff in Hc. destruct Hc as (H1 & H2). apply negb_true_iff in H1.
  cbn [app tokenize]. rewrite H1, H2, orb_true_r.
  destruct w as [|d w]; [reflexivity|]. rewrite (IH Hw) by discriminate. cbn [rev]. rewrite <- !app_assoc. reflexivity.
Qed.

Lemma uint_chars_exp u : forallb exp_char_only (uint_chars u) = true.
Proof. induction u; cbn [uint_chars forallb]; try reflexivity; rewrite IHu; reflexivity. Qed.
Lemma print_int_exp z : forallb exp_char_only (print_int z) = true.
Proof. unfold print_int. destruct (Z.to_int z); cbn [forallb]; rewrite uint_chars_exp; reflexivity. Qed.

(* the text of an exponent as printed is strict: -?[0-9]+ *)
Lemma uint_chars_digits u : all_digits (uint_chars u) = true.
Proof. induction u; cbn [uint_chars all_digits]; try reflexivity; rewrite IHu; reflexivity. Qed.
Lemma print_int_strict z : strict_exp_text (print_int z) = true.
Proof.
  unfold print_int. destruct (Z.to_int z) as [u|u] eqn:E.
  - pose proof (uint_chars_digits u) as H. unfold strict_exp_text. destruct (uint_chars u) as [|c r] eqn:Eu; [reflexivity|].
    destruct (c =? 45) eqn:Ec; [|exact H]. exfalso. destruct u; cbn in Eu; try discriminate; injection Eu as <- _; discriminate.
  - unfold strict_exp_text. change (c_minus =? 45) with true. cbn iota. rewrite uint_chars_digits, andb_true_r.
    destruct z as [|p|p]; cbn in E; try discriminate. injection E as <-.
    pose proof (DecimalPos.Unsigned.to_uint_nonnil p) as Hn. destruct (Pos.to_uint p); try contradiction; reflexivity.
Qed.

(* ---------- one printed factor ---------- *)
Definition exp_text (e : Z) : str := if Z.eqb e 1 then [] else print_int e.

Lemma sym_ok_name w : sym_ok w = true -> forallb name_char w = true.
Proof.
  unfold sym_ok. intro H. apply andb_true_iff in H. destruct H as (H & _). apply andb_true_iff in H. destruct H as (H & _).
  rewrite forallb_forall in *. intros c Hc. specialize (H c Hc). unfold name_char.
  apply andb_true_iff in H. destruct H as (H & _). exact H.
Qed.

(* tokenising  sym exp . rest  /  sym exp  *)
Lemma tokenize_factor_then sym e rest sep : sym_ok sym = true ->
  tokenize (sym ++ exp_text e ++ 46 :: rest) sep [] [] false
  = {| b_sep := sep; b_name := sym; b_exp := exp_text e |} :: tokenize rest 46 [] [] false.
Proof.
  intro Hs. rewrite (tokenize_name sym (sym_ok_name _ Hs)). rewrite app_nil_r. unfold exp_text. destruct (Z.eqb e 1).
  - cbn [app tokenize]. change (is_sep 46) with true. cbn iota. rewrite rev_involutive. reflexivity.
  - rewrite (tokenize_exp (print_int e) (print_int_exp e) (print_int_nonempty e)). rewrite app_nil_r.
    cbn [tokenize]. change (is_sep 46) with true. cbn iota. rewrite !rev_involutive. reflexivity.
Qed.

Lemma tokenize_factor_end sym e sep : sym_ok sym = true ->
  tokenize (sym ++ exp_text e) sep [] [] false = [{| b_sep := sep; b_name := sym; b_exp := exp_text e |}].
Proof.
  intro Hs. rewrite (tokenize_name sym (sym_ok_name _ Hs)). rewrite app_nil_r. unfold exp_text. destruct (Z.eqb e 1).
  - cbn [tokenize]. rewrite rev_involutive. reflexivity.
  - rewrite <- (app_nil_r (print_int e)) at 1. rewrite (tokenize_exp (print_int e) (print_int_exp e) (print_int_nonempty e)). rewrite app_nil_r.
    cbn [tokenize]. rewrite !rev_involutive. reflexivity.
Qed.

Lemma block_exp_printed sym e : block_exp {| b_sep := 46; b_name := sym; b_exp := exp_text e |} = Some e.
Proof.
  unfold block_exp, exp_text. cbn [b_exp b_sep]. destruct (Z.eqb_spec e 1) as [->|Hne]; [reflexivity|].
  pose proof (print_int_nonempty e) as Hn. destruct (print_int e) as [|c r] eqn:E; [contradiction|].
  rewrite <- E, print_int_strict, parse_print_int. reflexivity.
Qed.

(* ---------- whole unit strings ---------- *)
Definition factor_text (p : str * Z) : str := fst p ++ exp_text (snd p).
Definition render (fs : list (str * Z)) : str := join_dot (map factor_text fs).
Definition block_of (p : str * Z) : block := {| b_sep := 46; b_name := fst p; b_exp := exp_text (snd p) |}.

Lemma join_dot_cons a l : l <> [] -> join_dot (a :: l) = a ++ 46 :: join_dot l.
Proof. destruct l; [contradiction|reflexivity]. Qed.

Lemma tokenize_render fs : fs <> [] -> (forall p, In p fs -> sym_ok (fst p) = true) ->
  tokenize (render fs) 46 [] [] false = map block_of fs.
Proof.
  induction fs as [|p fs IH]; intros Hne Hok; [contradiction|]. unfold render. cbn [map].
  destruct fs as [|q fs].
  - cbn [join_dot map]. unfold factor_text. apply tokenize_factor_end. apply Hok. left. reflexivity.
  - rewrite join_dot_cons by discriminate. unfold factor_text at 1. rewrite <- app_assoc.
    rewrite tokenize_factor_then by (apply Hok; left; reflexivity).
    fold (render (q :: fs)). rewrite IH; [reflexivity|discriminate|intros r Hr; apply Hok; right; exact Hr].
Qed.

(* the u-for-micro rewriting and strip leave printed text alone *)
Lemma u_to_micro_app a b : (match rev a with c :: _ => negb (c =? 117) | [] => false end) = true ->
  u_to_micro (a ++ b) = u_to_micro a ++ u_to_micro b.
Proof.
  induction a as [|c a IH]; intro H; [discriminate|].
  destruct a as [|d a].
  - cbn in H. apply negb_true_iff in H. cbn [app u_to_micro]. rewrite H. cbn [andb]. reflexivity.
  - cbn [app u_to_micro]. f_equal. apply IH.
    cbn [rev] in H. cbn [rev]. destruct (rev a ++ [d]) eqn:E; [destruct (rev a); discriminate|]. cbn [app] in H. exact H.
Qed.

Definition no_u (w : str) : bool := forallb (fun c => negb (c =? 117)) w.
Lemma u_to_micro_no_u w : no_u w = true -> forall rest, u_to_micro (w ++ rest) = w ++ u_to_micro rest.
Proof.
  induction w as [|c w IH]; intros H rest; [reflexivity|]. cbn [no_u forallb] in H. apply andb_true_iff in H. destruct H as (Hc & Hw).
  apply negb_true_iff in Hc. cbn [app u_to_micro]. rewrite Hc. cbn [andb]. f_equal. apply IH. exact Hw.
Qed.
Lemma uint_chars_no_u u : no_u (uint_chars u) = true.
Proof. induction u; cbn [uint_chars no_u forallb]; try reflexivity; exact IHu. Qed.
Lemma exp_text_no_u e : no_u (exp_text e) = true.
Proof. unfold exp_text. destruct (Z.eqb e 1); [reflexivity|]. unfold print_int. destruct (Z.to_int e); cbn [no_u forallb]; apply uint_chars_no_u. Qed.

Lemma sym_ok_parts w : sym_ok w = true ->
  u_to_micro w = w /\ (match rev w with c :: _ => negb (c =? 117) | [] => false end) = true /\ existsb is_space w = false.
Proof.
  unfold sym_ok. intro H. apply andb_true_iff in H. destruct H as (H & H3). apply andb_true_iff in H. destruct H as (H1 & H2).
  split; [apply str_eqb_eq; exact H2|]. split.
  - destruct (rev w); [discriminate H3|exact H3].
  - clear -H1. induction w as [|c w IH]; [reflexivity|]. cbn [forallb existsb] in *. apply andb_true_iff in H1. destruct H1 as (Hc & Hw).
    apply andb_true_iff in Hc. destruct Hc as (_ & Hs). apply negb_true_iff in Hs. rewrite Hs. apply IH. exact Hw.
Qed.

Lemma u_to_micro_factor p rest : sym_ok (fst p) = true -> u_to_micro (factor_text p ++ rest) = factor_text p ++ u_to_micro rest.
Proof.
  intro H. destruct (sym_ok_parts _ H) as (Hu & Hl & _). unfold factor_text. rewrite <- app_assoc.
  rewrite (u_to_micro_app _ _ Hl), Hu. rewrite (u_to_micro_no_u _ (exp_text_no_u (snd p))). rewrite <- app_assoc. reflexivity.
Qed.

Lemma u_to_micro_render fs : (forall p, In p fs -> sym_ok (fst p) = true) -> u_to_micro (render fs) = render fs.
Proof.
  induction fs as [|p fs IH]; intro Hok; [reflexivity|]. unfold render. cbn [map]. destruct fs as [|q fs].
  - cbn [join_dot map]. rewrite <- (app_nil_r (factor_text p)) at 1. rewrite u_to_micro_factor by (apply Hok; left; reflexivity).
    cbn. rewrite app_nil_r. reflexivity.
  - rewrite join_dot_cons by discriminate. rewrite u_to_micro_factor by (apply Hok; left; reflexivity).
    cbn [u_to_micro]. change ((46 =? 117) && _) with false. cbn iota. fold (render (q :: fs)). rewrite IH by (intros r Hr; apply Hok; right; exact Hr). reflexivity.
Qed.

Lemma exp_text_no_space e : existsb is_space (exp_text e) = false.
Proof. unfold exp_text. destruct (Z.eqb e 1); [reflexivity|apply print_int_no_space]. Qed.

Lemma render_no_space fs : (forall p, In p fs -> sym_ok (fst p) = true) -> existsb is_space (render fs) = false.
Proof.
  induction fs as [|p fs IH]; intro Hok; [reflexivity|]. unfold render. cbn [map].
  assert (Hf : existsb is_space (factor_text p) = false).
  { unfold factor_text. rewrite existsb_app. destruct (sym_ok_parts _ (Hok p (or_introl eq_refl))) as (_ & _ & Hs). rewrite Hs, exp_text_no_space. reflexivity. }
  destruct fs as [|q fs].
  - cbn [join_dot map]. exact Hf.
  - rewrite join_dot_cons by discriminate. rewrite existsb_app, Hf. cbn [existsb orb]. change (is_space 46) with false. cbn [orb].
    fold (render (q :: fs)). apply IH. intros r Hr. apply Hok. right. exact Hr.
Qed.

Lemma lstrip_no_space w : existsb is_space w = false -> lstrip w = w.
Proof. destruct w as [|c w]; [reflexivity|]. cbn [existsb lstrip]. intro H. apply orb_false_iff in H. destruct H as (Hc & _). rewrite Hc. reflexivity. Qed.
Lemma existsb_rev {A} (f : A -> bool) l : existsb f (rev l) = existsb f l.
Proof.
  destruct (existsb f l) eqn:E.
  - apply existsb_exists in E. destruct E as (x & Hx & Hf). apply existsb_exists. exists x. split; [apply in_rev in Hx; exact Hx|exact Hf].
  - destruct (existsb f (rev l)) eqn:E'; [|reflexivity]. apply existsb_exists in E'. destruct E' as (x & Hx & Hf).
    apply in_rev in Hx. assert (existsb f l = true) by (apply existsb_exists; exists x; split; assumption). congruence.
Qed.
Lemma strip_no_space w : existsb is_space w = false -> strip w = w.
Proof.
  intro H. unfold strip. rewrite (lstrip_no_space w H). rewrite lstrip_no_space by (rewrite existsb_rev; exact H). apply rev_involutive.
Qed.

(* ---------- the round trip ---------- *)
Definition factors (u : usys) (d : dim) : list (str * Z) :=
  (if Z.eqb (dS d) 0 then [] else [(sym_space (us u), dS d)]) ++ (if Z.eqb (dT d) 0 then [] else [(sym_time (ut u), dT d)])
  ++ (if Z.eqb (dQ d) 0 then [] else [(sym_amount (uq u), dQ d)]).

Lemma print_units_render u d : print_units u d = render (factors u d).
Proof.
  unfold print_units, render, factors, print_factor, factor_text, exp_text.
  destruct (Z.eqb (dS d) 0), (Z.eqb (dT d) 0), (Z.eqb (dQ d) 0); reflexivity.
Qed.

Lemma factors_ok u d : forall p, In p (factors u d) -> sym_ok (fst p) = true.
Proof.
  unfold factors. intros p Hp. repeat (apply in_app_or in Hp; destruct Hp as [Hp|Hp]);
    repeat match goal with H : In _ (if ?b then _ else _) |- _ => destruct b end;
    try contradiction; destruct Hp as [<-|[]]; cbn [fst]; [apply sym_space_ok|apply sym_time_ok|apply sym_amount_ok].
Qed.

Lemma add_block_space a s e : a_s a = None ->
  add_block a (block_of (sym_space s, e)) =
  Some {| a_s := Some s; a_t := a_t a; a_q := a_q a; a_d := dim_add (a_d a) {| dS := e; dT := 0; dQ := 0 |} |}.
Proof. intro H. unfold add_block, block_of. cbn [b_name fst snd]. rewrite classify_space, block_exp_printed. unfold add_space. rewrite H. reflexivity. Qed.
Lemma add_block_time a s e : a_t a = None ->
  add_block a (block_of (sym_time s, e)) =
  Some {| a_s := a_s a; a_t := Some s; a_q := a_q a; a_d := dim_add (a_d a) {| dS := 0; dT := e; dQ := 0 |} |}.
Proof. intro H. unfold add_block, block_of. cbn [b_name fst snd]. rewrite classify_time, block_exp_printed. unfold add_time. rewrite H. reflexivity. Qed.
Lemma add_block_amount a s e : a_q a = None ->
  add_block a (block_of (sym_amount s, e)) =
  Some {| a_s := a_s a; a_t := a_t a; a_q := Some s; a_d := dim_add (a_d a) {| dS := 0; dT := 0; dQ := e |} |}.
Proof. intro H. unfold add_block, block_of. cbn [b_name fst snd]. rewrite classify_amount, block_exp_printed. unfold add_amount. rewrite H. reflexivity. Qed.

Lemma space_eqb_refl s : space_eqb s s = true. Proof. apply str_eqb_refl. Qed.
Lemma time_eqb_refl s : time_eqb s s = true. Proof. apply str_eqb_refl. Qed.
Lemma amount_eqb_refl s : amount_eqb s s = true. Proof. apply str_eqb_refl. Qed.

Theorem parse_print_units u d : exists r, parse_units (print_units u d) = Some r /\ units_equiv (u, d) r = true.
Proof.
  rewrite print_units_render. pose proof (factors_ok u d) as Hok. unfold parse_units.
  rewrite (u_to_micro_render _ Hok), (strip_no_space _ (render_no_space _ Hok)).
  destruct (factors u d) as [|p fs] eqn:E.
  - (* all exponents are zero *)
    exists (default_usys, dim0). split; [reflexivity|]. unfold factors in E.
    destruct (Z.eqb_spec (dS d) 0) as [H1|]; [|discriminate]. destruct (Z.eqb_spec (dT d) 0) as [H2|]; [|discriminate].
    destruct (Z.eqb_spec (dQ d) 0) as [H3|]; [|discriminate]. unfold units_equiv. rewrite H1, H2, H3. reflexivity.
  - assert (Hr : render (p :: fs) <> []).
    { unfold render. cbn [map]. destruct (sym_ok_parts _ (Hok p (or_introl eq_refl))) as (_ & Hl & _).
      destruct fs; cbn [join_dot map]; unfold factor_text; destruct (fst p); try discriminate; cbn in Hl; discriminate. }
    destruct (render (p :: fs)) as [|c0 r0] eqn:Er; [contradiction|]. rewrite <- Er.
    rewrite tokenize_render by (discriminate || exact Hok). rewrite <- E. clear E Er Hr Hok c0 r0 p fs.
    unfold factors. destruct d as [a b c]. cbn [dS dT dQ].
    destruct (Z.eqb_spec a 0) as [->|Ha]; destruct (Z.eqb_spec b 0) as [->|Hb]; destruct (Z.eqb_spec c 0) as [->|Hc];
      cbn [app map add_blocks];
      repeat (first [rewrite add_block_space by reflexivity | rewrite add_block_time by reflexivity | rewrite add_block_amount by reflexivity]; cbn [add_blocks a_s a_t a_q a_d]);
      (eexists; split; [reflexivity|]); unfold units_equiv, finish, acc0, dim_add, dim0; cbn [fst snd a_s a_t a_q a_d dS dT dQ us ut uq];
      rewrite ?space_eqb_refl, ?time_eqb_refl, ?amount_eqb_refl, ?orb_true_r;
      repeat match goal with |- context [Z.eqb ?x ?y] => replace (Z.eqb x y) with true by (symmetry; apply Z.eqb_eq; lia) end; reflexivity.
Qed.

(* ---------- one factor of any of the 47 symbols, with any exponent ---------- *)
Lemma all_symbols_ok : forallb (fun k => sym_ok (sym_of k) && match classify (sym_of k) with Some k' => str_eqb (sym_of k') (sym_of k) | None => false end) all_kinds = true.
Proof. vm_compute. reflexivity. Qed.

Lemma kind_in_all k : In k all_kinds.
Proof.
  unfold all_kinds. destruct k as [u|u|u|v|m].
  - apply in_or_app. left. apply in_map. destruct u; cbn; tauto.
  - apply in_or_app. right. apply in_or_app. left. apply in_map. destruct u; cbn; tauto.
  - do 2 (apply in_or_app; right). apply in_or_app. left. apply in_map. destruct u; cbn; tauto.
  - do 3 (apply in_or_app; right). apply in_or_app. left. apply in_map. destruct v; cbn; tauto.
  - do 4 (apply in_or_app; right). apply in_map. destruct m; cbn; tauto.
Qed.

Lemma kind_sym_ok k : sym_ok (sym_of k) = true.
Proof.
  pose proof all_symbols_ok as H. rewrite forallb_forall in H. specialize (H k (kind_in_all k)).
  apply andb_true_iff in H. apply H.
Qed.

(* what a factor contributes: the base unit(s) and exponents its symbol stands for *)
Definition factor_acc (k : unit_kind) (e : Z) : option acc :=
  match k with
  | KSpace u => add_space acc0 u e
  | KTime u => add_time acc0 u e
  | KAmount u => add_amount acc0 u e
  | KVolume v => add_space acc0 (volume_base v) (e * 3)
  | KMolar m => match add_space acc0 Dm (e * -3) with Some a' => add_amount a' (molar_base m) e | None => None end
  end.

Lemma classify_sym k : exists k', classify (sym_of k) = Some k' /\ sym_of k' = sym_of k.
Proof.
  pose proof all_symbols_ok as H. rewrite forallb_forall in H. specialize (H k (kind_in_all k)).
  apply andb_true_iff in H. destruct H as (_ & H). destruct (classify (sym_of k)) as [k'|]; [|discriminate].
  exists k'. split; [reflexivity|apply str_eqb_eq; exact H].
Qed.

Theorem single_factor k e : exists k', sym_of k' = sym_of k /\
  parse_units (sym_of k ++ exp_text e) = option_map finish (factor_acc k' e).
Proof.
  destruct (classify_sym k) as (k' & Hc & Hs). exists k'. split; [exact Hs|].
  assert (Hok : forall p, In p [(sym_of k, e)] -> sym_ok (fst p) = true) by (intros p [<-|[]]; apply kind_sym_ok).
  change (sym_of k ++ exp_text e) with (render [(sym_of k, e)]). unfold parse_units.
  rewrite (u_to_micro_render _ Hok), (strip_no_space _ (render_no_space _ Hok)).
  assert (Hr : render [(sym_of k, e)] <> []).
  { unfold render, factor_text. cbn [map join_dot fst]. destruct (sym_ok_parts _ (kind_sym_ok k)) as (_ & Hl & _).
    destruct (sym_of k); [cbn in Hl; discriminate|discriminate]. }
  destruct (render [(sym_of k, e)]) as [|c0 r0] eqn:Er; [contradiction|]. rewrite <- Er.
  rewrite tokenize_render by (discriminate || exact Hok). cbn [map add_blocks].
  unfold add_block, block_of. cbn [b_name fst snd]. rewrite Hc, block_exp_printed.
  destruct k'; cbn [factor_acc]; try (match goal with |- context [add_space acc0 ?u ?x] => destruct (add_space acc0 u x) end); try reflexivity;
    match goal with |- context [match ?o with Some _ => _ | None => None end] => destruct o end; reflexivity.
Qed.

(* a factor after '/' contributes the opposite exponent: a/b is a.b-1 *)
Lemma division_is_negative_exponent name t : 
  block_exp {| b_sep := 47; b_name := name; b_exp := t |} = option_map Z.opp (block_exp {| b_sep := 46; b_name := name; b_exp := t |}).
Proof. unfold block_exp. cbn [b_sep b_exp]. destruct (match t with [] => Some 1%Z | _ => _ end) as [z|]; reflexivity. Qed.

(* ---------- quantities: value, blank, units ---------- *)
Section WithFloat.
  Variable F : Type.
  Variable parse_float : str -> option F.
  Variable print_float : F -> str.
  Variable zero : F.
  Hypothesis float_roundtrip : forall x, parse_float (print_float x) = Some x.
  Hypothesis float_text_no_blank : forall x, existsb is_space (print_float x) = false.
  Hypothesis float_text_nonempty : forall x, print_float x <> [].

  Definition print_unitvalue (x : F) (u : usys) (d : dim) : str := print_float x ++ [c_sp] ++ print_units u d.

  Lemma split_ws_word w : existsb is_space w = false -> w <> [] -> split_ws w [] = [w].
  Proof.
    intros H Hne. rewrite <- (app_nil_r w) at 1. rewrite (split_ws_run w H). rewrite app_nil_r. cbn [split_ws].
    destruct (rev w) eqn:E; [apply (f_equal (@rev N)) in E; rewrite rev_involutive in E; contradiction|]. rewrite <- E, rev_involutive. reflexivity.
  Qed.

  Theorem value_roundtrip x u d : exists r,
    parse_unitvalue F parse_float zero (print_unitvalue x u d) = Some (x, r) /\ units_equiv (u, d) r = true.
  Proof.
    destruct (parse_print_units u d) as (r & Hp & He). exists r. split; [|exact He].
    unfold parse_unitvalue, print_unitvalue.
    rewrite (split_ws_run (print_float x) (float_text_no_blank x)). rewrite app_nil_r. cbn [app split_ws].
    change (is_space c_sp) with true. cbn iota.
    destruct (rev (print_float x)) eqn:E.
    { apply (f_equal (@rev N)) in E. rewrite rev_involutive in E. exfalso. exact (float_text_nonempty x E). }
    rewrite <- E, rev_involutive.
    assert (Hns : existsb is_space (print_units u d) = false).
    { rewrite print_units_render. apply render_no_space. apply factors_ok. }
    destruct (print_units u d) as [|c0 w0] eqn:Eu.
    - cbn [split_ws concat]. rewrite float_roundtrip, Hp. reflexivity.
    - rewrite (split_ws_word _ Hns) by discriminate. cbn [concat]. rewrite app_nil_r, float_roundtrip, Hp. reflexivity.
  Qed.
End WithFloat.
