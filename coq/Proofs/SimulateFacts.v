(* The implementation's single global simulation refines the per-object specification on every history in which at most one
   engine object holds a live simulation at a time (any number of objects in turn) - which is how simulate_script uses its
   engine; hence any sequence of simulate calls, on the same or on different engine objects, behaves as the specification says,
   each call as if it were alone in a fresh process. *)
From Coq Require Import ZArith QArith Qcanon List Lia Bool.
From Verif Require Import Num NumFacts Sampling SamplingFacts Lifecycle LifecycleFacts Simulate.
Import ListNotations.
Open Scope Qc_scope.

Definition other (e : obj) : obj := match e with A => B | B => A end.

Definition R2 (own : option obj) (w : world) (g : gworld) : Prop :=
  match own with
  | Some e => exists s sc, e_sim (get w e) = Some (s, sc) /\ e_sim (get w (other e)) = None /\
                g_algo g = Some (s, sc) /\ g_freed g = false /\ g_deleted g = false /\
                py_script g e = Some sc /\ py_unfinished g e = negb (s_complete s)
  | None => e_sim (get w A) = None /\ e_sim (get w B) = None /\ g_freed g = true
  end.

Lemma R2_0 : R2 None world0 gworld0. Proof. repeat split. Qed.

Lemma obj_eqb_true a b : obj_eqb a b = true -> a = b.
Proof. destruct a, b; try discriminate; reflexivity. Qed.
Lemma obj_eqb_refl a : obj_eqb a a = true. Proof. destruct a; reflexivity. Qed.
Lemma upd_same {X} (f : obj -> X) e x : upd f e x e = x.
Proof. unfold upd. rewrite obj_eqb_refl. reflexivity. Qed.
Lemma get_put_other' w e x : get (put w e x) (other e) = get w (other e).
Proof. destruct e; reflexivity. Qed.

(* a call by the owner on its live simulation *)
Lemma owner_step e w g c : R2 (Some e) w g -> target c = e ->
  (match c with LSetup _ _ | LFinalize _ => false | _ => true end) = true ->
  R2 (Some e) (fst (spec_step w c)) (fst (impl_step g c)) /\ snd (impl_step g c) = snd (spec_step w c).
Proof.
  intros (s & sc & Hs & Ho & Ha & Hf & Hd & Hp & Hu) Ht Hk.
  destruct c as [e0 sc0|e0|e0 k|e0|e0|e0|e0|e0|e0]; try discriminate Hk; cbn [target] in Ht; subst e0;
    cbn [spec_step impl_step]; unfold on_sim, through; rewrite ?Hs, ?Ha, ?Hd, ?Hp; cbn [fst snd].
  - (* iterate *) split; [|reflexivity]. exists (iterate (Some (sc_dt sc)) s), sc. rewrite get_put_same, get_put_other'. cbn. rewrite upd_same. repeat split; assumption.
  - (* iterate_n *) destruct k as [|k].
    + cbn [fst snd]. rewrite Hu. split; [|reflexivity]. exists s, sc. cbn [iterate_n]. rewrite get_put_same, get_put_other'. repeat split; assumption.
    + rewrite ?Ha, ?Hd. cbn [fst snd]. split; [|reflexivity]. exists (iterate_n (sc_dt sc) (S k) s), sc. rewrite get_put_same, get_put_other'. cbn. rewrite upd_same. repeat split; assumption.
  - (* run *) split; [|reflexivity]. exists (iterate (Some (sc_dt sc)) s), sc. rewrite get_put_same, get_put_other'. cbn. rewrite upd_same. repeat split; assumption.
  - (* sample *) split; [|reflexivity]. exists (sample s), sc. rewrite get_put_same, get_put_other'. cbn. repeat split; try assumption.
    rewrite Hu. destruct (sample_core s) as (_ & _ & _ & _ & E & _). rewrite E. reflexivity.
  - (* progress *) split; [|reflexivity]. exists s, sc. rewrite get_put_same, get_put_other'. repeat split; assumption.
  - (* is_complete *) rewrite Hu, negb_involutive. split; [|reflexivity]. exists s, sc. rewrite get_put_same, get_put_other'. repeat split; assumption.
  - (* get_output *) split; [|reflexivity]. exists s, sc. rewrite get_put_same, get_put_other'. repeat split; assumption.
Qed.

Lemma setup_step own e sc w g : R2 own w g -> (match own with None => true | Some o => obj_eqb o e end) = true ->
  R2 (Some e) (fst (spec_step w (LSetup e sc))) (fst (impl_step g (LSetup e sc))) /\
  snd (impl_step g (LSetup e sc)) = snd (spec_step w (LSetup e sc)).
Proof.
  intros HR Ho. cbn [spec_step impl_step fst snd]. split; [|reflexivity].
  exists (start sc), sc. rewrite get_put_same, get_put_other'. cbn. rewrite !upd_same, start_not_complete.
  repeat split. destruct own as [o|].
  - apply obj_eqb_true in Ho. subst o. destruct HR as (s & sc' & _ & H & _). exact H.
  - destruct HR as (HA & HB & _). destruct e; assumption.
Qed.

Lemma finalize_step own e w g : R2 own w g -> (match own with None => true | Some o => obj_eqb o e end) = true ->
  R2 None (fst (spec_step w (LFinalize e))) (fst (impl_step g (LFinalize e))) /\
  snd (impl_step g (LFinalize e)) = snd (spec_step w (LFinalize e)).
Proof.
  intros HR Ho. cbn [spec_step impl_step]. destruct own as [o|].
  - apply obj_eqb_true in Ho. subst o. destruct HR as (s & sc & Hs & Hoth & Ha & Hf & Hd & Hp & Hu).
    rewrite Hf, Ha, Hd. cbn [fst snd]. split; [|reflexivity].
    assert (G1 : e_sim (get (put w e {| e_sim := None |}) e) = None) by (rewrite get_put_same; reflexivity).
    assert (G2 : e_sim (get (put w e {| e_sim := None |}) (other e)) = None) by (rewrite get_put_other'; exact Hoth).
    destruct e; cbn [other] in *; repeat split; assumption.
  - destruct HR as (HA & HB & Hf). rewrite Hf. cbn [fst snd]. split; [|reflexivity].
    assert (G1 : e_sim (get (put w e {| e_sim := None |}) e) = None) by (rewrite get_put_same; reflexivity).
    assert (G2 : e_sim (get (put w e {| e_sim := None |}) (other e)) = None) by (rewrite get_put_other'; destruct e; assumption).
    destruct e; cbn [other] in *; repeat split; assumption.
Qed.

Lemma refinement_sessions_gen h : forall own w g, R2 own w g -> exclusive own h = true -> impl_run g h = spec_run w h.
Proof.
  induction h as [|c h IH]; intros own w g HR He; [reflexivity|].
  cbn [impl_run spec_run].
  assert (Step : exists own', R2 own' (fst (spec_step w c)) (fst (impl_step g c)) /\ snd (impl_step g c) = snd (spec_step w c)
                              /\ exclusive own' h = true).
  { destruct c as [e sc|e|e k|e|e|e|e|e|e]; cbn [exclusive target] in He.
    - (* setup *) exists (Some e). destruct own as [o|].
      + apply andb_true_iff in He. destruct He as (H1 & H2). destruct (setup_step (Some o) e sc w g HR H1) as (Ha & Hb). auto.
      + destruct (setup_step None e sc w g HR eq_refl) as (Ha & Hb). auto.
    - destruct own as [o|]; [|discriminate]. apply andb_true_iff in He. destruct He as (H1 & H2). apply obj_eqb_true in H1. subst o.
      exists (Some e). destruct (owner_step e w g (LIterate e) HR eq_refl eq_refl) as (Ha & Hb). auto.
    - destruct own as [o|]; [|discriminate]. apply andb_true_iff in He. destruct He as (H1 & H2). apply obj_eqb_true in H1. subst o.
      exists (Some e). destruct (owner_step e w g (LIterateN e k) HR eq_refl eq_refl) as (Ha & Hb). auto.
    - destruct own as [o|]; [|discriminate]. apply andb_true_iff in He. destruct He as (H1 & H2). apply obj_eqb_true in H1. subst o.
      exists (Some e). destruct (owner_step e w g (LRun e) HR eq_refl eq_refl) as (Ha & Hb). auto.
    - destruct own as [o|]; [|discriminate]. apply andb_true_iff in He. destruct He as (H1 & H2). apply obj_eqb_true in H1. subst o.
      exists (Some e). destruct (owner_step e w g (LSample e) HR eq_refl eq_refl) as (Ha & Hb). auto.
    - destruct own as [o|]; [|discriminate]. apply andb_true_iff in He. destruct He as (H1 & H2). apply obj_eqb_true in H1. subst o.
      exists (Some e). destruct (owner_step e w g (LProgress e) HR eq_refl eq_refl) as (Ha & Hb). auto.
    - destruct own as [o|]; [|discriminate]. apply andb_true_iff in He. destruct He as (H1 & H2). apply obj_eqb_true in H1. subst o.
      exists (Some e). destruct (owner_step e w g (LIsComplete e) HR eq_refl eq_refl) as (Ha & Hb). auto.
    - destruct own as [o|]; [|discriminate]. apply andb_true_iff in He. destruct He as (H1 & H2). apply obj_eqb_true in H1. subst o.
      exists (Some e). destruct (owner_step e w g (LGetOutput e) HR eq_refl eq_refl) as (Ha & Hb). auto.
    - (* finalize *) exists None. destruct own as [o|].
      + apply andb_true_iff in He. destruct He as (H1 & H2). destruct (finalize_step (Some o) e w g HR H1) as (Ha & Hb). auto.
      + destruct (finalize_step None e w g HR eq_refl) as (Ha & Hb). auto. }
  destruct Step as (own' & HR' & Ho & He').
  destruct (impl_step g c) as [g' o] eqn:Ei. destruct (spec_step w c) as [w' o'] eqn:Es. cbn [fst snd] in *. subst o'.
  f_equal. exact (IH own' w' g' HR' He').
Qed.

(* two engine objects, used in turn: the single global simulation behaves as one simulation per object *)
Theorem refinement_sessions h : exclusive None h = true -> impl_run gworld0 h = spec_run world0 h.
Proof. intro H. exact (refinement_sessions_gen h None world0 gworld0 R2_0 H). Qed.

Theorem sessions_no_ub h : exclusive None h = true -> ~ In OUB (impl_run gworld0 h).
Proof. intro H. rewrite (refinement_sessions h H). apply spec_no_ub. Qed.

(* ---------- simulate_script ---------- *)
Lemma exclusive_app h1 : forall own h2 own', (forall h, exclusive own' h = true -> exclusive own (h1 ++ h) = true) -> exclusive own' h2 = true ->
  exclusive own (h1 ++ h2) = true.
Proof. intros own h2 own' H H2. apply H, H2. Qed.

Lemma exclusive_owner_calls e l h : (forall c, In c l -> target c = e /\ match c with LSetup _ _ | LFinalize _ => False | _ => True end) ->
  exclusive (Some e) h = true -> exclusive (Some e) (l ++ h) = true.
Proof.
  induction l as [|c l IH]; intros Hl Hh; [exact Hh|].
  destruct (Hl c (or_introl eq_refl)) as (Ht & Hk).
  assert (Hrest : exclusive (Some e) (l ++ h) = true) by (apply IH; [intros c' Hc'; apply Hl; right; exact Hc' | exact Hh]).
  cbn [app]. destruct c; try contradiction; cbn [exclusive target] in *; subst; rewrite obj_eqb_refl; exact Hrest.
Qed.

Lemma simulate_exclusive e sc pr ks h : exclusive None h = true -> exclusive None (simulate_history e sc pr ks ++ h) = true.
Proof.
  intro Hh. unfold simulate_history. cbn [app exclusive]. rewrite <- !app_assoc.
  apply exclusive_owner_calls.
  { intros c Hc. apply in_flat_map in Hc. destruct Hc as (k & _ & Hc). cbn [In] in Hc. destruct Hc as [<-|Hc]; [split; [reflexivity|exact I]|].
    destruct pr; cbn in Hc; [destruct Hc as [<-|[]]; split; [reflexivity|exact I] | destruct Hc]. }
  cbn [app exclusive target]. rewrite !obj_eqb_refl. exact Hh.
Qed.

Theorem simulate_sequence_exclusive invs : exclusive None (flat_map invocation_history invs) = true.
Proof.
  induction invs as [|i invs IH]; [reflexivity|]. cbn [flat_map]. unfold invocation_history at 1. apply simulate_exclusive, IH.
Qed.

(* any sequence of simulate calls, on the same or different engine objects: the implementation (one global simulation) returns
   what the specification (one simulation per object) returns, and never runs into undefined behaviour *)
Theorem simulate_sequence_refines invs :
  impl_run gworld0 (flat_map invocation_history invs) = spec_run world0 (flat_map invocation_history invs).
Proof. apply refinement_sessions, simulate_sequence_exclusive. Qed.

Theorem simulate_sequence_no_ub invs : ~ In OUB (impl_run gworld0 (flat_map invocation_history invs)).
Proof. apply sessions_no_ub, simulate_sequence_exclusive. Qed.

(* ... and each call returns what it would return alone in a fresh process *)
Lemma spec_run_app h1 : forall w h2, spec_run w (h1 ++ h2) = spec_run w h1 ++ spec_run (spec_world w h1) h2.
Proof.
  induction h1 as [|c h1 IH]; intros w h2; [reflexivity|].
  cbn [app spec_run spec_world]. destruct (spec_step w c) as [w' o] eqn:E. cbn [fst]. rewrite IH. reflexivity.
Qed.

Lemma spec_run_local e h : forall w1 w2, only_on e h = true -> get w1 e = get w2 e -> spec_run w1 h = spec_run w2 h.
Proof.
  induction h as [|c h IH]; intros w1 w2 Ho Hg; [reflexivity|].
  cbn [only_on forallb] in Ho. apply andb_true_iff in Ho. destruct Ho as (Ht & Ho). apply obj_eqb_true in Ht.
  cbn [spec_run]. rewrite <- Ht in Hg. destruct (step_local w1 w2 c Hg) as (Hout & Hget).
  destruct (spec_step w1 c) as [w1' o1]. destruct (spec_step w2 c) as [w2' o2]. cbn [fst snd] in *. subst o2. f_equal.
  apply IH; [exact Ho | rewrite <- Ht; exact Hget].
Qed.

Lemma simulate_only_on e sc pr ks : only_on e (simulate_history e sc pr ks) = true.
Proof.
  unfold simulate_history, only_on. cbn [forallb target]. rewrite obj_eqb_refl. cbn [andb].
  rewrite !forallb_app. apply andb_true_iff. split; [|cbn; rewrite !obj_eqb_refl; reflexivity].
  apply forallb_forall. intros c Hc. apply in_flat_map in Hc. destruct Hc as (k & _ & Hc). cbn [In] in Hc.
  destruct Hc as [<-|Hc]; [cbn; apply obj_eqb_refl|]. destruct pr; cbn in Hc; [destruct Hc as [<-|[]]; cbn; apply obj_eqb_refl | destruct Hc].
Qed.

Lemma simulate_fresh e sc pr ks w : spec_run w (simulate_history e sc pr ks) = spec_run world0 (simulate_history e sc pr ks).
Proof.
  unfold simulate_history. cbn [app spec_run spec_step fst snd]. f_equal.
  apply (spec_run_local e); [|rewrite !get_put_same; reflexivity].
  pose proof (simulate_only_on e sc pr ks) as H. unfold simulate_history in H. cbn [app only_on forallb] in H.
  apply andb_true_iff in H. apply H.
Qed.

Theorem simulate_call_isolated before i after :
  exists pre post, impl_run gworld0 (flat_map invocation_history (before ++ i :: after))
                   = pre ++ spec_run world0 (invocation_history i) ++ post
                   /\ length pre = length (flat_map invocation_history before).
Proof.
  rewrite simulate_sequence_refines, flat_map_app. cbn [flat_map]. rewrite spec_run_app, spec_run_app.
  assert (E : forall w, spec_run w (invocation_history i) = spec_run world0 (invocation_history i)) by (intro w; apply simulate_fresh).
  rewrite E.
  exists (spec_run world0 (flat_map invocation_history before)). eexists. split; [reflexivity|].
  generalize world0. induction (flat_map invocation_history before) as [|c h IH]; intro w; [reflexivity|].
  cbn [spec_run]. destruct (spec_step w c). cbn [length]. f_equal. apply IH.
Qed.
