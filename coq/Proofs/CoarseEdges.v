(* Coarse-grained edges: two groups are joined exactly when some of their member cells share a face, and the
   contact surface is (number of shared faces) x (face area); with the identity map on a (reflecting) grid
   the coarse-grained graph is grid_to_graph's. *)
From Coq Require Import ZArith QArith Qcanon List Lia Bool ZifyBool.
From Verif Require Import Num NumFacts EngineConserve Grid GridFacts GridGraphFacts Coarse CoarseFacts.
Import ListNotations.
Open Scope Qc_scope.

(* faces shared by groups i and j: grid adjacencies (grid_to_graph's edge list) with one end in each *)
Definition joins (im : imap) (i j : Z) (e : Z * Z) : bool :=
  let a := grp im (Z.to_nat (fst e)) in let b := grp im (Z.to_nat (snd e)) in
  ((a =? i)%Z && (b =? j)%Z) || ((a =? j)%Z && (b =? i)%Z).
Definition shared_faces (g : grid) (im : imap) (i j : Z) : nat := length (filter (joins im i j) (g2g_edges g)).

(* surface recorded for a key (0 when absent) *)
Fixpoint surf (k : ekey) (es : list (ekey * Qc)) : Qc :=
  match es with
  | [] => 0
  | (k', s) :: rest => if key_eqb k k' then s else surf k rest
  end.

Lemma surf_add k k' s es : surf k (add_surface k' s es) = if key_eqb k k' then surf k es + s else surf k es.
Proof.
  induction es as [|[k0 s0] es IH].
  - cbn. destruct (key_eqb k k'); ring.
  - cbn [add_surface]. fold (key_eqb k' k0). destruct (key_eqb k' k0) eqn:E0.
    + apply key_eqb_eq in E0. rewrite <- E0. cbn [surf]. destruct (key_eqb k k'); reflexivity.
    + cbn [surf]. destruct (key_eqb k k0) eqn:E1.
      * destruct (key_eqb k k') eqn:E2; [|reflexivity].
        apply key_eqb_eq in E1, E2. assert (key_eqb k' k0 = true) by (apply key_eqb_eq; congruence). congruence.
      * exact IH.
Qed.

Definition cg_step (im : imap) (h : Qc) (es : list (ekey * Qc)) (e : Z * Z) : list (ekey * Qc) :=
  let i := grp im (Z.to_nat (fst e)) in let j := grp im (Z.to_nat (snd e)) in
  if (i =? j)%Z || (i =? -1)%Z || (j =? -1)%Z then es
  else add_surface (Z.min i j, Z.max i j) (h * h) es.

Lemma cg_edges_fold g im h : cg_edges g im h = fold_left (cg_step im h) (g2g_edges g) [].
Proof. reflexivity. Qed.

Lemma QcZ_S n : QcZ (Z.of_nat (S n)) = QcZ (Z.of_nat n) + 1.
Proof. rewrite Nat2Z.inj_succ. unfold Z.succ. rewrite QcZ_add. reflexivity. Qed.

Section Pair.
Variables (im : imap) (h : Qc) (i j : Z).
Hypothesis Hij : (0 <= i < j)%Z.

Lemma step_surf es e :
  surf (i, j) (cg_step im h es e) = if joins im i j e then surf (i, j) es + h * h else surf (i, j) es.
Proof.
  unfold cg_step, joins. cbn zeta.
  set (a := grp im (Z.to_nat (fst e))). set (b := grp im (Z.to_nat (snd e))).
  destruct ((a =? b)%Z || (a =? -1)%Z || (b =? -1)%Z) eqn:S.
  - replace ((a =? i)%Z && (b =? j)%Z || (a =? j)%Z && (b =? i)%Z) with false by lia. reflexivity.
  - rewrite surf_add. unfold key_eqb. cbn [fst snd].
    replace ((i =? Z.min a b)%Z && (j =? Z.max a b)%Z) with ((a =? i)%Z && (b =? j)%Z || (a =? j)%Z && (b =? i)%Z) by lia.
    reflexivity.
Qed.

Lemma fold_surf l es :
  surf (i, j) (fold_left (cg_step im h) l es) = surf (i, j) es + QcZ (Z.of_nat (length (filter (joins im i j) l))) * (h * h).
Proof.
  revert es. induction l as [|e l IH]; intros es.
  - cbn. change (QcZ 0) with 0. ring.
  - cbn [fold_left filter]. rewrite IH, step_surf. destruct (joins im i j e); [|reflexivity].
    cbn [length]. rewrite QcZ_S. ring.
Qed.

Lemma step_keys es e :
  In (i, j) (map fst (cg_step im h es e)) <-> In (i, j) (map fst es) \/ joins im i j e = true.
Proof.
  unfold cg_step, joins. cbn zeta.
  set (a := grp im (Z.to_nat (fst e))). set (b := grp im (Z.to_nat (snd e))).
  destruct ((a =? b)%Z || (a =? -1)%Z || (b =? -1)%Z) eqn:S.
  - replace ((a =? i)%Z && (b =? j)%Z || (a =? j)%Z && (b =? i)%Z) with false by lia.
    split; [intros H; left; exact H|intros [H|H]; [exact H|discriminate]].
  - rewrite add_surface_keys.
    destruct (existsb (key_eqb (Z.min a b, Z.max a b)) (map fst es)) eqn:X.
    + split; [intros H; left; exact H|intros [H|H]; [exact H|]].
      apply existsb_exists in X. destruct X as (k & Hk & E). apply key_eqb_eq in E. subst k.
      replace (i, j) with (Z.min a b, Z.max a b); [exact Hk|f_equal; lia].
    + rewrite in_app_iff. split.
      * intros [H|[H|[]]]; [left; exact H|right]. inversion H. lia.
      * intros [H|H]; [left; exact H|right; left]. f_equal; lia.
Qed.

Lemma fold_keys l es :
  In (i, j) (map fst (fold_left (cg_step im h) l es)) <-> In (i, j) (map fst es) \/ (0 < length (filter (joins im i j) l))%nat.
Proof.
  revert es. induction l as [|e l IH]; intros es.
  - cbn. split; [intros H; left; exact H|intros [H|H]; [exact H|lia]].
  - cbn [fold_left filter]. rewrite IH, step_keys. destruct (joins im i j e); cbn [length].
    + split; [intros _; right; lia|intros [H|_]; [left; left; exact H|left; right; reflexivity]].
    + split; [intros [[H|H]|H]; [left; exact H|discriminate|right; exact H]|intros [H|H]; [left; left; exact H|right; exact H]].
Qed.

End Pair.

(* contact surface = number of shared faces x face area; connected exactly when a face is shared *)
Theorem cg_contact_surface g im h i j : (0 <= i < j)%Z ->
  surf (i, j) (cg_edges g im h) = QcZ (Z.of_nat (shared_faces g im i j)) * (h * h).
Proof. intros Hij. rewrite cg_edges_fold, fold_surf by exact Hij. cbn [surf]. unfold shared_faces. ring. Qed.

Theorem cg_connected_iff g im h i j : (0 <= i < j)%Z ->
  (In (i, j) (map fst (cg_edges g im h)) <-> (0 < shared_faces g im i j)%nat).
Proof.
  intros Hij. rewrite cg_edges_fold, fold_keys by exact Hij. unfold shared_faces. cbn [map].
  split; [intros [[]|H]; exact H|intros H; right; exact H].
Qed.

(* ---------------------------------------------------------------- the identity map on a reflecting grid *)

Definition identity_map (n : nat) : imap := map Z.of_nat (seq 0 n).
Definition reflecting (g : grid) : Prop := px g = false /\ py g = false /\ pz g = false.

Lemma grp_identity n c : (c < n)%nat -> grp (identity_map n) c = Z.of_nat c.
Proof.
  intros Hc. unfold grp, identity_map. rewrite (nth_indep _ (-1)%Z (Z.of_nat 0)) by (rewrite map_length, seq_length; exact Hc).
  rewrite map_nth, seq_nth by exact Hc. reflexivity.
Qed.

Lemma add_surface_absent k s es : existsb (key_eqb k) (map fst es) = false -> add_surface k s es = es ++ [(k, s)].
Proof.
  induction es as [|[k' s'] es IH]; [reflexivity|]. cbn [map fst existsb add_surface]. fold (key_eqb k k').
  intros H. apply orb_false_iff in H. destruct H as [E H]. rewrite E. cbn [app]. rewrite IH by exact H. reflexivity.
Qed.

Lemma fold_identity n h l acc :
  (forall e, In e l -> (0 <= fst e < snd e)%Z /\ (snd e < Z.of_nat n)%Z) -> NoDup l ->
  (forall e, In e l -> ~ In e (map fst acc)) ->
  fold_left (cg_step (identity_map n) h) l acc = acc ++ map (fun e => (e, h * h)) l.
Proof.
  revert acc. induction l as [|e l IH]; intros acc Hr Hnd Hdis; [cbn; rewrite app_nil_r; reflexivity|].
  cbn [fold_left map]. inversion Hnd as [|? ? He Hl]; subst.
  destruct (Hr e (or_introl eq_refl)) as [H1 H2].
  assert (S : cg_step (identity_map n) h acc e = acc ++ [(e, h * h)]).
  { unfold cg_step. cbn zeta. rewrite !grp_identity by lia. rewrite !Z2Nat.id by lia.
    replace ((fst e =? snd e)%Z || (fst e =? -1)%Z || (snd e =? -1)%Z) with false by lia.
    replace (Z.min (fst e) (snd e), Z.max (fst e) (snd e)) with e by (destruct e as [a b]; cbn [fst snd] in *; f_equal; lia).
    apply add_surface_absent. destruct (existsb (key_eqb e) (map fst acc)) eqn:X; [|first [reflexivity|exact X]].
    apply existsb_exists in X. destruct X as (k & Hk & E). apply key_eqb_eq in E. subst k.
    exfalso. apply (Hdis e); [left; reflexivity|exact Hk]. }
  rewrite S, IH.
  - rewrite <- app_assoc. reflexivity.
  - intros e' He'. apply Hr. right. exact He'.
  - exact Hl.
  - intros e' He' Hin. rewrite map_app, in_app_iff in Hin. destruct Hin as [Hin|[Hin|[]]].
    + apply (Hdis e'); [right; exact He'|exact Hin].
    + cbn [fst] in Hin. subst e'. contradiction.
Qed.

(* grid_to_graph of a reflecting grid: every edge goes from a lower to a higher index, none is listed twice *)
Lemma g2g_reflecting_ordered g e : wf_grid g -> reflecting g -> In e (g2g_edges g) -> (fst e < snd e)%Z.
Proof.
  intros (Hw & Hh & Hd) (Hx & Hy & Hz). rewrite g2g_edges_parts, Hx, Hy, Hz, !app_nil_r.
  unfold g2g_interior. intros H. apply in_flat_map in H. destruct H as (z & Hz' & H).
  apply in_flat_map in H. destruct H as (y & Hy' & H). apply in_flat_map in H. destruct H as (x & Hx' & H).
  apply In_zrange in Hx', Hy', Hz'. unfold g2g_leaf in H. rewrite !in_app_iff in H.
  assert (0 < gw g * gh g)%Z by nia.
  destruct H as [H | [H | H]];
    match type of H with In _ (opt_list ?c _) => destruct c eqn:C; unfold opt_list in H; [destruct H as [<-|[]]|destruct H] end;
    cbn [fst snd index]; nia.
Qed.

Lemma cnt_pos_of_In {A} (P : A -> bool) l x : In x l -> P x = true -> (1 <= cnt P l)%nat.
Proof.
  induction l as [|a l IH]; intros Hin Hp; [destruct Hin|]. unfold cnt in *. cbn [filter].
  destruct Hin as [->|Hin]; [rewrite Hp; cbn [length]; lia|].
  specialize (IH Hin Hp). destruct (P a); cbn [length]; lia.
Qed.

Lemma NoDup_of_cnt (l : list (Z * Z)) : (forall x, In x l -> (cnt (dirP (fst x) (snd x)) l <= 1)%nat) -> NoDup l.
Proof.
  induction l as [|a l IH]; intros H; [constructor|].
  assert (Pa : dirP (fst a) (snd a) a = true) by (unfold dirP; rewrite !Z.eqb_refl; reflexivity).
  constructor.
  - intros Hin. specialize (H a (or_introl eq_refl)). unfold cnt in H. cbn [filter] in H. rewrite Pa in H. cbn [length] in H.
    pose proof (cnt_pos_of_In _ l a Hin Pa) as C. unfold cnt in C. lia.
  - apply IH. intros x Hx. specialize (H x (or_intror Hx)). unfold cnt in *. cbn [filter] in H.
    destruct (dirP (fst x) (snd x) a); cbn [length] in H; lia.
Qed.

Lemma fwd3_le1 g p q : reflecting g -> p <> q -> (fwd3 g p q <= 1)%nat.
Proof.
  intros (Hx & Hy & Hz) Hne. destruct p as [[x y] z], q as [[x' y'] z']. unfold fwd3, axis_fwd. rewrite Hx, Hy, Hz. cbn [andb b2n].
  destruct (Z.eqb_spec x' x); destruct (Z.eqb_spec y' y); destruct (Z.eqb_spec z' z); cbn [andb];
    try (exfalso; apply Hne; congruence);
    repeat match goal with |- context[b2n ?b] => destruct b; cbn [b2n] end; lia.
Qed.

Lemma g2g_reflecting_nodup g : wf_grid g -> reflecting g -> NoDup (g2g_edges g).
Proof.
  intros Hg Hr. apply NoDup_of_cnt. intros e He.
  pose proof (g2g_reflecting_ordered g e Hg Hr He) as Ho.
  pose proof (g2g_edges_in_range g e Hg He) as [Ha Hb].
  rewrite <- (index_coords g (fst e) Hg), <- (index_coords g (snd e) Hg).
  rewrite directed_count; try assumption; try (apply coords_in_grid; assumption).
  - apply fwd3_le1; [exact Hr|]. apply coords_neq; [exact Hg|lia].
  - apply coords_neq; [exact Hg|lia].
Qed.

(* with the identity map the coarse-grained edge list is grid_to_graph's, every surface one face *)
Theorem cg_identity_edges g h : wf_grid g -> reflecting g ->
  cg_edges g (identity_map (Z.to_nat (gsize g))) h = map (fun e => (e, h * h)) (g2g_edges g).
Proof.
  intros Hg Hr. rewrite cg_edges_fold, fold_identity; [reflexivity| | |].
  - intros e He. pose proof (g2g_reflecting_ordered g e Hg Hr He). pose proof (g2g_edges_in_range g e Hg He). lia.
  - apply g2g_reflecting_nodup; assumption.
  - intros e _ [].
Qed.

(* ... every node is one cell ... *)
Lemma filter_eqb_seq k n : filter (fun c => Z.eqb (Z.of_nat c) (Z.of_nat k)) (seq 0 n) = if Nat.ltb k n then [k] else [].
Proof.
  induction n as [|n IH]; [reflexivity|]. rewrite seq_S, filter_app, IH. cbn [seq filter plus].
  destruct (Nat.ltb_spec k n); destruct (Nat.ltb_spec k (S n)); destruct (Z.eqb_spec (Z.of_nat n) (Z.of_nat k)); try lia; cbn [app]; try reflexivity.
  f_equal. lia.
Qed.

Lemma members_identity n k : (k < n)%nat -> members (identity_map n) n k = [k].
Proof.
  intros Hk. unfold members, cells.
  rewrite (filter_ext_in _ (fun c => Z.eqb (Z.of_nat c) (Z.of_nat k))).
  - rewrite filter_eqb_seq. destruct (Nat.ltb_spec k n); [reflexivity|lia].
  - intros c Hc. apply in_seq in Hc. rewrite grp_identity by lia. reflexivity.
Qed.

Theorem cg_identity_volume n h k : (k < n)%nat -> node_volume (identity_map n) n h k = h * h * h.
Proof. intros Hk. unfold node_volume. rewrite members_identity by exact Hk. cbn. ring. Qed.

Theorem cg_identity_centroid g n h k : (k < n)%nat -> centroid g (identity_map n) n h k = cell_pos g h k.
Proof.
  intros Hk. unfold centroid. rewrite members_identity by exact Hk. cbn [map length sumQ fold_right].
  destruct (cell_pos g h k) as [[a b] c]. cbn [fst snd]. change (QcZ (Z.of_nat 1)) with 1.
  f_equal; [f_equal|]; field; discriminate.
Qed.

(* ... and the centroids of two joined cells are one cell edge apart *)
Theorem cg_identity_distance g h e : wf_grid g -> reflecting g -> In e (g2g_edges g) ->
  dist2 (cell_pos g h (Z.to_nat (fst e))) (cell_pos g h (Z.to_nat (snd e))) = h * h.
Proof.
  intros Hg (Hx & Hy & Hz). pose proof Hg as (Hw & Hh & Hd). rewrite g2g_edges_parts, Hx, Hy, Hz, !app_nil_r.
  unfold g2g_interior. intros H. apply in_flat_map in H. destruct H as (z & Hz' & H).
  apply in_flat_map in H. destruct H as (y & Hy' & H). apply in_flat_map in H. destruct H as (x & Hx' & H).
  apply In_zrange in Hx', Hy', Hz'. unfold g2g_leaf in H. rewrite !in_app_iff in H.
  assert (P : in_grid g (x, y, z) = true) by (apply in_grid_spec; lia).
  pose proof (index_range g _ Hg P) as R.
  destruct H as [H | [H | H]];
    match type of H with In _ (opt_list ?c _) => destruct c eqn:C; unfold opt_list in H; [destruct H as [<-|[]]|destruct H] end;
    cbn [fst snd]; unfold cell_pos; rewrite !Z2Nat.id;
    try (rewrite !coords_index by (try exact Hg; apply in_grid_spec; lia); unfold dist2; rewrite ?QcZ_add; change (QcZ 1) with 1; ring);
    try lia;
    match goal with |- (0 <= index g ?p)%Z => assert (Q : in_grid g p = true) by (apply in_grid_spec; lia); pose proof (index_range g _ Hg Q); lia end.
Qed.
