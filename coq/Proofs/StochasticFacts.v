(* C02 / C03 for the stochastic engines: whatever events are applied (any channel, any counts),
   chemostated entries keep their value and every conservation law keeps its total. *)
From Coq Require Import ZArith QArith Qcanon List Lia Arith Bool.
From Verif Require Import Num NumFacts Grid Units System SystemFacts Engine EngineFacts EngineConserve Stochastic.
Import ListNotations.
Open Scope Qc_scope.

Definition wf_state (T : etab) (x : list Qc) : Prop := length x = (nC T * nS T)%nat.

Lemma cell_species_index_lt T i s : (i < nC T)%nat -> (s < nS T)%nat -> (i * nS T + s < nC T * nS T)%nat.
Proof.
  intros Hi Hs. assert (S i * nS T <= nC T * nS T)%nat by (apply Nat.mul_le_mono_r; lia). simpl in *. lia.
Qed.

Lemma upd_wf T x i s d : wf_state T x -> wf_state T (upd T x i s d).
Proof. unfold wf_state, upd. rewrite set_nth_length. auto. Qed.

Lemma X_upd T x i s d i' s' : wf_state T x -> (i < nC T)%nat -> (s < nS T)%nat -> (i' < nC T)%nat -> (s' < nS T)%nat ->
  X T (upd T x i s d) i' s' = if Nat.eqb i i' && Nat.eqb s s' then X T x i s + d else X T x i' s'.
Proof.
  intros Hw Hi Hs Hi' Hs'. unfold upd. unfold X at 1.
  destruct (Nat.eqb i i' && Nat.eqb s s') eqn:E.
  - apply andb_true_iff in E. destruct E as [E1 E2]. apply Nat.eqb_eq in E1, E2. subst i' s'.
    apply nth_set_nth_same. rewrite Hw. apply cell_species_index_lt; assumption.
  - rewrite nth_set_nth_other; [reflexivity|]. intros Heq.
    destruct (index_pair_inj (nS T) i s i' s' Hs Hs' Heq) as [-> ->].
    rewrite !Nat.eqb_refl in E. discriminate.
Qed.

(* ---------------------------------------------------------------- frozen entries (C03) *)

Lemma apply_react_wf T x i r n : wf_state T x -> wf_state T (apply_react T x i r n).
Proof.
  unfold apply_react. generalize (species_idx T). intros l. revert x.
  induction l as [|s l IH]; intros x Hw; cbn [fold_left]; [exact Hw|].
  apply IH. destruct (Chs T i s); [exact Hw | apply upd_wf; exact Hw].
Qed.

Lemma apply_move_wf T x i s j n : wf_state T x -> wf_state T (apply_move T x i s j n).
Proof.
  intros Hw. unfold apply_move. destruct (Chs T i s), (Chs T j s); repeat apply upd_wf; exact Hw.
Qed.

Lemma apply_event_wf T x en : wf_state T x -> wf_state T (apply_event T x en).
Proof. destruct en as [[i r|i s j] n]; [apply apply_react_wf | apply apply_move_wf]. Qed.

(* effect of a reaction firing on every entry *)
Lemma X_apply_react T x i r n i' s' : wf_state T x -> (i < nC T)%nat -> (i' < nC T)%nat -> (s' < nS T)%nat ->
  X T (apply_react T x i r n) i' s' =
  if Nat.eqb i i' && negb (Chs T i s') then X T x i' s' + QcZ (Sto T s' r) * n else X T x i' s'.
Proof.
  intros Hw Hi Hi' Hs'. unfold apply_react, species_idx.
  (* generalise over the prefix of species already processed *)
  assert (G : forall k l x0, wf_state T x0 -> (k + l = nS T)%nat ->
              X T (fold_left (fun x s => if Chs T i s then x else upd T x i s (QcZ (Sto T s r) * n)) (seq k l) x0) i' s' =
              if Nat.eqb i i' && negb (Chs T i s') && (k <=? s')%nat then X T x0 i' s' + QcZ (Sto T s' r) * n else X T x0 i' s').
  { intros k l. revert k. induction l as [|l IH]; intros k x0 Hw0 Hkl; cbn [seq fold_left].
    - replace (k <=? s')%nat with false by (symmetry; apply Nat.leb_gt; lia). rewrite andb_false_r. reflexivity.
    - assert (Hk : (k < nS T)%nat) by lia.
      rewrite IH; [| destruct (Chs T i k); [exact Hw0 | apply upd_wf; exact Hw0] | lia].
      destruct (Chs T i k) eqn:Ck.
      + destruct (Nat.eq_dec k s') as [->|Hne].
        * rewrite Ck. cbn [negb]. rewrite !andb_false_r. reflexivity.
        * replace (S k <=? s')%nat with (k <=? s')%nat; [reflexivity|].
          destruct (Nat.leb_spec k s'), (Nat.leb_spec (S k) s'); try reflexivity; lia.
      + rewrite X_upd by assumption.
        destruct (Nat.eq_dec k s') as [->|Hne].
        * rewrite Ck. cbn [negb]. rewrite Nat.eqb_refl, !andb_true_r.
          replace (S s' <=? s')%nat with false by (symmetry; apply Nat.leb_gt; lia).
          replace (s' <=? s')%nat with true by (symmetry; apply Nat.leb_le; lia).
          rewrite !andb_false_r, !andb_true_r. destruct (Nat.eqb i i') eqn:Ei; [|reflexivity].
          apply Nat.eqb_eq in Ei. subst i'. reflexivity.
        * replace (Nat.eqb k s') with false by (symmetry; apply Nat.eqb_neq; exact Hne). rewrite andb_false_r.
          replace (S k <=? s')%nat with (k <=? s')%nat; [reflexivity|].
          destruct (Nat.leb_spec k s'), (Nat.leb_spec (S k) s'); try reflexivity; lia. }
  rewrite (G 0%nat (nS T) x Hw) by lia. cbn [Nat.leb]. rewrite andb_true_r. reflexivity.
Qed.

Lemma X_apply_move T x i s j n i' s' : wf_state T x -> (i < nC T)%nat -> (s < nS T)%nat -> (j < nC T)%nat ->
  (i' < nC T)%nat -> (s' < nS T)%nat ->
  X T (apply_move T x i s j n) i' s' =
  X T x i' s'
  + (if Nat.eqb i i' && Nat.eqb s s' && negb (Chs T i s) then - n else 0)
  + (if Nat.eqb j i' && Nat.eqb s s' && negb (Chs T j s) then n else 0).
Proof.
  intros Hw Hi Hs Hj Hi' Hs'. unfold apply_move.
  destruct (Chs T i s) eqn:Ci, (Chs T j s) eqn:Cj; cbn [negb]; rewrite ?andb_false_r, ?andb_true_r;
  repeat rewrite X_upd by (try apply upd_wf; assumption);
  repeat match goal with |- context [Nat.eqb ?a ?b] => destruct (Nat.eqb_spec a b); subst end;
  cbn [andb]; try ring; try congruence.
Qed.

Theorem event_frozen T x en i0 s0 : wf_state T x -> event_in_range T (fst en) ->
  (i0 < nC T)%nat -> (s0 < nS T)%nat -> Chs T i0 s0 = true ->
  X T (apply_event T x en) i0 s0 = X T x i0 s0.
Proof.
  intros Hw Hr Hi0 Hs0 Hc. destruct en as [[i r|i s j] n]; cbn [apply_event fst event_in_range] in *.
  - destruct Hr as [Hi Hr]. rewrite X_apply_react by assumption.
    destruct (Nat.eqb i i0) eqn:E; [|reflexivity]. apply Nat.eqb_eq in E. subst i. rewrite Hc. reflexivity.
  - destruct Hr as (Hi & Hs & Hj). rewrite X_apply_move by assumption.
    destruct (Nat.eqb i i0 && Nat.eqb s s0) eqn:E1.
    + apply andb_true_iff in E1. destruct E1 as [A B]. apply Nat.eqb_eq in A, B. subst i s. rewrite Hc. cbn [negb andb].
      destruct (Nat.eqb j i0 && Nat.eqb s0 s0) eqn:E2.
      * apply andb_true_iff in E2. destruct E2 as [A _]. apply Nat.eqb_eq in A. subst j. rewrite Hc. cbn. ring.
      * cbn. ring.
    + cbn [andb]. destruct (Nat.eqb j i0 && Nat.eqb s s0) eqn:E2.
      * apply andb_true_iff in E2. destruct E2 as [A B]. apply Nat.eqb_eq in A, B. subst j s. rewrite Hc. cbn. ring.
      * cbn. ring.
Qed.

Theorem events_frozen T evs x i0 s0 : wf_state T x -> (forall en, In en evs -> event_in_range T (fst en)) ->
  (i0 < nC T)%nat -> (s0 < nS T)%nat -> Chs T i0 s0 = true ->
  X T (apply_events T evs x) i0 s0 = X T x i0 s0.
Proof.
  intros Hw Hr Hi0 Hs0 Hc. revert x Hw. unfold apply_events.
  induction evs as [|en evs IH]; intros x Hw; cbn [fold_left]; [reflexivity|].
  rewrite IH.
  - apply event_frozen; auto. apply Hr. left. reflexivity.
  - intros e He. apply Hr. right. exact He.
  - apply apply_event_wf. exact Hw.
Qed.

(* ---------------------------------------------------------------- conservation (C02) *)

Lemma total_delta T c x x' (D : nat -> nat -> Qc) :
  (forall i s, (i < nC T)%nat -> (s < nS T)%nat -> X T x' i s = X T x i s + D i s) ->
  total T c x' = total T c x
                 + sumQ (map (fun i => sumQ (map (fun s => Cc c s * D i s) (species_idx T))) (cell_idx T)).
Proof.
  intros H. unfold total. rewrite <- sumQ_map_plus. apply sumQ_map_ext. intros i Hi. apply in_seq in Hi.
  rewrite <- sumQ_map_plus. apply sumQ_map_ext. intros s Hs. apply in_seq in Hs.
  rewrite H by lia. ring.
Qed.

Lemma sum_indicator_const (a n : nat) (v : Qc) : (a < n)%nat ->
  sumQ (map (fun i => if Nat.eqb a i then v else 0) (seq 0 n)) = v.
Proof.
  intros H. rewrite (sum_indicator a n (fun _ => v)).
  replace (a <? n)%nat with true by (symmetry; apply Nat.ltb_lt; exact H). reflexivity.
Qed.

Lemma Cc_unchem T c s i : unchemostated T c -> (s < nS T)%nat -> (i < nC T)%nat ->
  Cc c s = 0 \/ Chs T i s = false.
Proof.
  intros Hu Hs Hi. destruct (Z.eq_dec (nth s c 0%Z) 0) as [E|E].
  - left. unfold Cc. rewrite E. apply QcZ_0.
  - right. apply Hu; assumption.
Qed.

Theorem react_conserves T c x i r n : wf_state T x -> (i < nC T)%nat -> (r < nR T)%nat ->
  conserved T c -> unchemostated T c ->
  total T c (apply_react T x i r n) = total T c x.
Proof.
  intros Hw Hi Hr Hc Hu.
  rewrite (total_delta T c x _ (fun i' s' => if Nat.eqb i i' && negb (Chs T i s') then QcZ (Sto T s' r) * n else 0)).
  2:{ intros i' s' Hi' Hs'. rewrite X_apply_react by assumption.
      destruct (Nat.eqb i i' && negb (Chs T i s')); ring. }
  assert (E : sumQ (map (fun i' => sumQ (map (fun s' => Cc c s' * (if Nat.eqb i i' && negb (Chs T i s') then QcZ (Sto T s' r) * n else 0)) (species_idx T))) (cell_idx T))
            = sumQ (map (fun i' => if Nat.eqb i i' then sumQ (map (fun s' => Cc c s' * QcZ (Sto T s' r) * n) (species_idx T)) else 0) (cell_idx T))).
  { apply sumQ_map_ext. intros i' _. destruct (Nat.eqb i i'); cbn [andb].
    - apply sumQ_map_ext. intros s' Hs'. apply in_seq in Hs'.
      destruct (Cc_unchem T c s' i Hu) as [E0|E0]; [lia | exact Hi | rewrite E0; destruct (negb (Chs T i s')); ring |].
      rewrite E0. cbn [negb]. ring.
    - apply sumQ_map_zero. intros; ring. }
  rewrite E. unfold cell_idx. rewrite sum_indicator_const by exact Hi.
  rewrite sumQ_map_scal_r.
  assert (E2 : sumQ (map (fun s' => Cc c s' * QcZ (Sto T s' r)) (species_idx T))
             = sumQ (map (fun s' => QcZ (nth s' c 0 * Sto T s' r)%Z) (species_idx T))).
  { apply sumQ_map_ext. intros s' _. unfold Cc. rewrite QcZ_mul. reflexivity. }
  rewrite E2, <- QcZ_sum, (Hc r Hr), QcZ_0. ring.
Qed.

Theorem move_conserves T c x i s j n : wf_state T x -> (i < nC T)%nat -> (s < nS T)%nat -> (j < nC T)%nat ->
  unchemostated T c ->
  total T c (apply_move T x i s j n) = total T c x.
Proof.
  intros Hw Hi Hs Hj Hu.
  rewrite (total_delta T c x _ (fun i' s' =>
            (if Nat.eqb i i' && Nat.eqb s s' && negb (Chs T i s) then - n else 0)
            + (if Nat.eqb j i' && Nat.eqb s s' && negb (Chs T j s) then n else 0))).
  2:{ intros i' s' Hi' Hs'. rewrite X_apply_move by assumption. ring. }
  assert (E : forall i', sumQ (map (fun s' => Cc c s' * ((if Nat.eqb i i' && Nat.eqb s s' && negb (Chs T i s) then - n else 0)
                                     + (if Nat.eqb j i' && Nat.eqb s s' && negb (Chs T j s) then n else 0))) (species_idx T))
            = (if Nat.eqb i i' then Cc c s * (if negb (Chs T i s) then - n else 0) else 0)
              + (if Nat.eqb j i' then Cc c s * (if negb (Chs T j s) then n else 0) else 0)).
  { intros i'.
    assert (E1 : sumQ (map (fun s' => Cc c s' * ((if Nat.eqb i i' && Nat.eqb s s' && negb (Chs T i s) then - n else 0)
                                     + (if Nat.eqb j i' && Nat.eqb s s' && negb (Chs T j s) then n else 0))) (species_idx T))
              = sumQ (map (fun s' => if Nat.eqb s s' then
                                        (if Nat.eqb i i' then Cc c s' * (if negb (Chs T i s) then - n else 0) else 0)
                                        + (if Nat.eqb j i' then Cc c s' * (if negb (Chs T j s) then n else 0) else 0)
                                      else 0) (species_idx T))).
    { apply sumQ_map_ext. intros s' _.
      destruct (Nat.eqb s s'), (Nat.eqb i i'), (Nat.eqb j i'), (negb (Chs T i s)), (negb (Chs T j s)); cbn [andb]; ring. }
    rewrite E1. unfold species_idx.
    rewrite (sum_indicator s (nS T) (fun s' => (if Nat.eqb i i' then Cc c s' * (if negb (Chs T i s) then - n else 0) else 0)
                                               + (if Nat.eqb j i' then Cc c s' * (if negb (Chs T j s) then n else 0) else 0))).
    replace (s <? nS T)%nat with true by (symmetry; apply Nat.ltb_lt; exact Hs). reflexivity. }
  rewrite (sumQ_map_ext _ _ (cell_idx T) (fun i' _ => E i')).
  rewrite sumQ_map_plus. unfold cell_idx. rewrite !sum_indicator_const by assumption.
  destruct (Cc_unchem T c s i Hu Hs Hi) as [E0|E0]; [rewrite E0; ring|].
  destruct (Cc_unchem T c s j Hu Hs Hj) as [E1|E1]; [rewrite E1; ring|].
  rewrite E0, E1. cbn [negb]. ring.
Qed.

Theorem event_conserves T c x en : wf_state T x -> event_in_range T (fst en) ->
  conserved T c -> unchemostated T c ->
  total T c (apply_event T x en) = total T c x.
Proof.
  intros Hw Hr Hc Hu. destruct en as [[i r|i s j] n]; cbn [apply_event fst event_in_range] in *.
  - destruct Hr. apply react_conserves; assumption.
  - destruct Hr as (? & ? & ?). apply move_conserves; assumption.
Qed.

Theorem events_conserve T c evs x : wf_state T x -> (forall en, In en evs -> event_in_range T (fst en)) ->
  conserved T c -> unchemostated T c ->
  total T c (apply_events T evs x) = total T c x.
Proof.
  intros Hw Hr Hc Hu. revert x Hw. unfold apply_events.
  induction evs as [|en evs IH]; intros x Hw; cbn [fold_left]; [reflexivity|].
  rewrite IH.
  - apply event_conserves; auto. apply Hr. left. reflexivity.
  - intros e He. apply Hr. right. exact He.
  - apply apply_event_wf. exact Hw.
Qed.
