(* Facts about the sampling / completion state machine (Model/Sampling.v). *)
From Coq Require Import ZArith QArith Qcanon List Lia Sorting.Sorted.
From Verif Require Import Num NumFacts Sampling.
Open Scope Qc_scope.

(* ---------- booleans on Qc ---------- *)
Lemma Qcltb_lt a b : Qcltb a b = true <-> a < b.
Proof.
  unfold Qcltb. rewrite Bool.negb_true_iff. split; intro H.
  - apply Qcnot_le_lt. intro Hle. apply Qcleb_le in Hle. congruence.
  - destruct (Qcleb b a) eqn:E; [|reflexivity]. apply Qcleb_le in E. exfalso. apply (Qclt_not_le _ _ H E).
Qed.
Lemma Qcleb_false a b : Qcleb a b = false <-> b < a.
Proof.
  split; intro H.
  - apply Qcnot_le_lt. intro Hle. apply Qcleb_le in Hle. congruence.
  - destruct (Qcleb a b) eqn:E; [|reflexivity]. apply Qcleb_le in E. exfalso. apply (Qclt_not_le _ _ H E).
Qed.

(* ---------- sample, sampling_step: what they leave alone ---------- *)
Definition core_eq (a b : sim) : Prop :=
  s_t a = s_t b /\ s_tmax a = s_tmax b /\ s_pol a = s_pol b /\ s_int a = s_int b /\ s_complete a = s_complete b /\ s_step a = s_step b.

Lemma core_eq_refl a : core_eq a a. Proof. repeat split. Qed.
Lemma core_eq_trans a b c : core_eq a b -> core_eq b c -> core_eq a c.
Proof. unfold core_eq. intuition congruence. Qed.

Lemma sample_core s : core_eq (sample s) s.
Proof. unfold sample. destruct (s_done s); repeat split. Qed.

Lemma sampling_step_core s : core_eq (sampling_step s) s.
Proof.
  unfold sampling_step. destruct (s_pol s) eqn:P.
  - unfold sample_on_tsample. destruct (consume (s_t s) (s_rest s)) as [hit rest].
    destruct hit; unfold sample; destruct (s_done s); repeat split; assumption.
  - apply sample_core.
  - unfold sample_on_interval. destruct (Z.ltb _ _); [|apply core_eq_refl].
    unfold sample; destruct (s_done s); repeat split; assumption.
  - apply core_eq_refl.
Qed.

(* ---------- records: appended only, one at most per call ---------- *)
Definition rec_at (s : sim) : Qc * nat := (s_t s, s_step s).

Lemma sample_recs s : s_recs (sample s) = if s_done s then s_recs s else s_recs s ++ [rec_at s].
Proof. unfold sample. destruct (s_done s); reflexivity. Qed.

(* what SamplingStep decides when no sample was taken yet in this iteration *)
Definition wants (s : sim) : bool :=
  match s_pol s with
  | OnTSample => fst (consume (s_t s) (s_rest s))
  | OnIteration => true
  | OnInterval => Z.ltb (s_last s) (Qcfloor (s_t s / s_int s))
  | NoSampling => false
  end.

Lemma sampling_step_recs s : s_done s = false ->
  s_recs (sampling_step s) = if wants s then s_recs s ++ [rec_at s] else s_recs s.
Proof.
  intro D. unfold sampling_step, wants. destruct (s_pol s).
  - unfold sample_on_tsample. destruct (consume (s_t s) (s_rest s)) as [hit rest]. cbn [fst].
    destruct hit; cbn; [rewrite sample_recs, D|]; reflexivity.
  - rewrite sample_recs, D. reflexivity.
  - unfold sample_on_interval. destruct (Z.ltb _ _); cbn; [rewrite sample_recs, D|]; reflexivity.
  - reflexivity.
Qed.

Lemma sampling_step_rest s : s_rest (sampling_step s) =
  match s_pol s with OnTSample => snd (consume (s_t s) (s_rest s)) | _ => s_rest s end.
Proof.
  unfold sampling_step. destruct (s_pol s); try reflexivity.
  - unfold sample_on_tsample. destruct (consume (s_t s) (s_rest s)) as [hit rest]. reflexivity.
  - unfold sample. destruct (s_done s); reflexivity.
  - unfold sample_on_interval. destruct (Z.ltb _ _); [|reflexivity]. cbn. unfold sample. destruct (s_done s); reflexivity.
Qed.

Lemma sampling_step_last s : s_last (sampling_step s) =
  match s_pol s with
  | OnInterval => if Z.ltb (s_last s) (Qcfloor (s_t s / s_int s)) then Qcfloor (s_t s / s_int s) else s_last s
  | _ => s_last s end.
Proof.
  unfold sampling_step. destruct (s_pol s); try reflexivity.
  - unfold sample_on_tsample. destruct (consume (s_t s) (s_rest s)) as [hit rest]. cbn.
    destruct hit; [unfold sample; destruct (s_done s)|]; reflexivity.
  - unfold sample. destruct (s_done s); reflexivity.
  - unfold sample_on_interval. destruct (Z.ltb _ _); reflexivity.
Qed.

(* ---------- one iteration of a simulation that is not complete ---------- *)
Definition advance (d : Qc) (s : sim) : sim :=
  {| s_t := s_t s + d; s_tmax := s_tmax s; s_pol := s_pol s; s_rest := s_rest s; s_int := s_int s; s_last := s_last s;
     s_done := false; s_complete := false; s_step := S (s_step s); s_recs := s_recs s |}.

Lemma iterate_live d s : s_complete s = false ->
  iterate (Some d) s = check_tmax (sampling_step (advance d s)).
Proof.
  intro C. unfold iterate, reset_done, set_recs. cbn. rewrite C. reflexivity.
Qed.

Lemma iterate_complete st s : s_complete s = true -> iterate st s = reset_done s.
Proof. intro C. destruct s. cbn in C. subst. reflexivity. Qed.

Lemma check_tmax_fields s :
  s_t (check_tmax s) = s_t s /\ s_tmax (check_tmax s) = s_tmax s /\ s_pol (check_tmax s) = s_pol s /\
  s_int (check_tmax s) = s_int s /\ s_step (check_tmax s) = s_step s /\ s_recs (check_tmax s) = s_recs s /\
  s_rest (check_tmax s) = s_rest s /\ s_last (check_tmax s) = s_last s /\ s_done (check_tmax s) = s_done s /\
  s_complete (check_tmax s) = (s_complete s || (Qcleb 0 (s_tmax s) && Qcltb (s_tmax s) (s_t s))).
Proof.
  unfold check_tmax. destruct (Qcleb 0 (s_tmax s) && Qcltb (s_tmax s) (s_t s)); cbn; repeat split; try reflexivity.
  - rewrite Bool.orb_true_r. reflexivity.
  - rewrite Bool.orb_false_r. reflexivity.
Qed.

(* ---------- runs described by their step times ---------- *)
Definition increasing (T : nat -> Qc) : Prop := T 0%nat = 0 /\ forall k, T k < T (S k).
(* the simulation is not complete before its n-th step *)
Definition live (T : nat -> Qc) (tmax : Qc) (n : nat) : Prop :=
  forall k, (k < n)%nat -> (Qcleb 0 tmax && Qcltb tmax (T k)) = false.

Lemma increasing_mono T : increasing T -> forall a b, (a <= b)%nat -> T a <= T b.
Proof.
  intros [_ H] a b Hab. induction Hab; [apply Qcle_refl|].
  eapply Qcle_trans; [exact IHHab|]. apply Qclt_le_weak, H.
Qed.
Lemma increasing_nonneg T : increasing T -> forall k, 0 <= T k.
Proof. intros H k. rewrite <- (proj1 H). apply increasing_mono; [assumption|lia]. Qed.

Definition init0 (pol : policy) (ts : list Qc) (I tmax : Qc) : sim :=
  {| s_t := 0; s_tmax := tmax; s_pol := pol; s_rest := ts; s_int := I; s_last := (-1)%Z;
     s_done := false; s_complete := false; s_step := 0%nat; s_recs := [] |}.
Lemma sim_init_eq pol ts I tmax : sim_init pol ts I tmax = sampling_step (init0 pol ts I tmax).
Proof. reflexivity. Qed.

(* time, step number, completion *)
Lemma run_core pol ts I tmax T n : increasing T -> live T tmax n ->
  let s := run_T T n (sim_init pol ts I tmax) in
  s_t s = T n /\ s_step s = n /\ s_tmax s = tmax /\ s_pol s = pol /\ s_int s = I /\
  s_complete s = (Qcleb 0 tmax && Qcltb tmax (T n)).
Proof.
  intros HT. induction n as [|n IH]; intro L; cbn zeta.
  - cbn [run_T]. rewrite sim_init_eq.
    destruct (sampling_step_core (init0 pol ts I tmax)) as (A & B & C & D & E & F).
    rewrite A, B, C, D, E, F. cbn. rewrite (proj1 HT).
    repeat split. destruct (Qcleb 0 tmax) eqn:E1; [|reflexivity]. cbn.
    unfold Qcltb. symmetry. apply Bool.negb_false_iff. exact E1.
  - assert (L' : live T tmax n) by (intros k Hk; apply L; lia).
    specialize (IH L'). cbn zeta in IH. destruct IH as (A & B & C & D & E & F).
    cbn [run_T]. set (s := run_T T n (sim_init pol ts I tmax)) in *.
    assert (Cs : s_complete s = false) by (rewrite F; apply L; lia).
    rewrite (iterate_live _ _ Cs).
    destruct (check_tmax_fields (sampling_step (advance (T (S n) - T n) s))) as (a & b & c & d & e & _ & _ & _ & _ & f).
    destruct (sampling_step_core (advance (T (S n) - T n) s)) as (A' & B' & C' & D' & E' & F').
    rewrite a, b, c, d, e, f, A', B', C', D', E', F'. cbn. rewrite A, B, C, D, E.
    replace (T n + (T (S n) - T n)) with (T (S n)) by ring. repeat split.
Qed.

(* records and bookkeeping of one live step *)
Lemma run_step_recs pol ts I tmax T n : increasing T -> live T tmax (S n) ->
  let s := run_T T n (sim_init pol ts I tmax) in
  let a := advance (T (S n) - T n) s in
  let s' := run_T T (S n) (sim_init pol ts I tmax) in
  s_recs s' = (if wants a then s_recs s ++ [(T (S n), S n)] else s_recs s)
  /\ s_rest s' = s_rest (sampling_step a) /\ s_last s' = s_last (sampling_step a).
Proof.
  intros HT L. cbn zeta.
  assert (L' : live T tmax n) by (intros k Hk; apply L; lia).
  destruct (run_core pol ts I tmax T n HT L') as (A & B & C & D & E & F).
  cbn [run_T]. set (s := run_T T n (sim_init pol ts I tmax)) in *.
  assert (Cs : s_complete s = false) by (rewrite F; apply L; lia).
  rewrite (iterate_live _ _ Cs).
  destruct (check_tmax_fields (sampling_step (advance (T (S n) - T n) s))) as (_ & _ & _ & _ & _ & r & r1 & r2 & _).
  rewrite r, r1, r2. rewrite sampling_step_recs by reflexivity.
  unfold rec_at. cbn [advance s_t s_step]. rewrite A, B.
  replace (T n + (T (S n) - T n)) with (T (S n)) by ring. repeat split.
Qed.

(* ---------- per-iteration sampling: one record per step ---------- *)
Lemma on_iteration_recs ts I tmax T n : increasing T -> live T tmax n ->
  s_recs (run_T T n (sim_init OnIteration ts I tmax)) = map (fun k => (T k, k)) (seq 0 (S n)).
Proof.
  intros HT. induction n as [|n IH]; intro L.
  - cbn. rewrite (proj1 HT). reflexivity.
  - assert (L' : live T tmax n) by (intros k Hk; apply L; lia).
    destruct (run_step_recs OnIteration ts I tmax T n HT L) as (R & _).
    rewrite R. unfold wants. cbn [advance s_pol].
    destruct (run_core OnIteration ts I tmax T n HT L') as (_ & _ & _ & P & _). rewrite P.
    rewrite (IH L'). rewrite (seq_S (S n) 0), map_app. reflexivity.
Qed.

(* ---------- no sampling ---------- *)
Lemma no_sampling_recs ts I tmax T n : increasing T -> live T tmax n ->
  s_recs (run_T T n (sim_init NoSampling ts I tmax)) = [].
Proof.
  intros HT. induction n as [|n IH]; intro L.
  - reflexivity.
  - assert (L' : live T tmax n) by (intros k Hk; apply L; lia).
    destruct (run_step_recs NoSampling ts I tmax T n HT L) as (R & _).
    rewrite R. unfold wants. cbn [advance s_pol].
    destruct (run_core NoSampling ts I tmax T n HT L') as (_ & _ & _ & P & _). rewrite P. apply IH, L'.
Qed.

(* ---------- time-point sampling ---------- *)
Lemma existsb_ext {A} (f g : A -> bool) l : (forall x, f x = g x) -> existsb f l = existsb g l.
Proof. intro H. induction l as [|a l IH]; [reflexivity|]. cbn. rewrite H, IH. reflexivity. Qed.
Lemma filter_all {A} (f : A -> bool) l : (forall x, In x l -> f x = true) -> filter f l = l.
Proof.
  induction l as [|a l IH]; intro H; [reflexivity|]. cbn. rewrite (H a (or_introl eq_refl)).
  f_equal. apply IH. intros x Hx. apply H. right. exact Hx.
Qed.
Lemma consume_sorted t l : StronglySorted Qcle l ->
  consume t l = (existsb (fun tau => Qcleb tau t) l, filter (fun tau => negb (Qcleb tau t)) l).
Proof.
  induction 1 as [|a l Hs IH Ha]; [reflexivity|].
  cbn [consume existsb filter]. destruct (Qcleb a t) eqn:E.
  - rewrite IH. reflexivity.
  - cbn. apply Qcleb_false in E.
    assert (Hall : forall x, In x l -> Qcleb x t = false).
    { intros x Hx. apply Qcleb_false. rewrite Forall_forall in Ha. eapply Qclt_le_trans; [exact E|apply Ha, Hx]. }
    f_equal.
    + symmetry. apply Bool.not_true_is_false. intro Hex. apply existsb_exists in Hex. destruct Hex as (x & Hx & Hx').
      rewrite (Hall x Hx) in Hx'. discriminate.
    + f_equal. symmetry. apply filter_all. intros x Hx. rewrite (Hall x Hx). reflexivity.
Qed.

Lemma filter_filter {A} (f g : A -> bool) l : filter f (filter g l) = filter (fun x => g x && f x) l.
Proof. induction l as [|a l IH]; [reflexivity|]. cbn. destruct (g a); cbn; [destruct (f a)|]; rewrite IH; reflexivity. Qed.
Lemma existsb_filter {A} (f g : A -> bool) l : existsb f (filter g l) = existsb (fun x => g x && f x) l.
Proof. induction l as [|a l IH]; [reflexivity|]. cbn. destruct (g a); cbn; rewrite IH; reflexivity. Qed.
Lemma filter_sorted {A} (R : A -> A -> Prop) f l : StronglySorted R l -> StronglySorted R (filter f l).
Proof.
  induction 1 as [|a l Hs IH Ha]; [constructor|]. cbn. destruct (f a); [|exact IH].
  constructor; [exact IH|]. rewrite Forall_forall in *. intros x Hx. apply filter_In in Hx. apply Ha, Hx.
Qed.

(* requested times still pending after step n: those beyond T n *)
Definition pending (ts : list Qc) (t : Qc) : list Qc := filter (fun tau => negb (Qcleb tau t)) ts.

Lemma on_tsample_run ts I tmax T n : increasing T -> StronglySorted Qcle ts -> live T tmax n ->
  let s := run_T T n (sim_init OnTSample ts I tmax) in
  s_rest s = pending ts (T n) /\
  s_recs s = map (fun k => (T k, k)) (filter (fun k => existsb (covers T k) ts) (seq 0 (S n))).
Proof.
  intros HT Hs. induction n as [|n IH]; intro L; cbn zeta.
  - cbn [run_T]. rewrite sim_init_eq. rewrite sampling_step_rest, sampling_step_recs by reflexivity.
    unfold wants. cbn [init0 s_pol s_t s_rest s_recs rec_at s_step]. rewrite (consume_sorted 0 ts Hs). cbn [fst snd].
    rewrite (proj1 HT). split; [reflexivity|].
    cbn [seq filter].
    replace (existsb (covers T 0) ts) with (existsb (fun tau : Qc => Qcleb tau 0) ts).
    2:{ apply existsb_ext. intro tau. unfold covers. rewrite (proj1 HT), Bool.andb_true_r. reflexivity. }
    destruct (existsb _ ts); cbn; rewrite ?(proj1 HT); reflexivity.
  - assert (L' : live T tmax n) by (intros k Hk; apply L; lia).
    destruct (IH L') as (Rn & Cn). clear IH.
    destruct (run_step_recs OnTSample ts I tmax T n HT L) as (R & Rr & _).
    destruct (run_core OnTSample ts I tmax T n HT L') as (A & B & _ & P & _).
    cbn zeta in *. set (s := run_T T n (sim_init OnTSample ts I tmax)) in *.
    rewrite R, Rr, sampling_step_rest. unfold wants. cbn [advance s_pol s_t s_rest]. rewrite P, A, Rn.
    replace (T n + (T (S n) - T n)) with (T (S n)) by ring.
    assert (Hp : StronglySorted Qcle (pending ts (T n))) by (apply filter_sorted, Hs).
    rewrite (consume_sorted _ _ Hp). cbn [fst snd]. split.
    + unfold pending. rewrite filter_filter. apply filter_ext. intro tau.
      destruct (Qcleb tau (T (S n))) eqn:E; cbn; [rewrite Bool.andb_false_r; reflexivity|].
      rewrite Bool.andb_true_r. apply Bool.negb_true_iff. apply Qcleb_false. apply Qcleb_false in E.
      eapply Qclt_trans; [apply (proj2 HT n)|exact E].
    + rewrite (seq_S (S n) 0), filter_app, map_app, <- Cn. cbn [Nat.add filter].
      unfold pending. rewrite existsb_filter.
      replace (existsb (fun x : Qc => negb (Qcleb x (T n)) && Qcleb x (T (S n))) ts) with (existsb (covers T (S n)) ts).
      2:{ apply existsb_ext. intro tau. unfold covers, Qcltb. apply Bool.andb_comm. }
      destruct (existsb (covers T (S n)) ts); [reflexivity|]. rewrite app_nil_r. reflexivity.
Qed.

(* ---------- interval sampling ---------- *)
Lemma Qcfloor_mono a b : a <= b -> (Qcfloor a <= Qcfloor b)%Z.
Proof. intro H. unfold Qcfloor. apply Qfloor_resp_le. exact H. Qed.

Lemma on_interval_run ts I tmax T n : increasing T -> 0 < I -> live T tmax n ->
  let s := run_T T n (sim_init OnInterval ts I tmax) in
  s_last s = Qcfloor (T n / I) /\
  s_recs s = map (fun k => (T k, k)) (filter (crosses T I) (seq 0 (S n))).
Proof.
  intros HT HI. induction n as [|n IH]; intro L; cbn zeta.
  - cbn [run_T]. rewrite sim_init_eq. rewrite sampling_step_last, sampling_step_recs by reflexivity.
    unfold wants. cbn [init0 s_pol s_t s_last s_recs rec_at s_step s_int].
    replace (Qcfloor (0 / I)) with 0%Z.
    2:{ unfold Qcdiv. rewrite Qcmult_0_l. reflexivity. }
    rewrite (proj1 HT). cbn [Z.ltb Z.compare]. split.
    + unfold Qcdiv. rewrite Qcmult_0_l. reflexivity.
    + cbn. rewrite (proj1 HT). reflexivity.
  - assert (L' : live T tmax n) by (intros k Hk; apply L; lia).
    destruct (IH L') as (Ln & Cn). clear IH.
    destruct (run_step_recs OnInterval ts I tmax T n HT L) as (R & _ & Rl).
    destruct (run_core OnInterval ts I tmax T n HT L') as (A & B & _ & P & Ii & _).
    cbn zeta in *. set (s := run_T T n (sim_init OnInterval ts I tmax)) in *.
    rewrite R, Rl, sampling_step_last. unfold wants. cbn [advance s_pol s_t s_last s_int]. rewrite P, A, Ln, Ii.
    replace (T n + (T (S n) - T n)) with (T (S n)) by ring.
    assert (Hm : (Qcfloor (T n / I) <= Qcfloor (T (S n) / I))%Z).
    { apply Qcfloor_mono. unfold Qcdiv. apply Qcmult_le_compat_r; [apply Qclt_le_weak, (proj2 HT)|apply Qclt_le_weak, Qcinv_pos, HI]. }
    split.
    + destruct (Z.ltb_spec (Qcfloor (T n / I)) (Qcfloor (T (S n) / I))); [reflexivity|lia].
    + rewrite (seq_S (S n) 0), filter_app, map_app, <- Cn. cbn [Nat.add filter crosses].
      destruct (Z.ltb (Qcfloor (T n / I)) (Qcfloor (T (S n) / I))); [reflexivity|rewrite app_nil_r; reflexivity].
Qed.

(* ---------- record times ---------- *)
Lemma sorted_map_filter_seq (T : nat -> Qc) P : (forall k, T k < T (S k)) ->
  forall n a, StronglySorted Qclt (map T (filter P (seq a n))).
Proof.
  intros HT. assert (Hlt : forall a b, (a < b)%nat -> T a < T b).
  { intros a b Hab. induction Hab; [apply HT|]. eapply Qclt_trans; [exact IHHab|apply HT]. }
  induction n as [|n IH]; intro a; [constructor|].
  cbn [seq filter]. destruct (P a); [|apply IH]. cbn [map]. constructor; [apply IH|].
  apply Forall_forall. intros x Hx. apply in_map_iff in Hx. destruct Hx as (k & <- & Hk).
  apply filter_In in Hk. destruct Hk as (Hk & _). apply in_seq in Hk. apply Hlt. lia.
Qed.

Lemma map_fst_map (T : nat -> Qc) l : map fst (map (fun k => (T k, k)) l) = map T l.
Proof. rewrite map_map. reflexivity. Qed.

(* Sample() appends at most the current (time, state) *)
Lemma sample_recs_cases s : s_recs (sample s) = s_recs s \/ s_recs (sample s) = s_recs s ++ [rec_at s].
Proof. rewrite sample_recs. destruct (s_done s); [left|right]; reflexivity. Qed.

Lemma sampling_step_recs_cases s :
  s_recs (sampling_step s) = s_recs s \/ s_recs (sampling_step s) = s_recs s ++ [rec_at s].
Proof.
  unfold sampling_step. destruct (s_pol s).
  - unfold sample_on_tsample. destruct (consume (s_t s) (s_rest s)) as [hit rest]. cbn.
    destruct hit; [apply sample_recs_cases|left; reflexivity].
  - apply sample_recs_cases.
  - unfold sample_on_interval. destruct (Z.ltb _ _); cbn; [apply sample_recs_cases|left; reflexivity].
  - left; reflexivity.
Qed.

Lemma sample_twice s : sample (sample s) = sample s.
Proof. unfold sample. destruct (s_done s) eqn:D; [rewrite D; reflexivity|]. cbn. reflexivity. Qed.

(* times never decrease, whatever calls are made (iterate with any positive increments, explicit samples) *)
Definition times_ok (s : sim) : Prop :=
  StronglySorted Qcle (map fst (s_recs s)) /\ Forall (fun x => x <= s_t s) (map fst (s_recs s)).

Lemma times_ok_append s recs' t' : times_ok s -> s_t s <= t' ->
  (recs' = s_recs s \/ recs' = s_recs s ++ [(t', 0%nat)] \/ exists k, recs' = s_recs s ++ [(t', k)]) ->
  StronglySorted Qcle (map fst recs') /\ Forall (fun x => x <= t') (map fst recs').
Proof.
  intros [Hs Hb] Ht H.
  assert (Hb' : Forall (fun x => x <= t') (map fst (s_recs s))).
  { eapply Forall_impl; [|exact Hb]. intros x Hx. cbn in Hx. exact (Qcle_trans _ _ _ Hx Ht). }
  assert (Happ : forall k, StronglySorted Qcle (map fst (s_recs s ++ [(t', k)])) /\
                          Forall (fun x => x <= t') (map fst (s_recs s ++ [(t', k)]))).
  { intro k. rewrite map_app. cbn [map fst]. split.
    - clear Hb. induction (map fst (s_recs s)) as [|a l IH]; cbn.
      + constructor; constructor.
      + inversion Hs; subst. inversion Hb'; subst. constructor; [apply IH; assumption|].
        apply Forall_app. split; [assumption|]. constructor; [assumption|constructor].
    - apply Forall_app. split; [exact Hb'|]. constructor; [apply Qcle_refl|constructor]. }
  destruct H as [-> | [-> | [k ->]]]; [split; assumption|apply Happ|apply Happ].
Qed.

Lemma sample_times_ok s : times_ok s -> times_ok (sample s).
Proof.
  intro H. unfold times_ok. destruct (sample_core s) as (A & _). rewrite A.
  apply (times_ok_append s _ (s_t s) H (Qcle_refl _)).
  destruct (sample_recs_cases s) as [E|E]; rewrite E; [left; reflexivity|right; right; eexists; reflexivity].
Qed.

Lemma iterate_times_ok d s : 0 < d -> times_ok s -> times_ok (iterate (Some d) s).
Proof.
  intros Hd H. destruct (s_complete s) eqn:C.
  - rewrite (iterate_complete _ _ C). exact H.
  - rewrite (iterate_live _ _ C). unfold times_ok.
    destruct (check_tmax_fields (sampling_step (advance d s))) as (a & _ & _ & _ & _ & r & _).
    rewrite a, r. destruct (sampling_step_core (advance d s)) as (A & _). rewrite A. cbn [advance s_t].
    assert (Hle : s_t s <= s_t s + d).
    { rewrite <- (Qcplus_0_r (s_t s)) at 1. apply Qcplus_le_compat; [apply Qcle_refl|apply Qclt_le_weak, Hd]. }
    apply (times_ok_append s _ _ H Hle).
    destruct (sampling_step_recs_cases (advance d s)) as [E|E]; rewrite E; [left; reflexivity|].
    right; right. eexists. reflexivity.
Qed.

Lemma iterate_n_times_ok d k : 0 < d -> forall s, times_ok s -> times_ok (iterate_n d k s).
Proof.
  intro Hd. induction k as [|k IH]; intros s H; [exact H|]. cbn [iterate_n].
  pose proof (iterate_times_ok d s Hd H) as H'. destruct (s_complete (iterate (Some d) s)); [exact H'|apply IH, H'].
Qed.

Lemma init_times_ok pol ts I tmax : times_ok (sim_init pol ts I tmax).
Proof.
  rewrite sim_init_eq. set (s0 := init0 pol ts I tmax).
  assert (H0 : times_ok s0) by (split; constructor).
  unfold times_ok. destruct (sampling_step_core s0) as (A & _). rewrite A.
  apply (times_ok_append s0 _ _ H0 (Qcle_refl _)).
  destruct (sampling_step_recs_cases s0) as [E|E]; rewrite E; [left; reflexivity|right; right; eexists; reflexivity].
Qed.

Lemma calls_times_ok d cs : 0 < d -> forall s, times_ok s -> times_ok (do_calls d cs s).
Proof.
  intro Hd. induction cs as [|c cs IH]; intros s H; [exact H|]. cbn [do_calls fold_left]. apply IH.
  destruct c; cbn [do_call]; [apply iterate_times_ok|apply iterate_n_times_ok|apply sample_times_ok]; assumption.
Qed.

(* ---------- completion is sticky ---------- *)
Lemma run_after_complete T n s : s_complete s = true ->
  let s' := run_T T n s in
  s_complete s' = true /\ s_t s' = s_t s /\ s_step s' = s_step s /\ s_recs s' = s_recs s /\ s_rest s' = s_rest s.
Proof.
  intro C. induction n as [|n IH]; cbn zeta; [repeat split; assumption|].
  cbn [run_T]. destruct IH as (C' & A & B & R & Rr). rewrite (iterate_complete _ _ C').
  unfold reset_done, set_recs. cbn. repeat split; assumption.
Qed.

(* ---------- fixed-step runs ---------- *)
Lemma QcZ_add a b : QcZ (a + b) = QcZ a + QcZ b.
Proof. unfold QcZ. apply Qc_is_canon. rewrite this_plus, !this_Q2Qc, inject_Z_plus. reflexivity. Qed.
Lemma QcZ_le a b : (a <= b)%Z -> QcZ a <= QcZ b.
Proof. intro H. unfold QcZ, Qcle. rewrite !this_Q2Qc. rewrite <- Zle_Qle. exact H. Qed.

Definition Tfix (dt : Qc) (k : nat) : Qc := QcZ (Z.of_nat k) * dt.

Lemma Qclt_plus_pos x d : 0 < d -> x < x + d.
Proof. unfold Qclt. intro H. rewrite this_plus. rewrite <- (Qplus_0_r (this x)) at 1. apply Qplus_lt_r. exact H. Qed.

Lemma Tfix_S dt k : Tfix dt (S k) = Tfix dt k + dt.
Proof. unfold Tfix. rewrite Nat2Z.inj_succ, <- Z.add_1_r, QcZ_add. change (QcZ 1) with 1. ring. Qed.

Lemma Tfix_increasing dt : 0 < dt -> increasing (Tfix dt).
Proof.
  intro Hd. split; [unfold Tfix; cbn; apply Qcmult_0_l|].
  intro k. rewrite Tfix_S. apply Qclt_plus_pos, Hd.
Qed.

Lemma run_fixed_T dt n s : run_fixed dt n s = run_T (Tfix dt) n s.
Proof.
  unfold run_fixed, run_steps. induction n as [|n IH]; [reflexivity|].
  cbn [run_T]. rewrite <- IH. replace (Tfix dt (S n) - Tfix dt n) with dt by (rewrite Tfix_S; ring).
  change (repeat (Some dt) (S n)) with (Some dt :: repeat (Some dt) n). rewrite repeat_cons, fold_left_app. reflexivity.
Qed.

(* a fixed-step run performs exactly the steps dt, 2 dt, ..., N dt where N dt is the first step time beyond t_max *)
Lemma fixed_step_count pol ts I tmax dt N : 0 < dt -> 0 <= tmax ->
  Tfix dt N <= tmax -> tmax < Tfix dt (S N) ->
  forall n, let s := run_fixed dt n (sim_init pol ts I tmax) in
  ((n <= N)%nat -> s_complete s = false /\ s_step s = n /\ s_t s = Tfix dt n) /\
  ((S N <= n)%nat -> s_complete s = true /\ s_step s = S N /\ s_t s = Tfix dt (S N) /\
                     s_recs s = s_recs (run_fixed dt (S N) (sim_init pol ts I tmax))).
Proof.
  intros Hd H0 Hlo Hhi n. cbn zeta. pose proof (Tfix_increasing dt Hd) as HT.
  assert (Hlive : live (Tfix dt) tmax (S N)).
  { intros k Hk. apply Bool.andb_false_iff. right. unfold Qcltb. apply Bool.negb_false_iff. apply Qcleb_le.
    eapply Qcle_trans; [|exact Hlo]. apply increasing_mono; [exact HT|lia]. }
  rewrite !run_fixed_T. split.
  - intro Hn. assert (L : live (Tfix dt) tmax n) by (intros k Hk; apply Hlive; lia).
    destruct (run_core pol ts I tmax (Tfix dt) n HT L) as (A & B & _ & _ & _ & F).
    rewrite A, B, F. repeat split. apply Bool.andb_false_iff. right. unfold Qcltb. apply Bool.negb_false_iff. apply Qcleb_le.
    eapply Qcle_trans; [|exact Hlo]. apply increasing_mono; [exact HT|lia].
  - intro Hn. destruct (run_core pol ts I tmax (Tfix dt) (S N) HT Hlive) as (A & B & _ & _ & _ & F).
    assert (C : s_complete (run_T (Tfix dt) (S N) (sim_init pol ts I tmax)) = true).
    { rewrite F. apply Bool.andb_true_iff. split; [apply Qcleb_le, H0|apply Qcltb_lt, Hhi]. }
    replace n with ((n - S N) + S N)%nat by lia.
    assert (Hsplit : forall m s0, run_T (Tfix dt) (m + S N) s0 =
                                  run_T (fun k => Tfix dt (k + S N)) m (run_T (Tfix dt) (S N) s0)).
    { intros m s0. induction m as [|m IHm]; [reflexivity|]. cbn [Nat.add run_T]. rewrite IHm. reflexivity. }
    rewrite Hsplit. destruct (run_after_complete (fun k => Tfix dt (k + S N)) (n - S N) _ C) as (C' & A' & B' & R' & _).
    rewrite C', A', B', R', A, B. repeat split.
Qed.
