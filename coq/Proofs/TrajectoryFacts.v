(* Accessor agreement and look-up characterisations. *)
From Coq Require Import ZArith QArith Qcanon List Lia Arith Bool.
From Verif Require Import Num NumFacts Units Trajectory.
Import ListNotations.
Open Scope Qc_scope.

Lemma nth_firstn' {A} (l : list A) n j d : (j < n)%nat -> nth j (firstn n l) d = nth j l d.
Proof.
  revert n j. induction l as [|a l IH]; intros n j H.
  - rewrite firstn_nil. reflexivity.
  - destruct n as [|n]; [lia|]. destruct j as [|j]; simpl; [reflexivity|]. apply IH. lia.
Qed.

Lemma nth_skipn' {A} (l : list A) n j d : nth j (skipn n l) d = nth (n + j) l d.
Proof.
  revert n. induction l as [|a l IH]; intros n.
  - rewrite skipn_nil. destruct j, n; reflexivity.
  - destruct n as [|n]; simpl; [reflexivity|]. apply IH.
Qed.

Lemma nth_block l start len j d : (j < len)%nat -> nth j (block l start len) d = nth (start + j) l d.
Proof. intros H. unfold block. rewrite nth_firstn' by exact H. apply nth_skipn'. Qed.

Lemma block_length l start len : (start + len <= length l)%nat -> length (block l start len) = len.
Proof. intros H. unfold block. rewrite firstn_length, skipn_length. lia. Qed.

(* the three accessors and direct indexing agree *)
Theorem state_point T s n c : (c < tC T)%nat -> nth c (state_of T s n) 0 = point T s n c.
Proof.
  intros H. unfold state_of, point. rewrite nth_block by exact H. f_equal. ring.
Qed.

Theorem trajectory_point T s n c : (n < tN T)%nat -> nth n (trajectory_of T s c) 0 = point T s n c.
Proof.
  intros H. unfold trajectory_of, point. rewrite nth_tabulate by exact H. f_equal. ring.
Qed.

Theorem whole_state_point T s n c : (s < tS T)%nat -> (c < tC T)%nat ->
  nth (s * tC T + c) (whole_state T n) 0 = point T s n c.
Proof.
  intros Hs Hc. unfold whole_state, point. rewrite nth_block.
  - f_equal. ring.
  - assert (S s * tC T <= tS T * tC T)%nat by (apply Nat.mul_le_mono_r; lia). simpl in *. lia.
Qed.

Theorem whole_state_is_block T n :
  whole_state T n = firstn (tS T * tC T) (skipn (n * (tS T * tC T)) (tdata T)).
Proof. reflexivity. Qed.

Lemma list_eq_tabulate (l : list Qc) : l = tabulate (length l) (fun c => nth c l 0).
Proof.
  induction l as [|a l IH]; [reflexivity|].
  unfold tabulate. cbn [length seq map nth]. f_equal.
  rewrite <- seq_shift, map_map. cbn [nth]. exact IH.
Qed.

Lemma sumQ_nth_tab l n : length l = n -> sumQ l = sumQ (tabulate n (fun c => nth c l 0)).
Proof. intros <-. rewrite <- list_eq_tabulate. reflexivity. Qed.

Theorem merged_point T s n : (n < tN T)%nat -> ((n * tS T + s) * tC T + tC T <= length (tdata T))%nat ->
  nth n (merged_trajectory T s) 0 = sumQ (tabulate (tC T) (fun c => point T s n c)).
Proof.
  intros H Hl. unfold merged_trajectory. rewrite nth_tabulate by exact H.
  rewrite (sumQ_nth_tab (state_of T s n) (tC T)) by (apply block_length; exact Hl).
  f_equal. unfold tabulate. apply map_ext_in. intros c Hc. apply in_seq in Hc.
  apply state_point. lia.
Qed.

(* ---------------------------------------------------------------- look-ups *)

Definition sorted (ts : list Qc) : Prop :=
  forall i j, (i <= j)%nat -> (j < length ts)%nat -> nth i ts 0 <= nth j ts 0.

Lemma sorted_tail a ts : sorted (a :: ts) -> sorted ts.
Proof. intros H i j Hij Hj. apply (H (S i) (S j)); simpl; lia. Qed.

Lemma prefix_count_le p ts : (prefix_count p ts <= length ts)%nat.
Proof. induction ts as [|a ts IH]; simpl; [lia|]. destruct (p a); simpl; lia. Qed.

Lemma prefix_count_true p ts i : (i < prefix_count p ts)%nat -> p (nth i ts 0) = true.
Proof.
  revert i. induction ts as [|a ts IH]; intros i H; simpl in H; [lia|].
  destruct (p a) eqn:E; [|lia]. destruct i as [|i]; simpl; [exact E|]. apply IH. lia.
Qed.

Lemma prefix_count_false p ts : (prefix_count p ts < length ts)%nat -> p (nth (prefix_count p ts) ts 0) = false.
Proof.
  induction ts as [|a ts IH]; simpl; intros H; [lia|].
  destruct (p a) eqn:E; simpl; [apply IH; lia | exact E].
Qed.

Lemma Qcleb_false a b : Qcleb a b = false <-> b < a.
Proof.
  split; intros H.
  - apply Qcnot_le_lt. intros Hle. apply Qcleb_le in Hle. congruence.
  - destruct (Qcleb a b) eqn:E; [|reflexivity]. apply Qcleb_le in E. exfalso. exact (Qclt_not_le _ _ H E).
Qed.

Lemma Qcltb_true a b : Qcltb a b = true <-> a < b.
Proof. unfold Qcltb. rewrite negb_true_iff. apply Qcleb_false. Qed.

Lemma Qcltb_false a b : Qcltb a b = false <-> b <= a.
Proof. unfold Qcltb. rewrite negb_false_iff. apply Qcleb_le. Qed.

(* infeq: the last sample not after t *)
Theorem infeq_some ts t i : sorted ts -> infeq ts t = Some i ->
  (i < length ts)%nat /\ nth i ts 0 <= t /\ (forall j, (i < j)%nat -> (j < length ts)%nat -> t < nth j ts 0).
Proof.
  intros Hs. unfold infeq. set (k := prefix_count (fun x => Qcleb x t) ts).
  destruct (Nat.eqb k 0) eqn:E; [discriminate|]. apply Nat.eqb_neq in E. intros H. inversion H. subst i. clear H.
  pose proof (prefix_count_le (fun x => Qcleb x t) ts) as Hle. fold k in Hle.
  split; [lia|]. split.
  - apply Qcleb_le. apply (prefix_count_true (fun x => Qcleb x t) ts (k - 1)). fold k. lia.
  - intros j Hj Hjl. assert (Hk : (k < length ts)%nat) by lia.
    pose proof (prefix_count_false (fun x => Qcleb x t) ts Hk) as Hf. fold k in Hf. apply Qcleb_false in Hf.
    eapply Qclt_le_trans; [exact Hf|]. apply Hs; lia.
Qed.

Theorem infeq_none ts t : infeq ts t = None -> ts = [] \/ t < nth 0 ts 0.
Proof.
  unfold infeq. destruct ts as [|a ts]; [left; reflexivity|]. right. simpl in *.
  destruct (Qcleb a t) eqn:E; [simpl in H; discriminate | apply Qcleb_false; exact E].
Qed.

(* supeq: the first sample not before t *)
Theorem supeq_some ts t i : supeq ts t = Some i ->
  (i < length ts)%nat /\ t <= nth i ts 0 /\ (forall j, (j < i)%nat -> nth j ts 0 < t).
Proof.
  unfold supeq. set (k := prefix_count (fun x => Qcltb x t) ts).
  pose proof (prefix_count_le (fun x => Qcltb x t) ts) as Hle. fold k in Hle.
  destruct (Nat.eqb k (length ts)) eqn:E; [discriminate|]. apply Nat.eqb_neq in E. intros H. inversion H. subst i. clear H.
  assert (Hk : (k < length ts)%nat) by lia. split; [exact Hk|]. split.
  - pose proof (prefix_count_false (fun x => Qcltb x t) ts Hk) as Hf. fold k in Hf. apply Qcltb_false in Hf. exact Hf.
  - intros j Hj. apply Qcltb_true. apply (prefix_count_true (fun x => Qcltb x t) ts j). fold k. exact Hj.
Qed.

Theorem supeq_none ts t : sorted ts -> supeq ts t = None -> ts = [] \/ nth (length ts - 1) ts 0 < t.
Proof.
  intros Hs. unfold supeq. set (k := prefix_count (fun x => Qcltb x t) ts).
  destruct (Nat.eqb k (length ts)) eqn:E; [|discriminate]. apply Nat.eqb_eq in E. intros _.
  destruct ts as [|a ts]; [left; reflexivity|]. right.
  apply Qcltb_true. apply (prefix_count_true (fun x => Qcltb x t) (a :: ts)). fold k. simpl in *. lia.
Qed.

(* closest: the bracketing pair decides, ties go to the earlier sample; outside the range the end sample *)
Theorem closest_spec ts t i : sorted ts -> closest ts t = Some i ->
  (i < length ts)%nat /\
  ((t < nth 0 ts 0 /\ i = 0%nat) \/
   (nth (length ts - 1) ts 0 <= t /\ i = (length ts - 1)%nat) \/
   (exists k, (S k < length ts)%nat /\ nth k ts 0 <= t /\ t < nth (S k) ts 0 /\
      ((t - nth k ts 0 <= nth (S k) ts 0 - t /\ i = k) \/ (nth (S k) ts 0 - t < t - nth k ts 0 /\ i = S k)))).
Proof.
  intros Hs. unfold closest. set (k := prefix_count (fun x => Qcleb x t) ts).
  pose proof (prefix_count_le (fun x => Qcleb x t) ts) as Hle. fold k in Hle.
  destruct (Nat.eqb (length ts) 0) eqn:E0; [discriminate|]. apply Nat.eqb_neq in E0.
  destruct (Nat.eqb k 0) eqn:E1.
  - apply Nat.eqb_eq in E1. intros H; inversion H; subst i. split; [lia|]. left. split; [|reflexivity].
    assert (Hk : (k < length ts)%nat) by lia.
    pose proof (prefix_count_false (fun x => Qcleb x t) ts Hk) as Hf. fold k in Hf. rewrite E1 in Hf.
    apply Qcleb_false. exact Hf.
  - apply Nat.eqb_neq in E1. destruct (Nat.eqb k (length ts)) eqn:E2.
    + apply Nat.eqb_eq in E2. intros H; inversion H; subst i. split; [lia|]. right. left. split; [|reflexivity].
      apply Qcleb_le. apply (prefix_count_true (fun x => Qcleb x t) ts). fold k. lia.
    + apply Nat.eqb_neq in E2. assert (Hk : (k < length ts)%nat) by lia.
      pose proof (prefix_count_false (fun x => Qcleb x t) ts Hk) as Hf. fold k in Hf. apply Qcleb_false in Hf.
      assert (Ht : nth (k - 1) ts 0 <= t).
      { apply Qcleb_le. apply (prefix_count_true (fun x => Qcleb x t) ts). fold k. lia. }
      destruct (Qcleb (t - nth (k - 1) ts 0) (nth k ts 0 - t)) eqn:E3; intros H; inversion H; subst i; (split; [lia|]);
      right; right; exists (k - 1)%nat; replace (S (k - 1)) with k by lia; repeat split; try assumption.
      * left. split; [apply Qcleb_le; exact E3 | reflexivity].
      * right. split; [apply Qcleb_false; exact E3 | lia].
Qed.

Theorem closest_none ts t : closest ts t = None -> ts = [].
Proof.
  unfold closest. destruct ts as [|a ts]; [reflexivity|]. cbn [length Nat.eqb].
  destruct (Nat.eqb _ 0); [discriminate|]. destruct (Nat.eqb _ _); [discriminate|].
  destruct (Qcleb _ _); discriminate.
Qed.
