(* Facts about the reaction-equation model (Model/ReactionText.v). *)
From Coq Require Import NArith ZArith List Lia Bool DecimalZ DecimalN DecimalPos DecimalFacts.
From Verif Require Import Num Units System EngineBuild ReactionText.
Open Scope Z_scope.

(* ---------- label equality ---------- *)
Lemma str_eqb_eq a b : str_eqb a b = true <-> a = b.
Proof.
  unfold str_eqb. revert b. induction a as [|x a IH]; intros [|y b]; cbn; split; intro H; try reflexivity; try discriminate.
  - apply andb_true_iff in H. destruct H as (H1 & H2). apply N.eqb_eq in H1. apply IH in H2. subst. reflexivity.
  - injection H as -> ->. apply andb_true_iff. split; [apply N.eqb_refl|apply IH; reflexivity].
Qed.
Lemma str_eqb_refl a : str_eqb a a = true.
Proof. apply str_eqb_eq. reflexivity. Qed.
Lemma str_eqb_neq a b : a <> b -> str_eqb a b = false.
Proof. intro H. destruct (str_eqb a b) eqn:E; [apply str_eqb_eq in E; contradiction|reflexivity]. Qed.

(* ---------- repeated species are summed ---------- *)
Lemma coef_add_coef l l' z d : coef_of l (add_coef l' z d) = coef_of l d + (if str_eqb l l' then z else 0).
Proof.
  induction d as [|[l0 z0] d IH]; cbn [add_coef coef_of].
  - destruct (str_eqb l l'); lia.
  - destruct (str_eqb l' l0) eqn:E.
    + apply str_eqb_eq in E. subst l0. cbn [coef_of]. destruct (str_eqb l l'); lia.
    + cbn [coef_of]. destruct (str_eqb l l0) eqn:E0.
      * apply str_eqb_eq in E0. subst l0. rewrite (str_eqb_neq l l'); [lia|]. intro H. subst l'. rewrite str_eqb_refl in E. discriminate.
      * exact IH.
Qed.

(* what one '+'-separated token denotes: (label, coefficient) *)
Definition token_term (t : str) : option (str * Z) :=
  match split_ws t [] with
  | [l] => Some (l, 1)
  | [c; l] => option_map (fun z => (l, z)) (parse_int c)
  | _ => None
  end.

Fixpoint written (l : str) (terms : list (str * Z)) : Z :=
  match terms with [] => 0 | (l', z) :: rest => (if str_eqb l l' then z else 0) + written l rest end.

(* the dictionary built from the tokens gives every label the sum of the coefficients written for it *)
Theorem parse_tokens_sums toks : forall d d', parse_tokens toks d = Some d' ->
  exists terms, map token_term toks = map Some terms /\ forall l, coef_of l d' = coef_of l d + written l terms.
Proof.
  induction toks as [|t toks IH]; intros d d' H.
  - injection H as <-. exists []. split; [reflexivity|intro l; cbn; lia].
  - cbn [parse_tokens] in H.
    destruct (split_ws t []) as [|a [|b [|c rest]]] eqn:E; try discriminate.
    + destruct (IH _ _ H) as (terms & Hm & Hc). exists ((a, 1) :: terms). split.
      * cbn [map]. unfold token_term at 1. rewrite E, Hm. reflexivity.
      * intro l. rewrite Hc, coef_add_coef. cbn [written]. lia.
    + destruct (parse_int a) as [z|] eqn:Ez; [|discriminate].
      destruct (IH _ _ H) as (terms & Hm & Hc). exists ((b, z) :: terms). split.
      * cbn [map]. unfold token_term at 1. rewrite E, Ez, Hm. reflexivity.
      * intro l. rewrite Hc, coef_add_coef. cbn [written]. lia.
Qed.

(* ---------- net change, orders ---------- *)
Lemma dsto_is_difference r labels i : nth i (dsto r labels) 0 = nth i (psto r labels) 0 - nth i (ssto r labels) 0.
Proof.
  unfold dsto, psto, ssto. revert i. induction labels as [|l labels IH]; intros [|i]; cbn [map nth]; try reflexivity. apply IH.
Qed.

Lemma dsto_reverse r labels : dsto (snd r, fst r) labels = map Z.opp (dsto r labels).
Proof. unfold dsto. rewrite map_map. apply map_ext. intro l. cbn [fst snd]. lia. Qed.

Lemma side_order_nodup_labels d : side_order d = fold_right Z.add 0 (map snd d).
Proof. reflexivity. Qed.

(* ---------- dimension of a rate constant of order n, and homogeneity of the mass-action term ---------- *)
Lemma kdim_components n : dS (kdim n) = 3 * n - 3 /\ dT (kdim n) = -1 /\ dQ (kdim n) = 1 - n.
Proof. repeat split. Qed.

(* k * V * (x / V)^n has dimension amount / time for every order n *)
Lemma mass_action_dimension n :
  dim_add (dim_add (kdim n) dim_volume) (dim_scal n (dim_add dim_amount (dim_opp dim_volume))) = dim_rate.
Proof. unfold dim_add, dim_scal, dim_opp, kdim, dim_volume, dim_amount, dim_rate. cbn [dS dT dQ]. f_equal; lia. Qed.

(* ---------- str(int) and int(): parse_int (print_int z) = z ---------- *)
Open Scope N_scope.

(* value of a digit string read left to right on top of an accumulator *)
Fixpoint nacc (u : Decimal.uint) (acc : N) : N :=
  match u with
  | Decimal.Nil => acc
  | Decimal.D0 l => nacc l (acc * 10) | Decimal.D1 l => nacc l (acc * 10 + 1) | Decimal.D2 l => nacc l (acc * 10 + 2)
  | Decimal.D3 l => nacc l (acc * 10 + 3) | Decimal.D4 l => nacc l (acc * 10 + 4) | Decimal.D5 l => nacc l (acc * 10 + 5)
  | Decimal.D6 l => nacc l (acc * 10 + 6) | Decimal.D7 l => nacc l (acc * 10 + 7) | Decimal.D8 l => nacc l (acc * 10 + 8)
  | Decimal.D9 l => nacc l (acc * 10 + 9)
  end.

Lemma parse_digits_uint u : forall acc, parse_digits (uint_chars u) acc true = Some (nacc u acc).
Proof.
  induction u; intro acc; cbn [uint_chars nacc]; try reflexivity;
    (cbn [parse_digits]; unfold digit_char, digit_of; cbn [N.add N.leb N.compare Pos.compare Pos.compare_cont andb N.sub Pos.sub Pos.sub_mask Pos.succ_double_mask Pos.double_mask Pos.pred_double Pos.double_pred_mask];
     try rewrite N.add_0_r; apply IHu).
Qed.

Lemma parse_digits_uint_start u : u <> Decimal.Nil -> parse_digits (uint_chars u) 0 false = Some (nacc u 0).
Proof.
  destruct u; intro H; try contradiction; cbn [uint_chars parse_digits nacc]; unfold digit_char, digit_of; cbn; apply parse_digits_uint.
Qed.

Lemma nacc_pos u : forall p, nacc u (Npos p) = Npos (Pos.of_uint_acc u p).
Proof.
  induction u; intro p; cbn [nacc Pos.of_uint_acc]; try reflexivity; rewrite <- IHu; f_equal; lia.
Qed.

Lemma nacc_of_uint u : nacc u 0 = Pos.of_uint u.
Proof.
  induction u; cbn [nacc Pos.of_uint]; try reflexivity; try exact IHu;
    (cbn [N.mul N.add]; rewrite nacc_pos; reflexivity).
Qed.

Lemma first_char_digit u : u <> Decimal.Nil -> exists c rest, uint_chars u = c :: rest /\ (c =? c_minus) = false /\ (c =? c_plus) = false.
Proof. destruct u; intro H; try contradiction; cbn [uint_chars]; eexists; eexists; (split; [reflexivity|split; reflexivity]). Qed.

Theorem parse_print_int z : parse_int (print_int z) = Some z.
Proof.
  unfold print_int. pose proof (DecimalZ.of_to z) as Hz.
  destruct (Z.to_int z) as [u|u] eqn:E.
  - assert (Hu : u <> Decimal.Nil).
    { destruct z as [|p|p]; cbn in E; [injection E as <-; discriminate|injection E as <-; apply DecimalPos.Unsigned.to_uint_nonnil|discriminate]. }
    destruct (first_char_digit u Hu) as (c & rest & Hc & H1 & H2). unfold parse_int. rewrite Hc, H1, H2, <- Hc.
    rewrite (parse_digits_uint_start u Hu), nacc_of_uint. cbn [option_map]. f_equal. exact Hz.
  - assert (Hu : u <> Decimal.Nil).
    { destruct z as [|p|p]; cbn in E; try discriminate. injection E as <-. apply DecimalPos.Unsigned.to_uint_nonnil. }
    unfold parse_int. change (c_minus =? c_minus) with true. cbn iota.
    rewrite (parse_digits_uint_start u Hu), nacc_of_uint. cbn [option_map]. f_equal. exact Hz.
Qed.

(* ---------- a printed term reads back as its (label, coefficient) ---------- *)
Lemma split_ws_run w : existsb is_space w = false -> forall cur rest, split_ws (w ++ rest) cur = split_ws rest (rev w ++ cur).
Proof.
  induction w as [|c w IH]; intros H cur rest; [reflexivity|].
  cbn [existsb] in H. apply orb_false_iff in H. destruct H as (Hc & Hw).
  cbn [app split_ws]. rewrite Hc. rewrite (IH Hw). cbn [rev]. rewrite <- app_assoc. reflexivity.
Qed.

Lemma uint_chars_no_space u : existsb is_space (uint_chars u) = false.
Proof. induction u; cbn [uint_chars existsb]; try reflexivity; rewrite IHu; reflexivity. Qed.
Lemma print_int_no_space z : existsb is_space (print_int z) = false.
Proof. unfold print_int. destruct (Z.to_int z); cbn [existsb]; rewrite uint_chars_no_space; reflexivity. Qed.
Lemma print_int_nonempty z : print_int z <> [].
Proof.
  unfold print_int. destruct (Z.to_int z) as [u|u] eqn:E; [|discriminate].
  destruct z as [|p|p]; cbn in E; [injection E as <-; discriminate| |discriminate].
  injection E as <-. pose proof (DecimalPos.Unsigned.to_uint_nonnil p) as H. destruct (Pos.to_uint p); try contradiction; discriminate.
Qed.

Definition print_term (l : str) (z : Z) : str := (if Z.eqb z 1 then [] else print_int z ++ [c_sp]) ++ l ++ [c_sp].

Theorem term_roundtrip l z : existsb is_space l = false -> l <> [] -> token_term (print_term l z) = Some (l, z).
Proof.
  intros Hl Hne. unfold token_term, print_term.
  assert (Hlabel : forall cur, cur = [] -> split_ws (l ++ [c_sp]) cur = [l]).
  { intros cur ->. rewrite (split_ws_run l Hl). rewrite app_nil_r. cbn [split_ws]. change (is_space c_sp) with true. cbn iota.
    destruct (rev l) eqn:E; [apply (f_equal (@rev N)) in E; rewrite rev_involutive in E; cbn in E; contradiction|].
    rewrite <- E, rev_involutive. reflexivity. }
  destruct (Z.eqb_spec z 1) as [->|Hz].
  - cbn [app]. rewrite (Hlabel [] eq_refl). reflexivity.
  - rewrite <- app_assoc. rewrite (split_ws_run (print_int z) (print_int_no_space z)). rewrite app_nil_r.
    cbn [app split_ws]. change (is_space c_sp) with true. cbn iota.
    destruct (rev (print_int z)) eqn:E.
    + apply (f_equal (@rev N)) in E. rewrite rev_involutive in E. cbn in E. exfalso. exact (print_int_nonempty z E).
    + rewrite <- E, rev_involutive, (Hlabel [] eq_refl), parse_print_int. reflexivity.
Qed.

(* ---------- splitting the printed text ---------- *)
Lemma split_char_run sep w : existsb (N.eqb sep) w = false -> forall cur rest,
  split_char sep (w ++ rest) cur = split_char sep rest (rev w ++ cur).
Proof.
  induction w as [|c w IH]; intros H cur rest; [reflexivity|].
  cbn [existsb] in H. apply orb_false_iff in H. destruct H as (Hc & Hw).
  cbn [app split_char]. rewrite N.eqb_sym, Hc. rewrite (IH Hw). cbn [rev]. rewrite <- app_assoc. reflexivity.
Qed.

Lemma has_arrow_cons c w : has_arrow (c :: w) = (match w with d :: _ => (c =? c_minus) && (d =? c_gt) | [] => false end) || has_arrow w.
Proof. destruct w; reflexivity. Qed.

(* pieces that end with a blank can be concatenated without creating an arrow *)
Lemma has_arrow_app_sp a b : has_arrow ((a ++ [c_sp]) ++ b) = has_arrow (a ++ [c_sp]) || has_arrow b.
Proof.
  induction a as [|c a IH].
  - cbn [app]. rewrite has_arrow_cons. destruct b; reflexivity.
  - cbn [app]. rewrite !has_arrow_cons. rewrite IH.
    destruct a as [|d a]; cbn [app]; rewrite orb_assoc; reflexivity.
Qed.

Lemma has_arrow_sp_end a : has_arrow (a ++ [c_sp]) = has_arrow a.
Proof.
  induction a as [|c a IH]; [reflexivity|]. cbn [app]. rewrite !has_arrow_cons, IH.
  destruct a as [|d a]; cbn [app]; [cbn; rewrite andb_false_r; reflexivity|reflexivity].
Qed.

Lemma uint_head u d rest : uint_chars u = d :: rest -> (d =? c_gt) = false.
Proof. destruct u; cbn [uint_chars]; intro H; try discriminate H; injection H as <- _; reflexivity. Qed.
Lemma uint_chars_no_arrow u : has_arrow (uint_chars u) = false.
Proof.
  induction u; cbn [uint_chars]; try reflexivity; rewrite has_arrow_cons, IHu; destruct (uint_chars u); reflexivity.
Qed.
Lemma print_int_no_arrow z : has_arrow (print_int z) = false.
Proof.
  unfold print_int. destruct (Z.to_int z) as [u|u]; [apply uint_chars_no_arrow|].
  rewrite has_arrow_cons, uint_chars_no_arrow. destruct (uint_chars u) eqn:E; [reflexivity|]. rewrite (uint_head _ _ _ E). rewrite andb_false_r. reflexivity.
Qed.
Lemma uint_chars_no_plus u : existsb (N.eqb c_plus) (uint_chars u) = false.
Proof. induction u; cbn [uint_chars existsb]; try reflexivity; rewrite IHu; reflexivity. Qed.
Lemma print_int_no_plus z : existsb (N.eqb c_plus) (print_int z) = false.
Proof. unfold print_int. destruct (Z.to_int z); cbn [existsb]; rewrite uint_chars_no_plus; reflexivity. Qed.

Definition label_ok (l : str) : Prop :=
  existsb is_space l = false /\ existsb (N.eqb c_plus) l = false /\ has_arrow l = false /\ l <> [].

Lemma valid_label_ok l : valid_label l = true -> label_ok l.
Proof.
  unfold valid_label. intro H. repeat (apply andb_true_iff in H; destruct H as (H & ?)).
  repeat match goal with Hn : negb _ = true |- _ => apply negb_true_iff in Hn end.
  repeat split; try assumption. intro E. subst l. discriminate.
Qed.

Lemma existsb_app {A} (f : A -> bool) a b : existsb f (a ++ b) = existsb f a || existsb f b.
Proof. induction a as [|x a IH]; [reflexivity|]. cbn. rewrite IH, orb_assoc. reflexivity. Qed.

Lemma print_term_props l z : label_ok l ->
  existsb (N.eqb c_plus) (print_term l z) = false /\ has_arrow (print_term l z) = false /\
  exists body, print_term l z = body ++ [c_sp].
Proof.
  intros (Hs & Hp & Ha & Hne). unfold print_term. destruct (Z.eqb z 1).
  - cbn [app]. split; [rewrite existsb_app, Hp; reflexivity|]. split; [rewrite has_arrow_sp_end; exact Ha|]. exists l. reflexivity.
  - split; [rewrite !existsb_app, print_int_no_plus, Hp; reflexivity|]. split.
    + rewrite has_arrow_app_sp, !has_arrow_sp_end, print_int_no_arrow, Ha. reflexivity.
    + exists ((print_int z ++ [c_sp]) ++ l). rewrite app_assoc. reflexivity.
Qed.

(* ---------- a printed side reads back with the same coefficients ---------- *)
Open Scope Z_scope.
Definition nz (d : side) : side := filter (fun p : str * Z => negb (Z.eqb (snd p) 0)) d.
Definition pterm (p : str * Z) : str := print_term (fst p) (snd p).
Definition sep_term (p : str * Z) : str := c_plus :: c_sp :: pterm p.

Lemma print_side_false d : print_side d false = flat_map sep_term (nz d).
Proof.
  induction d as [|[l z] d IH]; [reflexivity|]. cbn [print_side nz filter snd]. destruct (Z.eqb z 0); cbn [negb].
  - exact IH.
  - cbn [flat_map]. unfold sep_term at 1, pterm, print_term. cbn [fst snd app]. fold (nz d). rewrite <- IH.
    rewrite <- !app_assoc. reflexivity.
Qed.

Lemma print_side_true d : print_side d true = match nz d with [] => [] | p :: rest => pterm p ++ flat_map sep_term rest end.
Proof.
  induction d as [|[l z] d IH]; [reflexivity|]. cbn [print_side nz filter snd]. destruct (Z.eqb z 0); cbn [negb].
  - exact IH.
  - unfold pterm, print_term. cbn [fst snd app]. fold (nz d). rewrite print_side_false. rewrite <- !app_assoc. reflexivity.
Qed.

Definition all_ok (d : side) : Prop := forall p, In p d -> label_ok (fst p).

Lemma pterm_no_plus p : label_ok (fst p) -> existsb (N.eqb c_plus) (pterm p) = false.
Proof. intro H. apply (print_term_props (fst p) (snd p) H). Qed.

Lemma split_plus_terms ps : (forall p, In p ps -> label_ok (fst p)) -> forall cur,
  split_char c_plus (flat_map sep_term ps) cur = rev cur :: map (fun p => c_sp :: pterm p) ps.
Proof.
  induction ps as [|p ps IH]; intros Hok cur; [reflexivity|].
  cbn [flat_map map]. unfold sep_term at 1.
  change ((c_plus :: c_sp :: pterm p) ++ flat_map sep_term ps) with (c_plus :: ((c_sp :: pterm p) ++ flat_map sep_term ps)).
  cbn [split_char]. rewrite N.eqb_refl. f_equal.
  rewrite split_char_run.
  - rewrite IH by (intros q Hq; apply Hok; right; exact Hq). rewrite app_nil_r, rev_involutive. reflexivity.
  - cbn [existsb]. rewrite (pterm_no_plus p (Hok p (or_introl eq_refl))). reflexivity.
Qed.

Lemma token_term_leading_space t : token_term (c_sp :: t) = token_term t.
Proof. unfold token_term. cbn [split_ws]. change (is_space c_sp) with true. reflexivity. Qed.

Lemma parse_tokens_step t rest d l z : token_term t = Some (l, z) ->
  parse_tokens (t :: rest) d = parse_tokens rest (add_coef l z d).
Proof.
  unfold token_term. cbn [parse_tokens]. destruct (split_ws t []) as [|a [|b [|c r]]]; try discriminate.
  - intro H. injection H as <- <-. reflexivity.
  - destruct (parse_int a); [|discriminate]. intro H. injection H as <- <-. reflexivity.
Qed.

Definition add_all (ps : list (str * Z)) (d : side) : side := fold_left (fun d p => add_coef (fst p) (snd p) d) ps d.

Lemma parse_tokens_terms (tok : str * Z -> str) ps : (forall p, In p ps -> token_term (tok p) = Some p) ->
  forall d, parse_tokens (map tok ps) d = Some (add_all ps d).
Proof.
  induction ps as [|[l z] ps IH]; intros H d; [reflexivity|]. cbn [map].
  rewrite (parse_tokens_step _ _ _ l z (H (l, z) (or_introl eq_refl))). apply IH. intros p Hp. apply H. right. exact Hp.
Qed.

Lemma coef_add_all l ps : forall d, coef_of l (add_all ps d) = coef_of l d + written l ps.
Proof.
  induction ps as [|[l0 z0] ps IH]; intro d; [cbn; lia|]. cbn [add_all fold_left fst snd]. fold (add_all ps (add_coef l0 z0 d)).
  rewrite IH, coef_add_coef. cbn [written]. lia.
Qed.

Lemma pterm_roundtrip p : label_ok (fst p) -> token_term (pterm p) = Some p.
Proof. destruct p as [l z]. intros (Hs & _ & _ & Hne). apply term_roundtrip; assumption. Qed.

Theorem side_roundtrip d : all_ok d -> exists d', parse_side (print_side d true) = Some d' /\ forall l, coef_of l d' = written l (nz d).
Proof.
  intro Hok. rewrite print_side_true. unfold parse_side.
  assert (Hnz : forall p, In p (nz d) -> label_ok (fst p)) by (intros p Hp; apply Hok; apply filter_In in Hp; apply Hp).
  destruct (nz d) as [|p rest] eqn:E.
  - exists []. split; [reflexivity|intro l; reflexivity].
  - destruct (print_term_props (fst p) (snd p) (Hnz p (or_introl eq_refl))) as (Hp & _ & _).
    rewrite split_char_run by exact Hp. rewrite split_plus_terms by (intros q Hq; apply Hnz; right; exact Hq).
    rewrite app_nil_r, rev_involutive.
    set (toks := pterm p :: map (fun q => c_sp :: pterm q) rest).
    assert (Ht : toks = map (fun q => if str_eqb (fst q) (fst q) then (match q with _ => c_sp :: pterm q end) else []) rest -> True) by auto. clear Ht.
    assert (Hparse : parse_tokens toks [] = Some (add_all (p :: rest) [])).
    { unfold toks. rewrite (parse_tokens_step _ _ _ (fst p) (snd p)).
      - cbn [add_all fold_left]. apply (parse_tokens_terms (fun q => c_sp :: pterm q)).
        intros q Hq. rewrite token_term_leading_space. apply pterm_roundtrip. apply Hnz. right. exact Hq.
      - rewrite <- surjective_pairing. apply pterm_roundtrip. apply Hnz. left. reflexivity. }
    exists (add_all (p :: rest) []). split.
    + destruct rest as [|q rest']; [|exact Hparse].
      (* a single token: the code first tests whether it is blank *)
      unfold toks in *. cbn [map] in *. destruct (split_ws (pterm p) []) eqn:Ew; [|exact Hparse].
      pose proof (pterm_roundtrip p (Hnz p (or_introl eq_refl))) as Hr. unfold token_term in Hr. rewrite Ew in Hr. discriminate.
    + intro l. rewrite coef_add_all. cbn [coef_of]. lia.
Qed.

Lemma side_roundtrip_exact d : all_ok d -> parse_side (print_side d true) = Some (add_all (nz d) []).
Proof.
  intro Hok. rewrite print_side_true. unfold parse_side.
  assert (Hnz : forall p, In p (nz d) -> label_ok (fst p)) by (intros p Hp; apply Hok; apply filter_In in Hp; apply Hp).
  destruct (nz d) as [|p rest] eqn:E.
  - reflexivity.
  - destruct (print_term_props (fst p) (snd p) (Hnz p (or_introl eq_refl))) as (Hp & _ & _).
    rewrite split_char_run by exact Hp. rewrite split_plus_terms by (intros q Hq; apply Hnz; right; exact Hq).
    rewrite app_nil_r, rev_involutive.
    set (toks := pterm p :: map (fun q => c_sp :: pterm q) rest).
    assert (Ht : toks = map (fun q => if str_eqb (fst q) (fst q) then (match q with _ => c_sp :: pterm q end) else []) rest -> True) by auto. clear Ht.
    assert (Hparse : parse_tokens toks [] = Some (add_all (p :: rest) [])).
    { unfold toks. rewrite (parse_tokens_step _ _ _ (fst p) (snd p)).
      - cbn [add_all fold_left]. apply (parse_tokens_terms (fun q => c_sp :: pterm q)).
        intros q Hq. rewrite token_term_leading_space. apply pterm_roundtrip. apply Hnz. right. exact Hq.
      - rewrite <- surjective_pairing. apply pterm_roundtrip. apply Hnz. left. reflexivity. }
    destruct rest as [|q rest']; [|exact Hparse].
    (* a single token: the code first tests whether it is blank *)
    unfold toks in *. cbn [map] in *. destruct (split_ws (pterm p) []) eqn:Ew; [|exact Hparse].
    pose proof (pterm_roundtrip p (Hnz p (or_introl eq_refl))) as Hr. unfold token_term in Hr. rewrite Ew in Hr. discriminate.
Qed.

(* orders survive the round trip: the parsed side has the coefficient sum of the printed one *)
Lemma side_order_add_coef l z d : side_order (add_coef l z d) = (side_order d + z)%Z.
Proof.
  unfold side_order. induction d as [|[l' c] d IH]; [cbn; lia|]. cbn [add_coef]. destruct (str_eqb l l'); cbn [map fold_right snd] in *; lia.
Qed.

Lemma side_order_add_all ps d : side_order (add_all ps d) = (side_order d + fold_right Z.add 0 (map snd ps))%Z.
Proof.
  revert d. induction ps as [|[l z] ps IH]; intro d; [unfold add_all; cbn [fold_left map fold_right]; lia|]. cbn [add_all fold_left fst snd]. fold (add_all ps (add_coef l z d)).
  rewrite IH, side_order_add_coef. cbn [map fold_right snd]. lia.
Qed.

Lemma side_order_nz d : fold_right Z.add 0 (map snd (nz d)) = side_order d.
Proof.
  unfold side_order, nz. induction d as [|[l z] d IH]; [reflexivity|]. cbn [filter map fold_right snd].
  destruct (Z.eqb_spec z 0) as [->|Hz]; cbn [negb map fold_right snd]; lia.
Qed.

Theorem side_roundtrip_order d : all_ok d -> exists d', parse_side (print_side d true) = Some d' /\ side_order d' = side_order d
  /\ forall l, coef_of l d' = written l (nz d).
Proof.
  intro H. exists (add_all (nz d) []). split; [apply side_roundtrip_exact; exact H|]. split.
  - rewrite side_order_add_all, side_order_nz. cbn. lia.
  - intro l. rewrite coef_add_all. cbn [coef_of]. lia.
Qed.


Lemma coef_of_notin l d : ~ In l (map fst d) -> coef_of l d = 0%Z.
Proof.
  induction d as [|[l0 z0] d IH]; intro H; [reflexivity|]. cbn [coef_of]. rewrite str_eqb_neq.
  - apply IH. intro Hin. apply H. right. exact Hin.
  - intro E. apply H. left. symmetry. exact E.
Qed.

Lemma written_nz_nodup l d : NoDup (map fst d) -> written l (nz d) = coef_of l d.
Proof.
  induction d as [|[l0 z0] d IH]; intro Hnd; [reflexivity|]. cbn [map fst] in Hnd. inversion Hnd as [|? ? Hnotin Hnd']; subst.
  cbn [nz filter snd coef_of]. fold (nz d). destruct (Z.eqb_spec z0 0) as [->|Hz]; cbn [negb].
  - rewrite (IH Hnd'). destruct (str_eqb l l0) eqn:E; [|reflexivity]. apply str_eqb_eq in E. subst l0. apply coef_of_notin. exact Hnotin.
  - cbn [written]. rewrite (IH Hnd'). destruct (str_eqb l l0) eqn:E; [|lia]. apply str_eqb_eq in E. subst l0. rewrite (coef_of_notin l d Hnotin). lia.
Qed.

(* ---------- the arrow ---------- *)
Lemma split_char_cur sep s : forall cur,
  split_char sep s cur = match split_char sep s [] with t1 :: rest => (rev cur ++ t1) :: rest | [] => [] end.
Proof.
  induction s as [|c s IH]; intro cur; cbn [split_char].
  - cbn [rev]. rewrite app_nil_r. reflexivity.
  - destruct (N.eqb c sep).
    + cbn [rev app]. rewrite app_nil_r. reflexivity.
    + rewrite (IH (c :: cur)), (IH [c]). destruct (split_char sep s []); [reflexivity|]. cbn [rev app]. rewrite <- app_assoc. reflexivity.
Qed.

Lemma split_char_nonnil sep s : forall cur, split_char sep s cur <> [].
Proof. induction s as [|c s IH]; intro cur; cbn [split_char]; [discriminate|]. destruct (N.eqb c sep); [discriminate|apply IH]. Qed.

Lemma parse_side_leading_space s : parse_side (c_sp :: s) = parse_side s.
Proof.
  unfold parse_side. cbn [split_char]. change (c_sp =? c_plus)%N with false. cbn iota.
  rewrite (split_char_cur c_plus s [c_sp]). destruct (split_char c_plus s []) as [|t1 rest] eqn:E.
  - exfalso. exact (split_char_nonnil _ _ _ E).
  - cbn [rev app].
    assert (Hw : split_ws (c_sp :: t1) [] = split_ws t1 []) by (cbn [split_ws]; change (is_space c_sp) with true; reflexivity).
    assert (Hp : forall d, parse_tokens ((c_sp :: t1) :: rest) d = parse_tokens (t1 :: rest) d).
    { intro d. cbn [parse_tokens]. rewrite Hw. reflexivity. }
    destruct rest as [|t2 rest]; [rewrite Hw, Hp; reflexivity|apply Hp].
Qed.

Lemma split_arrow_cons2 c d rest cur : split_arrow (c :: d :: rest) cur =
  if ((c =? c_minus) && (d =? c_gt))%N then rev cur :: split_arrow rest [] else split_arrow (d :: rest) (c :: cur).
Proof. reflexivity. Qed.
Lemma split_arrow_single c cur : split_arrow [c] cur = [rev (c :: cur)].
Proof. reflexivity. Qed.

Lemma split_arrow_run w : has_arrow w = false -> forall cur rest,
  split_arrow (w ++ c_minus :: c_gt :: rest) cur = (rev cur ++ w) :: split_arrow rest [].
Proof.
  induction w as [|c w IH]; intros H cur rest.
  - cbn [app]. rewrite split_arrow_cons2. change ((c_minus =? c_minus)%N && (c_gt =? c_gt)%N) with true. cbn iota. rewrite app_nil_r. reflexivity.
  - rewrite has_arrow_cons in H. apply orb_false_iff in H. destruct H as (Hj & Hw).
    destruct w as [|d w].
    + cbn [app]. rewrite split_arrow_cons2. change (c_minus =? c_gt)%N with false. rewrite andb_false_r.
      rewrite split_arrow_cons2. change ((c_minus =? c_minus)%N && (c_gt =? c_gt)%N) with true. cbn iota. cbn [rev]. reflexivity.
    + change ((c :: d :: w) ++ c_minus :: c_gt :: rest) with (c :: d :: (w ++ c_minus :: c_gt :: rest)).
      rewrite split_arrow_cons2, Hj.
      change (d :: w ++ c_minus :: c_gt :: rest) with ((d :: w) ++ c_minus :: c_gt :: rest). rewrite (IH Hw).
      cbn [rev]. rewrite <- app_assoc. reflexivity.
Qed.

Lemma split_arrow_none w : has_arrow w = false -> forall cur, split_arrow w cur = [rev cur ++ w].
Proof.
  induction w as [|c w IH]; intros H cur.
  - cbn. rewrite app_nil_r. reflexivity.
  - rewrite has_arrow_cons in H. apply orb_false_iff in H. destruct H as (Hj & Hw). destruct w as [|d w].
    + rewrite split_arrow_single. cbn [rev]. reflexivity.
    + rewrite split_arrow_cons2, Hj. rewrite (IH Hw). cbn [rev]. rewrite <- app_assoc. reflexivity.
Qed.

Lemma pterm_no_arrow p : label_ok (fst p) -> has_arrow (pterm p) = false.
Proof. intro H. apply (print_term_props (fst p) (snd p) H). Qed.

Lemma sep_terms_no_arrow ps : (forall p, In p ps -> label_ok (fst p)) -> has_arrow (flat_map sep_term ps) = false.
Proof.
  induction ps as [|p ps IH]; intro H; [reflexivity|]. cbn [flat_map].
  destruct (print_term_props (fst p) (snd p) (H p (or_introl eq_refl))) as (_ & Ha & body & Eb).
  unfold sep_term at 1. unfold pterm. rewrite Eb.
  change ((c_plus :: c_sp :: body ++ [c_sp]) ++ flat_map sep_term ps) with (((c_plus :: c_sp :: body) ++ [c_sp]) ++ flat_map sep_term ps).
  rewrite has_arrow_app_sp, IH by (intros q Hq; apply H; right; exact Hq). rewrite orb_false_r.
  change ((c_plus :: c_sp :: body) ++ [c_sp]) with (c_plus :: c_sp :: (body ++ [c_sp])). rewrite <- Eb.
  rewrite !has_arrow_cons, Ha. destruct (print_term (fst p) (snd p)); reflexivity.
Qed.

Lemma print_side_no_arrow d : all_ok d -> has_arrow (print_side d true) = false.
Proof.
  intro Hok. rewrite print_side_true.
  assert (Hnz : forall p, In p (nz d) -> label_ok (fst p)) by (intros p Hp; apply Hok; apply filter_In in Hp; apply Hp).
  destruct (nz d) as [|p rest]; [reflexivity|].
  destruct (print_term_props (fst p) (snd p) (Hnz p (or_introl eq_refl))) as (_ & Ha & body & Eb).
  unfold pterm at 1. rewrite Eb, has_arrow_app_sp, <- Eb, Ha.
  apply sep_terms_no_arrow. intros q Hq. apply Hnz. right. exact Hq.
Qed.

(* ---------- printing a reaction and parsing the text back ---------- *)
Theorem parse_print_eq r : all_ok (fst r) -> all_ok (snd r) -> NoDup (map fst (fst r)) -> NoDup (map fst (snd r)) ->
  exists r', parse_eq (print_eq r) = Some r' /\
    forall l, coef_of l (fst r') = coef_of l (fst r) /\ coef_of l (snd r') = coef_of l (snd r).
Proof.
  intros H1 H2 N1 N2. unfold parse_eq, print_eq.
  change ([c_minus; c_gt; c_sp] ++ print_side (snd r) true) with (c_minus :: c_gt :: (c_sp :: print_side (snd r) true)).
  rewrite (split_arrow_run _ (print_side_no_arrow _ H1)). cbn [rev app].
  assert (Ha2 : has_arrow (c_sp :: print_side (snd r) true) = false).
  { rewrite has_arrow_cons, (print_side_no_arrow _ H2). destruct (print_side (snd r) true); reflexivity. }
  rewrite (split_arrow_none _ Ha2). cbn [rev app].
  rewrite parse_side_leading_space.
  destruct (side_roundtrip (fst r) H1) as (a & Ea & Ca). destruct (side_roundtrip (snd r) H2) as (b & Eb & Cb).
  rewrite Ea, Eb. exists (a, b). split; [reflexivity|]. intro l. cbn [fst snd].
  rewrite Ca, Cb, (written_nz_nodup l _ N1), (written_nz_nodup l _ N2). split; reflexivity.
Qed.

(* ... with the orders: the parsed equation has the reactant and product coefficient sums of the printed one *)
Theorem parse_print_eq_order r : all_ok (fst r) -> all_ok (snd r) -> NoDup (map fst (fst r)) -> NoDup (map fst (snd r)) ->
  exists r', parse_eq (print_eq r) = Some r' /\ side_order (fst r') = side_order (fst r) /\ side_order (snd r') = side_order (snd r) /\
    forall l, coef_of l (fst r') = coef_of l (fst r) /\ coef_of l (snd r') = coef_of l (snd r).
Proof.
  intros H1 H2 N1 N2. unfold parse_eq, print_eq.
  change ([c_minus; c_gt; c_sp] ++ print_side (snd r) true) with (c_minus :: c_gt :: (c_sp :: print_side (snd r) true)).
  rewrite (split_arrow_run _ (print_side_no_arrow _ H1)). cbn [rev app].
  assert (Ha2 : has_arrow (c_sp :: print_side (snd r) true) = false).
  { rewrite has_arrow_cons, (print_side_no_arrow _ H2). destruct (print_side (snd r) true); reflexivity. }
  rewrite (split_arrow_none _ Ha2). cbn [rev app].
  rewrite parse_side_leading_space.
  destruct (side_roundtrip_order (fst r) H1) as (a & Ea & Oa & Ca). destruct (side_roundtrip_order (snd r) H2) as (b & Eb & Ob & Cb).
  rewrite Ea, Eb. exists (a, b). split; [reflexivity|]. cbn [fst snd]. split; [exact Oa|]. split; [exact Ob|]. intro l.
  rewrite Ca, Cb, (written_nz_nodup l _ N1), (written_nz_nodup l _ N2). split; reflexivity.
Qed.

(* the parsed sides name no species that the printed sides did not name *)
Lemma add_coef_labels l z d x : In x (map fst (add_coef l z d)) -> x = l \/ In x (map fst d).
Proof.
  induction d as [|[l' c] d IH]; cbn [add_coef map fst]; [intros [<-|[]]; left; reflexivity|].
  destruct (str_eqb l l'); cbn [map fst].
  - intros [H|H]; [right; left; exact H|right; right; exact H].
  - intros [H|H]; [right; left; exact H|]. destruct (IH H) as [E|E]; [left; exact E|right; right; exact E].
Qed.

Lemma add_all_labels ps d x : In x (map fst (add_all ps d)) -> In x (map fst ps) \/ In x (map fst d).
Proof.
  revert d. induction ps as [|[l z] ps IH]; intro d; [cbn; auto|]. cbn [add_all fold_left fst snd]. fold (add_all ps (add_coef l z d)).
  intros H. destruct (IH _ H) as [E|E]; [left; right; exact E|]. destruct (add_coef_labels _ _ _ _ E) as [->|E']; [left; left; reflexivity|right; exact E'].
Qed.

Lemma nz_labels d x : In x (map fst (nz d)) -> In x (map fst d).
Proof. unfold nz. rewrite !in_map_iff. intros (p & <- & Hp). apply filter_In in Hp. exists p. split; [reflexivity|apply Hp]. Qed.

Theorem parse_print_eq_full r : all_ok (fst r) -> all_ok (snd r) -> NoDup (map fst (fst r)) -> NoDup (map fst (snd r)) ->
  exists r', parse_eq (print_eq r) = Some r' /\ side_order (fst r') = side_order (fst r) /\ side_order (snd r') = side_order (snd r) /\
    (forall l, coef_of l (fst r') = coef_of l (fst r) /\ coef_of l (snd r') = coef_of l (snd r)) /\
    (forall x, In x (map fst (fst r')) -> In x (map fst (fst r))) /\ (forall x, In x (map fst (snd r')) -> In x (map fst (snd r))).
Proof.
  intros H1 H2 N1 N2. unfold parse_eq, print_eq.
  change ([c_minus; c_gt; c_sp] ++ print_side (snd r) true) with (c_minus :: c_gt :: (c_sp :: print_side (snd r) true)).
  rewrite (split_arrow_run _ (print_side_no_arrow _ H1)). cbn [rev app].
  assert (Ha2 : has_arrow (c_sp :: print_side (snd r) true) = false).
  { rewrite has_arrow_cons, (print_side_no_arrow _ H2). destruct (print_side (snd r) true); reflexivity. }
  rewrite (split_arrow_none _ Ha2). cbn [rev app].
  rewrite parse_side_leading_space.
  rewrite (side_roundtrip_exact (fst r) H1), (side_roundtrip_exact (snd r) H2).
  eexists. split; [reflexivity|]. cbn [fst snd].
  rewrite !side_order_add_all, !side_order_nz. repeat split; try (cbn; lia).
  - rewrite coef_add_all. cbn [coef_of]. rewrite (written_nz_nodup l _ N1). lia.
  - rewrite coef_add_all. cbn [coef_of]. rewrite (written_nz_nodup l _ N2). lia.
  - intros x Hx. destruct (add_all_labels _ _ _ Hx) as [E|[]]. apply nz_labels. exact E.
  - intros x Hx. destruct (add_all_labels _ _ _ Hx) as [E|[]]. apply nz_labels. exact E.
Qed.
