(* C04 at the level of whole trajectories: the same system stated in another units system (every table entry, the geometry, the
   state and the time step multiplied by the conversion factor of its dimension) has the same rate law and the same Euler
   trajectory once expressed in common units - for every network table, grid or graph, state, number of steps. *)
From Coq Require Import ZArith QArith Qcanon List Lia Field Arith Bool.
From Verif Require Import Num NumFacts Units UnitsFacts Grid GridFacts System SystemFacts Engine EngineFacts EngineConserve EngineBuild
     ReactionTextFacts UnitsInvariance GridGraphRate.
Import ListNotations.
Open Scope Qc_scope.

Lemma nth_map_scale (f : Qc) l k : nth k (map (fun v => v * f) l) 0 = nth k l 0 * f.
Proof. revert k. induction l as [|a l IH]; intros [|k]; cbn [map nth]; try ring. apply IH. Qed.

Lemma flat_map_scaled {A} (F F' : A -> list Qc) (k : Qc) l :
  (forall a, In a l -> F' a = map (fun v => v * k) (F a)) -> flat_map F' l = map (fun v => v * k) (flat_map F l).
Proof.
  induction l as [|a l IH]; intros H; [reflexivity|]. cbn [flat_map]. rewrite map_app, (H a) by (left; reflexivity).
  f_equal. apply IH. intros b Hb. apply H. right. exact Hb.
Qed.

Section Rescale.
Variables (s t : usys).
Let fa := factor s t dim_amount.
Let fl := factor s t dim_length.
Let fs := factor s t dim_surface.
Let fv := factor s t dim_volume.
Let fD := factor s t dim_diff.
Let fr := factor s t dim_rate.
Let ft := factor s t dim_time.

Definition rescale_tables (T : etab) : etab :=
  {| nS := nS T; nR := nR T; nE := nE T; nC := nC T;
     tk := flat_map (fun e => map (fun r => Kf T e r * factor s t (kdim (order T r))) (seq 0 (nR T))) (seq 0 (nE T));
     tsub := tsub T; tsto := tsto T;
     tD := map (fun d => d * fD) (tD T);
     tenv := tenv T; tchs := tchs T |}.

Definition rescale_geom (G : geom) : geom :=
  match G with
  | GGrid g h => GGrid g (h * fl)
  | GGraph hs es => GGraph (map (fun h => h * fl) hs) (map (fun e : gedge => let '(a, b, sf, ds) := e in (a, b, sf * fs, ds * fl)) es)
  end.

Definition rescale_state (x : list Qc) : list Qc := map (fun v => v * fa) x.

Lemma fa_nz : fa <> 0. Proof. apply Qc_pos_neq, factor_pos. Qed.
Lemma fl_nz : fl <> 0. Proof. apply Qc_pos_neq, factor_pos. Qed.
Lemma ft_nz : ft <> 0. Proof. apply Qc_pos_neq, factor_pos. Qed.

Lemma fv_cube : fv = fl * fl * fl.
Proof.
  unfold fv, fl. replace dim_volume with (dim_add dim_length (dim_add dim_length dim_length)) by reflexivity.
  rewrite !factor_add. ring.
Qed.
Lemma fs_square : fs = fl * fl.
Proof. unfold fs, fl. replace dim_surface with (dim_add dim_length dim_length) by reflexivity. rewrite factor_add. reflexivity. Qed.
Lemma fr_ratio : fr = fa / ft.
Proof.
  unfold fr, fa, ft. replace dim_rate with (dim_add dim_amount (dim_opp dim_time)) by reflexivity.
  rewrite factor_add, factor_opp. reflexivity.
Qed.

Variable T : etab.
Let T' := rescale_tables T.

Lemma X_rescaled x i sp : X T' (rescale_state x) i sp = X T x i sp * fa.
Proof. unfold X, rescale_state. cbn [T' rescale_tables nS]. apply nth_map_scale. Qed.

Lemma Dc_rescaled sp e : Dc T' sp e = Dc T sp e * fD.
Proof. unfold Dc. cbn [T' rescale_tables nE tD]. apply nth_map_scale. Qed.

Lemma Kf_rescaled e r : (e < nE T)%nat -> (r < nR T)%nat -> Kf T' e r = Kf T e r * factor s t (kdim (order T r)).
Proof.
  intros He Hr. unfold Kf at 1. cbn [T' rescale_tables nR tk].
  apply (nth_flat_map_seq (nR T) (nE T) (fun e r => Kf T e r * factor s t (kdim (order T r)))); assumption.
Qed.

Lemma Sub_rescaled sp r : Sub T' sp r = Sub T sp r. Proof. reflexivity. Qed.
Lemma Sto_rescaled sp r : Sto T' sp r = Sto T sp r. Proof. reflexivity. Qed.
Lemma Env_rescaled i : Env T' i = Env T i. Proof. reflexivity. Qed.
Lemma Chs_rescaled i sp : Chs T' i sp = Chs T i sp. Proof. reflexivity. Qed.
Lemma order_rescaled r : order T' r = order T r. Proof. reflexivity. Qed.

Lemma edge_rescaled G i : edge_of (rescale_geom G) i = edge_of G i * fl.
Proof. destruct G as [g h|hs es]; cbn [rescale_geom edge_of]; [reflexivity|apply nth_map_scale]. Qed.
Lemma vol_rescaled G i : vol_of (rescale_geom G) i = vol_of G i * fv.
Proof. unfold vol_of, cube. rewrite edge_rescaled, fv_cube. ring. Qed.

(* ---- mass action ---- *)
Lemma mass_action_as_ma (U : etab) G x i r :
  mass_action U G x i r = ma (Kf U (Env U i) r) (vol_of G i) (map (fun sp => (X U x i sp, Sub U sp r)) (species_idx U)).
Proof. unfold mass_action, ma. rewrite map_map. reflexivity. Qed.

Lemma total_order_terms (U : etab) x i r : total_order (map (fun sp => (X U x i sp, Sub U sp r)) (species_idx U)) = order U r.
Proof. unfold total_order, order. rewrite map_map. reflexivity. Qed.

Lemma mass_action_rescaled G x i r : (Env T i < nE T)%nat -> (r < nR T)%nat -> vol_of G i <> 0 ->
  mass_action T' (rescale_geom G) (rescale_state x) i r = mass_action T G x i r * fr.
Proof.
  intros He Hr HV. rewrite !mass_action_as_ma. rewrite Env_rescaled, Kf_rescaled by assumption. rewrite vol_rescaled.
  replace (map (fun sp => (X T' (rescale_state x) i sp, Sub T' sp r)) (species_idx T'))
    with (map (fun p : Qc * Z => (fst p * factor s t dim_amount, snd p)) (map (fun sp => (X T x i sp, Sub T sp r)) (species_idx T))).
  - rewrite <- (total_order_terms T x i r). apply mass_action_units. exact HV.
  - rewrite map_map. apply map_ext. intros sp. cbn [fst snd]. rewrite X_rescaled. reflexivity.
Qed.

(* ---- exchange ---- *)
Lemma exchange_rescaled G x sp i j sf ds : ds <> 0 -> vol_of G i <> 0 -> vol_of G j <> 0 ->
  (Dc T sp (Env T i) <> 0 -> Dc T sp (Env T j) <> 0 -> edge_of G i / Dc T sp (Env T i) + edge_of G j / Dc T sp (Env T j) <> 0) ->
  exchange T' (rescale_geom G) (rescale_state x) sp i j (sf * fs) (ds * fl) = exchange T G x sp i j sf ds * fr.
Proof.
  intros Hds HVi HVj Hsum. unfold exchange. rewrite !edge_rescaled, !vol_rescaled, !X_rescaled, !Env_rescaled, !Dc_rescaled.
  set (Di := Dc T sp (Env T i)) in *. set (Dj := Dc T sp (Env T j)) in *.
  destruct (Qceqb Di 0 || Qceqb Dj 0) eqn:Z.
  - (* no exchange on either side *)
    assert (E1 : Dint (edge_of G i) (edge_of G j) Di Dj = 0) by (unfold Dint; rewrite Z; reflexivity).
    assert (E2 : Dint (edge_of G i * fl) (edge_of G j * fl) (Di * fD) (Dj * fD) = 0).
    { unfold Dint. rewrite !(Qceqb_scaled _ fD) by (apply Qc_pos_neq, factor_pos). rewrite Z. reflexivity. }
    rewrite E1, E2. field. repeat split; try assumption; try apply fl_nz; apply Qc_pos_neq, factor_pos.
  - apply orb_false_iff in Z. destruct Z as [Zi Zj]. apply Qceqb_false in Zi, Zj.
    pose proof (exchange_units s t (edge_of G i) (edge_of G j) Di Dj sf ds (X T x i sp) (X T x j sp) (vol_of G i) (vol_of G j)
                  Hds HVi HVj (Hsum Zi Zj)) as E.
    unfold exch in E. exact E.
Qed.

(* ---- neighbours ---- *)
Lemma slots_rescaled es i :
  slots_of (map (fun e : gedge => let '(a, b, sf, ds) := e in (a, b, sf * fs, ds * fl)) es) i
  = map (fun sl : slot => (fst (fst sl), snd (fst sl) * fs, snd sl * fl)) (slots_of es i).
Proof.
  unfold slots_of. induction es as [|e es IH]; [reflexivity|]. cbn [map flat_map]. rewrite map_app, IH. f_equal.
  destruct e as [[[a b] sf] ds]. destruct (Nat.eqb a i); destruct (Nat.eqb b i); reflexivity.
Qed.

Definition geom_cells (G : geom) : nat := match G with GGrid g _ => Z.to_nat (gsize g) | GGraph hs _ => length hs end.

Hypothesis HD : forall sp e, 0 <= Dc T sp e.

Lemma sum_pos_nz a b c d : 0 < a -> 0 < b -> 0 <= c -> 0 <= d -> c <> 0 -> d <> 0 -> a / c + b / d <> 0.
Proof.
  intros Ha Hb Hc Hd Zc Zd.
  assert (Pc : 0 < c) by (apply Qcle_lt_or_eq in Hc; destruct Hc as [H|H]; [exact H|exfalso; apply Zc; symmetry; exact H]).
  assert (Pd : 0 < d) by (apply Qcle_lt_or_eq in Hd; destruct Hd as [H|H]; [exact H|exfalso; apply Zd; symmetry; exact H]).
  assert (P1 : 0 < a / c).
  { unfold Qcdiv. replace 0 with (0 * / c) by ring. apply Qcmult_lt_compat_r; [apply Qcinv_pos; exact Pc|exact Ha]. }
  assert (P2 : 0 < b / d).
  { unfold Qcdiv. replace 0 with (0 * / d) by ring. apply Qcmult_lt_compat_r; [apply Qcinv_pos; exact Pd|exact Hb]. }
  intros E. assert (L : 0 < a / c + b / d).
  { apply (Qclt_le_trans _ (a / c)); [exact P1|]. replace (a / c) with (a / c + 0) at 1 by ring.
    apply Qcplus_le_compat; [apply Qcle_refl|apply Qclt_le_weak; exact P2]. }
  rewrite E in L. exact (Qclt_not_eq _ _ L eq_refl).
Qed.

Theorem rate_law_rescaled G x i sp :
  wf_geom T G -> nC T = geom_cells G -> (forall k, (k < nC T)%nat -> 0 < edge_of G k) ->
  (forall k, (k < nC T)%nat -> (Env T k < nE T)%nat) -> (i < nC T)%nat ->
  rate_law T' (rescale_geom G) (rescale_state x) i sp = rate_law T G x i sp * fr.
Proof.
  intros Hw Hn Hpos Henv Hi. unfold rate_law.
  assert (Hvol : forall k, (k < nC T)%nat -> vol_of G k <> 0).
  { intros k Hk. unfold vol_of. apply cube_nz. apply Qc_pos_neq. apply Hpos. exact Hk. }
  rewrite Qcmult_plus_distr_l. f_equal.
  - (* reactions *)
    rewrite <- sumQ_map_scal_r. apply sumQ_map_ext. intros r Hr. apply in_seq in Hr. cbn [T' rescale_tables nR] in Hr.
    rewrite Sto_rescaled, mass_action_rescaled; [ring| | |]; [apply Henv; exact Hi|lia|apply Hvol; exact Hi].
  - (* diffusion *)
    rewrite <- sumQ_map_scal_r.
    assert (Hterm : forall j sf ds, (j < nC T)%nat -> ds <> 0 ->
              exchange T' (rescale_geom G) (rescale_state x) sp i j (sf * fs) (ds * fl) = exchange T G x sp i j sf ds * fr).
    { intros j sf ds Hj Hds. apply exchange_rescaled; [exact Hds|apply Hvol; exact Hi|apply Hvol; exact Hj|].
      intros Zi Zj. apply sum_pos_nz; [apply Hpos; exact Hi|apply Hpos; exact Hj|apply HD|apply HD|exact Zi|exact Zj]. }
    destruct G as [g h|hs es].
    + cbn [rescale_geom]. rewrite !neighbours_grid, !map_map. cbn [fst snd]. apply sumQ_map_ext. intros j Hj.
      destruct Hw as (Hg & Hh & Hc).
      assert (Hjn : (j < nC T)%nat).
      { rewrite grid_js_eq in Hj. apply in_map_iff in Hj. destruct Hj as (b & <- & Hb). apply (eng_neighbors_range g _ _ Hg) in Hb. lia. }
      replace (h * fl * (h * fl)) with (h * h * fs) by (rewrite fs_square; ring).
      fold (rescale_geom (GGrid g h)). apply Hterm; [exact Hjn|exact Hh].
    + cbn [rescale_geom neighbours]. rewrite slots_rescaled, map_map. cbn [fst snd]. apply sumQ_map_ext. intros sl Hsl.
      destruct Hw as (Hhs & Hes). apply slots_of_in in Hsl. destruct Hsl as (e & He & Hsl). specialize (Hes e He).
      destruct e as [[[a b] sf] ds]. destruct Hes as (Ha & Hb & Hds). cbn [geom_cells] in Hn.
      fold (rescale_geom (GGraph hs es)).
      destruct Hsl as [[-> ->]|[-> ->]]; cbn [fst snd]; apply Hterm; try exact Hds; lia.
Qed.

Lemma wf_geom_rescaled G : wf_geom T G -> wf_geom T' (rescale_geom G).
Proof.
  destruct G as [g h|hs es]; cbn [wf_geom rescale_geom].
  - intros (Hg & Hh & Hc). repeat split; try apply Hg; [|exact Hc].
    intros E. apply Qcmult_integral in E. destruct E as [E|E]; [exact (Hh E)|exact (fl_nz E)].
  - intros (Hhs & Hes). split.
    + intros k Hk. rewrite map_length in Hk. rewrite nth_map_scale. intros E. apply Qcmult_integral in E.
      destruct E as [E|E]; [exact (Hhs k Hk E)|exact (fl_nz E)].
    + intros e He. apply in_map_iff in He. destruct He as (e0 & <- & He0). specialize (Hes e0 He0).
      destruct e0 as [[[a b] sf] ds]. rewrite map_length. destruct Hes as (Ha & Hb & Hds). repeat split; try assumption.
      intros E. apply Qcmult_integral in E. destruct E as [E|E]; [exact (Hds E)|exact (fl_nz E)].
Qed.

Theorem dxdt_rescaled G x i sp :
  wf_geom T G -> nC T = geom_cells G -> (forall k, (k < nC T)%nat -> 0 < edge_of G k) ->
  (forall k, (k < nC T)%nat -> (Env T k < nE T)%nat) -> (i < nC T)%nat ->
  dxdt T' (rescale_geom G) (rescale_state x) i sp = dxdt T G x i sp * fr.
Proof.
  intros Hw Hn Hpos Henv Hi.
  assert (Hvol : vols_nonzero T G).
  { intros k Hk. unfold vol_of. apply cube_nz. apply Qc_pos_neq. apply Hpos. exact Hk. }
  assert (Hvol' : vols_nonzero T' (rescale_geom G)).
  { intros k Hk. rewrite vol_rescaled. intros E. apply Qcmult_integral in E. destruct E as [E|E]; [exact (Hvol k Hk E)|].
    apply (Qc_pos_neq _ (factor_pos s t dim_volume)). exact E. }
  destruct (Chs T i sp) eqn:C.
  - rewrite !dxdt_chemostat by (try rewrite Chs_rescaled; exact C). ring.
  - rewrite (dxdt_is_rate_law T' (rescale_geom G)), (dxdt_is_rate_law T G); try assumption.
    + apply rate_law_rescaled; assumption.
    + apply wf_geom_rescaled. exact Hw.
Qed.

Lemma cm_tabulate_scaled (f f' : nat -> nat -> Qc) (k : Qc) :
  (forall i sp, (i < nC T)%nat -> f' i sp = f i sp * k) -> cm_tabulate T' f' = map (fun v => v * k) (cm_tabulate T f).
Proof.
  intros H. unfold cm_tabulate, cell_idx, species_idx. cbn [T' rescale_tables nC nS].
  apply flat_map_scaled. intros i Hi. apply in_seq in Hi. rewrite map_map. apply map_ext. intros sp. apply H. lia.
Qed.

Theorem euler_step_rescaled G dt x :
  wf_geom T G -> nC T = geom_cells G -> (forall k, (k < nC T)%nat -> 0 < edge_of G k) ->
  (forall k, (k < nC T)%nat -> (Env T k < nE T)%nat) ->
  euler_step T' (rescale_geom G) (dt * ft) (rescale_state x) = rescale_state (euler_step T G dt x).
Proof.
  intros Hw Hn Hpos Henv. unfold euler_step, rescale_state at 2. apply cm_tabulate_scaled. intros i sp Hi.
  rewrite X_rescaled, dxdt_rescaled by assumption. rewrite fr_ratio. field. exact ft_nz.
Qed.

(* the whole deterministic trajectory: any number of steps *)
Theorem euler_steps_rescaled G dt n x :
  wf_geom T G -> nC T = geom_cells G -> (forall k, (k < nC T)%nat -> 0 < edge_of G k) ->
  (forall k, (k < nC T)%nat -> (Env T k < nE T)%nat) ->
  euler_steps T' (rescale_geom G) (dt * ft) n (rescale_state x) = rescale_state (euler_steps T G dt n x).
Proof.
  intros Hw Hn Hpos Henv. revert x. induction n as [|n IH]; intros x; [reflexivity|].
  cbn [euler_steps]. rewrite euler_step_rescaled by assumption. apply IH.
Qed.

End Rescale.
