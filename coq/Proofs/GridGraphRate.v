(* The last clause of C15: on the graph made by grid_to_graph (every node of edge h, every edge with
   contact surface h^2 and distance h) the rate law of every entry equals the one on the grid, hence
   so do the engine derivative and every Euler trajectory.  Built on the edge multiplicity theorem
   (GridGraphFacts) and the neighbour multiplicities of the engine table (GridFacts). *)
From Coq Require Import ZArith QArith Qcanon List Lia Field Arith Bool Permutation.
From Verif Require Import Num NumFacts Grid GridFacts GridGraphFacts Units System SystemFacts Engine EngineFacts EngineConserve.
Import ListNotations.
Open Scope Qc_scope.

Definition nat_edges (g : grid) (h : Qc) : list gedge :=
  map (fun e : Z * Z => (Z.to_nat (fst e), Z.to_nat (snd e), h * h, h)) (g2g_edges g).

Definition graph_of_grid (g : grid) (h : Qc) : geom :=
  GGraph (repeat h (Z.to_nat (gsize g))) (nat_edges g h).

(* ---------------------------------------------------------------- sums that depend on the neighbour only *)

Lemma count_occ_filter (P : nat -> bool) l j :
  count_occ Nat.eq_dec (filter P l) j = if P j then count_occ Nat.eq_dec l j else 0%nat.
Proof.
  induction l as [|a l IH]; [destruct (P j); reflexivity|].
  cbn [filter]. destruct (P a) eqn:Pa.
  - cbn [count_occ]. destruct (Nat.eq_dec a j) as [->|Hne].
    + rewrite Pa in *. rewrite IH. reflexivity.
    + rewrite IH. reflexivity.
  - rewrite IH. cbn [count_occ]. destruct (Nat.eq_dec a j) as [->|Hne]; [rewrite Pa; reflexivity|reflexivity].
Qed.

Lemma sum_by_multiplicity (F : nat -> Qc) (i : nat) (l1 l2 : list nat) :
  F i = 0 -> (forall j, j <> i -> count_occ Nat.eq_dec l1 j = count_occ Nat.eq_dec l2 j) ->
  sumQ (map F l1) = sumQ (map F l2).
Proof.
  intros Hi Hc.
  set (P := fun j => negb (Nat.eqb j i)).
  assert (drop : forall l, sumQ (map F l) = sumQ (map F (filter P l))).
  { induction l as [|a l IH]; [reflexivity|]. cbn [map filter]. unfold P at 1.
    destruct (Nat.eqb a i) eqn:E; cbn [negb].
    - apply Nat.eqb_eq in E. subst a. rewrite sumQ_cons, Hi, IH. ring.
    - cbn [map]. rewrite !sumQ_cons, IH. reflexivity. }
  rewrite (drop l1), (drop l2). apply sumQ_perm. apply Permutation_map.
  apply (Permutation_count_occ Nat.eq_dec). intros j. rewrite !count_occ_filter. unfold P.
  destruct (Nat.eqb j i) eqn:E; cbn [negb]; [reflexivity|]. apply Hc. apply Nat.eqb_neq. exact E.
Qed.

(* ---------------------------------------------------------------- the two neighbour lists *)

Definition grid_js (g : grid) (i : nat) : list nat := flat_map (fun dir => olist (nbr g i dir)) dirs.
Definition graph_js (es : list (Z * Z)) (i : nat) : list nat :=
  flat_map (fun e : Z * Z => (if Nat.eqb (Z.to_nat (fst e)) i then [Z.to_nat (snd e)] else [])
                             ++ (if Nat.eqb (Z.to_nat (snd e)) i then [Z.to_nat (fst e)] else [])) es.

Lemma neighbours_grid g h i : neighbours (GGrid g h) i = map (fun j => (j, h * h, h)) (grid_js g i).
Proof.
  unfold neighbours, grid_js. induction dirs as [|d l IH]; [reflexivity|].
  cbn [flat_map]. rewrite map_app, IH. destruct (nbr g i d); reflexivity.
Qed.

Lemma neighbours_graph hs g h i : neighbours (GGraph hs (nat_edges g h)) i = map (fun j => (j, h * h, h)) (graph_js (g2g_edges g) i).
Proof.
  unfold neighbours, slots_of, nat_edges, graph_js. induction (g2g_edges g) as [|e l IH]; [reflexivity|].
  cbn [map flat_map]. rewrite map_app, IH. f_equal. destruct e as [a b]. cbn [fst snd].
  destruct (Nat.eqb (Z.to_nat a) i); destruct (Nat.eqb (Z.to_nat b) i); reflexivity.
Qed.

Lemma grid_js_eq g i : grid_js g i = map Z.to_nat (eng_neighbors g (Z.of_nat i)).
Proof.
  unfold grid_js, eng_neighbors, eng_nbrs_c, nbr, engine_nbr. rewrite map_map.
  induction dirs as [|d l IH]; [reflexivity|].
  cbn [flat_map]. rewrite map_app, IH. f_equal.
  destruct (eng_nbr_c g (coords g (Z.of_nat i)) d); reflexivity.
Qed.

Lemma count_occ_map_to_nat (l : list Z) j :
  (forall a, In a l -> (0 <= a)%Z) ->
  count_occ Nat.eq_dec (map Z.to_nat l) j = countZ (Z.of_nat j) l.
Proof.
  intros H. unfold countZ. induction l as [|a l IH]; [reflexivity|].
  cbn [map count_occ filter]. assert (Ha : (0 <= a)%Z) by (apply H; left; reflexivity).
  assert (IH' : count_occ Nat.eq_dec (map Z.to_nat l) j = length (filter (Z.eqb (Z.of_nat j)) l))
    by (apply IH; intros b Hb; apply H; right; exact Hb).
  destruct (Nat.eq_dec (Z.to_nat a) j) as [E|E]; destruct (Z.eqb_spec (Z.of_nat j) a) as [E'|E']; cbn [length]; try lia.
Qed.

Lemma eng_neighbors_range g a b : wf_grid g -> In b (eng_neighbors g a) -> (0 <= b < gsize g)%Z.
Proof.
  intros Hg Hb. unfold eng_neighbors in Hb. apply in_map_iff in Hb. destruct Hb as (c & <- & Hc).
  apply index_range; [exact Hg|]. eapply eng_nbrs_in_grid. exact Hc.
Qed.

Lemma countZ_absent b l : ~ In b l -> countZ b l = 0%nat.
Proof.
  intros H. unfold countZ. induction l as [|a l IH]; [reflexivity|]. cbn [filter].
  destruct (Z.eqb_spec b a) as [->|Hne]; [exfalso; apply H; left; reflexivity|].
  apply IH. intros Hin. apply H. right. exact Hin.
Qed.

Lemma grid_js_count g i j : wf_grid g -> (Z.of_nat i < gsize g)%Z -> j <> i ->
  count_occ Nat.eq_dec (grid_js g i) j
  = if (Z.of_nat j <? gsize g)%Z then mult3 g (coords g (Z.of_nat i)) (coords g (Z.of_nat j)) else 0%nat.
Proof.
  intros Hg Hi Hne. rewrite grid_js_eq.
  rewrite count_occ_map_to_nat by (intros a Ha; apply (eng_neighbors_range g _ a Hg) in Ha; lia).
  destruct (Z.ltb_spec (Z.of_nat j) (gsize g)) as [Hj|Hj].
  - pose proof (neighbour_multiplicities g (Z.of_nat i) (Z.of_nat j) Hg) as M.
    destruct M as (_ & _ & M & _); try lia.
  - apply countZ_absent. intros Hin. apply (eng_neighbors_range g _ _ Hg) in Hin. lia.
Qed.

Lemma graph_js_count (es : list (Z * Z)) i j : j <> i ->
  (forall e, In e es -> (0 <= fst e)%Z /\ (0 <= snd e)%Z) ->
  count_occ Nat.eq_dec (graph_js es i) j = edge_mult es (Z.of_nat i) (Z.of_nat j).
Proof.
  intros Hne H. unfold graph_js, edge_mult. induction es as [|e l IH]; [reflexivity|].
  cbn [flat_map filter]. rewrite count_occ_app, IH by (intros e' He'; apply H; right; exact He').
  destruct (H e (or_introl eq_refl)) as [Ha Hb]. destruct e as [a b]. cbn [fst snd] in *.
  destruct (Nat.eqb_spec (Z.to_nat a) i) as [E1|E1]; destruct (Nat.eqb_spec (Z.to_nat b) i) as [E2|E2];
  destruct (Z.eqb_spec a (Z.of_nat i)) as [A1|A1]; destruct (Z.eqb_spec b (Z.of_nat j)) as [B1|B1];
  destruct (Z.eqb_spec a (Z.of_nat j)) as [A2|A2]; destruct (Z.eqb_spec b (Z.of_nat i)) as [B2|B2];
  try (exfalso; lia); cbn [app count_occ andb orb length];
  repeat match goal with |- context[Nat.eq_dec ?u ?v] => destruct (Nat.eq_dec u v); try (exfalso; lia) end; lia.
Qed.

Lemma filter_none {A} (P : A -> bool) l : (forall e, In e l -> P e = false) -> length (filter P l) = 0%nat.
Proof.
  induction l as [|a l IH]; intros H; [reflexivity|]. cbn [filter]. rewrite H by (left; reflexivity).
  apply IH. intros e He. apply H. right. exact He.
Qed.

Lemma flat_map_ext_in {A B} (f f' : A -> list B) l : (forall a, In a l -> f a = f' a) -> flat_map f l = flat_map f' l.
Proof.
  induction l as [|a l IH]; intros H; [reflexivity|]. cbn [flat_map]. rewrite H by (left; reflexivity).
  f_equal. apply IH. intros b Hb. apply H. right. exact Hb.
Qed.

Lemma nth_repeat_lt (h d : Qc) n i : (i < n)%nat -> nth i (repeat h n) d = h.
Proof. revert i. induction n as [|n IH]; intros i Hi; [lia|]. destruct i as [|i]; [reflexivity|]. cbn. apply IH. lia. Qed.

(* ---------------------------------------------------------------- the rate law *)

Section Same.
Variables (T : etab) (g : grid) (h : Qc).
Hypothesis Hg : wf_grid g.
Hypothesis Hn : Z.of_nat (nC T) = gsize g.

Let G1 := GGrid g h.
Let G2 := graph_of_grid g h.

Lemma edge_of_same i : (i < nC T)%nat -> edge_of G2 i = edge_of G1 i.
Proof. intros Hi. unfold G2, graph_of_grid, edge_of. apply nth_repeat_lt. lia. Qed.

Lemma vol_of_same i : (i < nC T)%nat -> vol_of G2 i = vol_of G1 i.
Proof. intros Hi. unfold vol_of. rewrite edge_of_same by exact Hi. reflexivity. Qed.

Lemma exchange_same x s i j sf ds : (i < nC T)%nat -> (j < nC T)%nat ->
  exchange T G2 x s i j sf ds = exchange T G1 x s i j sf ds.
Proof. intros Hi Hj. unfold exchange. rewrite !vol_of_same, !edge_of_same by assumption. reflexivity. Qed.

Lemma exchange_self G x s i sf ds : exchange T G x s i i sf ds = 0.
Proof. unfold exchange. ring. Qed.

Lemma grid_js_lt i j : (i < nC T)%nat -> In j (grid_js g i) -> (j < nC T)%nat.
Proof.
  intros Hi. rewrite grid_js_eq, in_map_iff. intros (b & <- & Hb).
  apply (eng_neighbors_range g _ _ Hg) in Hb. lia.
Qed.

Lemma graph_js_lt i j : In j (graph_js (g2g_edges g) i) -> (j < nC T)%nat.
Proof.
  unfold graph_js. rewrite in_flat_map. intros (e & He & Hj).
  apply (g2g_edges_in_range g e Hg) in He. destruct He as [Ha Hb].
  apply in_app_or in Hj. destruct Hj as [Hj|Hj];
    match type of Hj with In _ (if ?c then _ else _) => destruct c end; try destruct Hj as [<-|[]]; try destruct Hj; lia.
Qed.

Theorem grid_graph_rate_law x i s : (i < nC T)%nat -> rate_law T G2 x i s = rate_law T G1 x i s.
Proof.
  intros Hi. unfold rate_law. f_equal.
  - apply sumQ_map_ext. intros r _. unfold mass_action. rewrite vol_of_same by exact Hi. reflexivity.
  - unfold G1, G2, graph_of_grid. rewrite neighbours_grid, neighbours_graph, !map_map. cbn [fst snd].
    fold (graph_of_grid g h). fold G2. fold G1.
    rewrite (sumQ_map_ext (fun j => exchange T G2 x s i j (h * h) h) (fun j => exchange T G1 x s i j (h * h) h))
      by (intros j Hj; apply exchange_same; [exact Hi|apply (graph_js_lt i); exact Hj]).
    apply (sum_by_multiplicity _ i); [apply exchange_self|].
    intros j Hne. rewrite grid_js_count by (try assumption; lia).
    rewrite graph_js_count by (try assumption; intros e He; apply (g2g_edges_in_range g e Hg) in He; lia).
    destruct (Z.ltb_spec (Z.of_nat j) (gsize g)) as [Hj|Hj].
    + apply g2g_edge_multiplicity; try assumption; lia.
    + unfold edge_mult. rewrite filter_none; [reflexivity|].
      intros e He. apply (g2g_edges_in_range g e Hg) in He. destruct e as [a b]. cbn [fst snd] in *.
      destruct (Z.eqb_spec b (Z.of_nat j)); destruct (Z.eqb_spec a (Z.of_nat j)); try lia.
Qed.

Hypothesis Hh : h <> 0.

Lemma wf_geom_grid : wf_geom T G1.
Proof. split; [exact Hg | split; [exact Hh | exact Hn]]. Qed.

Lemma wf_geom_graph : wf_geom T G2.
Proof.
  split.
  - intros i Hi. rewrite repeat_length in Hi. rewrite nth_repeat_lt by exact Hi. exact Hh.
  - intros e He. unfold nat_edges in He. apply in_map_iff in He. destruct He as (e0 & <- & He0).
    apply (g2g_edges_in_range g e0 Hg) in He0. rewrite repeat_length. repeat split; try lia. exact Hh.
Qed.

Theorem grid_graph_dxdt x i s : (i < nC T)%nat -> dxdt T G2 x i s = dxdt T G1 x i s.
Proof.
  intros Hi. destruct (Chs T i s) eqn:C.
  - rewrite !dxdt_chemostat by exact C. reflexivity.
  - rewrite (dxdt_is_rate_law T G2), (dxdt_is_rate_law T G1); try assumption.
    + apply grid_graph_rate_law. exact Hi.
    + exact wf_geom_grid.
    + apply wf_grid_vols. exact wf_geom_grid.
    + exact wf_geom_graph.
    + apply wf_graph_vols; [exact wf_geom_graph|]. rewrite repeat_length. lia.
Qed.

Lemma cm_tabulate_ext (f f' : nat -> nat -> Qc) :
  (forall i s, (i < nC T)%nat -> f i s = f' i s) -> cm_tabulate T f = cm_tabulate T f'.
Proof.
  intros H. unfold cm_tabulate, cell_idx. apply flat_map_ext_in. intros i Hi. apply in_seq in Hi.
  apply map_ext. intros s. apply H. lia.
Qed.

Theorem grid_graph_euler_step dt x : euler_step T G2 dt x = euler_step T G1 dt x.
Proof. unfold euler_step. apply cm_tabulate_ext. intros i s Hi. rewrite grid_graph_dxdt by exact Hi. reflexivity. Qed.

(* every deterministic trajectory: any number of steps, any step, any start *)
Theorem grid_graph_euler_steps dt n x : euler_steps T G2 dt n x = euler_steps T G1 dt n x.
Proof.
  revert x. induction n as [|n IH]; intros x; [reflexivity|].
  cbn [euler_steps]. rewrite grid_graph_euler_step. apply IH.
Qed.

End Same.
