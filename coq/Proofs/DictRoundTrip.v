(* Key-level round trip, generic in the schema: a dictionary that gives every present field under its primary key (what the
   *_to_dict writers do, by C12_written_keys_are_read / C12_every_field_is_written) is accepted by the reader's key processing and
   every field reads back the value that was written, absent fields read as absent - for every well-formed schema. *)
From Coq Require Import NArith List Lia Bool.
From Verif Require Import Num ReactionText ReactionTextFacts Schemas Dict DictFacts.
Import ListNotations.

Section RoundTrip.
  Variable A : Type.
  Notation dict := (dict A).

  Notation entry_of := (entry_of A).
  Notation write_fields := (write_fields A).

  Lemma mem_in k l : existsb (str_eqb k) l = true <-> In k l.
  Proof.
    rewrite existsb_exists. split.
    - intros (x & Hx & E). apply str_eqb_eq in E. subst x. exact Hx.
    - intros H. exists k. split; [exact H|apply str_eqb_eq; reflexivity].
  Qed.

  Lemma nodupb_app_disjoint a b : nodupb (a ++ b) = true -> forall k, In k a -> ~ In k b.
  Proof.
    induction a as [|x a IH]; intros H k Hk; [destruct Hk|].
    cbn [app nodupb] in H. apply andb_true_iff in H. destruct H as [Hx Hr].
    destruct Hk as [->|Hk].
    - intros Hb. apply negb_true_iff in Hx. assert (existsb (str_eqb k) (a ++ b) = true) by (apply mem_in, in_or_app; right; exact Hb). congruence.
    - apply IH; assumption.
  Qed.

  Lemma nodupb_app_r a b : nodupb (a ++ b) = true -> nodupb b = true.
  Proof.
    induction a as [|x a IH]; intros H; [exact H|]. cbn [app nodupb] in H. apply andb_true_iff in H. apply IH. apply H.
  Qed.

  Lemma keys_in_concat sc vals kv : In kv (write_fields sc vals) -> In (fst kv) (concat sc).
  Proof.
    unfold write_fields. revert vals. induction sc as [|syn sc IH]; intros [|v vals] H; try destruct H.
    cbn [combine flat_map concat] in *. apply in_app_or in H. apply in_or_app. destruct H as [H|H].
    - left. unfold entry_of in H. cbn [fst snd] in H. destruct syn as [|p syn]; [destruct H|]. destruct v as [a|]; [|destruct H].
      destruct H as [<-|[]]. left. reflexivity.
    - right. eapply IH. exact H.
  Qed.

  Lemma in_syn_concat k syn sc : In syn sc -> in_syn k syn = true -> In k (concat sc).
  Proof.
    intros Hs Hk. apply mem_in in Hk. induction sc as [|s sc IH]; [destruct Hs|]. cbn [concat]. apply in_or_app.
    destruct Hs as [->|Hs]; [left; exact Hk|right; apply IH; exact Hs].
  Qed.

  (* entries whose keys are all outside a synonym list do not count for it and are not found by it *)
  Lemma count_outside syn (d : dict) : (forall kv, In kv d -> in_syn (fst kv) syn = false) -> count_in A syn d = 0%nat.
  Proof.
    intros H. unfold count_in. induction d as [|kv d IH]; [reflexivity|]. cbn [filter].
    rewrite (H kv (or_introl eq_refl)). apply IH. intros x Hx. apply H. right. exact Hx.
  Qed.
  Lemma field_outside syn (d : dict) : (forall kv, In kv d -> in_syn (fst kv) syn = false) -> field A syn d = None.
  Proof.
    intros H. unfold field. induction d as [|kv d IH]; [reflexivity|]. cbn [find].
    rewrite (H kv (or_introl eq_refl)). apply IH. intros x Hx. apply H. right. exact Hx.
  Qed.

  Lemma not_in_syn k syn : ~ In k syn -> in_syn k syn = false.
  Proof. intros H. unfold in_syn. destruct (existsb (str_eqb k) syn) eqn:E; [|reflexivity]. apply mem_in in E. contradiction. Qed.

  Theorem write_then_read sc vals : wf_schema sc = true -> length vals = length sc ->
    (forall syn, In syn sc -> syn <> []) ->
    read_fields A sc (write_fields sc vals) = Ok vals.
  Proof.
    unfold wf_schema, read_fields. revert vals.
    induction sc as [|syn sc IH]; intros vals Hwf Hlen Hne.
    - destruct vals; [reflexivity|discriminate].
    - destruct vals as [|v vals]; [discriminate|]. cbn [length] in Hlen.
      cbn [concat] in Hwf. pose proof (nodupb_app_r _ _ Hwf) as Hwf'.
      pose proof (nodupb_app_disjoint _ _ Hwf) as Hdis.
      assert (Hne' : forall s, In s sc -> s <> []) by (intros s Hs; apply Hne; right; exact Hs).
      specialize (IH vals Hwf' (eq_add_S _ _ Hlen) Hne').
      set (d' := write_fields sc vals) in *.
      assert (Hd : write_fields (syn :: sc) (v :: vals) = entry_of (syn, v) ++ d') by reflexivity.
      rewrite Hd. clear Hd.
      (* keys of the tail are outside syn *)
      assert (Hout : forall kv, In kv d' -> in_syn (fst kv) syn = false).
      { intros kv Hkv. apply not_in_syn. intros Hin. apply (Hdis _ Hin). apply (keys_in_concat sc vals). exact Hkv. }
      destruct (keys_ok A sc d') eqn:K; [|discriminate]. injection IH as IH.
      unfold keys_ok in K. apply andb_true_iff in K. destruct K as [K1 K2].
      destruct syn as [|p syn]; [exfalso; apply (Hne []); [left; reflexivity|reflexivity]|].
      assert (Hp : in_syn p (p :: syn) = true) by (unfold in_syn; cbn [existsb]; rewrite (proj2 (str_eqb_eq p p) eq_refl); reflexivity).
      (* the head key belongs to no other field *)
      assert (Hpo : forall s, In s sc -> in_syn p s = false).
      { intros s Hs. destruct (in_syn p s) eqn:E; [|reflexivity]. exfalso. apply (Hdis p (or_introl eq_refl)). eapply in_syn_concat; eassumption. }
      assert (Kn : forallb (fun kv : str * A => known ((p :: syn) :: sc) (fst kv)) d' = true).
      { rewrite forallb_forall in K1 |- *. intros kv Hkv. unfold known. cbn [existsb]. unfold known in K1. rewrite (K1 kv Hkv). apply orb_true_r. }
      assert (Kc : forall e, (forall kv, In kv e -> fst kv = p) ->
                 forallb (fun s => Nat.leb (count_in A s (e ++ d')) 1) sc = true).
      { intros e He. rewrite forallb_forall in K2 |- *. intros s Hs. specialize (K2 s Hs).
        unfold count_in in *. rewrite filter_app, app_length.
        assert (length (filter (fun kv : str * A => in_syn (fst kv) s) e) = 0%nat) as ->; [|exact K2].
        apply (count_outside s e). intros kv Hkv. rewrite (He kv Hkv). apply Hpo. exact Hs. }
      assert (Fo : forall e, (forall kv, In kv e -> fst kv = p) -> map (fun s => field A s (e ++ d')) sc = map (fun s => field A s d') sc).
      { intros e He. apply map_ext_in. intros s Hs. unfold field. f_equal.
        induction e as [|kv e IHe]; [reflexivity|]. cbn [app find].
        assert (in_syn (fst kv) s = false) as -> by (rewrite (He kv (or_introl eq_refl)); apply Hpo; exact Hs).
        apply IHe. intros x Hx. apply He. right. exact Hx. }
      destruct v as [a|]; unfold entry_of; cbn [fst snd].
      + assert (He : forall kv, In kv [(p, a)] -> fst kv = p) by (intros kv [<-|[]]; reflexivity).
        assert (KK : keys_ok A ((p :: syn) :: sc) ([(p, a)] ++ d') = true).
        { unfold keys_ok. cbn [app forallb fst]. apply andb_true_iff. split.
          - apply andb_true_iff. split; [|exact Kn]. unfold known. cbn [existsb]. rewrite Hp. reflexivity.
          - apply andb_true_iff. split; [|exact (Kc _ He)].
            unfold count_in. cbn [filter fst]. rewrite Hp. cbn [length].
            fold (count_in A (p :: syn) d'). rewrite (count_outside (p :: syn) d' Hout). reflexivity. }
        rewrite KK. cbn [map]. f_equal. f_equal.
        * unfold field. cbn [app find fst]. rewrite Hp. reflexivity.
        * rewrite (Fo _ He). exact IH.
      + assert (He : forall kv, In kv (@nil (str * A)) -> fst kv = p) by (intros kv []).
        assert (KK : keys_ok A ((p :: syn) :: sc) ([] ++ d') = true).
        { unfold keys_ok. cbn [app]. apply andb_true_iff. split; [exact Kn|]. cbn [forallb]. apply andb_true_iff. split; [|exact (Kc [] He)].
          rewrite (count_outside (p :: syn) d' Hout). reflexivity. }
        rewrite KK. cbn [map app]. f_equal. f_equal.
        * apply field_outside. exact Hout.
        * exact IH.
  Qed.
End RoundTrip.

(* all twelve schemas of the package are well formed and have no empty synonym list: the theorem applies to each *)
Lemma schemas_nonempty : forallb (fun sc : schema => forallb (fun syn => match syn with [] => false | _ => true end) sc) all_schemas = true.
Proof. vm_compute. reflexivity. Qed.
