(* The waiting time drawn by the Gillespie engine, dt = ln(1/u)/a0 with u uniform on (0,1): it is positive, and
   it exceeds tau exactly when u < exp(-a0 tau) - the survival function of the exponential law of rate a0.
   (Coq's axiomatised reals: the standard library's real-number axioms are used here and only here.) *)
From Coq Require Import Reals Lra.
Open Scope R_scope.

Lemma waiting_time_positive u a0 : 0 < u < 1 -> 0 < a0 -> 0 < ln (/ u) / a0.
Proof.
  intros [Hu0 Hu1] Ha. apply Rdiv_lt_0_compat; [|exact Ha].
  rewrite ln_Rinv by exact Hu0. assert (ln u < 0) by (rewrite <- ln_1; apply ln_increasing; lra). lra.
Qed.

Lemma waiting_time_survival u a0 tau : 0 < u < 1 -> 0 < a0 ->
  (tau < ln (/ u) / a0 <-> u < exp (- a0 * tau)).
Proof.
  intros [Hu0 Hu1] Ha. rewrite ln_Rinv by exact Hu0. split; intro H.
  - assert (H1 : a0 * tau < - ln u).
    { apply (Rmult_lt_compat_l a0) in H; [|exact Ha]. unfold Rdiv in H. rewrite <- Rmult_assoc, Rinv_r_simpl_m in H by lra. exact H. }
    rewrite <- (exp_ln u Hu0) at 1. apply exp_increasing. lra.
  - assert (H1 : ln u < - a0 * tau).
    { rewrite <- (ln_exp (- a0 * tau)). apply ln_increasing; [exact Hu0|exact H]. }
    apply (Rmult_lt_reg_l a0); [exact Ha|]. unfold Rdiv. rewrite <- Rmult_assoc, Rinv_r_simpl_m by lra. lra.
Qed.
