(* C02 for the deterministic engine: every conservation law of the network is preserved exactly
   (over Qc) by an Euler step, for grid and graph geometry; diffusion alone conserves every species. *)
From Coq Require Import ZArith QArith Qcanon List Lia Field Arith Bool Permutation.
From Verif Require Import Num NumFacts Grid GridFacts Units System SystemFacts Engine EngineFacts.
Import ListNotations.
Open Scope Qc_scope.

(* ---------------------------------------------------------------- sums *)

Lemma sumQ_perm l l' : Permutation l l' -> sumQ l = sumQ l'.
Proof.
  induction 1; try reflexivity.
  - rewrite !sumQ_cons. congruence.
  - rewrite !sumQ_cons. ring.
  - congruence.
Qed.

Lemma Qc_self_opp x : x = - x -> x = 0.
Proof.
  intros H. assert (E : (1 + 1) * x = 0) by (replace ((1 + 1) * x) with (x + x) by ring; rewrite H at 1; ring).
  apply Qcmult_integral in E. destruct E as [E|E]; [discriminate E | exact E].
Qed.

Lemma sum_involution_zero N (phi : nat -> nat) (f : nat -> Qc) :
  (forall p, (p < N)%nat -> (phi p < N)%nat) ->
  (forall p, (p < N)%nat -> phi (phi p) = p) ->
  (forall p, (p < N)%nat -> f (phi p) = - f p) ->
  sumQ (map f (seq 0 N)) = 0.
Proof.
  intros Hr Hi Ha.
  assert (P : Permutation (seq 0 N) (map phi (seq 0 N))).
  { apply NoDup_Permutation_bis.
    - apply seq_NoDup.
    - rewrite map_length. lia.
    - intros p Hp. apply in_seq in Hp. apply in_map_iff. exists (phi p). split.
      + apply Hi. lia.
      + apply in_seq. split; [lia|]. simpl. apply Hr. lia. }
  apply Qc_self_opp.
  rewrite (sumQ_perm _ _ (Permutation_map f P)) at 1. rewrite map_map.
  rewrite <- sumQ_map_opp. apply sumQ_map_ext. intros p Hp. apply in_seq in Hp. apply Ha. lia.
Qed.

Lemma sumQ_swap {A B} (f : A -> B -> Qc) (l : list A) (m : list B) :
  sumQ (map (fun a => sumQ (map (fun b => f a b) m)) l) = sumQ (map (fun b => sumQ (map (fun a => f a b) l)) m).
Proof.
  induction l as [|a l IH]; cbn [map].
  - rewrite sumQ_nil. symmetry. apply sumQ_map_zero. intros; apply sumQ_nil.
  - rewrite sumQ_cons, IH. rewrite <- sumQ_map_plus. apply sumQ_map_ext. intros b _. rewrite sumQ_cons. reflexivity.
Qed.

Lemma seq_add_map k m : seq k m = map (fun d => (k + d)%nat) (seq 0 m).
Proof.
  induction k as [|k IH]; [rewrite map_id; reflexivity|].
  rewrite <- seq_shift, IH, map_map. reflexivity.
Qed.

Lemma sumQ_seq_mul (f : nat -> Qc) n m :
  sumQ (map f (seq 0 (n * m))) = sumQ (map (fun i => sumQ (map (fun d => f (i * m + d)%nat) (seq 0 m))) (seq 0 n)).
Proof.
  induction n as [|n IH].
  - reflexivity.
  - replace (S n * m)%nat with (n * m + m)%nat by lia. rewrite seq_app, map_app, sumQ_app, IH.
    rewrite seq_S, map_app, sumQ_app. cbn [map]. rewrite sumQ_cons, sumQ_nil. cbn [Nat.add].
    f_equal. rewrite (seq_add_map (n * m) m), map_map. ring.
Qed.

(* ---------------------------------------------------------------- grid: diffusion sums to zero *)

Lemma divmod6 i d : (d < 6)%nat -> ((i * 6 + d) / 6 = i /\ (i * 6 + d) mod 6 = d)%nat.
Proof.
  intros H. split.
  - symmetry. apply (Nat.div_unique (i * 6 + d) 6 i d); lia.
  - symmetry. apply (Nat.mod_unique (i * 6 + d) 6 i d); lia.
Qed.

Lemma opp_dir_lt d : (d < 6)%nat -> (opp_dir d < 6)%nat.
Proof. intros H. do 6 (destruct d as [|d]; [simpl; lia|]). lia. Qed.

Lemma opp_dir_invol d : (d < 6)%nat -> opp_dir (opp_dir d) = d.
Proof. intros H. do 6 (destruct d as [|d]; [reflexivity|]). lia. Qed.

Lemma flux_grid_antisym T g h x i s d j : wf_geom T (GGrid g h) -> (i < nC T)%nat -> (d < 6)%nat ->
  nbr g i d = Some j -> flux_grid T g h x j s (opp_dir d) = - flux_grid T g h x i s d.
Proof.
  intros Hw Hi Hd Hn. destruct (nbr_involution T g h i d j Hw Hi Hd Hn) as [Hj Hb].
  unfold flux_grid. rewrite Hb, Hn, opp_dir_invol by exact Hd. ring.
Qed.

Theorem grid_diffusion_total_zero T g h x s : wf_geom T (GGrid g h) ->
  sumQ (map (fun i => diffusion_out T (GGrid g h) x i s) (cell_idx T)) = 0.
Proof.
  intros Hw. unfold cell_idx, diffusion_out. change dirs with (seq 0 6).
  set (F := fun p => flux_grid T g h x (p / 6) s (p mod 6)).
  assert (E : sumQ (map (fun i => sumQ (map (fun dir => flux_grid T g h x i s dir) (seq 0 6))) (seq 0 (nC T)))
            = sumQ (map F (seq 0 (nC T * 6)))).
  { rewrite sumQ_seq_mul. apply sumQ_map_ext. intros i _. apply sumQ_map_ext. intros d Hd.
    apply in_seq in Hd. unfold F. destruct (divmod6 i d) as [E1 E2]; [lia|]. rewrite E1, E2. reflexivity. }
  rewrite E. clear E.
  set (phi := fun p => match nbr g (p / 6) (p mod 6) with
                       | Some j => (j * 6 + opp_dir (p mod 6))%nat
                       | None => p end).
  assert (Hdm : forall p, (p < nC T * 6)%nat -> (p / 6 < nC T)%nat /\ (p mod 6 < 6)%nat).
  { intros p Hp. split; [apply Nat.div_lt_upper_bound; lia | apply Nat.mod_upper_bound; lia]. }
  apply (sum_involution_zero (nC T * 6) phi F).
  - intros p Hp. destruct (Hdm p Hp) as [Hi Hd]. unfold phi.
    destruct (nbr g (p / 6) (p mod 6)) as [j|] eqn:En; [|exact Hp].
    destruct (nbr_involution T g h _ _ j Hw Hi Hd En) as [Hj _].
    pose proof (opp_dir_lt _ Hd). nia.
  - intros p Hp. destruct (Hdm p Hp) as [Hi Hd]. unfold phi at 2.
    destruct (nbr g (p / 6) (p mod 6)) as [j|] eqn:En.
    + destruct (nbr_involution T g h _ _ j Hw Hi Hd En) as [Hj Hb].
      unfold phi. destruct (divmod6 j (opp_dir (p mod 6)) (opp_dir_lt _ Hd)) as [E1 E2].
      rewrite E1, E2, Hb, opp_dir_invol by exact Hd.
      symmetry. rewrite Nat.mul_comm. apply Nat.div_mod. lia.
    + unfold phi. rewrite En. reflexivity.
  - intros p Hp. destruct (Hdm p Hp) as [Hi Hd]. unfold phi.
    destruct (nbr g (p / 6) (p mod 6)) as [j|] eqn:En.
    + unfold F. destruct (divmod6 j (opp_dir (p mod 6)) (opp_dir_lt _ Hd)) as [E1 E2]. rewrite E1, E2.
      apply flux_grid_antisym; assumption.
    + unfold F, flux_grid. rewrite En. ring.
Qed.

(* ---------------------------------------------------------------- graph: diffusion sums to zero *)

Lemma sum_indicator (a n : nat) (hf : nat -> Qc) :
  sumQ (map (fun i => if Nat.eqb a i then hf i else 0) (seq 0 n)) = if (a <? n)%nat then hf a else 0.
Proof.
  induction n as [|n IH].
  - reflexivity.
  - rewrite seq_S, map_app, sumQ_app, IH. cbn [map Nat.add]. rewrite sumQ_cons, sumQ_nil.
    destruct (Nat.eqb a n) eqn:E.
    + apply Nat.eqb_eq in E. subst a.
      replace (n <? n)%nat with false by (symmetry; apply Nat.ltb_ge; lia).
      replace (n <? S n)%nat with true by (symmetry; apply Nat.ltb_lt; lia). ring.
    + apply Nat.eqb_neq in E. destruct (Nat.ltb_spec a n).
      * replace (a <? S n)%nat with true by (symmetry; apply Nat.ltb_lt; lia). ring.
      * replace (a <? S n)%nat with false by (symmetry; apply Nat.ltb_ge; lia). ring.
Qed.

Lemma slots_of_cons a b sf ds es i :
  slots_of ((a, b, sf, ds) :: es) i
  = (if Nat.eqb a i then [(b, sf, ds)] else []) ++ (if Nat.eqb b i then [(a, sf, ds)] else []) ++ slots_of es i.
Proof. unfold slots_of. cbn [flat_map]. rewrite <- app_assoc. reflexivity. Qed.

Lemma sum_slots (gf : nat -> slot -> Qc) (edges : list gedge) (n : nat) :
  sumQ (map (fun i => sumQ (map (gf i) (slots_of edges i))) (seq 0 n))
  = sumQ (map (fun e : gedge => let '(a, b, sf, ds) := e in
                 (if (a <? n)%nat then gf a (b, sf, ds) else 0) + (if (b <? n)%nat then gf b (a, sf, ds) else 0)) edges).
Proof.
  induction edges as [|e es IH].
  - cbn [slots_of flat_map map]. rewrite sumQ_nil. apply sumQ_map_zero. intros; apply sumQ_nil.
  - cbn [map]. rewrite sumQ_cons, <- IH. destruct e as [[[a b] sf] ds].
    rewrite <- (sum_indicator a n (fun i => gf i (b, sf, ds))), <- (sum_indicator b n (fun i => gf i (a, sf, ds))).
    rewrite <- !sumQ_map_plus. apply sumQ_map_ext. intros i _.
    rewrite slots_of_cons, !map_app, !sumQ_app. unfold slot in *.
    generalize (sumQ (map (gf i) (slots_of es i))). intros z.
    destruct (Nat.eqb a i), (Nat.eqb b i); cbn [map]; rewrite ?sumQ_cons, ?sumQ_nil; ring.
Qed.

Lemma flux_graph_pair T hs edges x s a b sf ds : wf_geom T (GGraph hs edges) -> In (a, b, sf, ds) edges ->
  flux_graph T hs x a s (b, sf, ds) + flux_graph T hs x b s (a, sf, ds) = 0.
Proof.
  intros (Hh & He) Hin. specialize (He _ Hin). cbn in He. destruct He as (Ha & Hb & Hds).
  unfold flux_graph, kd_out, kd_in. cbn [fst snd].
  rewrite (Dint_sym (nth b hs 0) (nth a hs 0)). unfold cube. field. repeat split; auto.
Qed.

Theorem graph_diffusion_total_zero T hs edges x s : wf_geom T (GGraph hs edges) -> nC T = length hs ->
  sumQ (map (fun i => diffusion_out T (GGraph hs edges) x i s) (cell_idx T)) = 0.
Proof.
  intros Hw Hn. unfold cell_idx, diffusion_out.
  rewrite (sum_slots (fun i sl => flux_graph T hs x i s sl) edges (nC T)).
  apply sumQ_map_zero. intros e He. destruct e as [[[a b] sf] ds].
  pose proof Hw as (_ & Hedges). specialize (Hedges _ He). cbn in Hedges. destruct Hedges as (Ha & Hb & _).
  replace (a <? nC T)%nat with true by (symmetry; apply Nat.ltb_lt; lia).
  replace (b <? nC T)%nat with true by (symmetry; apply Nat.ltb_lt; lia).
  apply (flux_graph_pair T hs edges x s a b sf ds Hw He).
Qed.

Theorem diffusion_total_zero T G x s : wf_geom T G -> (match G with GGraph hs _ => nC T = length hs | _ => True end) ->
  sumQ (map (fun i => diffusion_out T G x i s) (cell_idx T)) = 0.
Proof.
  intros Hw Hn. destruct G as [g h|hs edges]; [apply grid_diffusion_total_zero | apply graph_diffusion_total_zero]; assumption.
Qed.

(* ---------------------------------------------------------------- conservation laws *)

Lemma this_QcZ' z : (this (QcZ z) == inject_Z z)%Q.
Proof. apply this_Q2Qc. Qed.

Lemma QcZ_add a b : QcZ (a + b) = QcZ a + QcZ b.
Proof. apply Qc_is_canon. rewrite this_plus, !this_QcZ'. rewrite inject_Z_plus. reflexivity. Qed.

Lemma QcZ_mul a b : QcZ (a * b) = QcZ a * QcZ b.
Proof. apply Qc_is_canon. rewrite this_mult, !this_QcZ'. rewrite inject_Z_mult. reflexivity. Qed.

Lemma QcZ_0 : QcZ 0 = 0.
Proof. apply Qc_is_canon. rewrite this_QcZ'. reflexivity. Qed.

Lemma QcZ_sum {A} (f : A -> Z) l : QcZ (fold_right Z.add 0%Z (map f l)) = sumQ (map (fun a => QcZ (f a)) l).
Proof. induction l as [|a l IH]; cbn [map fold_right]; [apply QcZ_0|]. rewrite QcZ_add, IH, sumQ_cons. reflexivity. Qed.

Definition Cc (c : list Z) (s : nat) : Qc := QcZ (nth s c 0%Z).

(* system-wide total of the integer combination c of species *)
Definition total (T : etab) (c : list Z) (x : list Qc) : Qc :=
  sumQ (map (fun i => sumQ (map (fun s => Cc c s * X T x i s) (species_idx T))) (cell_idx T)).

(* c is left unchanged by every reaction: c . sto(:, r) = 0 *)
Definition conserved (T : etab) (c : list Z) : Prop :=
  forall r, (r < nR T)%nat -> fold_right Z.add 0%Z (map (fun s => (nth s c 0 * Sto T s r)%Z) (species_idx T)) = 0%Z.

(* c involves no chemostated species *)
Definition unchemostated (T : etab) (c : list Z) : Prop :=
  forall s i, (s < nS T)%nat -> (i < nC T)%nat -> nth s c 0%Z <> 0%Z -> Chs T i s = false.

Lemma weighted_dxdt T G x c i s : unchemostated T c -> (s < nS T)%nat -> (i < nC T)%nat ->
  Cc c s * dxdt T G x i s = Cc c s * reaction_part T G x i s - Cc c s * diffusion_out T G x i s.
Proof.
  intros Hu Hs Hi. unfold Cc. destruct (Z.eq_dec (nth s c 0%Z) 0) as [E|E].
  - rewrite E, QcZ_0. ring.
  - unfold dxdt. rewrite (Hu s i Hs Hi E). ring.
Qed.

Lemma reaction_total_zero T G x c i : conserved T c ->
  sumQ (map (fun s => Cc c s * reaction_part T G x i s) (species_idx T)) = 0.
Proof.
  intros Hc. unfold reaction_part.
  assert (E : sumQ (map (fun s => Cc c s * sumQ (map (fun r => QcZ (Sto T s r) * reaction_rate T G x i r) (reaction_idx T))) (species_idx T))
            = sumQ (map (fun s => sumQ (map (fun r => Cc c s * QcZ (Sto T s r) * reaction_rate T G x i r) (reaction_idx T))) (species_idx T))).
  { apply sumQ_map_ext. intros s _. rewrite <- sumQ_map_scal. apply sumQ_map_ext. intros; ring. }
  rewrite E, sumQ_swap. apply sumQ_map_zero. intros r Hr. apply in_seq in Hr.
  assert (E2 : sumQ (map (fun s => Cc c s * QcZ (Sto T s r) * reaction_rate T G x i r) (species_idx T))
             = reaction_rate T G x i r * sumQ (map (fun s => QcZ (nth s c 0 * Sto T s r)%Z) (species_idx T))).
  { rewrite <- sumQ_map_scal. apply sumQ_map_ext. intros s _. unfold Cc. rewrite QcZ_mul. ring. }
  rewrite E2, <- QcZ_sum, Hc by lia. rewrite QcZ_0. ring.
Qed.

Lemma sumQ_map_minus {A} (f g : A -> Qc) l :
  sumQ (map (fun a => f a - g a) l) = sumQ (map f l) - sumQ (map g l).
Proof. induction l as [|a l IH]; cbn [map]; [rewrite !sumQ_nil; ring|]. rewrite !sumQ_cons, IH. ring. Qed.

Lemma sumQ_map_scal_r {A} (k : Qc) (f : A -> Qc) l :
  sumQ (map (fun a => f a * k) l) = sumQ (map f l) * k.
Proof. induction l as [|a l IH]; cbn [map]; [rewrite !sumQ_nil; ring|]. rewrite !sumQ_cons, IH. ring. Qed.

Theorem euler_step_conserves T G dt x c :
  wf_geom T G -> (match G with GGraph hs _ => nC T = length hs | _ => True end) ->
  conserved T c -> unchemostated T c ->
  total T c (euler_step T G dt x) = total T c x.
Proof.
  intros Hw Hn Hc Hu. unfold total.
  set (A := fun i => sumQ (map (fun s => Cc c s * X T x i s) (species_idx T))).
  set (R := fun i => sumQ (map (fun s => Cc c s * reaction_part T G x i s) (species_idx T))).
  set (Dd := fun i => sumQ (map (fun s => Cc c s * diffusion_out T G x i s) (species_idx T))).
  assert (E : sumQ (map (fun i => sumQ (map (fun s => Cc c s * X T (euler_step T G dt x) i s) (species_idx T))) (cell_idx T))
            = sumQ (map (fun i => A i + (R i - Dd i) * dt) (cell_idx T))).
  { apply sumQ_map_ext. intros i Hi. apply in_seq in Hi. unfold A, R, Dd.
    rewrite <- sumQ_map_minus, <- sumQ_map_scal_r, <- sumQ_map_plus.
    apply sumQ_map_ext. intros s Hs. apply in_seq in Hs.
    rewrite euler_step_entry by lia.
    replace (Cc c s * (X T x i s + dxdt T G x i s * dt)) with (Cc c s * X T x i s + (Cc c s * dxdt T G x i s) * dt) by ring.
    rewrite (weighted_dxdt T G x c i s Hu) by lia. reflexivity. }
  rewrite E, sumQ_map_plus, sumQ_map_scal_r, sumQ_map_minus.
  assert (ER : sumQ (map R (cell_idx T)) = 0).
  { apply sumQ_map_zero. intros i _. unfold R. apply reaction_total_zero. exact Hc. }
  assert (ED : sumQ (map Dd (cell_idx T)) = 0).
  { unfold Dd. rewrite sumQ_swap. apply sumQ_map_zero. intros s _.
    rewrite sumQ_map_scal. rewrite diffusion_total_zero by assumption. ring. }
  rewrite ER, ED. ring.
Qed.

Theorem euler_steps_conserve T G dt n x c :
  wf_geom T G -> (match G with GGraph hs _ => nC T = length hs | _ => True end) ->
  conserved T c -> unchemostated T c ->
  total T c (euler_steps T G dt n x) = total T c x.
Proof.
  intros Hw Hn Hc Hu. revert x. induction n as [|n IH]; intros x; cbn [euler_steps]; [reflexivity|].
  rewrite IH. apply euler_step_conserves; assumption.
Qed.

(* diffusion alone (no reaction) conserves every species total that is not chemostated *)
Definition unit_vec (n k : nat) : list Z := map (fun s => if Nat.eqb s k then 1%Z else 0%Z) (seq 0 n).

Lemma nth_unit_vec n k s : (s < n)%nat -> nth s (unit_vec n k) 0%Z = if Nat.eqb s k then 1%Z else 0%Z.
Proof.
  intros H. unfold unit_vec.
  rewrite (nth_map' (fun s => if Nat.eqb s k then 1%Z else 0%Z) (seq 0 n) s 0%Z 0%nat) by (rewrite seq_length; exact H).
  rewrite seq_nth by exact H. reflexivity.
Qed.

Theorem diffusion_only_conserves_species T G dt x k :
  wf_geom T G -> (match G with GGraph hs _ => nC T = length hs | _ => True end) ->
  nR T = 0%nat -> (forall i, (i < nC T)%nat -> Chs T i k = false) ->
  total T (unit_vec (nS T) k) (euler_step T G dt x) = total T (unit_vec (nS T) k) x.
Proof.
  intros Hw Hn Hr Hk. apply euler_step_conserves; try assumption.
  - intros r Hlt. lia.
  - intros s i Hs Hi Hne. rewrite nth_unit_vec in Hne by exact Hs.
    destruct (Nat.eqb s k) eqn:E; [|congruence]. apply Nat.eqb_eq in E. subst s. apply Hk. exact Hi.
Qed.
