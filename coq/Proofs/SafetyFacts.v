From Coq Require Import ZArith QArith Qcanon List Lia.
From Verif Require Import Num NumFacts Grid GridFacts Sampling SamplingFacts Safety.
Open Scope Qc_scope.

Lemma read_in_range {A} (l : list A) i : (i < length l)%nat -> exists a, read l i = Safe a.
Proof.
  intro H. unfold read. destruct (nth_error l i) eqn:E; [eexists; reflexivity|].
  apply nth_error_None in E. lia.
Qed.

(* the loop never reads outside t_samples, and computes what `consume` computes on the pending requests *)
Lemma tsample_loop_safe fuel : forall ts pos t, (pos <= length ts)%nat -> (length ts - pos < fuel)%nat ->
  tsample_loop fuel ts pos t = Safe (fst (consume t (skipn pos ts)), (length ts - length (snd (consume t (skipn pos ts))))%nat).
Proof.
  induction fuel as [|f IH]; intros ts pos t Hp Hf; [lia|].
  cbn [tsample_loop]. destruct (Nat.ltb_spec pos (length ts)) as [Hlt|Hge].
  - unfold read. destruct (nth_error ts pos) as [tau|] eqn:E; [|apply nth_error_None in E; lia].
    assert (Hs : skipn pos ts = tau :: skipn (S pos) ts).
    { clear -E. revert pos E. induction ts as [|a ts IH]; intros [|pos] E; try discriminate.
      - injection E as ->. reflexivity.
      - cbn in E. cbn [skipn]. apply IH. exact E. }
    rewrite Hs. cbn [consume]. destruct (Qcleb tau t).
    + rewrite IH by lia. cbn [fst snd]. reflexivity.
    + cbn [fst snd]. f_equal. f_equal. rewrite <- Hs, skipn_length. lia.
  - rewrite skipn_all2 by lia. cbn. f_equal. f_equal. lia.
Qed.

Theorem tsample_loop_never_faults ts pos t : tsample_loop (S (length ts)) ts pos t <> Fault.
Proof.
  destruct (Nat.le_gt_cases pos (length ts)) as [H|H].
  - rewrite tsample_loop_safe by lia. discriminate.
  - cbn [tsample_loop]. destruct (Nat.ltb_spec pos (length ts)); [lia|discriminate].
Qed.

(* offsets a * B + b with a < A, b < B stay below A * B *)
Lemma offset_lt a b A B : (a < A)%nat -> (b < B)%nat -> (a * B + b < A * B)%nat.
Proof.
  intros Ha Hb. assert (H : (S a * B <= A * B)%nat) by (apply Nat.mul_le_mono_r; lia). cbn in H. lia.
Qed.
Lemma export_offset n s i N nS nC : (n < N)%nat -> (s < nS)%nat -> (i < nC)%nat ->
  (n * nC * nS + s * nC + i < N * nC * nS)%nat.
Proof.
  intros Hn Hs Hi. pose proof (offset_lt s i nS nC Hs Hi) as H1.
  pose proof (offset_lt n (s * nC + i) N (nS * nC) Hn H1) as H2.
  replace (n * nC * nS)%nat with (n * (nS * nC))%nat by (rewrite <- Nat.mul_assoc; f_equal; apply Nat.mul_comm).
  replace (N * nC * nS)%nat with (N * (nS * nC))%nat by (rewrite <- Nat.mul_assoc; f_equal; apply Nat.mul_comm). lia.
Qed.

(* every entry of the neighbour table is -1 (None) or a cell of the grid *)
Lemma neighbour_entry_in_range g i dir j : wf_grid g -> (0 <= i < gsize g)%Z -> (dir < 6)%nat ->
  engine_nbr g i dir = Some j -> (0 <= j < gsize g)%Z.
Proof. intros Hg Hi Hd H. apply (engine_nbr_involution g i dir j Hg Hi Hd H). Qed.

Lemma poisson_library_precondition lambda : poisson_enters_library lambda = true -> poisson_precondition lambda = true.
Proof. intro H. exact H. Qed.
