(* Object-level round trips (Model/ObjDict.v): what unitssystem_to_dict writes, unitssystem_from_dict reads back as the same units
   system; what species_to_dict writes, species_from_dict reads back as the same species - same label, flags and units system,
   every diffusion coefficient and density with a bit-identical value and an equivalent unit - whatever the parent's units. *)
From Coq Require Import NArith ZArith List Lia Bool.
From Verif Require Import Num ReactionText ReactionTextFacts Units UnitsFacts UnitText UnitTextFacts Schemas Dict DictFacts DictRoundTrip ObjDict.
Import ListNotations.

Definition wr := write_fields jv.

Lemma schema_ok_usys : wf_schema schema_unitssystem = true /\ forallb (fun syn : list str => match syn with [] => false | _ => true end) schema_unitssystem = true
                       /\ length schema_unitssystem = 3%nat.
Proof. vm_compute. repeat split. Qed.
Lemma schema_ok_species : wf_schema schema_species = true /\ forallb (fun syn : list str => match syn with [] => false | _ => true end) schema_species = true
                          /\ length schema_species = 5%nat.
Proof. vm_compute. repeat split. Qed.

Lemma schema_ok_reaction : wf_schema schema_reaction = true /\ forallb (fun syn : list str => match syn with [] => false | _ => true end) schema_reaction = true
                           /\ length schema_reaction = 5%nat.
Proof. vm_compute. repeat split. Qed.

Lemma nonempty_of_forallb (sc : schema) : forallb (fun syn : list str => match syn with [] => false | _ => true end) sc = true ->
  forall syn, In syn sc -> syn <> [].
Proof. intros H syn Hin. rewrite forallb_forall in H. specialize (H syn Hin). destruct syn; [discriminate|discriminate]. Qed.

Theorem usys_roundtrip u : read_usys (write_usys wr u) = Ok u.
Proof.
  destruct schema_ok_usys as (Hwf & Hne & Hlen). unfold read_usys, write_usys, wr.
  rewrite (write_then_read jv schema_unitssystem _ Hwf) by (try (cbn [length]; rewrite Hlen; reflexivity); apply nonempty_of_forallb; exact Hne).
  rewrite classify_space, classify_time, classify_amount. destruct u. reflexivity.
Qed.

Section WithFloat.
  Variable F : Type.
  Variable parse_float : str -> option F.
  Variable print_float : F -> str.
  Variable zero : F.
  Hypothesis float_roundtrip : forall x, parse_float (print_float x) = Some x.
  Hypothesis float_text_no_blank : forall x, existsb is_space (print_float x) = false.
  Hypothesis float_text_nonempty : forall x, print_float x <> [].

  Notation qty := (qty F).
  Definition qty_equiv (q q' : qty) : Prop := fst q = fst q' /\ units_equiv (snd q) (snd q') = true.
  Definition envq_equiv (a b : envv qty) : Prop :=
    match a, b with
    | EScalar _ q, EScalar _ q' => qty_equiv q q'
    | EDict _ m, EDict _ m' => Forall2 (fun x y : str * qty => fst x = fst y /\ qty_equiv (snd x) (snd y)) m m'
    | _, _ => False
    end.
  Definition species_equiv (s s' : species_obj F) : Prop :=
    so_label F s = so_label F s' /\ envq_equiv (so_D F s) (so_D F s') /\ envq_equiv (so_density F s) (so_density F s')
    /\ so_chstt F s = so_chstt F s' /\ so_units F s = so_units F s'.

  Definition envq_dim (d : dim) (v : envv qty) : Prop :=
    match v with EScalar _ q => snd (snd q) = d | EDict _ m => forall kq, In kq m -> snd (snd (snd kq)) = d end.
  Definition wf_species (s : species_obj F) : Prop := envq_dim (dimD) (so_D F s) /\ envq_dim (dimDensity) (so_density F s).

  Lemma units_equiv_dim u d r : units_equiv (u, d) r = true -> dim_eqb (snd r) d = true.
  Proof.
    destruct r as [u' d']. unfold units_equiv, dim_eqb. cbn [snd]. intros H.
    apply andb_true_iff in H; destruct H as [H _]. apply andb_true_iff in H; destruct H as [H _]. apply andb_true_iff in H; destruct H as [H _].
    apply andb_true_iff in H; destruct H as [H C]. apply andb_true_iff in H; destruct H as [A B].
    apply Z.eqb_eq in A, B, C. rewrite A, B, C, !Z.eqb_refl. reflexivity.
  Qed.

  Lemma read_qty_print (q : qty) d : snd (snd q) = d ->
    exists q', read_qty F parse_float zero d (print_qty F print_float q) = Ok q' /\ qty_equiv q q'.
  Proof.
    destruct q as [x [u d0]]. cbn [snd]. intros ->.
    destruct (value_roundtrip F parse_float print_float zero float_roundtrip float_text_no_blank float_text_nonempty x u d) as (r & Hp & He).
    unfold read_qty, print_qty. cbn [fst snd]. change (print_float x ++ [32%N] ++ print_units u d) with (print_unitvalue F print_float x u d).
    rewrite Hp. destruct r as [u' d']. pose proof (units_equiv_dim u d (u', d') He) as Hd. cbn [snd] in Hd. rewrite Hd. exists (x, (u', d')). split; [reflexivity|].
    split; [reflexivity|exact He].
  Qed.

  Lemma read_envq_write d (v : envv qty) : envq_dim d v ->
    exists v', read_envq F parse_float zero d (write_envq F print_float v) = Ok v' /\ envq_equiv v v'.
  Proof.
    destruct v as [q|m]; cbn [envq_dim write_envq read_envq]; intros H.
    - destruct (read_qty_print q d H) as (q' & E & Q). rewrite E. exists (EScalar _ q'). split; [reflexivity|exact Q].
    - assert (L : exists r, read_qdict F parse_float zero d (map (fun kq : str * qty => (fst kq, JStr (print_qty F print_float (snd kq)))) m) = Ok r
                    /\ Forall2 (fun x y : str * qty => fst x = fst y /\ qty_equiv (snd x) (snd y)) m r).
      { induction m as [|[k q] m IH]; [exists []; split; [reflexivity|constructor]|].
        destruct IH as (r & Er & Fr); [intros kq Hk; apply H; right; exact Hk|].
        destruct (read_qty_print q d (H (k, q) (or_introl eq_refl))) as (q' & E & Q).
        cbn [map read_qdict fst snd]. rewrite E, Er. exists ((k, q') :: r). split; [reflexivity|]. constructor; [split; [reflexivity|exact Q]|exact Fr]. }
      destruct L as (r & Er & Fr). rewrite Er. exists (EDict _ r). split; [reflexivity|exact Fr].
  Qed.

  Lemma read_envb_write (v : envv bool) : read_envb (write_envb v) = Ok v.
  Proof.
    destruct v as [b|m]; [reflexivity|]. cbn [write_envb read_envb].
    assert (L : read_bdict (map (fun kb : str * bool => (fst kb, JBool (snd kb))) m) = Ok m).
    { induction m as [|[k b] m IH]; [reflexivity|]. cbn [map read_bdict fst snd]. rewrite IH. reflexivity. }
    rewrite L. reflexivity.
  Qed.

  Theorem species_roundtrip parent (s : species_obj F) : wf_species s ->
    exists s', read_species F parse_float zero parent (write_species F print_float wr s) = Ok s' /\ species_equiv s s'.
  Proof.
    intros (HD & Hdens). destruct schema_ok_species as (Hwf & Hne & Hlen). unfold read_species, write_species, wr.
    rewrite (write_then_read jv schema_species _ Hwf) by (try (cbn [length]; rewrite Hlen; reflexivity); apply nonempty_of_forallb; exact Hne).
    unfold read_units_field. change (write_usys (write_fields jv) (so_units F s)) with (write_usys wr (so_units F s)).
    assert (U : read_usys (write_usys wr (so_units F s)) = Ok (so_units F s)) by apply usys_roundtrip.
    unfold write_usys in U |- *. rewrite U.
    destruct (read_envq_write dimD _ HD) as (D' & ED & QD). destruct (read_envq_write dimDensity _ Hdens) as (N' & EN & QN).
    rewrite ED, EN, read_envb_write.
    eexists. split; [reflexivity|]. repeat split; try reflexivity; assumption.
  Qed.
  (* ---- reactions ---- *)
  Definition eq_equiv (e e' : side * side) : Prop :=
    side_order (fst e') = side_order (fst e) /\ side_order (snd e') = side_order (snd e) /\
    forall l, coef_of l (fst e') = coef_of l (fst e) /\ coef_of l (snd e') = coef_of l (snd e).
  Definition reaction_equiv (r r' : reaction_obj F) : Prop :=
    ro_label F r = ro_label F r' /\ eq_equiv (ro_eq F r) (ro_eq F r') /\ envq_equiv (ro_kf F r) (ro_kf F r')
    /\ envq_equiv (ro_kr F r) (ro_kr F r') /\ ro_units F r = ro_units F r'.
  Definition wf_reaction (r : reaction_obj F) : Prop :=
    all_ok (fst (ro_eq F r)) /\ all_ok (snd (ro_eq F r)) /\ NoDup (map fst (fst (ro_eq F r))) /\ NoDup (map fst (snd (ro_eq F r)))
    /\ match ro_label F r with Some l => valid_label l = true | None => True end
    /\ envq_dim (kdim_of (side_order (fst (ro_eq F r)))) (ro_kf F r) /\ envq_dim (kdim_of (side_order (snd (ro_eq F r)))) (ro_kr F r).

  Theorem reaction_roundtrip parent (r : reaction_obj F) : wf_reaction r ->
    exists r', read_reaction F parse_float zero parent (write_reaction F print_float wr r) = Ok r' /\ reaction_equiv r r'.
  Proof.
    intros (H1 & H2 & N1 & N2 & HL & Hkf & Hkr). destruct schema_ok_reaction as (Hwf & Hne & Hlen). unfold read_reaction, write_reaction, wr.
    rewrite (write_then_read jv schema_reaction _ Hwf) by (try (cbn [length]; rewrite Hlen; reflexivity); apply nonempty_of_forallb; exact Hne).
    destruct (parse_print_eq_order (ro_eq F r) H1 H2 N1 N2) as (e' & Ee & O1 & O2 & Ce). rewrite Ee.
    assert (L : read_label (Some (match ro_label F r with Some l => JStr l | None => JNull end)) = Ok (ro_label F r)).
    { destruct (ro_label F r) as [l|]; cbn [read_label]; [rewrite HL|]; reflexivity. }
    rewrite L. unfold read_units_field. change (write_usys (write_fields jv) (ro_units F r)) with (write_usys wr (ro_units F r)).
    assert (U : read_usys (write_usys wr (ro_units F r)) = Ok (ro_units F r)) by apply usys_roundtrip.
    unfold write_usys in U |- *. rewrite U. rewrite O1, O2.
    destruct (read_envq_write _ _ Hkf) as (kf' & Ef & Qf). destruct (read_envq_write _ _ Hkr) as (kr' & Er & Qr).
    rewrite Ef, Er. eexists. split; [reflexivity|]. repeat split; try reflexivity; try assumption; apply Ce.
  Qed.
End WithFloat.
