(* Object-level round trips (Model/ObjDict.v): what unitssystem_to_dict writes, unitssystem_from_dict reads back as the same units
   system; what species_to_dict writes, species_from_dict reads back as the same species - same label, flags and units system,
   every diffusion coefficient and density with a bit-identical value and an equivalent unit - whatever the parent's units. *)
From Coq Require Import NArith ZArith List Lia Bool.
From Verif Require Import Num ReactionText ReactionTextFacts Units UnitsFacts UnitText UnitTextFacts Schemas Dict DictFacts DictRoundTrip ObjDict.
Import ListNotations.

Definition wr := write_fields jv.

Lemma schema_ok_usys : wf_schema schema_unitssystem = true /\ forallb (fun syn : list str => match syn with [] => false | _ => true end) schema_unitssystem = true
                       /\ length schema_unitssystem = 3%nat.
Proof. vm_compute. repeat split. Qed.
Lemma schema_ok_species : wf_schema schema_species = true /\ forallb (fun syn : list str => match syn with [] => false | _ => true end) schema_species = true
                          /\ length schema_species = 5%nat.
Proof. vm_compute. repeat split. Qed.

Lemma schema_ok_reaction : wf_schema schema_reaction = true /\ forallb (fun syn : list str => match syn with [] => false | _ => true end) schema_reaction = true
                           /\ length schema_reaction = 5%nat.
Proof. vm_compute. repeat split. Qed.

Lemma nonempty_of_forallb (sc : schema) : forallb (fun syn : list str => match syn with [] => false | _ => true end) sc = true ->
  forall syn, In syn sc -> syn <> [].
Proof. intros H syn Hin. rewrite forallb_forall in H. specialize (H syn Hin). destruct syn; [discriminate|discriminate]. Qed.

Theorem usys_roundtrip u : read_usys (write_usys wr u) = Ok u.
Proof.
  destruct schema_ok_usys as (Hwf & Hne & Hlen). unfold read_usys, write_usys, wr.
  rewrite (write_then_read jv schema_unitssystem _ Hwf) by (try (cbn [length]; rewrite Hlen; reflexivity); apply nonempty_of_forallb; exact Hne).
  rewrite classify_space, classify_time, classify_amount. destruct u. reflexivity.
Qed.

Section WithFloat.
  Variable F : Type.
  Variable parse_float : str -> option F.
  Variable print_float : F -> str.
  Variable zero : F.
  Hypothesis float_roundtrip : forall x, parse_float (print_float x) = Some x.
  Hypothesis float_text_no_blank : forall x, existsb is_space (print_float x) = false.
  Hypothesis float_text_nonempty : forall x, print_float x <> [].

  Notation qty := (qty F).
  Definition qty_equiv (q q' : qty) : Prop := fst q = fst q' /\ units_equiv (snd q) (snd q') = true.
  Definition envq_equiv (a b : envv qty) : Prop :=
    match a, b with
    | EScalar _ q, EScalar _ q' => qty_equiv q q'
    | EDict _ m, EDict _ m' => Forall2 (fun x y : str * qty => fst x = fst y /\ qty_equiv (snd x) (snd y)) m m'
    | _, _ => False
    end.
  Definition species_equiv (s s' : species_obj F) : Prop :=
    so_label F s = so_label F s' /\ envq_equiv (so_D F s) (so_D F s') /\ envq_equiv (so_density F s) (so_density F s')
    /\ so_chstt F s = so_chstt F s' /\ so_units F s = so_units F s'.

  Definition envq_dim (d : dim) (v : envv qty) : Prop :=
    match v with EScalar _ q => snd (snd q) = d | EDict _ m => forall kq, In kq m -> snd (snd (snd kq)) = d end.
  Definition wf_species (s : species_obj F) : Prop := envq_dim (dimD) (so_D F s) /\ envq_dim (dimDensity) (so_density F s).

  Lemma units_equiv_dim u d r : units_equiv (u, d) r = true -> dim_eqb (snd r) d = true.
  Proof.
    destruct r as [u' d']. unfold units_equiv, dim_eqb. cbn [snd]. intros H.
    apply andb_true_iff in H; destruct H as [H _]. apply andb_true_iff in H; destruct H as [H _]. apply andb_true_iff in H; destruct H as [H _].
    apply andb_true_iff in H; destruct H as [H C]. apply andb_true_iff in H; destruct H as [A B].
    apply Z.eqb_eq in A, B, C. rewrite A, B, C, !Z.eqb_refl. reflexivity.
  Qed.

  Lemma read_qty_print (q : qty) d : snd (snd q) = d ->
    exists q', read_qty F parse_float zero d (print_qty F print_float q) = Ok q' /\ qty_equiv q q'.
  Proof.
    destruct q as [x [u d0]]. cbn [snd]. intros ->.
    destruct (value_roundtrip F parse_float print_float zero float_roundtrip float_text_no_blank float_text_nonempty x u d) as (r & Hp & He).
    unfold read_qty, print_qty. cbn [fst snd]. change (print_float x ++ [32%N] ++ print_units u d) with (print_unitvalue F print_float x u d).
    rewrite Hp. destruct r as [u' d']. pose proof (units_equiv_dim u d (u', d') He) as Hd. cbn [snd] in Hd. rewrite Hd. exists (x, (u', d')). split; [reflexivity|].
    split; [reflexivity|exact He].
  Qed.

  Lemma read_envq_write d (v : envv qty) : envq_dim d v ->
    exists v', read_envq F parse_float zero d (write_envq F print_float v) = Ok v' /\ envq_equiv v v'.
  Proof.
    destruct v as [q|m]; cbn [envq_dim write_envq read_envq]; intros H.
    - destruct (read_qty_print q d H) as (q' & E & Q). rewrite E. exists (EScalar _ q'). split; [reflexivity|exact Q].
    - assert (L : exists r, read_qdict F parse_float zero d (map (fun kq : str * qty => (fst kq, JStr (print_qty F print_float (snd kq)))) m) = Ok r
                    /\ Forall2 (fun x y : str * qty => fst x = fst y /\ qty_equiv (snd x) (snd y)) m r).
      { induction m as [|[k q] m IH]; [exists []; split; [reflexivity|constructor]|].
        destruct IH as (r & Er & Fr); [intros kq Hk; apply H; right; exact Hk|].
        destruct (read_qty_print q d (H (k, q) (or_introl eq_refl))) as (q' & E & Q).
        cbn [map read_qdict fst snd]. rewrite E, Er. exists ((k, q') :: r). split; [reflexivity|]. constructor; [split; [reflexivity|exact Q]|exact Fr]. }
      destruct L as (r & Er & Fr). rewrite Er. exists (EDict _ r). split; [reflexivity|exact Fr].
  Qed.

  Lemma read_envb_write (v : envv bool) : read_envb (write_envb v) = Ok v.
  Proof.
    destruct v as [b|m]; [reflexivity|]. cbn [write_envb read_envb].
    assert (L : read_bdict (map (fun kb : str * bool => (fst kb, JBool (snd kb))) m) = Ok m).
    { induction m as [|[k b] m IH]; [reflexivity|]. cbn [map read_bdict fst snd]. rewrite IH. reflexivity. }
    rewrite L. reflexivity.
  Qed.

  Theorem species_roundtrip parent (s : species_obj F) : wf_species s ->
    exists s', read_species F parse_float zero parent (write_species F print_float wr s) = Ok s' /\ species_equiv s s'.
  Proof.
    intros (HD & Hdens). destruct schema_ok_species as (Hwf & Hne & Hlen). unfold read_species, write_species, wr.
    rewrite (write_then_read jv schema_species _ Hwf) by (try (cbn [length]; rewrite Hlen; reflexivity); apply nonempty_of_forallb; exact Hne).
    unfold read_units_field. change (write_usys (write_fields jv) (so_units F s)) with (write_usys wr (so_units F s)).
    assert (U : read_usys (write_usys wr (so_units F s)) = Ok (so_units F s)) by apply usys_roundtrip.
    unfold write_usys in U |- *. rewrite U.
    destruct (read_envq_write dimD _ HD) as (D' & ED & QD). destruct (read_envq_write dimDensity _ Hdens) as (N' & EN & QN).
    rewrite ED, EN, read_envb_write.
    eexists. split; [reflexivity|]. repeat split; try reflexivity; assumption.
  Qed.
  (* ---- reactions ---- *)
  Definition eq_equiv (e e' : side * side) : Prop :=
    side_order (fst e') = side_order (fst e) /\ side_order (snd e') = side_order (snd e) /\
    (forall l, coef_of l (fst e') = coef_of l (fst e) /\ coef_of l (snd e') = coef_of l (snd e)) /\
    (forall x, In x (map fst (fst e')) -> In x (map fst (fst e))) /\ (forall x, In x (map fst (snd e')) -> In x (map fst (snd e))).
  Definition reaction_equiv (r r' : reaction_obj F) : Prop :=
    ro_label F r = ro_label F r' /\ eq_equiv (ro_eq F r) (ro_eq F r') /\ envq_equiv (ro_kf F r) (ro_kf F r')
    /\ envq_equiv (ro_kr F r) (ro_kr F r') /\ ro_units F r = ro_units F r'.
  Definition wf_reaction (r : reaction_obj F) : Prop :=
    all_ok (fst (ro_eq F r)) /\ all_ok (snd (ro_eq F r)) /\ NoDup (map fst (fst (ro_eq F r))) /\ NoDup (map fst (snd (ro_eq F r)))
    /\ match ro_label F r with Some l => valid_label l = true | None => True end
    /\ envq_dim (kdim_of (side_order (fst (ro_eq F r)))) (ro_kf F r) /\ envq_dim (kdim_of (side_order (snd (ro_eq F r)))) (ro_kr F r).

  Theorem reaction_roundtrip parent (r : reaction_obj F) : wf_reaction r ->
    exists r', read_reaction F parse_float zero parent (write_reaction F print_float wr r) = Ok r' /\ reaction_equiv r r'.
  Proof.
    intros (H1 & H2 & N1 & N2 & HL & Hkf & Hkr). destruct schema_ok_reaction as (Hwf & Hne & Hlen). unfold read_reaction, write_reaction, wr.
    rewrite (write_then_read jv schema_reaction _ Hwf) by (try (cbn [length]; rewrite Hlen; reflexivity); apply nonempty_of_forallb; exact Hne).
    destruct (parse_print_eq_full (ro_eq F r) H1 H2 N1 N2) as (e' & Ee & O1 & O2 & Ce & I1 & I2). rewrite Ee.
    assert (L : read_label (Some (match ro_label F r with Some l => JStr l | None => JNull end)) = Ok (ro_label F r)).
    { destruct (ro_label F r) as [l|]; cbn [read_label]; [rewrite HL|]; reflexivity. }
    rewrite L. unfold read_units_field. change (write_usys (write_fields jv) (ro_units F r)) with (write_usys wr (ro_units F r)).
    assert (U : read_usys (write_usys wr (ro_units F r)) = Ok (ro_units F r)) by apply usys_roundtrip.
    unfold write_usys in U |- *. rewrite U. rewrite O1, O2.
    destruct (read_envq_write _ _ Hkf) as (kf' & Ef & Qf). destruct (read_envq_write _ _ Hkr) as (kr' & Er & Qr).
    rewrite Ef, Er. eexists. split; [reflexivity|]. repeat split; try reflexivity; try assumption; apply Ce.
  Qed.
  (* ---- networks ---- *)
  Definition network_equiv (n n' : network_obj F) : Prop :=
    Forall2 species_equiv (no_species F n) (no_species F n') /\ Forall2 reaction_equiv (no_reactions F n) (no_reactions F n')
    /\ no_envs F n = no_envs F n' /\ no_units F n = no_units F n'.
  Definition wf_network (n : network_obj F) : Prop :=
    (forall s, In s (no_species F n) -> wf_species s) /\ (forall r, In r (no_reactions F n) -> wf_reaction r) /\ network_valid F n = true.

  Lemma read_list_map {A B} (w : A -> jv) (f : jv -> res B) (R : A -> B -> Prop) (l : list A) :
    (forall a, In a l -> exists b, f (w a) = Ok b /\ R a b) -> exists bs, read_list f (map w l) = Ok bs /\ Forall2 R l bs.
  Proof.
    induction l as [|a l IH]; intros H; [exists []; split; [reflexivity|constructor]|].
    destruct (H a (or_introl eq_refl)) as (b & Eb & Rb). destruct IH as (bs & Ebs & Rbs); [intros x Hx; apply H; right; exact Hx|].
    exists (b :: bs). cbn [map read_list]. rewrite Eb, Ebs. split; [reflexivity|constructor; assumption].
  Qed.

  Lemma read_list_strs (es : list str) : read_list (fun x => match x with JStr e => Ok e | _ => Err end) (map JStr es) = Ok es.
  Proof. induction es as [|e es IH]; [reflexivity|]. cbn [map read_list]. rewrite IH. reflexivity. Qed.

  Lemma labels_same ss ss' : Forall2 species_equiv ss ss' -> map (so_label F) ss = map (so_label F) ss'.
  Proof. induction 1 as [|s s' l l' H _ IH]; [reflexivity|]. cbn [map]. destruct H as (E & _). rewrite E, IH. reflexivity. Qed.

  Lemma rlabels_same rs rs' : Forall2 reaction_equiv rs rs' -> reaction_labels F rs = reaction_labels F rs'.
  Proof. induction 1 as [|r r' l l' H _ IH]; [reflexivity|]. unfold reaction_labels in *. cbn [flat_map]. destruct H as (E & _). rewrite E, IH. reflexivity. Qed.

  Lemma mem_str_in k l : mem_str k l = true <-> In k l.
  Proof.
    unfold mem_str. rewrite existsb_exists. split.
    - intros (x & Hx & E). apply str_eqb_eq in E. subst x. exact Hx.
    - intros H. exists k. split; [exact H|apply str_eqb_eq; reflexivity].
  Qed.

  Lemma declared_same sl rs rs' : Forall2 reaction_equiv rs rs' ->
    forallb (fun r => forallb (fun p : str * Z => mem_str (fst p) sl) (fst (ro_eq F r) ++ snd (ro_eq F r))) rs = true ->
    forallb (fun r => forallb (fun p : str * Z => mem_str (fst p) sl) (fst (ro_eq F r) ++ snd (ro_eq F r))) rs' = true.
  Proof.
    induction 1 as [|r r' l l' H _ IH]; [reflexivity|]. cbn [forallb]. rewrite !andb_true_iff. intros [Hr Hl]. split; [|apply IH; exact Hl].
    destruct H as (_ & (_ & _ & _ & I1 & I2) & _). rewrite forallb_forall in Hr |- *. intros p Hp. apply mem_str_in.
    assert (Hin : In (fst p) (map fst (fst (ro_eq F r) ++ snd (ro_eq F r)))).
    { rewrite map_app, in_app_iff. apply in_app_or in Hp. destruct Hp as [Hp|Hp]; [left; apply I1|right; apply I2]; apply in_map; exact Hp. }
    apply in_map_iff in Hin. destruct Hin as (q & Eq & Hq). rewrite <- Eq. apply mem_str_in. apply (Hr q Hq).
  Qed.

  Theorem network_roundtrip parent (n : network_obj F) : wf_network n ->
    exists n', read_network F parse_float zero parent (write_network F print_float wr n) = Ok n' /\ network_equiv n n'.
  Proof.
    intros (Hs & Hr & Hv). unfold read_network, write_network, wr.
    assert (Hsc : wf_schema schema_network = true /\ forallb (fun syn : list str => match syn with [] => false | _ => true end) schema_network = true
                  /\ length schema_network = 4%nat) by (vm_compute; repeat split).
    destruct Hsc as (Hwf & Hne & Hlen).
    rewrite (write_then_read jv schema_network _ Hwf) by (try (cbn [length]; rewrite Hlen; reflexivity); apply nonempty_of_forallb; exact Hne).
    unfold read_units_field. change (write_usys (write_fields jv) (no_units F n)) with (write_usys wr (no_units F n)).
    assert (U : read_usys (write_usys wr (no_units F n)) = Ok (no_units F n)) by apply usys_roundtrip.
    unfold write_usys in U |- *. rewrite U.
    destruct (read_list_map (write_species F print_float (write_fields jv)) (read_species F parse_float zero (no_units F n)) species_equiv (no_species F n))
      as (ss & Ess & Rss); [intros s Hin; apply species_roundtrip; apply Hs; exact Hin|].
    destruct (read_list_map (write_reaction F print_float (write_fields jv)) (read_reaction F parse_float zero (no_units F n)) reaction_equiv (no_reactions F n))
      as (rs & Ers & Rrs); [intros r Hin; apply reaction_roundtrip; apply Hr; exact Hin|].
    rewrite Ess, Ers, read_list_strs.
    assert (V : network_valid F {| no_species := ss; no_reactions := rs; no_envs := no_envs F n; no_units := no_units F n |} = true).
    { unfold network_valid in *. cbn [no_species no_reactions no_envs]. rewrite <- (labels_same _ _ Rss), <- (rlabels_same _ _ Rrs).
      rewrite !andb_true_iff in Hv |- *. destruct Hv as ((((A & B) & C) & D) & E). repeat split; try assumption.
      apply (declared_same _ _ _ Rrs). exact C. }
    rewrite V. eexists. split; [reflexivity|]. repeat split; assumption.
  Qed.
  (* ---- grid spaces ---- *)
  Variable one : F.
  Definition grid_equiv (g g' : grid_obj F) : Prop :=
    go_w F g = go_w F g' /\ go_h F g = go_h F g' /\ go_d F g = go_d F g' /\ go_env F g = go_env F g' /\ qty_equiv (go_vol F g) (go_vol F g')
    /\ go_per F g = go_per F g' /\ go_units F g = go_units F g'.
  Definition wf_grid_obj (g : grid_obj F) : Prop :=
    (0 < go_w F g)%Z /\ (0 < go_h F g)%Z /\ (0 < go_d F g)%Z /\ Z.of_nat (length (go_env F g)) = (go_w F g * go_h F g * go_d F g)%Z
    /\ snd (snd (go_vol F g)) = dimVolume.

  Lemma read_list_ints (es : list Z) : read_list (fun x => match x with JInt e => Ok e | _ => Err end) (map JInt es) = Ok es.
  Proof. induction es as [|e es IH]; [reflexivity|]. cbn [map read_list]. rewrite IH. reflexivity. Qed.

  Lemma read_bc_written bx by_ bz :
    read_bc [(k_x, bc_text bx); (k_y, bc_text by_); (k_z, bc_text bz)] (false, false, false) = Ok (bx, by_, bz).
  Proof. destruct bx, by_, bz; vm_compute; reflexivity. Qed.

  Theorem grid_roundtrip parent (g : grid_obj F) : wf_grid_obj g ->
    exists g', read_grid F parse_float zero one parent (write_grid F print_float wr g) = Ok g' /\ grid_equiv g g'.
  Proof.
    intros (Hw & Hh & Hd & Hlen & Hvol). unfold read_grid, write_grid, wr. destruct (go_per F g) as [[bx by_] bz] eqn:Eper.
    assert (Hsc : wf_schema schema_grid = true /\ forallb (fun syn : list str => match syn with [] => false | _ => true end) schema_grid = true
                  /\ length schema_grid = 8%nat) by (vm_compute; repeat split).
    destruct Hsc as (Hwf & Hne & Hl).
    rewrite (write_then_read jv schema_grid _ Hwf) by (try (cbn [length]; rewrite Hl; reflexivity); apply nonempty_of_forallb; exact Hne).
    unfold read_units_field. change (write_usys (write_fields jv) (go_units F g)) with (write_usys wr (go_units F g)).
    assert (U : read_usys (write_usys wr (go_units F g)) = Ok (go_units F g)) by apply usys_roundtrip.
    unfold write_usys in U |- *. rewrite U. unfold read_size.
    replace (0 <? go_w F g)%Z with true by (symmetry; apply Z.ltb_lt; exact Hw).
    replace (0 <? go_h F g)%Z with true by (symmetry; apply Z.ltb_lt; exact Hh).
    replace (0 <? go_d F g)%Z with true by (symmetry; apply Z.ltb_lt; exact Hd).
    rewrite read_list_ints, Hlen, Z.eqb_refl.
    destruct (read_qty_print (go_vol F g) dimVolume Hvol) as (v' & Ev & Qv). rewrite Ev, read_bc_written.
    eexists. split; [reflexivity|]. repeat split; try reflexivity; try assumption; apply Qv.
  Qed.
  (* ---- graph spaces ---- *)
  Definition node_equiv (n n' : node_obj F) : Prop := qty_equiv (nd_vol F n) (nd_vol F n') /\ nd_env F n = nd_env F n' /\ nd_units F n = nd_units F n'.
  Definition edge_equiv (e e' : edge_obj F) : Prop :=
    ed_i F e = ed_i F e' /\ ed_j F e = ed_j F e' /\ qty_equiv (ed_sf F e) (ed_sf F e') /\ qty_equiv (ed_ds F e) (ed_ds F e') /\ ed_units F e = ed_units F e'.
  Definition graph_equiv (g g' : graph_obj F) : Prop :=
    Forall2 node_equiv (gr_nodes F g) (gr_nodes F g') /\ Forall2 edge_equiv (gr_edges F g) (gr_edges F g') /\ gr_units F g = gr_units F g'.
  Definition wf_graph_obj (g : graph_obj F) : Prop :=
    (forall n, In n (gr_nodes F g) -> snd (snd (nd_vol F n)) = dimVolume) /\
    (forall e, In e (gr_edges F g) -> snd (snd (ed_sf F e)) = dimSurface /\ snd (snd (ed_ds F e)) = dimLength).

  Lemma usys_same_eq a b : usys_same a b = true -> a = b.
  Proof.
    destruct a as [s t q], b as [s' t' q']. unfold usys_same. cbn [us ut uq]. rewrite !andb_true_iff. intros [[A B] C].
    assert (s = s') by (destruct s, s'; try reflexivity; vm_compute in A; discriminate).
    assert (t = t') by (destruct t, t'; try reflexivity; vm_compute in B; discriminate).
    assert (q = q') by (destruct q, q'; try reflexivity; vm_compute in C; discriminate).
    subst. reflexivity.
  Qed.

  Lemma units_field_written parent u :
    read_units_field parent (units_if_differs wr u parent) = Ok u.
  Proof.
    unfold units_if_differs. destruct (usys_same u parent) eqn:E.
    - apply usys_same_eq in E. subst. reflexivity.
    - unfold read_units_field. pose proof (usys_roundtrip u) as U. unfold write_usys in U |- *. exact U.
  Qed.

  Lemma node_roundtrip parent (n : node_obj F) : snd (snd (nd_vol F n)) = dimVolume ->
    exists n', read_node F parse_float zero one parent (write_node F print_float wr parent n) = Ok n' /\ node_equiv n n'.
  Proof.
    intros Hv. unfold read_node, write_node.
    assert (Hsc : wf_schema schema_node = true /\ forallb (fun syn : list str => match syn with [] => false | _ => true end) schema_node = true
                  /\ length schema_node = 3%nat) by (vm_compute; repeat split).
    destruct Hsc as (Hwf & Hne & Hl). unfold wr at 1.
    rewrite (write_then_read jv schema_node _ Hwf) by (try (cbn [length]; rewrite Hl; reflexivity); apply nonempty_of_forallb; exact Hne).
    rewrite units_field_written. destruct (read_qty_print (nd_vol F n) dimVolume Hv) as (v' & Ev & Qv). rewrite Ev.
    eexists. split; [reflexivity|]. repeat split; try reflexivity; apply Qv.
  Qed.

  Lemma edge_roundtrip parent (e : edge_obj F) : snd (snd (ed_sf F e)) = dimSurface -> snd (snd (ed_ds F e)) = dimLength ->
    exists e', read_edge F parse_float zero one parent (write_edge F print_float wr parent e) = Ok e' /\ edge_equiv e e'.
  Proof.
    intros Hs Hd. unfold read_edge, write_edge.
    assert (Hsc : wf_schema schema_edge = true /\ forallb (fun syn : list str => match syn with [] => false | _ => true end) schema_edge = true
                  /\ length schema_edge = 4%nat) by (vm_compute; repeat split).
    destruct Hsc as (Hwf & Hne & Hl). unfold wr at 1.
    rewrite (write_then_read jv schema_edge _ Hwf) by (try (cbn [length]; rewrite Hl; reflexivity); apply nonempty_of_forallb; exact Hne).
    rewrite units_field_written.
    destruct (read_qty_print (ed_sf F e) dimSurface Hs) as (s' & Es & Qs). destruct (read_qty_print (ed_ds F e) dimLength Hd) as (d' & Ed & Qd).
    rewrite Es, Ed. eexists. split; [reflexivity|]. repeat split; try reflexivity; try apply Qs; apply Qd.
  Qed.

  Theorem graph_roundtrip parent (g : graph_obj F) : wf_graph_obj g ->
    exists g', read_graph F parse_float zero one parent (write_graph F print_float wr g) = Ok g' /\ graph_equiv g g'.
  Proof.
    intros (Hn & He). unfold read_graph, write_graph.
    assert (Hsc : wf_schema schema_graph = true /\ forallb (fun syn : list str => match syn with [] => false | _ => true end) schema_graph = true
                  /\ length schema_graph = 4%nat) by (vm_compute; repeat split).
    destruct Hsc as (Hwf & Hne & Hl). unfold wr at 1.
    rewrite (write_then_read jv schema_graph _ Hwf) by (try (cbn [length]; rewrite Hl; reflexivity); apply nonempty_of_forallb; exact Hne).
    unfold read_units_field. assert (U : read_usys (write_usys wr (gr_units F g)) = Ok (gr_units F g)) by apply usys_roundtrip.
    unfold write_usys in U |- *. rewrite U.
    destruct (read_list_map (write_node F print_float wr (gr_units F g)) (read_node F parse_float zero one (gr_units F g)) node_equiv (gr_nodes F g))
      as (ns & Ens & Rns); [intros n Hin; apply node_roundtrip; apply Hn; exact Hin|].
    destruct (read_list_map (write_edge F print_float wr (gr_units F g)) (read_edge F parse_float zero one (gr_units F g)) edge_equiv (gr_edges F g))
      as (es & Ees & Res); [intros e Hin; apply edge_roundtrip; apply He; exact Hin|].
    rewrite Ens, Ees. eexists. split; [reflexivity|]. repeat split; assumption.
  Qed.
  (* ---- systems ---- *)
  Definition space_equiv (a b : space_obj F) : Prop :=
    match a, b with SpGrid _ g, SpGrid _ g' => grid_equiv g g' | SpGraph _ g, SpGraph _ g' => graph_equiv g g' | _, _ => False end.
  Definition array_equiv (a b : list F * (usys * dim)) : Prop := fst a = fst b /\ units_equiv (snd a) (snd b) = true.
  Definition system_equiv (s s' : system_obj F) : Prop :=
    network_equiv (sy_net F s) (sy_net F s') /\ space_equiv (sy_space F s) (sy_space F s') /\ array_equiv (sy_state F s) (sy_state F s')
    /\ sy_chs F s = sy_chs F s' /\ sy_units F s = sy_units F s'.
  Definition wf_space (sp : space_obj F) : Prop := match sp with SpGrid _ g => wf_grid_obj g | SpGraph _ g => wf_graph_obj g end.
  Definition wf_system (s : system_obj F) : Prop :=
    wf_network (sy_net F s) /\ wf_space (sy_space F s) /\ snd (snd (sy_state F s)) = dimAmount
    /\ forallb (fun e => (0 <=? e)%Z && (e <? Z.of_nat (length (no_envs F (sy_net F s))))%Z) (space_envs F (sy_space F s)) = true.

  Lemma written_head (sc : schema) k tl v rest : sc = [k] :: tl ->
    write_fields jv sc (Some v :: rest) = (k, v) :: write_fields jv tl rest.
  Proof. intros ->. reflexivity. Qed.

  Lemma space_roundtrip parent (sp : space_obj F) : wf_space sp ->
    exists sp', read_space F parse_float zero one parent (write_space F print_float wr sp) = Ok sp' /\ space_equiv sp sp'.
  Proof.
    destruct sp as [g|g]; cbn [wf_space write_space]; intros Hw.
    - destruct (grid_roundtrip parent g Hw) as (g' & Eg & Qg). unfold read_space.
      assert (T : exists d, write_grid F print_float wr g = JObj ((k_type, JStr k_grid) :: d)).
      { unfold write_grid, wr. destruct (go_per F g) as [[bx by_] bz].
        assert (E : exists tl, schema_grid = [k_type] :: tl) by (vm_compute; eexists; reflexivity). destruct E as (tl & E).
        rewrite (written_head schema_grid k_type tl _ _ E). eexists. reflexivity. }
      destruct T as (d & T). rewrite T in *. cbn [find fst].
      replace (str_eqb k_type k_type) with true by (symmetry; apply str_eqb_refl). cbn iota.
      replace (str_eqb k_grid k_grid) with true by (symmetry; apply str_eqb_refl). rewrite Eg. exists (SpGrid _ g'). split; [reflexivity|exact Qg].
    - destruct (graph_roundtrip parent g Hw) as (g' & Eg & Qg). unfold read_space.
      assert (T : exists d, write_graph F print_float wr g = JObj ((k_type, JStr k_graph) :: d)).
      { unfold write_graph, wr.
        assert (E : exists tl, schema_graph = [k_type] :: tl) by (vm_compute; eexists; reflexivity). destruct E as (tl & E).
        rewrite (written_head schema_graph k_type tl _ _ E). eexists. reflexivity. }
      destruct T as (d & T). rewrite T in *. cbn [find fst].
      replace (str_eqb k_type k_type) with true by (symmetry; apply str_eqb_refl). cbn iota.
      replace (str_eqb k_graph k_grid) with false by (vm_compute; reflexivity).
      replace (str_eqb k_graph k_graph) with true by (symmetry; apply str_eqb_refl). rewrite Eg. exists (SpGraph _ g'). split; [reflexivity|exact Qg].
  Qed.

  Lemma read_list_nums (xs : list F) :
    read_list (fun x => match x with JNum n => match parse_float n with Some f => Ok f | None => Err end | _ => Err end) (map (fun x => JNum (print_float x)) xs) = Ok xs.
  Proof. induction xs as [|x xs IH]; [reflexivity|]. cbn [map read_list]. rewrite float_roundtrip, IH. reflexivity. Qed.

  Lemma unitarray_roundtrip d (a : list F * (usys * dim)) : snd (snd a) = d ->
    exists a', read_unitarray F parse_float d (write_unitarray F print_float wr a) = Ok a' /\ array_equiv a a'.
  Proof.
    destruct a as [xs [u d0]]. cbn [snd]. intros ->. unfold read_unitarray, write_unitarray. cbn [fst snd].
    assert (Hsc : wf_schema schema_unitarray = true /\ forallb (fun syn : list str => match syn with [] => false | _ => true end) schema_unitarray = true
                  /\ length schema_unitarray = 2%nat) by (vm_compute; repeat split).
    destruct Hsc as (Hwf & Hne & Hl). unfold wr.
    rewrite (write_then_read jv schema_unitarray _ Hwf) by (try (cbn [length]; rewrite Hl; reflexivity); apply nonempty_of_forallb; exact Hne).
    rewrite read_list_nums. destruct (parse_print_units u d) as (r & Er & Qr). rewrite Er. destruct r as [u' d'].
    pose proof (units_equiv_dim u d (u', d') Qr) as Hd. cbn [snd] in Hd. rewrite Hd. eexists. split; [reflexivity|]. split; [reflexivity|exact Qr].
  Qed.

  Lemma envs_same sp sp' : space_equiv sp sp' -> space_envs F sp' = space_envs F sp.
  Proof.
    destruct sp as [g|g], sp' as [g'|g']; cbn [space_equiv space_envs]; try contradiction.
    - intros (_ & _ & _ & E & _). symmetry. exact E.
    - intros (Hn & _). induction Hn as [|n n' l l' H _ IH]; [reflexivity|]. cbn [map]. destruct H as (_ & E & _). rewrite E, IH. reflexivity.
  Qed.

  Lemma read_list_flags (es : list Z) :
    read_list (fun x => match x with JInt z => Ok z | JBool b => Ok (if b then 1%Z else 0%Z) | _ => Err end) (map JInt es) = Ok es.
  Proof. induction es as [|e es IH]; [reflexivity|]. cbn [map read_list]. rewrite IH. reflexivity. Qed.

  Theorem system_roundtrip parent (s : system_obj F) : wf_system s ->
    exists s', read_system F parse_float zero one parent (write_system F print_float wr s) = Ok s' /\ system_equiv s s'.
  Proof.
    intros (Hn & Hsp & Hst & Henv). unfold read_system, write_system.
    assert (Hsc : wf_schema schema_system = true /\ forallb (fun syn : list str => match syn with [] => false | _ => true end) schema_system = true
                  /\ length schema_system = 5%nat) by (vm_compute; repeat split).
    destruct Hsc as (Hwf & Hne & Hl). unfold wr at 1.
    rewrite (write_then_read jv schema_system _ Hwf) by (try (cbn [length]; rewrite Hl; reflexivity); apply nonempty_of_forallb; exact Hne).
    unfold read_units_field. assert (U : read_usys (write_usys wr (sy_units F s)) = Ok (sy_units F s)) by apply usys_roundtrip.
    unfold write_usys in U |- *. rewrite U.
    destruct (network_roundtrip (sy_units F s) _ Hn) as (n' & En & Qn). rewrite En.
    destruct (space_roundtrip (sy_units F s) _ Hsp) as (sp' & Es & Qs). rewrite Es.
    destruct (unitarray_roundtrip dimAmount _ Hst) as (a' & Ea & Qa). rewrite Ea.
    rewrite read_list_flags.
    rewrite (envs_same _ _ Qs). destruct Qn as (Q1 & Q2 & Q3 & Q4). rewrite <- Q3, Henv.
    eexists. split; [reflexivity|]. repeat split; try reflexivity; try assumption; apply Qa.
  Qed.
  (* ---- scripts ---- *)
  Variable milli : F.
  Definition script_equiv (s s' : script_obj F) : Prop :=
    system_equiv (sc_system F s) (sc_system F s') /\ array_equiv (sc_tsample F s) (sc_tsample F s') /\ qty_equiv (sc_dt F s) (sc_dt F s')
    /\ qty_equiv (effective_tmax F zero s) (effective_tmax F zero s') /\ sc_policy F s = sc_policy F s' /\ qty_equiv (sc_interval F s) (sc_interval F s')
    /\ sc_seed F s = sc_seed F s' /\ sc_init F s = sc_init F s' /\ sc_units F s = sc_units F s'.
  Definition wf_script (s : script_obj F) : Prop :=
    wf_system (sc_system F s) /\ snd (snd (sc_tsample F s)) = dimTime /\ snd (snd (sc_dt F s)) = dimTime
    /\ match sc_tmax F s with Some q => snd (snd q) = dimTime | None => True end /\ snd (snd (sc_interval F s)) = dimTime
    /\ mem_str (sc_policy F s) policies = true /\ mem_str (sc_init F s) init_modes = true.

  Theorem script_roundtrip (s : script_obj F) : wf_script s ->
    exists s', read_script F parse_float zero one milli (write_script F print_float zero wr s) = Ok s' /\ script_equiv s s'.
  Proof.
    intros (Hsy & Hts & Hdt & Htm & Hit & Hpol & Hini). unfold read_script, write_script.
    assert (Hsc : wf_schema schema_script = true /\ forallb (fun syn : list str => match syn with [] => false | _ => true end) schema_script = true
                  /\ length schema_script = 9%nat) by (vm_compute; repeat split).
    destruct Hsc as (Hwf & Hne & Hl). unfold wr at 1.
    rewrite (write_then_read jv schema_script _ Hwf) by (try (cbn [length]; rewrite Hl; reflexivity); apply nonempty_of_forallb; exact Hne).
    unfold read_units_field. assert (U : read_usys (write_usys wr (sc_units F s)) = Ok (sc_units F s)) by apply usys_roundtrip.
    unfold write_usys in U |- *. rewrite U.
    destruct (system_roundtrip (sc_units F s) _ Hsy) as (sy' & Esy & Qsy). rewrite Esy.
    destruct (unitarray_roundtrip dimTime _ Hts) as (ts' & Ets & Qts). rewrite Ets.
    destruct (read_qty_print (sc_dt F s) dimTime Hdt) as (dt' & Edt & Qdt). rewrite Edt.
    assert (Htm' : snd (snd (effective_tmax F zero s)) = dimTime).
    { unfold effective_tmax. destruct (sc_tmax F s) as [q|]; [exact Htm|exact Hts]. }
    destruct (read_qty_print (effective_tmax F zero s) dimTime Htm') as (tm' & Etm & Qtm). rewrite Etm.
    destruct (read_qty_print (sc_interval F s) dimTime Hit) as (it' & Eit & Qit). rewrite Eit.
    rewrite Hpol, Hini. cbn [andb].
    eexists. split; [reflexivity|]. unfold script_equiv. cbn [sc_system sc_tsample sc_dt sc_policy sc_interval sc_seed sc_init sc_units].
    split; [exact Qsy|]. split; [exact Qts|]. split; [exact Qdt|]. split; [exact Qtm|]. split; [reflexivity|]. split; [exact Qit|].
    repeat split; reflexivity.
  Qed.
  (* ---- trajectories (as the dictionary save_rdtrajectory builds with the data in line) ---- *)
  Definition trajectory_equiv (t t' : trajectory_obj F) : Prop :=
    script_equiv (tr_script F t) (tr_script F t') /\ system_equiv (tr_system F t) (tr_system F t') /\ array_equiv (tr_data F t) (tr_data F t')
    /\ array_equiv (tr_t F t) (tr_t F t') /\ tr_descr F t = tr_descr F t' /\ tr_option F t = tr_option F t' /\ tr_cgmap F t = tr_cgmap F t'.
  Definition wf_trajectory (t : trajectory_obj F) : Prop :=
    wf_script (tr_script F t) /\ wf_system (tr_system F t) /\ snd (snd (tr_data F t)) = dimAmount /\ snd (snd (tr_t F t)) = dimTime.

  Lemma fields_of_read (sc : schema) (d : dict jv) vals : read_fields jv sc d = Ok vals -> map (fun syn => field jv syn d) sc = vals.
  Proof. unfold read_fields. destruct (keys_ok jv sc d); [intros H; injection H as <-; reflexivity|discriminate]. Qed.

  Theorem trajectory_roundtrip (t : trajectory_obj F) : wf_trajectory t ->
    exists t', read_trajectory F parse_float zero one milli (write_trajectory F print_float zero wr t) = Ok t' /\ trajectory_equiv t t'.
  Proof.
    intros (Hsc & Hsy & Hd & Ht). unfold read_trajectory, write_trajectory.
    assert (Hs : wf_schema schema_trajectory = true /\ forallb (fun syn : list str => match syn with [] => false | _ => true end) schema_trajectory = true
                  /\ length schema_trajectory = 7%nat) by (vm_compute; repeat split).
    destruct Hs as (Hwf & Hne & Hl). unfold wr at 1.
    match goal with |- context [write_fields jv schema_trajectory ?vals] =>
      assert (R : read_fields jv schema_trajectory (write_fields jv schema_trajectory vals) = Ok vals)
        by (apply (write_then_read jv schema_trajectory vals Hwf); [cbn [length]; rewrite Hl; reflexivity|apply nonempty_of_forallb; exact Hne]);
      rewrite (fields_of_read schema_trajectory _ _ R); clear R
    end.
    destruct (script_roundtrip _ Hsc) as (sc' & Esc & Qsc). rewrite Esc.
    destruct (system_roundtrip default_usys _ Hsy) as (sy' & Esy & Qsy). rewrite Esy.
    destruct (unitarray_roundtrip dimAmount _ Hd) as (d' & Ed & Qd). rewrite Ed.
    destruct (unitarray_roundtrip dimTime _ Ht) as (t' & Et & Qt). rewrite Et.
    destruct (tr_cgmap F t) as [m|] eqn:Ecg; cbn [option_map].
    - rewrite read_list_ints. eexists. split; [reflexivity|]. unfold trajectory_equiv. cbn [tr_script tr_system tr_data tr_t tr_descr tr_option tr_cgmap].
      rewrite Ecg. repeat (split; [first [assumption|reflexivity]|]). reflexivity.
    - eexists. split; [reflexivity|]. unfold trajectory_equiv. cbn [tr_script tr_system tr_data tr_t tr_descr tr_option tr_cgmap].
      rewrite Ecg. repeat (split; [first [assumption|reflexivity]|]). reflexivity.
  Qed.
End WithFloat.
