(* Default state / chemostat map layout and value; getter / setter laws. *)
From Coq Require Import ZArith QArith Qcanon List Lia Field Arith.
From Verif Require Import Num NumFacts Units UnitsFacts Grid System.
Import ListNotations.
Open Scope Qc_scope.

(* ---------------------------------------------------------------- lists *)

Lemma nth_flat_map_uniform {A B} (f : A -> list B) (n : nat) (l : list A) (i j : nat) (a0 : A) (d : B) :
  (forall a, In a l -> length (f a) = n) -> (i < length l)%nat -> (j < n)%nat ->
  nth (i * n + j) (flat_map f l) d = nth j (f (nth i l a0)) d.
Proof.
  revert i. induction l as [|a l IH]; intros i Hlen Hi Hj; [simpl in Hi; lia|].
  cbn [flat_map]. assert (Ha : length (f a) = n) by (apply Hlen; left; reflexivity).
  destruct i as [|i].
  - simpl. rewrite app_nth1 by lia. reflexivity.
  - rewrite app_nth2 by (rewrite Ha; simpl; lia).
    rewrite Ha. replace (S i * n + j - n)%nat with (i * n + j)%nat by (simpl; lia).
    cbn [nth]. apply IH; [intros b Hb; apply Hlen; right; exact Hb | simpl in Hi; lia | exact Hj].
Qed.

Lemma length_flat_map_uniform {A B} (f : A -> list B) (n : nat) (l : list A) :
  (forall a, In a l -> length (f a) = n) -> length (flat_map f l) = (length l * n)%nat.
Proof.
  induction l as [|a l IH]; intros H; [reflexivity|].
  cbn [flat_map length]. rewrite app_length, IH, (H a); [lia | left; reflexivity |].
  intros b Hb. apply H. right. exact Hb.
Qed.

Lemma nth_map' {A B} (f : A -> B) l i d d' : (i < length l)%nat -> nth i (map f l) d = f (nth i l d').
Proof. intros H. rewrite (nth_indep _ d (f d')) by (rewrite map_length; exact H). apply map_nth. Qed.

Lemma set_nth_length {A} i (a : A) l : length (set_nth i a l) = length l.
Proof. revert i. induction l as [|x l IH]; intros [|i]; simpl; auto. Qed.

Lemma nth_set_nth_same {A} i (a d : A) l : (i < length l)%nat -> nth i (set_nth i a l) d = a.
Proof. revert i. induction l as [|x l IH]; intros [|i] H; simpl in *; try lia; auto. apply IH. lia. Qed.

Lemma nth_set_nth_other {A} i j (a d : A) l : i <> j -> nth j (set_nth i a l) d = nth j l d.
Proof.
  revert i j. induction l as [|x l IH]; intros [|i] [|j] H; simpl; auto; try congruence.
Qed.

Lemma index_pair_inj n s c s' c' : (c < n)%nat -> (c' < n)%nat ->
  (s * n + c = s' * n + c')%nat -> s = s' /\ c = c'.
Proof.
  intros Hc Hc' E.
  destruct (Nat.lt_trichotomy s s') as [H|[H|H]].
  - assert (S s * n <= s' * n)%nat by (apply Nat.mul_le_mono_r; lia). simpl in *. lia.
  - subst. split; [reflexivity | lia].
  - assert (S s' * n <= s * n)%nat by (apply Nat.mul_le_mono_r; lia). simpl in *. lia.
Qed.

(* ---------------------------------------------------------------- layout *)

Definition wf_space (sp : space) : Prop :=
  match sp with
  | SGrid g env _ _ => wf_grid g /\ length env = Z.to_nat (gsize g)
  | SGraph _ _ _ => True
  end.

Lemma cell_envs_length sp : wf_space sp -> length (cell_envs sp) = ncells sp.
Proof. destruct sp as [g env vol u|nodes edges u]; simpl; [tauto | intros _; apply map_length]. Qed.

Lemma cell_vols_length sp : length (cell_vols sp) = ncells sp.
Proof. destruct sp as [g env vol u|nodes edges u]; simpl; rewrite map_length; [apply seq_length | reflexivity]. Qed.

Lemma species_state_length net sp s : wf_space sp -> length (species_state net sp s) = ncells sp.
Proof.
  intros H. unfold species_state. rewrite map_length, combine_length, cell_envs_length, cell_vols_length by exact H.
  apply Nat.min_id.
Qed.

Lemma species_chstt_length net sp s : wf_space sp -> length (species_chstt net sp s) = ncells sp.
Proof. intros H. unfold species_chstt. rewrite map_length. apply cell_envs_length. exact H. Qed.

Theorem default_state_length sys : wf_space (sy_space sys) ->
  length (default_state sys) = (length (n_species (sy_net sys)) * ncells (sy_space sys))%nat.
Proof. intros H. unfold default_state. apply length_flat_map_uniform. intros; apply species_state_length; exact H. Qed.

Theorem default_chstt_length sys : wf_space (sy_space sys) ->
  length (default_chstt sys) = (length (n_species (sy_net sys)) * ncells (sy_space sys))%nat.
Proof. intros H. unfold default_chstt. apply length_flat_map_uniform. intros; apply species_chstt_length; exact H. Qed.

Definition dummy_species : species :=
  {| sp_label := 0%nat; sp_D := Scalar zero_density; sp_dens := Scalar zero_density; sp_chs := Scalar false |}.

Theorem default_state_entry sys s c : wf_space (sy_space sys) ->
  (s < length (n_species (sy_net sys)))%nat -> (c < ncells (sy_space sys))%nat ->
  nth (s * ncells (sy_space sys) + c) (default_state sys) 0 =
  qv (default_entry (sy_net sys) (nth s (n_species (sy_net sys)) dummy_species)
        (nth c (cell_envs (sy_space sys)) 0%Z) (nth c (cell_vols (sy_space sys)) zero_density)).
Proof.
  intros Hw Hs Hc. unfold default_state.
  rewrite (nth_flat_map_uniform _ (ncells (sy_space sys)) _ s c dummy_species 0);
    [| intros; apply species_state_length; exact Hw | exact Hs | exact Hc].
  unfold species_state.
  set (f := fun ev : Z * quantity => qv (default_entry (sy_net sys) (nth s (n_species (sy_net sys)) dummy_species) (fst ev) (snd ev))).
  rewrite (nth_indep _ 0 (f (0%Z, zero_density))).
  - rewrite map_nth. unfold f. rewrite combine_nth by (rewrite cell_envs_length, cell_vols_length; auto). reflexivity.
  - rewrite map_length, combine_length, cell_envs_length, cell_vols_length by exact Hw. rewrite Nat.min_id. exact Hc.
Qed.

Theorem default_chstt_entry sys s c : wf_space (sy_space sys) ->
  (s < length (n_species (sy_net sys)))%nat -> (c < ncells (sy_space sys))%nat ->
  nth (s * ncells (sy_space sys) + c) (default_chstt sys) false =
  in_env (sp_chs (nth s (n_species (sy_net sys)) dummy_species))
         (env_label (sy_net sys) (nth c (cell_envs (sy_space sys)) 0%Z)) false.
Proof.
  intros Hw Hs Hc. unfold default_chstt.
  rewrite (nth_flat_map_uniform _ (ncells (sy_space sys)) _ s c dummy_species false);
    [| intros; apply species_chstt_length; exact Hw | exact Hs | exact Hc].
  unfold species_chstt. rewrite (nth_map' _ _ c false 0%Z) by (rewrite cell_envs_length; auto). reflexivity.
Qed.

(* ---------------------------------------------------------------- value *)

Lemma SI_qmul a b : SI (qmul a b) = SI a * SI b.
Proof.
  unfold SI, qmul; simpl. rewrite factor_scale, scale_add. field. apply scale_nz.
Qed.

Theorem default_entry_SI net s e vol :
  SI (default_entry net s e vol) = SI (in_env (sp_dens s) (env_label net e) zero_density) * SI vol.
Proof. unfold default_entry. rewrite SI_convert, SI_qmul. reflexivity. Qed.

Theorem default_entry_units net s e vol :
  qd (in_env (sp_dens s) (env_label net e) zero_density) = dim_density -> qd vol = dim_volume ->
  qu (default_entry net s e vol) = n_units net /\ qd (default_entry net s e vol) = dim_amount.
Proof. intros Hd Hv. unfold default_entry, convert, qmul; simpl. rewrite Hd, Hv. split; reflexivity. Qed.

(* cell volumes keep their physical value when expressed in the space's units *)
Theorem cell_vols_SI_grid g env vol u c : (c < Z.to_nat (gsize g))%nat ->
  SI (nth c (cell_vols (SGrid g env vol u)) zero_density) = SI vol.
Proof.
  intros Hc. cbn [cell_vols]. rewrite (nth_map' _ _ c zero_density 0%nat) by (rewrite seq_length; exact Hc).
  apply SI_convert.
Qed.

Theorem cell_vols_SI_graph nodes edges u c : (c < length nodes)%nat ->
  SI (nth c (cell_vols (SGraph nodes edges u)) zero_density) = SI (fst (nth c nodes (zero_density, 0%Z))).
Proof.
  intros Hc. cbn [cell_vols]. rewrite (nth_map' _ _ c zero_density (zero_density, 0%Z)) by exact Hc.
  apply SI_convert.
Qed.

(* the 'default' fall-back order *)
Lemma in_env_found {A} m e (a d : A) : lookup (Some e) m = Some a -> in_env (PerEnv m) e d = a.
Proof. intros H. unfold in_env. rewrite H. reflexivity. Qed.
Lemma in_env_default {A} m e (a d : A) : lookup (Some e) m = None -> lookup None m = Some a -> in_env (PerEnv m) e d = a.
Proof. intros H1 H2. unfold in_env. rewrite H1, H2. reflexivity. Qed.
Lemma in_env_absent {A} m e (d : A) : lookup (Some e) m = None -> lookup None m = None -> in_env (PerEnv m) e d = d.
Proof. intros H1 H2. unfold in_env. rewrite H1, H2. reflexivity. Qed.

(* ---------------------------------------------------------------- getters / setters *)

Theorem get_set_same sys st r p a st' :
  set_state sys st r p a = Ok st' ->
  exists i, state_index sys r p = Ok i /\
    ((i < length (st_v st))%nat ->
     get_state sys st' r p =
       Ok (convert (match a with ABare x => {| qv := x; qu := sy_units sys; qd := dim_amount |} | AQuantity q => q end) (st_u st))).
Proof.
  unfold set_state, get_state. destruct (state_index sys r p) as [i|]; [|discriminate].
  set (q := match a with ABare x => _ | AQuantity q => q end).
  unfold convert_to_units. destruct (dim_eqb dim_amount (qd q)) eqn:E; [|discriminate].
  intros H. inversion H. subst st'. exists i. split; [reflexivity|]. intros Hi. cbn [st_v st_u].
  rewrite nth_set_nth_same by exact Hi. f_equal. apply dim_eqb_eq in E. unfold convert. cbn. rewrite <- E. reflexivity.
Qed.

Theorem get_set_other sys st r p a st' r' p' i j :
  set_state sys st r p a = Ok st' -> state_index sys r p = Ok i -> state_index sys r' p' = Ok j -> i <> j ->
  get_state sys st' r' p' = get_state sys st r' p'.
Proof.
  unfold set_state, get_state. intros H Hi Hj Hne. rewrite Hi in H. rewrite Hj.
  destruct (convert_to_units _ (st_u st) dim_amount) as [q'|]; [|discriminate].
  inversion H. subst st'. cbn [st_v st_u]. rewrite nth_set_nth_other by exact Hne. reflexivity.
Qed.

(* distinct (species, cell) pairs are distinct entries *)
Theorem state_index_inj sys s c s' c' :
  (c < ncells (sy_space sys))%nat -> (c' < ncells (sy_space sys))%nat ->
  (s * ncells (sy_space sys) + c = s' * ncells (sy_space sys) + c')%nat -> s = s' /\ c = c'.
Proof. apply index_pair_inj. Qed.

Theorem set_state_wrong_dimension sys st r p q :
  qd q <> dim_amount -> set_state sys st r p (AQuantity q) = Err.
Proof.
  intros H. unfold set_state. destruct (state_index sys r p); [|reflexivity].
  rewrite convert_to_units_wrong_dim; [reflexivity | congruence].
Qed.

Theorem chemostat_get_set_same sys ch r p b ch' i :
  set_chemostat sys ch r p b = Ok ch' -> state_index sys r p = Ok i -> (i < length ch)%nat ->
  get_chemostat sys ch' r p = Ok b.
Proof.
  unfold set_chemostat, get_chemostat. intros H Hi Hl. rewrite Hi in *. inversion H.
  rewrite nth_set_nth_same by exact Hl. reflexivity.
Qed.

Theorem chemostat_get_set_other sys ch r p b ch' r' p' i j :
  set_chemostat sys ch r p b = Ok ch' -> state_index sys r p = Ok i -> state_index sys r' p' = Ok j -> i <> j ->
  get_chemostat sys ch' r' p' = get_chemostat sys ch r' p'.
Proof.
  unfold set_chemostat, get_chemostat. intros H Hi Hj Hne. rewrite Hi in H. rewrite Hj. inversion H.
  rewrite nth_set_nth_other by exact Hne. reflexivity.
Qed.

(* species addressed by label or by index designate the same entry *)
Lemma find_label_spec l ss k i : find_label l ss k = Some i ->
  (k <= i)%nat /\ sp_label (nth (i - k) ss dummy_species) = l /\ (i - k < length ss)%nat.
Proof.
  revert k. induction ss as [|s ss IH]; intros k H; simpl in H; [discriminate|].
  destruct (Nat.eqb (sp_label s) l) eqn:E.
  - inversion H. subst. replace (i - i)%nat with 0%nat by lia. simpl. apply Nat.eqb_eq in E. repeat split; auto; lia.
  - apply IH in H. destruct H as (H1 & H2 & H3). split; [lia|].
    replace (i - k)%nat with (S (i - S k)) by lia. simpl. split; [exact H2 | lia].
Qed.

Theorem resolve_species_agree net l i :
  get_species_index net (SByLabel l) = Ok i ->
  get_species_index net (SByIndex (Z.of_nat i)) = Ok i /\ sp_label (nth i (n_species net) dummy_species) = l.
Proof.
  unfold get_species_index. destruct (find_label l (n_species net) 0) as [k|] eqn:E; [|discriminate].
  intros H. inversion H. subst k. apply find_label_spec in E. destruct E as (_ & E2 & E3).
  rewrite Nat.sub_0_r in *. split; [|exact E2].
  replace ((0 <=? Z.of_nat i)%Z && (Z.of_nat i <? Z.of_nat (length (n_species net)))%Z) with true.
  - rewrite Nat2Z.id. reflexivity.
  - symmetry. apply andb_true_intro. split; [apply Z.leb_le; lia | apply Z.ltb_lt; lia].
Qed.
