(* Obligations over the code's own unit tables (Model/UnitTable.v, regenerated from /repo/src/strengths/units.py on every run):
   every symbol of the code's conversion table is a symbol of the model, of that base kind, with exactly the code's factor;
   the label lists are the table's keys (litre and molar families: symbols of the model of those kinds); the model knows no
   symbol the code does not list.  Closed computations over finite tables. *)
From Coq Require Import NArith ZArith QArith Qcanon List Bool.
From Verif Require Import Num ReactionText Units UnitText UnitTable.
Import ListNotations.

Definition entry_ok (kind : nat) (e : list N * Qc) : bool :=
  match classify (fst e), kind with
  | Some (KSpace u), 0%nat => Qceqb (si_space u) (snd e)
  | Some (KTime u), 1%nat => Qceqb (si_time u) (snd e)
  | Some (KAmount u), 2%nat => Qceqb (si_amount u) (snd e)
  | _, _ => false
  end.

Definition strs_eqb (a b : list (list N)) : bool := forall2b str_eqb a b.
Definition mem_s (k : list N) (l : list (list N)) : bool := existsb (str_eqb k) l.

Definition code_tables_ok : bool :=
  forallb (entry_ok 0) code_space && forallb (entry_ok 1) code_time && forallb (entry_ok 2) code_quantity
  && strs_eqb (map fst code_space) code_labels_space && strs_eqb (map fst code_time) code_labels_time
  && strs_eqb (map fst code_quantity) code_labels_quantity
  && forallb (fun l => match classify l with Some (KMolar _) => true | _ => false end) code_labels_density
  && forallb (fun l => match classify l with Some (KVolume _) => true | _ => false end) code_labels_volume.

(* nothing in the model that the code does not list *)
Definition model_symbols_listed : bool :=
  forallb (fun k => mem_s (sym_of k) (code_labels_space ++ code_labels_time ++ code_labels_quantity ++ code_labels_density ++ code_labels_volume)) all_kinds.

(* no symbol is listed under two bases (a spelling has one meaning); a label repeated inside one list is harmless *)
Fixpoint dedup_s (l : list (list N)) : list (list N) :=
  match l with [] => [] | a :: r => if mem_s a r then dedup_s r else a :: dedup_s r end.
Fixpoint nodup_s (l : list (list N)) : bool := match l with [] => true | a :: r => negb (mem_s a r) && nodup_s r end.
Definition code_symbols_unambiguous : bool :=
  nodup_s (dedup_s code_labels_space ++ dedup_s code_labels_time ++ dedup_s code_labels_quantity
           ++ dedup_s code_labels_density ++ dedup_s code_labels_volume).

Lemma code_tables_agree : code_tables_ok = true.
Proof. vm_compute. reflexivity. Qed.

Lemma model_has_no_other_symbol : model_symbols_listed = true.
Proof. vm_compute. reflexivity. Qed.

Lemma code_symbols_one_meaning : code_symbols_unambiguous = true.
Proof. vm_compute. reflexivity. Qed.

(* ---- the two chains nested in parse_units (litre symbol -> space unit cubed; molar symbol -> amount unit per space unit cubed) ---- *)
(* a row is right when its symbols are of the right kinds, it is the model's own choice of base unit, and - independently of that
   choice - the unit it builds is the physical one: 10^prefix litres, 10^prefix mol per litre, the litre being (1 dm)^3 *)
Definition volume_row_ok (e : list N * list N) : bool :=
  match classify (fst e), classify (snd e) with
  | Some (KVolume v), Some (KSpace u) =>
      Qceqb (Qcpowz (si_space u) 3) (p10 (volume_prefix v) * Qcpowz (si_space Dm) 3) && space_eqb u (volume_base v)
  | _, _ => false
  end.
Definition molar_row_ok (e : list N * (list N * list N)) : bool :=
  match classify (fst e), classify (fst (snd e)), classify (snd (snd e)) with
  | Some (KMolar m), Some (KAmount a), Some (KSpace u) =>
      Qceqb (si_amount a / Qcpowz (si_space u) 3) (p10 (molar_prefix m) * si_amount Mol / Qcpowz (si_space Dm) 3)
      && amount_eqb a (molar_base m) && space_eqb u Dm
  | _, _, _ => false
  end.
Definition code_chains_ok : bool :=
  forallb volume_row_ok code_volume_chain && forallb molar_row_ok code_molar_chain
  && forallb (fun l => mem_s l (map fst code_volume_chain)) code_labels_volume
  && forallb (fun l => mem_s l (map fst code_molar_chain)) code_labels_density
  && forallb (fun l => mem_s l code_labels_volume) (map fst code_volume_chain)
  && forallb (fun l => mem_s l code_labels_density) (map fst code_molar_chain).

Lemma code_chains_agree : code_chains_ok = true.
Proof. vm_compute. reflexivity. Qed.
