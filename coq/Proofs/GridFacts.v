(* Grid geometry lemmas: index/coordinate bijection, per-axis agreement of the four neighbour
   relations (with multiplicity), engine neighbour involution. *)
From Coq Require Import ZArith List Bool Lia ZifyBool.
From Verif Require Import Num Grid.
Import ListNotations.
Open Scope Z_scope.

(* ------------------------------------------------------------------ bijection *)

Lemma mod_of_mod w h i : 0 < w -> 0 < h -> (i mod (w * h)) mod w = i mod w.
Proof.
  intros Hw Hh.
  rewrite (Z.div_mod i (w * h)) at 2 by nia.
  replace (w * h * (i / (w * h)) + i mod (w * h)) with (i mod (w * h) + (h * (i / (w * h))) * w) by ring.
  rewrite Z.mod_add by lia. reflexivity.
Qed.

Lemma index_coords g i : wf_grid g -> index g (coords g i) = i.
Proof.
  intros (Hw & Hh & Hd). unfold index, coords.
  set (w := gw g) in *. set (h := gh g) in *.
  pose proof (Z.div_mod i (w * h)) as E1.
  pose proof (Z.div_mod (i mod (w * h)) w) as E2.
  rewrite mod_of_mod in E2 by assumption.
  assert (w * h <> 0) by nia. assert (w <> 0) by lia.
  specialize (E1 H). specialize (E2 H0). lia.
Qed.

Lemma coords_in_grid g i : wf_grid g -> 0 <= i < gsize g -> in_grid g (coords g i) = true.
Proof.
  intros (Hw & Hh & Hd) Hi. unfold in_grid, coords, gsize in *.
  set (w := gw g) in *. set (h := gh g) in *. set (d := gd g) in *.
  assert (Hwh : 0 < w * h) by nia.
  pose proof (Z.mod_pos_bound i w Hw).
  pose proof (Z.mod_pos_bound i (w * h) Hwh).
  assert (0 <= i mod (w * h) / w < h).
  { split; [apply Z.div_pos; lia|]. apply Z.div_lt_upper_bound; lia. }
  assert (0 <= i / (w * h) < d).
  { split; [apply Z.div_pos; lia|]. apply Z.div_lt_upper_bound; nia. }
  lia.
Qed.

Lemma in_grid_spec g x y z :
  in_grid g (x, y, z) = true <-> (0 <= x < gw g /\ 0 <= y < gh g /\ 0 <= z < gd g).
Proof. unfold in_grid. rewrite !andb_true_iff. lia. Qed.

Lemma index_range g p : wf_grid g -> in_grid g p = true -> 0 <= index g p < gsize g.
Proof.
  intros (Hw & Hh & Hd) Hp. destruct p as [[x y] z]. apply in_grid_spec in Hp.
  destruct Hp as (Hx & Hy & Hz). unfold index, gsize.
  set (w := gw g) in *. set (h := gh g) in *. set (d := gd g) in *.
  assert (0 <= y * w <= (h - 1) * w) by nia.
  assert (0 < w * h) by nia.
  assert (0 <= z * (w * h) <= (d - 1) * (w * h)) by nia.
  nia.
Qed.

Lemma coords_index g p : wf_grid g -> in_grid g p = true -> coords g (index g p) = p.
Proof.
  intros (Hw & Hh & Hd) Hp. destruct p as [[x y] z]. apply in_grid_spec in Hp.
  destruct Hp as (Hx & Hy & Hz). unfold coords, index.
  set (w := gw g) in *. set (h := gh g) in *.
  assert (Hwh : 0 < w * h) by nia.
  assert (Er : (z * (w * h) + y * w + x) mod (w * h) = y * w + x).
  { replace (z * (w * h) + y * w + x) with ((y * w + x) + z * (w * h)) by ring.
    rewrite Z.mod_add by lia. apply Z.mod_small. nia. }
  assert (Ex : (z * (w * h) + y * w + x) mod w = x).
  { replace (z * (w * h) + y * w + x) with (x + (z * h + y) * w) by ring.
    rewrite Z.mod_add by lia. apply Z.mod_small. lia. }
  assert (Ey : (y * w + x) / w = y).
  { replace (y * w + x) with (x + y * w) by ring. rewrite Z.div_add by lia.
    rewrite Z.div_small by lia. lia. }
  assert (Ez : (z * (w * h) + y * w + x) / (w * h) = z).
  { replace (z * (w * h) + y * w + x) with ((y * w + x) + z * (w * h)) by ring.
    rewrite Z.div_add by lia. rewrite Z.div_small by nia. lia. }
  rewrite Er, Ex, Ey, Ez. reflexivity.
Qed.

Lemma index_inj g p q : wf_grid g -> in_grid g p = true -> in_grid g q = true ->
  index g p = index g q -> p = q.
Proof.
  intros Hg Hp Hq E. rewrite <- (coords_index g p), <- (coords_index g q) by assumption.
  rewrite E. reflexivity.
Qed.

Lemma get_cell_index_outside_index g i : ~ (0 <= i < gsize g) -> get_cell_index g (PIndex i) = Err.
Proof. intros H. unfold get_cell_index, in_range. destruct ((0 <=? i) && (i <? gsize g)) eqn:E; [lia|reflexivity]. Qed.

Lemma get_cell_index_outside_coord g p : in_grid g p = false -> get_cell_index g (PCoord p) = Err.
Proof. intros H. unfold get_cell_index. rewrite H. reflexivity. Qed.

Lemma get_cell_coordinates_outside g i : ~ (0 <= i < gsize g) -> get_cell_coordinates g i = Err.
Proof. intros H. unfold get_cell_coordinates, in_range. destruct ((0 <=? i) && (i <? gsize g)) eqn:E; [lia|reflexivity]. Qed.

(* ------------------------------------------------------------------ one axis *)

Lemma wrap_cases n y : 0 < n -> -1 <= y <= n ->
  (n + y) mod n = if y =? -1 then n - 1 else if y =? n then 0 else y.
Proof.
  intros Hn Hy. destruct (y =? -1) eqn:E1; [|destruct (y =? n) eqn:E2].
  - assert (y = -1) by lia. subst. replace (n + -1) with (n - 1) by ring. apply Z.mod_small. lia.
  - assert (y = n) by lia. subst. replace (n + n) with (0 + 2 * n) by ring.
    rewrite Z.mod_add by lia. apply Z.mod_small. lia.
  - replace (n + y) with (y + 1 * n) by ring. rewrite Z.mod_add by lia. apply Z.mod_small. lia.
Qed.

Lemma countZ_app b l m : countZ b (l ++ m) = (countZ b l + countZ b m)%nat.
Proof. unfold countZ. rewrite filter_app, app_length. reflexivity. Qed.

Lemma countZ_nil b : countZ b [] = 0%nat.
Proof. reflexivity. Qed.

Lemma countZ_opt b c a : countZ b (opt_list c a) = if c && (b =? a) then 1%nat else 0%nat.
Proof. unfold opt_list, countZ. destruct c; simpl; [destruct (b =? a); reflexivity | reflexivity]. Qed.

Lemma countZ_olist b o : countZ b (olist o) = match o with Some a => if b =? a then 1%nat else 0%nat | None => 0%nat end.
Proof. destruct o; unfold countZ; simpl; [destruct (b =? z); reflexivity | reflexivity]. Qed.

Lemma axis_eng1_plus n per x : 0 < n -> 0 <= x < n ->
  axis_eng1 n per x 1 =
  if per then Some (if x =? n - 1 then 0 else x + 1) else if x =? n - 1 then None else Some (x + 1).
Proof.
  intros Hn Hx. unfold axis_eng1, wrap_eng. cbv zeta. destruct per.
  - rewrite wrap_cases by lia.
    replace (x + 1 =? -1) with false by lia.
    replace (x + 1 =? n) with (x =? n - 1) by lia.
    destruct (x =? n - 1) eqn:E.
    + replace ((0 <=? 0) && (0 <? n)) with true by lia. reflexivity.
    + replace ((0 <=? x + 1) && (x + 1 <? n)) with true by lia. reflexivity.
  - destruct (x =? n - 1) eqn:E.
    + replace ((0 <=? x + 1) && (x + 1 <? n)) with false by lia. reflexivity.
    + replace ((0 <=? x + 1) && (x + 1 <? n)) with true by lia. reflexivity.
Qed.

Lemma axis_eng1_minus n per x : 0 < n -> 0 <= x < n ->
  axis_eng1 n per x (-1) =
  if per then Some (if x =? 0 then n - 1 else x - 1) else if x =? 0 then None else Some (x - 1).
Proof.
  intros Hn Hx. unfold axis_eng1, wrap_eng. cbv zeta. replace (x + -1) with (x - 1) by ring. destruct per.
  - rewrite wrap_cases by lia.
    replace (x - 1 =? -1) with (x =? 0) by lia.
    destruct (x =? 0) eqn:E.
    + replace ((0 <=? n - 1) && (n - 1 <? n)) with true by lia. reflexivity.
    + replace (x - 1 =? n) with false by lia.
      replace ((0 <=? x - 1) && (x - 1 <? n)) with true by lia. reflexivity.
  - destruct (x =? 0) eqn:E.
    + replace ((0 <=? x - 1) && (x - 1 <? n)) with false by lia. reflexivity.
    + replace ((0 <=? x - 1) && (x - 1 <? n)) with true by lia. reflexivity.
Qed.

Lemma axis_kin1_eq n per x d : axis_kin1 n per x d = axis_eng1 n (per && (1 <? n)) x d.
Proof. reflexivity. Qed.

(* multiplicity of a distinct cell x' among the neighbours of x along one axis:
   2 on a periodic axis of length 2, 1 when adjacent (cyclically if periodic), else 0 *)
Definition axis_mult (n : Z) (per : bool) (x x' : Z) : nat :=
  ((if (x' =? x + 1)%Z then 1 else 0) + (if (x' =? x - 1)%Z then 1 else 0)
   + (if per && (x =? 0)%Z && (x' =? n - 1)%Z then 1 else 0)
   + (if per && (x =? n - 1)%Z && (x' =? 0)%Z then 1 else 0))%nat.

Lemma axis_py_mult n per x x' : 0 < n -> 0 <= x < n -> 0 <= x' < n -> x <> x' ->
  countZ x' (axis_py n per x) = axis_mult n per x x'.
Proof.
  intros Hn Hx Hx' Hne. unfold axis_py, axis_mult.
  rewrite !countZ_app, !countZ_opt.
  destruct per; cbn [andb];
  destruct (x' =? x + 1) eqn:A; destruct (x' =? x - 1) eqn:B;
  destruct (x =? 0) eqn:C; destruct (x =? n - 1) eqn:D;
  destruct (x' =? n - 1) eqn:E; destruct (x' =? 0) eqn:F;
  destruct (0 <? x) eqn:G; destruct (x <? n - 1) eqn:H; cbn [andb]; try lia.
Qed.

Lemma axis_eng_mult n per x x' : 0 < n -> 0 <= x < n -> 0 <= x' < n -> x <> x' ->
  countZ x' (axis_eng n per x) = axis_mult n per x x'.
Proof.
  intros Hn Hx Hx' Hne. unfold axis_eng, axis_mult.
  rewrite countZ_app, !countZ_olist, axis_eng1_plus, axis_eng1_minus by lia.
  destruct per; cbn [andb];
  destruct (x =? 0) eqn:C; destruct (x =? n - 1) eqn:D; cbn [andb];
  destruct (x' =? x + 1) eqn:A; destruct (x' =? x - 1) eqn:B;
  destruct (x' =? n - 1) eqn:E; destruct (x' =? 0) eqn:F; cbn [andb]; lia.
Qed.

Lemma axis_kin_mult n per x x' : 0 < n -> 0 <= x < n -> 0 <= x' < n -> x <> x' ->
  countZ x' (axis_kin n per x) = axis_mult n per x x'.
Proof.
  intros Hn Hx Hx' Hne. unfold axis_kin, axis_mult.
  rewrite countZ_app, !countZ_olist, !axis_kin1_eq, axis_eng1_plus, axis_eng1_minus by lia.
  destruct per; cbn [andb]; [destruct (1 <? n) eqn:N|];
  destruct (x =? 0) eqn:C; destruct (x =? n - 1) eqn:D; cbn [andb];
  destruct (x' =? x + 1) eqn:A; destruct (x' =? x - 1) eqn:B;
  destruct (x' =? n - 1) eqn:E; destruct (x' =? 0) eqn:F; cbn [andb]; lia.
Qed.

(* the pairwise test agrees with a positive multiplicity *)
Lemma axis_dist_mult n per x x' : 0 < n -> 0 <= x < n -> 0 <= x' < n -> x <> x' ->
  (axis_dist n per x x' = 1 <-> (0 < axis_mult n per x x')%nat).
Proof.
  intros Hn Hx Hx' Hne. unfold axis_dist, axis_mult.
  destruct per; cbn [andb];
  destruct (x' =? x + 1) eqn:A; destruct (x' =? x - 1) eqn:B;
  destruct (x =? 0) eqn:C; destruct (x =? n - 1) eqn:D;
  destruct (x' =? n - 1) eqn:E; destruct (x' =? 0) eqn:F; cbn [andb]; lia.
Qed.

Lemma axis_dist_pos n per x x' : 0 < n -> 0 <= x < n -> 0 <= x' < n -> x <> x' ->
  1 <= axis_dist n per x x'.
Proof. intros. unfold axis_dist. destruct per; lia. Qed.

Lemma axis_dist_nonneg n per x x' : 0 <= axis_dist n per x x'.
Proof. unfold axis_dist. destruct per; lia. Qed.

Lemma axis_dist_refl n per x : axis_dist n per x x = 0.
Proof. unfold axis_dist. replace (x - x) with 0 by ring. destruct per; simpl; lia. Qed.

Lemma axis_dist_sym n per x x' : axis_dist n per x x' = axis_dist n per x' x.
Proof. unfold axis_dist. replace (Z.abs (x - x')) with (Z.abs (x' - x)) by lia. reflexivity. Qed.

Lemma axis_mult_sym n per x x' : 0 < n -> 0 <= x < n -> 0 <= x' < n -> x <> x' ->
  axis_mult n per x x' = axis_mult n per x' x.
Proof.
  intros Hn Hx Hx' Hne. unfold axis_mult.
  destruct per; cbn [andb];
  repeat match goal with
  | |- context [if ?c then _ else _] => let Q := fresh "Q" in destruct c eqn:Q
  end; try lia.
Qed.

(* ------------------------------------------------------------------ three axes *)

Lemma countC_app q l m : countC q (l ++ m) = (countC q l + countC q m)%nat.
Proof. unfold countC. rewrite filter_app, app_length. reflexivity. Qed.

Lemma map_opt_list {A B} (f : A -> B) c a : map f (opt_list c a) = opt_list c (f a).
Proof. destruct c; reflexivity. Qed.

Lemma map_olist {A B} (f : A -> B) o : map f (olist o) = olist (option_map f o).
Proof. destruct o; reflexivity. Qed.

Lemma countC_lift_x x y z x' y' z' l :
  countC (x', y', z') (lift_x (x, y, z) l) = if (y' =? y) && (z' =? z) then countZ x' l else 0%nat.
Proof.
  unfold lift_x, countC, countZ. induction l as [|a l IH]; simpl.
  - destruct ((y' =? y) && (z' =? z)); reflexivity.
  - destruct (y' =? y) eqn:Ey; destruct (z' =? z) eqn:Ez; cbn [andb] in *;
    rewrite ?andb_true_r, ?andb_false_r; cbn [andb];
    destruct (x' =? a); simpl; rewrite ?IH; reflexivity.
Qed.

Lemma countC_lift_y x y z x' y' z' l :
  countC (x', y', z') (lift_y (x, y, z) l) = if (x' =? x) && (z' =? z) then countZ y' l else 0%nat.
Proof.
  unfold lift_y, countC, countZ. induction l as [|a l IH]; simpl.
  - destruct ((x' =? x) && (z' =? z)); reflexivity.
  - destruct (x' =? x) eqn:Ey; destruct (z' =? z) eqn:Ez; cbn [andb] in *;
    rewrite ?andb_true_r, ?andb_false_r; cbn [andb];
    destruct (y' =? a); simpl; rewrite ?IH; reflexivity.
Qed.

Lemma countC_lift_z x y z x' y' z' l :
  countC (x', y', z') (lift_z (x, y, z) l) = if (x' =? x) && (y' =? y) then countZ z' l else 0%nat.
Proof.
  unfold lift_z, countC, countZ. induction l as [|a l IH]; simpl.
  - destruct ((x' =? x) && (y' =? y)); reflexivity.
  - destruct (x' =? x) eqn:Ey; destruct (y' =? y) eqn:Ez; cbn [andb] in *;
    rewrite ?andb_true_r, ?andb_false_r; cbn [andb];
    destruct (z' =? a); simpl; rewrite ?IH; reflexivity.
Qed.

(* the neighbour lists decomposed per axis *)
Definition axes3 (ax : Z -> bool -> Z -> list Z) (g : grid) (p : coord) : list coord :=
  let '(x, y, z) := p in
  lift_x p (ax (gw g) (px g) x) ++ lift_y p (ax (gh g) (py g) y) ++ lift_z p (ax (gd g) (pz g) z).

Lemma py_nbrs_axes g p q : countC q (py_nbrs_c g p) = countC q (axes3 axis_py g p).
Proof.
  destruct p as [[x y] z]. unfold py_nbrs_c, axes3, lift_x, lift_y, lift_z, axis_py.
  rewrite !map_app, !map_opt_list, !countC_app. lia.
Qed.

Lemma wrap_eng_id n per y : 0 < n -> 0 <= y < n -> wrap_eng n per y = y.
Proof.
  intros Hn Hy. unfold wrap_eng. destruct per; [|reflexivity].
  replace (n + y) with (y + 1 * n) by ring. rewrite Z.mod_add by lia. apply Z.mod_small. lia.
Qed.

Lemma wrap_kin_id n per y : 0 < n -> 0 <= y < n -> wrap_kin n per y = y.
Proof. intros. unfold wrap_kin. apply (wrap_eng_id n (per && (1 <? n))); assumption. Qed.

Lemma in_grid_x g a x y z : in_grid g (x, y, z) = true -> in_grid g (a, y, z) = (0 <=? a) && (a <? gw g).
Proof. rewrite in_grid_spec. intros H. unfold in_grid. destruct ((0 <=? a) && (a <? gw g)); lia. Qed.
Lemma in_grid_y g a x y z : in_grid g (x, y, z) = true -> in_grid g (x, a, z) = (0 <=? a) && (a <? gh g).
Proof. rewrite in_grid_spec. intros H. unfold in_grid. destruct ((0 <=? a) && (a <? gh g)) eqn:E; lia. Qed.
Lemma in_grid_z g a x y z : in_grid g (x, y, z) = true -> in_grid g (x, y, a) = (0 <=? a) && (a <? gd g).
Proof. rewrite in_grid_spec. intros H. unfold in_grid. destruct ((0 <=? a) && (a <? gd g)) eqn:E; lia. Qed.

Lemma eng_nbr_c_axis g x y z : wf_grid g -> in_grid g (x, y, z) = true ->
  eng_nbr_c g (x, y, z) 0 = option_map (fun a => (a, y, z)) (axis_eng1 (gw g) (px g) x 1) /\
  eng_nbr_c g (x, y, z) 1 = option_map (fun a => (a, y, z)) (axis_eng1 (gw g) (px g) x (-1)) /\
  eng_nbr_c g (x, y, z) 2 = option_map (fun a => (x, a, z)) (axis_eng1 (gh g) (py g) y 1) /\
  eng_nbr_c g (x, y, z) 3 = option_map (fun a => (x, a, z)) (axis_eng1 (gh g) (py g) y (-1)) /\
  eng_nbr_c g (x, y, z) 4 = option_map (fun a => (x, y, a)) (axis_eng1 (gd g) (pz g) z 1) /\
  eng_nbr_c g (x, y, z) 5 = option_map (fun a => (x, y, a)) (axis_eng1 (gd g) (pz g) z (-1)).
Proof.
  intros (Hw & Hh & Hd) Hp. pose proof Hp as Hp'. apply in_grid_spec in Hp'. destruct Hp' as (Hx & Hy & Hz).
  unfold eng_nbr_c, dir_delta, axis_eng1. cbv zeta.
  rewrite !Z.add_0_r.
  rewrite (wrap_eng_id (gw g) (px g) x), (wrap_eng_id (gh g) (py g) y), (wrap_eng_id (gd g) (pz g) z) by lia.
  rewrite !(in_grid_x g _ x y z Hp), !(in_grid_y g _ x y z Hp), !(in_grid_z g _ x y z Hp).
  repeat split; match goal with |- (if ?c then _ else _) = _ => destruct c; reflexivity end.
Qed.

Lemma eng_nbrs_axes g p : wf_grid g -> in_grid g p = true -> eng_nbrs_c g p = axes3 axis_eng g p.
Proof.
  intros Hg Hp. destruct p as [[x y] z].
  destruct (eng_nbr_c_axis g x y z Hg Hp) as (E0 & E1 & E2 & E3 & E4 & E5).
  unfold eng_nbrs_c, dirs. cbn [flat_map]. rewrite E0, E1, E2, E3, E4, E5.
  unfold axes3, lift_x, lift_y, lift_z, axis_eng.
  rewrite !map_app, !map_olist, app_nil_r, <- !app_assoc. reflexivity.
Qed.

Lemma kin_nbr_c_eq g p dir :
  kin_nbr_c g p dir =
  eng_nbr_c {| gw := gw g; gh := gh g; gd := gd g; px := px g && (1 <? gw g);
               py := py g && (1 <? gh g); pz := pz g && (1 <? gd g) |} p dir.
Proof. reflexivity. Qed.

Lemma kin_nbrs_axes g p : wf_grid g -> in_grid g p = true -> kin_nbrs_c g p = axes3 axis_kin g p.
Proof.
  intros Hg Hp.
  set (g' := {| gw := gw g; gh := gh g; gd := gd g; px := px g && (1 <? gw g);
                py := py g && (1 <? gh g); pz := pz g && (1 <? gd g) |}).
  assert (E : kin_nbrs_c g p = eng_nbrs_c g' p) by reflexivity.
  rewrite E. rewrite eng_nbrs_axes; [| exact Hg | exact Hp].
  destruct p as [[x y] z]. reflexivity.
Qed.

(* multiplicity of q among the neighbours of p *)
Definition mult3 (g : grid) (p q : coord) : nat :=
  let '(x, y, z) := p in let '(x', y', z') := q in
  ((if (y' =? y)%Z && (z' =? z)%Z then axis_mult (gw g) (px g) x x' else 0)
   + (if (x' =? x)%Z && (z' =? z)%Z then axis_mult (gh g) (py g) y y' else 0)
   + (if (x' =? x)%Z && (y' =? y)%Z then axis_mult (gd g) (pz g) z z' else 0))%nat.

Lemma axes3_mult ax g p q :
  (forall n per x x', 0 < n -> 0 <= x < n -> 0 <= x' < n -> x <> x' -> countZ x' (ax n per x) = axis_mult n per x x') ->
  wf_grid g -> in_grid g p = true -> in_grid g q = true -> p <> q ->
  countC q (axes3 ax g p) = mult3 g p q.
Proof.
  intros Hax (Hw & Hh & Hd) Hp Hq Hne. destruct p as [[x y] z], q as [[x' y'] z'].
  apply in_grid_spec in Hp. apply in_grid_spec in Hq.
  unfold axes3, mult3. rewrite !countC_app, countC_lift_x, countC_lift_y, countC_lift_z.
  destruct (x' =? x) eqn:Ex; destruct (y' =? y) eqn:Ey; destruct (z' =? z) eqn:Ez; cbn [andb];
  try lia.
  - exfalso. apply Hne. f_equal; [f_equal|]; lia.
  - rewrite Hax by lia. lia.
  - rewrite Hax by lia. lia.
  - rewrite Hax by lia. lia.
Qed.

Lemma are_nb_c_mult g p q : wf_grid g -> in_grid g p = true -> in_grid g q = true -> p <> q ->
  (are_nb_c g p q = true <-> (0 < mult3 g p q)%nat).
Proof.
  intros (Hw & Hh & Hd) Hp Hq Hne. destruct p as [[x y] z], q as [[x' y'] z'].
  apply in_grid_spec in Hp. apply in_grid_spec in Hq.
  unfold are_nb_c, mult3. rewrite Z.eqb_eq.
  pose proof (axis_dist_nonneg (gw g) (px g) x x').
  pose proof (axis_dist_nonneg (gh g) (py g) y y').
  pose proof (axis_dist_nonneg (gd g) (pz g) z z').
  destruct (x' =? x) eqn:Ex; destruct (y' =? y) eqn:Ey; destruct (z' =? z) eqn:Ez; cbn [andb].
  - exfalso. apply Hne. f_equal; [f_equal|]; lia.
  - assert (x' = x) by lia. assert (y' = y) by lia. subst x' y'. rewrite !axis_dist_refl.
    pose proof (axis_dist_mult (gd g) (pz g) z z') as M. destruct M as [M1 M2]; lia.
  - assert (x' = x) by lia. assert (z' = z) by lia. subst x' z'. rewrite !axis_dist_refl.
    pose proof (axis_dist_mult (gh g) (py g) y y') as M. destruct M as [M1 M2]; lia.
  - pose proof (axis_dist_pos (gh g) (py g) y y'). pose proof (axis_dist_pos (gd g) (pz g) z z'). lia.
  - assert (y' = y) by lia. assert (z' = z) by lia. subst y' z'. rewrite !axis_dist_refl.
    pose proof (axis_dist_mult (gw g) (px g) x x') as M. destruct M as [M1 M2]; lia.
  - pose proof (axis_dist_pos (gw g) (px g) x x'). pose proof (axis_dist_pos (gd g) (pz g) z z'). lia.
  - pose proof (axis_dist_pos (gw g) (px g) x x'). pose proof (axis_dist_pos (gh g) (py g) y y'). lia.
  - pose proof (axis_dist_pos (gw g) (px g) x x'). pose proof (axis_dist_pos (gh g) (py g) y y'). lia.
Qed.

Lemma mult3_sym g p q : wf_grid g -> in_grid g p = true -> in_grid g q = true -> p <> q ->
  mult3 g p q = mult3 g q p.
Proof.
  intros (Hw & Hh & Hd) Hp Hq Hne. destruct p as [[x y] z], q as [[x' y'] z'].
  apply in_grid_spec in Hp. apply in_grid_spec in Hq. unfold mult3.
  rewrite (Z.eqb_sym x x'), (Z.eqb_sym y y'), (Z.eqb_sym z z').
  destruct (x' =? x) eqn:Ex; destruct (y' =? y) eqn:Ey; destruct (z' =? z) eqn:Ez; cbn [andb]; try lia.
  - exfalso. apply Hne. f_equal; [f_equal|]; lia.
  - rewrite (axis_mult_sym (gd g)) by lia. lia.
  - rewrite (axis_mult_sym (gh g)) by lia. lia.
  - rewrite (axis_mult_sym (gw g)) by lia. lia.
Qed.

(* ------------------------------------------------------------------ index level *)

Lemma coord_eqb_eq p q : coord_eqb p q = true <-> p = q.
Proof.
  destruct p as [[x y] z], q as [[x' y'] z']. unfold coord_eqb.
  rewrite !andb_true_iff, !Z.eqb_eq. split.
  - intros [[-> ->] ->]. reflexivity.
  - intros E. inversion E. auto.
Qed.

Lemma countZ_map_index g l b : wf_grid g ->
  (forall c, In c l -> in_grid g c = true) -> 0 <= b < gsize g ->
  countZ b (map (index g) l) = countC (coords g b) l.
Proof.
  intros Hg Hl Hb. unfold countZ, countC. induction l as [|c l IH]; [reflexivity|].
  cbn [map filter].
  assert (Hc : in_grid g c = true) by (apply Hl; left; reflexivity).
  assert (E : (b =? index g c) = coord_eqb (coords g b) c).
  { destruct (coord_eqb (coords g b) c) eqn:Q.
    - apply coord_eqb_eq in Q. subst c. rewrite index_coords by assumption. apply Z.eqb_refl.
    - destruct (b =? index g c) eqn:R; [|reflexivity].
      apply Z.eqb_eq in R. subst b. rewrite coords_index in Q by assumption.
      assert (coord_eqb c c = true) by (apply coord_eqb_eq; reflexivity). congruence. }
  rewrite E. destruct (coord_eqb (coords g b) c); cbn [length]; rewrite IH; auto;
  intros c' Hc'; apply Hl; right; exact Hc'.
Qed.

Lemma py_nbrs_in_grid g p c : wf_grid g -> in_grid g p = true -> In c (py_nbrs_c g p) -> in_grid g c = true.
Proof.
  intros (Hw & Hh & Hd) Hp. destruct p as [[x y] z]. apply in_grid_spec in Hp.
  unfold py_nbrs_c. rewrite !in_app_iff. unfold opt_list.
  intros H.
  repeat match type of H with
  | _ \/ _ => destruct H as [H|H]
  end;
  match type of H with
  | In _ (if ?b then _ else _) => destruct b eqn:B; [destruct H as [H|[]]; subst c; apply in_grid_spec; lia | destruct H]
  end.
Qed.

Lemma olist_in {A} (o : option A) a : In a (olist o) <-> o = Some a.
Proof.
  destruct o as [b|]; simpl; split; intros H.
  - destruct H as [->|[]]. reflexivity.
  - inversion H. left. reflexivity.
  - destruct H.
  - discriminate.
Qed.

Lemma eng_nbrs_in_grid g p c : In c (eng_nbrs_c g p) -> in_grid g c = true.
Proof.
  unfold eng_nbrs_c. rewrite in_flat_map. intros (dir & _ & H). apply olist_in in H.
  unfold eng_nbr_c in H. destruct p as [[x y] z]. destruct (dir_delta dir) as [[dx dy] dz].
  match type of H with (if ?b then _ else _) = _ => destruct b eqn:B end; [|discriminate].
  inversion H. subst c. exact B.
Qed.

Lemma kin_nbrs_in_grid g p c : In c (kin_nbrs_c g p) -> in_grid g c = true.
Proof.
  unfold kin_nbrs_c. rewrite in_flat_map. intros (dir & _ & H). apply olist_in in H.
  unfold kin_nbr_c in H. destruct p as [[x y] z]. destruct (dir_delta dir) as [[dx dy] dz].
  match type of H with (if ?b then _ else _) = _ => destruct b eqn:B end; [|discriminate].
  inversion H. subst c. exact B.
Qed.


Lemma coords_neq g a b : wf_grid g -> a <> b -> coords g a <> coords g b.
Proof. intros Hg Hne E. apply Hne. rewrite <- (index_coords g a Hg), <- (index_coords g b Hg), E. reflexivity. Qed.

Theorem neighbour_multiplicities g a b : wf_grid g -> 0 <= a < gsize g -> 0 <= b < gsize g -> a <> b ->
  countZ b (py_get_neighbors g a) = mult3 g (coords g a) (coords g b) /\
  countZ b (kin_neighbors g a) = mult3 g (coords g a) (coords g b) /\
  countZ b (eng_neighbors g a) = mult3 g (coords g a) (coords g b) /\
  (are_neighbors g a b = Ok true <-> (0 < mult3 g (coords g a) (coords g b))%nat).
Proof.
  intros Hg Ha Hb Hne.
  pose proof (coords_in_grid g a Hg Ha) as Hpa. pose proof (coords_in_grid g b Hg Hb) as Hpb.
  pose proof (coords_neq g a b Hg Hne) as Hpq.
  assert (I1 : forall c, In c (py_nbrs_c g (coords g a)) -> in_grid g c = true)
    by (intros c Hc; exact (py_nbrs_in_grid g (coords g a) c Hg Hpa Hc)).
  assert (I2 : forall c, In c (kin_nbrs_c g (coords g a)) -> in_grid g c = true)
    by (intros c Hc; exact (kin_nbrs_in_grid g (coords g a) c Hc)).
  assert (I3 : forall c, In c (eng_nbrs_c g (coords g a)) -> in_grid g c = true)
    by (intros c Hc; exact (eng_nbrs_in_grid g (coords g a) c Hc)).
  repeat split.
  - unfold py_get_neighbors. rewrite (countZ_map_index g _ b Hg I1 Hb).
    rewrite py_nbrs_axes. apply axes3_mult; auto. exact axis_py_mult.
  - unfold kin_neighbors. rewrite (countZ_map_index g _ b Hg I2 Hb).
    rewrite kin_nbrs_axes by auto. apply axes3_mult; auto. exact axis_kin_mult.
  - unfold eng_neighbors. rewrite (countZ_map_index g _ b Hg I3 Hb).
    rewrite eng_nbrs_axes by auto. apply axes3_mult; auto. exact axis_eng_mult.
  - unfold are_neighbors, in_range. intros H.
    replace ((0 <=? a) && (a <? gsize g) && ((0 <=? b) && (b <? gsize g))) with true in H by lia.
    inversion H as [H']. apply are_nb_c_mult; auto.
  - unfold are_neighbors, in_range. intros H.
    replace ((0 <=? a) && (a <? gsize g) && ((0 <=? b) && (b <? gsize g))) with true by lia.
    f_equal. apply are_nb_c_mult; auto.
Qed.

Lemma are_nb_c_sym g p q : are_nb_c g p q = are_nb_c g q p.
Proof.
  destruct p as [[x y] z], q as [[x' y'] z']. unfold are_nb_c.
  rewrite (axis_dist_sym (gw g)), (axis_dist_sym (gh g)), (axis_dist_sym (gd g)). reflexivity.
Qed.

Lemma are_neighbors_sym g a b : are_neighbors g a b = are_neighbors g b a.
Proof. unfold are_neighbors. rewrite andb_comm, are_nb_c_sym. reflexivity. Qed.

(* engine neighbour involution (every w,h,d >= 1; periodic axes of length 1 and 2 included) *)
Lemma axis_eng1_invol n per x d y : 0 < n -> 0 <= x < n -> (d = 1 \/ d = -1) ->
  axis_eng1 n per x d = Some y -> 0 <= y < n /\ axis_eng1 n per y (- d) = Some x.
Proof.
  intros Hn Hx [-> | ->]; cbn [Z.opp].
  - rewrite axis_eng1_plus by lia. destruct per.
    + destruct (x =? n - 1) eqn:E; intros H; inversion H; subst y; (split; [lia|]);
      rewrite axis_eng1_minus by lia.
      * replace (0 =? 0) with true by lia. f_equal. lia.
      * replace (x + 1 =? 0) with false by lia. f_equal. lia.
    + destruct (x =? n - 1) eqn:E; intros H; inversion H; subst y. split; [lia|].
      rewrite axis_eng1_minus by lia. replace (x + 1 =? 0) with false by lia. f_equal. lia.
  - rewrite axis_eng1_minus by lia. destruct per.
    + destruct (x =? 0) eqn:E; intros H; inversion H; subst y; (split; [lia|]);
      rewrite axis_eng1_plus by lia.
      * replace (n - 1 =? n - 1) with true by lia. f_equal. lia.
      * replace (x - 1 =? n - 1) with false by lia. f_equal. lia.
    + destruct (x =? 0) eqn:E; intros H; inversion H; subst y. split; [lia|].
      rewrite axis_eng1_plus by lia. replace (x - 1 =? n - 1) with false by lia. f_equal. lia.
Qed.

Lemma eng_nbr_c_invol g p dir q : wf_grid g -> in_grid g p = true -> (dir < 6)%nat ->
  eng_nbr_c g p dir = Some q -> in_grid g q = true /\ eng_nbr_c g q (opp_dir dir) = Some p.
Proof.
  intros Hg Hp Hdir H. destruct p as [[x y] z].
  pose proof Hg as (Hw & Hh & Hd). pose proof Hp as Hp'. apply in_grid_spec in Hp'. destruct Hp' as (Hx & Hy & Hz).
  destruct (eng_nbr_c_axis g x y z Hg Hp) as (E0 & E1 & E2 & E3 & E4 & E5).
  assert (Hq : in_grid g q = true).
  { apply (eng_nbrs_in_grid g (x, y, z)). unfold eng_nbrs_c. apply in_flat_map. exists dir. split.
    - unfold dirs. do 6 (destruct dir as [|dir]; [simpl; tauto|]). lia.
    - apply olist_in. exact H. }
  split; [exact Hq|].
  do 6 (destruct dir as [|dir]; [
    cbn [opp_dir];
    match goal with
    | Hd : eng_nbr_c g (x, y, z) ?k = Some q, Ek : eng_nbr_c g (x, y, z) ?k = _ |- _ => rewrite Ek in Hd
    end;
    match type of H with option_map _ (axis_eng1 ?n ?per ?c ?dd) = _ =>
      destruct (axis_eng1 n per c dd) as [a|] eqn:EA; [|discriminate];
      apply axis_eng1_invol in EA; [|lia|lia|lia]; destruct EA as [Ra EA]; cbn [Z.opp] in EA
    end;
    cbn [option_map] in H; inversion H; subst q;
    match goal with
    | |- eng_nbr_c g (?a', ?b', ?c') _ = _ =>
        destruct (eng_nbr_c_axis g a' b' c' Hg Hq) as (F0 & F1 & F2 & F3 & F4 & F5)
    end;
    first [rewrite F0 | rewrite F1 | rewrite F2 | rewrite F3 | rewrite F4 | rewrite F5];
    rewrite EA; reflexivity |]).
  lia.
Qed.

Theorem engine_nbr_involution g i dir j : wf_grid g -> 0 <= i < gsize g -> (dir < 6)%nat ->
  engine_nbr g i dir = Some j -> 0 <= j < gsize g /\ engine_nbr g j (opp_dir dir) = Some i.
Proof.
  intros Hg Hi Hdir H. unfold engine_nbr in *.
  destruct (eng_nbr_c g (coords g i) dir) as [q|] eqn:E; [|discriminate].
  cbn [option_map] in H. inversion H. subst j.
  apply eng_nbr_c_invol in E; auto using coords_in_grid. destruct E as [Hq E].
  split; [apply index_range; auto|].
  rewrite coords_index by auto. rewrite E. cbn [option_map]. rewrite index_coords by auto. reflexivity.
Qed.
