(* Facts about dictionary key processing (Model/Dict.v). *)
From Coq Require Import NArith List Lia Bool.
From Verif Require Import Num ReactionText ReactionTextFacts Schemas Dict.

Section DictFacts.
  Variable A : Type.
  Notation dict := (dict A).

  (* an unknown key is rejected *)
  Lemma unknown_key_rejected sc (d : dict) k v : In (k, v) d -> known sc k = false -> read_fields A sc d = Err.
  Proof.
    intros Hin Hk. unfold read_fields, keys_ok.
    assert (E : forallb (fun kv : str * A => known sc (fst kv)) d = false).
    { apply not_true_is_false. intro H. rewrite forallb_forall in H. specialize (H (k, v) Hin). cbn in H. congruence. }
    rewrite E. reflexivity.
  Qed.

  (* a field given under two of its synonyms (or twice) is rejected *)
  Lemma double_alias_rejected sc (d : dict) syn : In syn sc -> (2 <= count_in A syn d)%nat -> read_fields A sc d = Err.
  Proof.
    intros Hin Hc. unfold read_fields, keys_ok.
    assert (E : forallb (fun syn => Nat.leb (count_in A syn d) 1) sc = false).
    { apply not_true_is_false. intro H. rewrite forallb_forall in H. specialize (H syn Hin). apply Nat.leb_le in H. lia. }
    rewrite E, andb_false_r. reflexivity.
  Qed.

  (* ---------- aliases are interchangeable ---------- *)
  (* membership of a key in a synonym list depends on the key up to equality only; renaming k to k', both in the list `syn0`
     and in no other list of a well-formed schema, does not change which entries belong to which field *)
  Lemma rename_in_syn (k k' : str) (syn : list str) (d : dict) :
    in_syn k syn = in_syn k' syn ->
    map (fun kv : str * A => in_syn (fst kv) syn) (rename A k k' d) = map (fun kv : str * A => in_syn (fst kv) syn) d.
  Proof.
    intro H. unfold rename. rewrite map_map. apply map_ext. intros [k0 v]. cbn [fst snd].
    destruct (str_eqb k0 k) eqn:E; [|reflexivity]. apply str_eqb_eq in E. subst k0. cbn [fst]. symmetry. exact H.
  Qed.

  Lemma find_map_flags (f g : str * A -> bool) (l m : list (str * A)) :
    map f l = map g m -> map snd l = map snd m -> option_map snd (find f l) = option_map snd (find g m).
  Proof.
    revert m. induction l as [|a l IH]; intros [|b m] Hf Hs; try discriminate; [reflexivity|].
    cbn [map] in Hf, Hs. injection Hf as Hf1 Hf2. injection Hs as Hs1 Hs2. cbn [find]. rewrite Hf1.
    destruct (g b); [cbn; congruence|apply IH; assumption].
  Qed.

  Lemma rename_values k k' (d : dict) : map snd (rename A k k' d) = map snd d.
  Proof. unfold rename. rewrite map_map. apply map_ext. intros [k0 v]. cbn [fst snd]. destruct (str_eqb k0 k); reflexivity. Qed.

  Lemma filter_length_flags (f g : str * A -> bool) (l m : list (str * A)) :
    map f l = map g m -> length (filter f l) = length (filter g m).
  Proof.
    revert m. induction l as [|a l IH]; intros [|b m] H; try discriminate; [reflexivity|].
    cbn [map] in H. injection H as H1 H2. cbn [filter]. rewrite H1. destruct (g b); cbn [length]; rewrite (IH m H2); reflexivity.
  Qed.

  (* renaming a key into a synonym of the same field (the two keys being synonyms of no other field) changes neither the
     acceptance of the dictionary nor the value read for any field *)
  Lemma forallb_flags {X} (f g : X -> bool) (l m : list X) : map f l = map g m -> forallb f l = forallb g m.
  Proof.
    revert m. induction l as [|a l IH]; intros [|b m] H; try discriminate; [reflexivity|].
    cbn [map] in H. injection H as H1 H2. cbn [forallb]. rewrite H1, (IH m H2). reflexivity.
  Qed.

  Lemma known_rename sc k k' : (forall syn, In syn sc -> in_syn k syn = in_syn k' syn) -> known sc k' = known sc k.
  Proof.
    intro H. unfold known. induction sc as [|syn sc IH]; [reflexivity|]. cbn [existsb].
    rewrite (H syn (or_introl eq_refl)), IH; [reflexivity|]. intros s Hs. apply H. right. exact Hs.
  Qed.

  Theorem alias_interchangeable sc (d : dict) k k' :
    (forall syn, In syn sc -> in_syn k syn = in_syn k' syn) ->
    read_fields A sc (rename A k k' d) = read_fields A sc d.
  Proof.
    intro H. unfold read_fields, keys_ok.
    assert (H1 : forallb (fun kv : str * A => known sc (fst kv)) (rename A k k' d) = forallb (fun kv : str * A => known sc (fst kv)) d).
    { apply forallb_flags. unfold rename. rewrite map_map. apply map_ext. intros [k0 v]. cbn [fst snd].
      destruct (str_eqb k0 k) eqn:E; [|reflexivity]. apply str_eqb_eq in E. subst k0. cbn [fst]. apply known_rename. exact H. }
    assert (H2 : forall syn, In syn sc -> count_in A syn (rename A k k' d) = count_in A syn d).
    { intros syn Hs. unfold count_in. apply filter_length_flags. apply rename_in_syn. apply H. exact Hs. }
    assert (H3 : forallb (fun syn => Nat.leb (count_in A syn (rename A k k' d)) 1) sc = forallb (fun syn => Nat.leb (count_in A syn d) 1) sc).
    { clear H1. induction sc as [|syn sc IH]; [reflexivity|]. cbn [forallb]. rewrite (H2 syn (or_introl eq_refl)).
      rewrite IH; [reflexivity| |]; intros s Hs; [apply H|apply H2]; right; exact Hs. }
    rewrite H1, H3. destruct (_ && _); [|reflexivity]. f_equal.
    clear H1 H3. induction sc as [|syn sc IH]; [reflexivity|]. cbn [map]. f_equal.
    - unfold field. apply find_map_flags; [apply rename_in_syn; apply H; left; reflexivity|apply rename_values].
    - apply IH; intros s Hs; [apply H|apply H2]; right; exact Hs.
  Qed.
End DictFacts.

(* ---------- the concrete tables ---------- *)
Lemma schemas_wellformed : forallb wf_schema all_schemas = true.
Proof. vm_compute. reflexivity. Qed.

Lemma writers_are_read : forallb (fun p : list str * schema => writer_read (fst p) (snd p)) writers_and_readers = true.
Proof. vm_compute. reflexivity. Qed.

Lemma readers_read_primaries : forallb (fun p : list str * schema => reads_primary (fst p) (snd p)) uses_and_readers = true.
Proof. vm_compute. reflexivity. Qed.

Lemma readers_read_every_field : forallb (fun p : list str * schema => fields_read dispatch_keys (fst p) (snd p)) uses_and_readers = true.
Proof. vm_compute. reflexivity. Qed.

Lemma writers_write_every_field : forallb (fun p : list str * schema => fields_written (fst p) (snd p)) writers_and_readers = true.
Proof. vm_compute. reflexivity. Qed.
