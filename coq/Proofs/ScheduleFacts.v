From Coq Require Import ZArith QArith Qcanon List Lia Bool.
From Verif Require Import Num NumFacts Sampling SamplingFacts Schedule.
Open Scope Qc_scope.

Section WithChem.
  Variable X : Type.
  Variable chem_step : X -> X.
  Notation full := (full X).
  Notation fiterate := (fiterate X chem_step).
  Notation fiterate_n := (fiterate_n X chem_step).
  Notation fiter := (fiter X chem_step).
  Notation do_sched := (do_sched X chem_step).
  Notation do_scheds := (do_scheds X chem_step).
  Notation obs := (obs X).

  Lemma reset_done_idem s : reset_done (reset_done s) = reset_done s.
  Proof. destruct s; reflexivity. Qed.
  Lemma iterate_reset st s : iterate st (reset_done s) = iterate st s.
  Proof. destruct s; reflexivity. Qed.
  Lemma reset_done_complete s : s_complete (reset_done s) = s_complete s.
  Proof. destruct s; reflexivity. Qed.

  (* an iteration does not see the flag *)
  Lemma fiterate_obs dt f g : obs f = obs g -> fiterate dt f = fiterate dt g.
  Proof.
    destruct f as [s x], g as [s' x']. unfold obs. cbn [fst snd]. intro H.
    assert (Hs : reset_done s = reset_done s') by exact (f_equal fst H).
    assert (Hx : x = x') by exact (f_equal snd H). subst x'.
    assert (Hi : iterate (Some dt) s = iterate (Some dt) s').
    { rewrite <- (iterate_reset (Some dt) s), Hs, iterate_reset. reflexivity. }
    assert (Hc : s_complete s = s_complete s').
    { rewrite <- (reset_done_complete s), Hs, reset_done_complete. reflexivity. }
    unfold Schedule.fiterate. rewrite Hi, Hc. reflexivity.
  Qed.

  (* once complete, an iteration changes nothing observable *)
  Lemma fiterate_complete dt f : s_complete (fst f) = true -> obs (fiterate dt f) = obs f.
  Proof.
    destruct f as [s x]. cbn [fst]. intro C. unfold fiterate, obs. rewrite C. cbn [fst snd].
    rewrite (iterate_complete _ _ C), reset_done_idem. reflexivity.
  Qed.

  Lemma fiter_obs dt n : forall f g, obs f = obs g -> obs (fiter dt n f) = obs (fiter dt n g).
  Proof.
    induction n as [|n IH]; intros f g H; [exact H|]. cbn [Schedule.fiter]. apply IH. rewrite (fiterate_obs dt f g H). reflexivity.
  Qed.

  Lemma fiter_complete dt n : forall f, s_complete (fst f) = true -> obs (fiter dt n f) = obs f.
  Proof.
    induction n as [|n IH]; intros f C; [reflexivity|]. cbn [Schedule.fiter].
    pose proof (fiterate_complete dt f C) as H.
    assert (C' : s_complete (fst (fiterate dt f)) = true).
    { destruct f as [s x]. cbn [fst] in *. unfold Schedule.fiterate. rewrite C. cbn [fst]. rewrite (iterate_complete _ _ C). apply C. }
    rewrite (IH _ C'). exact H.
  Qed.

  Lemma fiter_add dt a b f : fiter dt (a + b) f = fiter dt b (fiter dt a f).
  Proof. revert f. induction a as [|a IH]; intro f; [reflexivity|]. cbn [Nat.add Schedule.fiter]. apply IH. Qed.

  (* a batch of k iterations that stops at completion is observably k plain iterations *)
  Lemma fiterate_n_obs dt k : forall f, obs (fiterate_n dt k f) = obs (fiter dt k f).
  Proof.
    induction k as [|k IH]; intro f; [reflexivity|]. cbn [Schedule.fiterate_n Schedule.fiter].
    destruct (s_complete (fst (fiterate dt f))) eqn:C.
    - symmetry. apply fiter_complete. exact C.
    - apply IH.
  Qed.

  Lemma do_sched_obs dt c f : obs (do_sched dt f c) = obs (fiter dt (budget c) f).
  Proof.
    destruct c as [|k|j]; cbn [Schedule.do_sched budget].
    - reflexivity.
    - apply fiterate_n_obs.
    - unfold frun. apply fiterate_n_obs.
  Qed.

  Lemma do_sched_congr dt c f g : obs f = obs g -> obs (do_sched dt f c) = obs (do_sched dt g c).
  Proof. intro H. rewrite !do_sched_obs. apply fiter_obs. exact H. Qed.

  (* any schedule is observably its total number of plain iterations *)
  Theorem schedule_is_count dt cs : forall f, obs (do_scheds dt cs f) = obs (fiter dt (total_budget cs) f).
  Proof.
    induction cs as [|c cs IH]; intro f; [reflexivity|].
    cbn [Schedule.do_scheds fold_left total_budget fold_right].
    change (fold_left (Schedule.do_sched X chem_step dt) cs (do_sched dt f c)) with (do_scheds dt cs (do_sched dt f c)).
    rewrite IH. rewrite fiter_add.
    apply fiter_obs. apply do_sched_obs.
  Qed.

  (* two schedules that both perform at least as many iterations as it takes to complete end in the same observable state *)
  Theorem schedules_agree dt cs1 cs2 f n :
    s_complete (fst (fiter dt n f)) = true -> (n <= total_budget cs1)%nat -> (n <= total_budget cs2)%nat ->
    obs (do_scheds dt cs1 f) = obs (do_scheds dt cs2 f).
  Proof.
    intros C H1 H2. rewrite !schedule_is_count.
    replace (total_budget cs1) with (n + (total_budget cs1 - n))%nat by lia.
    replace (total_budget cs2) with (n + (total_budget cs2 - n))%nat by lia.
    rewrite !fiter_add. rewrite !(fiter_complete dt _ _ C). reflexivity.
  Qed.
End WithChem.
