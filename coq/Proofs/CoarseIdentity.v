(* C16, last clause: simulating with the identity map reproduces the plain simulation.  The coarse-grained
   graph of a reflecting grid under the identity map has one node per cell (volume h^3: cg_identity_volume),
   grid_to_graph's edges with one face each (cg_identity_edges) and centroid distances of one cell edge
   (cg_identity_distance); as an engine geometry it therefore is graph_of_grid, on which the rate law, the
   derivative and every Euler trajectory equal the grid's (GridGraphRate). *)
From Coq Require Import ZArith QArith Qcanon List Lia Bool.
From Verif Require Import Num NumFacts Grid GridFacts GridGraphFacts Coarse CoarseFacts CoarseEdges Engine EngineFacts GridGraphRate.
Import ListNotations.
Open Scope Qc_scope.

(* engine geometry of a coarse-grained graph whose node sizes (cube edges) and edge distances are given *)
Definition cg_geom (hs : list Qc) (es : list (ekey * Qc)) (dist : ekey -> Qc) : geom :=
  GGraph hs (map (fun ks : ekey * Qc => (Z.to_nat (fst (fst ks)), Z.to_nat (snd (fst ks)), snd ks, dist (fst ks))) es).

Theorem cg_identity_geom g h : wf_grid g -> reflecting g ->
  cg_geom (repeat h (Z.to_nat (gsize g))) (cg_edges g (identity_map (Z.to_nat (gsize g))) h) (fun _ => h) = graph_of_grid g h.
Proof.
  intros Hg Hr. unfold cg_geom, graph_of_grid, nat_edges. rewrite cg_identity_edges by assumption.
  rewrite map_map. reflexivity.
Qed.

Theorem cg_identity_trajectories T g h : wf_grid g -> reflecting g -> Z.of_nat (nC T) = gsize g -> h <> 0 ->
  forall dt n x,
  euler_steps T (cg_geom (repeat h (Z.to_nat (gsize g))) (cg_edges g (identity_map (Z.to_nat (gsize g))) h) (fun _ => h)) dt n x
  = euler_steps T (GGrid g h) dt n x.
Proof. intros Hg Hr Hn Hh dt n x. rewrite cg_identity_geom by assumption. apply grid_graph_euler_steps; assumption. Qed.
