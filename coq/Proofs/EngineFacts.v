(* The engine's deterministic derivative equals the rate law (C01), chemostated entries are
   frozen (C03); layout lemmas for the transpositions of engine.cpp. *)
From Coq Require Import ZArith QArith Qcanon List Lia Field Arith Bool.
From Verif Require Import Num NumFacts Grid GridFacts Units System SystemFacts Engine.
Import ListNotations.
Open Scope Qc_scope.

(* ---------------------------------------------------------------- numbers *)

Lemma prodQ_map_div {A} (f : A -> Qc) (g : A -> Z) (V : Qc) (l : list A) : V <> 0 ->
  prodQ (map (fun a => Qcpowz (f a / V) (g a)) l)
  = prodQ (map (fun a => Qcpowz (f a) (g a)) l) / Qcpowz V (fold_right Z.add 0%Z (map g l)).
Proof.
  intros HV. induction l as [|a l IH]; cbn [map].
  - cbn [fold_right]. rewrite Qcpowz_0_r. unfold prodQ; cbn. field. intro H; discriminate H.
  - rewrite !prodQ_cons. cbn [fold_right]. rewrite IH, Qcpowz_div, Qcpowz_add by exact HV. field.
    split; apply Qcpowz_nonzero; exact HV.
Qed.

Lemma Qceqb_false a b : Qceqb a b = false <-> a <> b.
Proof.
  split.
  - intros H E. apply Qceqb_eq in E. congruence.
  - intros H. destruct (Qceqb a b) eqn:E; [apply Qceqb_eq in E; contradiction | reflexivity].
Qed.

Lemma Dint_sym hi hj Di Dj : Dint hi hj Di Dj = Dint hj hi Dj Di.
Proof.
  unfold Dint. rewrite orb_comm. destruct (Qceqb Dj 0 || Qceqb Di 0); [reflexivity|].
  f_equal; ring.
Qed.

(* ---------------------------------------------------------------- mass action *)

Theorem reaction_rate_is_mass_action T G x i r : vol_of G i <> 0 ->
  reaction_rate T G x i r = mass_action T G x i r.
Proof.
  intros HV. unfold reaction_rate, mass_action, mesh_kr.
  rewrite (prodQ_map_div (fun s => X T x i s) (fun s => Sub T s r) (vol_of G i) (species_idx T) HV).
  fold (order T r). rewrite Qcpowz_sub, Qcpowz_1_r by exact HV. field.
  apply Qcpowz_nonzero. exact HV.
Qed.

(* ---------------------------------------------------------------- grid diffusion *)

Definition wf_geom (T : etab) (G : geom) : Prop :=
  match G with
  | GGrid g h => wf_grid g /\ h <> 0 /\ Z.of_nat (nC T) = gsize g
  | GGraph hs edges =>
      (forall i, (i < length hs)%nat -> nth i hs 0 <> 0) /\
      (forall e, In e edges -> let '(a, b, sf, ds) := e in (a < length hs)%nat /\ (b < length hs)%nat /\ ds <> 0)
  end.

Lemma nbr_involution T g h i dir j : wf_geom T (GGrid g h) -> (i < nC T)%nat -> (dir < 6)%nat ->
  nbr g i dir = Some j -> (j < nC T)%nat /\ nbr g j (opp_dir dir) = Some i.
Proof.
  intros (Hg & _ & Hn) Hi Hd. unfold nbr.
  destruct (engine_nbr g (Z.of_nat i) dir) as [jz|] eqn:E; [|discriminate].
  cbn [option_map]. intros H. inversion H. subst j.
  apply engine_nbr_involution in E; [|exact Hg|lia|exact Hd]. destruct E as [Hj E].
  split; [lia|]. rewrite Z2Nat.id by lia. rewrite E. cbn [option_map]. rewrite Nat2Z.id. reflexivity.
Qed.

Lemma flux_grid_form T g h x i s dir j : wf_geom T (GGrid g h) -> (i < nC T)%nat -> (dir < 6)%nat ->
  nbr g i dir = Some j ->
  flux_grid T g h x i s dir = - exchange T (GGrid g h) x s i j (h * h) h.
Proof.
  intros Hw Hi Hd Hn. pose proof Hw as (_ & Hh & _).
  destruct (nbr_involution T g h i dir j Hw Hi Hd Hn) as [Hj Hback].
  unfold flux_grid, kd_grid, exchange. rewrite Hn, Hback. cbn [edge_of vol_of cube].
  rewrite (Dint_sym h h (Dc T s (Env T j)) (Dc T s (Env T i))).
  unfold vol_of, edge_of, cube. field. exact Hh.
Qed.

Lemma sumQ_flat_map {A B} (f : A -> list B) (g : B -> Qc) l :
  sumQ (map g (flat_map f l)) = sumQ (map (fun a => sumQ (map g (f a))) l).
Proof.
  induction l as [|a l IH]; cbn [flat_map map]; [reflexivity|].
  rewrite map_app, sumQ_app, sumQ_cons, IH. reflexivity.
Qed.

Lemma sumQ_map_opp {A} (f : A -> Qc) l : sumQ (map (fun a => - f a) l) = - sumQ (map f l).
Proof. induction l as [|a l IH]; cbn [map]; [unfold sumQ; cbn; ring|]. rewrite !sumQ_cons, IH. ring. Qed.

Lemma dirs_lt dir : In dir dirs -> (dir < 6)%nat.
Proof. unfold dirs. simpl. intros H. repeat (destruct H as [H|H]; [subst; lia|]). destruct H. Qed.

Theorem diffusion_grid_form T g h x i s : wf_geom T (GGrid g h) -> (i < nC T)%nat ->
  diffusion_out T (GGrid g h) x i s
  = - sumQ (map (fun sl : slot => exchange T (GGrid g h) x s i (fst (fst sl)) (snd (fst sl)) (snd sl))
                (neighbours (GGrid g h) i)).
Proof.
  intros Hw Hi. unfold diffusion_out, neighbours. rewrite sumQ_flat_map, <- sumQ_map_opp.
  apply sumQ_map_ext. intros dir Hdir. apply dirs_lt in Hdir.
  destruct (nbr g i dir) as [j|] eqn:E.
  - cbn [map fst snd]. rewrite sumQ_cons, sumQ_nil. rewrite (flux_grid_form T g h x i s dir j Hw Hi Hdir E). ring.
  - unfold flux_grid. rewrite E. cbn [map]. rewrite sumQ_nil. ring.
Qed.

(* ---------------------------------------------------------------- graph diffusion *)

Lemma slots_of_in edges i sl : In sl (slots_of edges i) ->
  exists e, In e edges /\ let '(a, b, sf, ds) := e in
    (a = i /\ sl = (b, sf, ds)) \/ (b = i /\ sl = (a, sf, ds)).
Proof.
  unfold slots_of. rewrite in_flat_map. intros (e & He & H). exists e. split; [exact He|].
  destruct e as [[[a b] sf] ds]. apply in_app_or in H. destruct H as [H|H].
  - destruct (Nat.eqb a i) eqn:E; [|destruct H]. apply Nat.eqb_eq in E. destruct H as [H|[]]. left. auto.
  - destruct (Nat.eqb b i) eqn:E; [|destruct H]. apply Nat.eqb_eq in E. destruct H as [H|[]]. right. auto.
Qed.

Lemma flux_graph_form T hs edges x i s sl : wf_geom T (GGraph hs edges) -> In sl (slots_of edges i) ->
  flux_graph T hs x i s sl = - exchange T (GGraph hs edges) x s i (fst (fst sl)) (snd (fst sl)) (snd sl).
Proof.
  intros (Hh & He) Hin. apply slots_of_in in Hin. destruct Hin as (e & Hin & Hsl).
  specialize (He e Hin). destruct e as [[[a b] sf] ds]. destruct He as (Ha & Hb & Hds).
  destruct Hsl as [[-> ->]|[-> ->]]; unfold flux_graph, kd_out, kd_in, exchange; cbn [fst snd];
  unfold vol_of, edge_of, cube; field; repeat split; auto.
Qed.

Theorem diffusion_graph_form T hs edges x i s : wf_geom T (GGraph hs edges) ->
  diffusion_out T (GGraph hs edges) x i s
  = - sumQ (map (fun sl : slot => exchange T (GGraph hs edges) x s i (fst (fst sl)) (snd (fst sl)) (snd sl))
                (neighbours (GGraph hs edges) i)).
Proof.
  intros Hw. unfold diffusion_out, neighbours. rewrite <- sumQ_map_opp.
  apply sumQ_map_ext. intros sl Hsl. apply flux_graph_form; assumption.
Qed.

(* ---------------------------------------------------------------- C01: engine derivative = rate law *)

Definition vols_nonzero (T : etab) (G : geom) : Prop := forall i, (i < nC T)%nat -> vol_of G i <> 0.

Theorem dxdt_is_rate_law T G x i s : wf_geom T G -> vols_nonzero T G -> (i < nC T)%nat ->
  Chs T i s = false -> dxdt T G x i s = rate_law T G x i s.
Proof.
  intros Hw Hv Hi Hc. unfold dxdt, rate_law. rewrite Hc. unfold reaction_part.
  assert (E1 : sumQ (map (fun r => QcZ (Sto T s r) * reaction_rate T G x i r) (reaction_idx T))
             = sumQ (map (fun r => QcZ (Sto T s r) * mass_action T G x i r) (reaction_idx T))).
  { apply sumQ_map_ext. intros r _. rewrite reaction_rate_is_mass_action by (apply Hv; exact Hi). reflexivity. }
  rewrite E1. destruct G as [g h|hs edges].
  - rewrite diffusion_grid_form by assumption. ring.
  - rewrite diffusion_graph_form by assumption. ring.
Qed.

Lemma cube_nz h : h <> 0 -> cube h <> 0.
Proof.
  intros H E. unfold cube in E. apply Qcmult_integral in E. destruct E as [E|E]; [|contradiction].
  apply Qcmult_integral in E. destruct E; contradiction.
Qed.

Lemma wf_grid_vols T g h : wf_geom T (GGrid g h) -> vols_nonzero T (GGrid g h).
Proof. intros (_ & Hh & _) i _. cbn. apply cube_nz. exact Hh. Qed.

Lemma wf_graph_vols T hs edges : wf_geom T (GGraph hs edges) -> nC T = length hs -> vols_nonzero T (GGraph hs edges).
Proof. intros (Hh & _) Hn i Hi. cbn. apply cube_nz. apply Hh. lia. Qed.

(* ---------------------------------------------------------------- C03: frozen entries *)

Theorem dxdt_chemostat T G x i s : Chs T i s = true -> dxdt T G x i s = 0.
Proof. intros H. unfold dxdt. rewrite H. reflexivity. Qed.

(* layout of cm_tabulate *)
Lemma nth_flat_map_seq (ns nc : nat) (f : nat -> nat -> Qc) i s :
  (i < nc)%nat -> (s < ns)%nat ->
  nth (i * ns + s) (flat_map (fun i => map (fun s => f i s) (seq 0 ns)) (seq 0 nc)) 0 = f i s.
Proof.
  intros Hi Hs.
  rewrite (nth_flat_map_uniform (fun i => map (fun s => f i s) (seq 0 ns)) ns (seq 0 nc) i s 0%nat 0).
  - rewrite seq_nth by exact Hi. cbn [Nat.add].
    rewrite (nth_map' (fun s => f i s) (seq 0 ns) s 0 0%nat) by (rewrite seq_length; exact Hs).
    rewrite seq_nth by exact Hs. reflexivity.
  - intros a _. rewrite map_length, seq_length. reflexivity.
  - rewrite seq_length. exact Hi.
  - exact Hs.
Qed.

Lemma X_cm_tabulate T f i s : (i < nC T)%nat -> (s < nS T)%nat -> X T (cm_tabulate T f) i s = f i s.
Proof. intros Hi Hs. unfold X, cm_tabulate, species_idx, cell_idx. apply nth_flat_map_seq; assumption. Qed.

Lemma cm_tabulate_length T f : length (cm_tabulate T f) = (nC T * nS T)%nat.
Proof.
  unfold cm_tabulate, species_idx, cell_idx.
  rewrite (length_flat_map_uniform _ (nS T)); [rewrite seq_length; reflexivity|].
  intros a _. rewrite map_length, seq_length. reflexivity.
Qed.

Theorem euler_step_entry T G dt x i s : (i < nC T)%nat -> (s < nS T)%nat ->
  X T (euler_step T G dt x) i s = X T x i s + dxdt T G x i s * dt.
Proof. intros Hi Hs. unfold euler_step. apply X_cm_tabulate; assumption. Qed.

Theorem euler_step_frozen T G dt x i s : (i < nC T)%nat -> (s < nS T)%nat -> Chs T i s = true ->
  X T (euler_step T G dt x) i s = X T x i s.
Proof. intros Hi Hs Hc. rewrite euler_step_entry by assumption. rewrite dxdt_chemostat by exact Hc. ring. Qed.

Theorem euler_steps_frozen T G dt n x i s : (i < nC T)%nat -> (s < nS T)%nat -> Chs T i s = true ->
  X T (euler_steps T G dt n x) i s = X T x i s.
Proof.
  intros Hi Hs Hc. revert x. induction n as [|n IH]; intros x; cbn [euler_steps]; [reflexivity|].
  rewrite IH. apply euler_step_frozen; assumption.
Qed.

(* an unflagged entry follows the rate law *)
Theorem euler_step_unflagged T G dt x i s : wf_geom T G -> vols_nonzero T G ->
  (i < nC T)%nat -> (s < nS T)%nat -> Chs T i s = false ->
  X T (euler_step T G dt x) i s = X T x i s + rate_law T G x i s * dt.
Proof.
  intros Hw Hv Hi Hs Hc. rewrite euler_step_entry by assumption.
  rewrite dxdt_is_rate_law by assumption. reflexivity.
Qed.

(* ---------------------------------------------------------------- transpositions of engine.cpp *)

Lemma to_cell_major_nth {A} (d : A) ns nc x i s : (i < nc)%nat -> (s < ns)%nat ->
  nth (i * ns + s) (to_cell_major d ns nc x) d = nth (s * nc + i) x d.
Proof.
  intros Hi Hs. unfold to_cell_major.
  rewrite (nth_flat_map_uniform (fun i => map (fun s => nth (s * nc + i) x d) (seq 0 ns)) ns (seq 0 nc) i s 0%nat d).
  - rewrite seq_nth by exact Hi. cbn [Nat.add].
    rewrite (nth_map' (fun s => nth (s * nc + i) x d) (seq 0 ns) s d 0%nat) by (rewrite seq_length; exact Hs).
    rewrite seq_nth by exact Hs. reflexivity.
  - intros a _. rewrite map_length, seq_length. reflexivity.
  - rewrite seq_length. exact Hi.
  - exact Hs.
Qed.

Lemma to_species_major_nth {A} (d : A) ns nc x i s : (i < nc)%nat -> (s < ns)%nat ->
  nth (s * nc + i) (to_species_major d ns nc x) d = nth (i * ns + s) x d.
Proof.
  intros Hi Hs. unfold to_species_major.
  rewrite (nth_flat_map_uniform (fun s => map (fun i => nth (i * ns + s) x d) (seq 0 nc)) nc (seq 0 ns) s i 0%nat d).
  - rewrite seq_nth by exact Hs. cbn [Nat.add].
    rewrite (nth_map' (fun i => nth (i * ns + s) x d) (seq 0 nc) i d 0%nat) by (rewrite seq_length; exact Hi).
    rewrite seq_nth by exact Hi. reflexivity.
  - intros a _. rewrite map_length, seq_length. reflexivity.
  - rewrite seq_length. exact Hs.
  - exact Hi.
Qed.

(* export after import returns the species-major entry: what the engine records at t = 0 in
   'none' mode is the state it was given *)
Theorem transpose_roundtrip_entry {A} (d : A) ns nc x i s : (i < nc)%nat -> (s < ns)%nat ->
  nth (s * nc + i) (to_species_major d ns nc (to_cell_major d ns nc x)) d = nth (s * nc + i) x d.
Proof. intros Hi Hs. rewrite to_species_major_nth, to_cell_major_nth by assumption. reflexivity. Qed.
