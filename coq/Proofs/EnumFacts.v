(* Obligations over the string enumerations of the three layers (Model/Enums.v, regenerated from /repo's Python and C++ source on
   every run by harness/translate_enums.py): what the Python validators accept is what the specification (the documented values, as
   the models use them) lists - no more, no less; every accepted string is dispatched by both engine initialisers, to the same
   code, and that code selects the sampler the policy names; every processing mode is resolved by both initialisers to the
   action the specification gives it for a stochastic / deterministic engine, and every branch transposes the amounts to cell-major
   order; the engine's notion of 'stochastic' is the Python side's `requires_molecules`.  Closed computations over finite tables. *)
From Coq Require Import NArith ZArith List Bool.
From Verif Require Import Num ReactionText Sampling InitState ObjDict Enums.
Import ListNotations.
Open Scope N_scope.

Definition mem_s (k : list N) (l : list (list N)) : bool := existsb (str_eqb k) l.
Definition same_set (a b : list (list N)) : bool := forallb (fun x => mem_s x b) a && forallb (fun x => mem_s x a) b.
Fixpoint assoc {B} (k : list N) (l : list (list N * B)) : option B :=
  match l with [] => None | (k', v) :: r => if str_eqb k k' then Some v else assoc k r end.
Fixpoint assocN {B} (k : N) (l : list (N * B)) : option B :=
  match l with [] => None | (k', v) :: r => if k =? k' then Some v else assocN k r end.

(* ---- the specification's lists ---- *)
Definition s_closest : str := [99; 108; 111; 115; 101; 115; 116].
Definition s_supeq : str := [115; 117; 112; 101; 113].
Definition s_infeq : str := [105; 110; 102; 101; 113].
Definition spec_lookup : list str := [s_closest; s_supeq; s_infeq].
Definition spec_axes : list str := [[120]; [121]; [122]].
Definition spec_conditions : list str := [k_reflecting; k_periodical].
Definition spec_options : list str := [[103; 105; 108; 108; 101; 115; 112; 105; 101]; [116; 97; 117; 108; 101; 97; 112]; [101; 117; 108; 101; 114]].   (* gillespie tauleap euler *)

Definition policy_of_name (s : str) : option policy :=
  if str_eqb s (nth 0 policies []) then Some OnTSample else if str_eqb s (nth 1 policies []) then Some OnIteration
  else if str_eqb s (nth 2 policies []) then Some OnInterval else if str_eqb s (nth 3 policies []) then Some NoSampling else None.
(* the member function of the algorithm base classes that each policy stands for *)
Definition sampler_of (p : policy) : str :=
  match p with
  | OnTSample => [83; 97; 109; 112; 108; 101; 79; 110; 84; 83; 97; 109; 112; 108; 101]                     (* SampleOnTSample *)
  | OnIteration => [83; 97; 109; 112; 108; 101]                                                             (* Sample *)
  | OnInterval => [83; 97; 109; 112; 108; 101; 79; 110; 73; 110; 116; 101; 114; 118; 97; 108]              (* SampleOnInterval *)
  | NoSampling => []
  end.

Definition s_auto : str := [97; 117; 116; 111].
Definition s_none : str := [110; 111; 110; 101].
Definition s_poisson : str := [80; 111; 105; 115; 115; 111; 110].
Definition s_redist : str := [114; 101; 100; 105; 115; 116].
(* the documented meaning of the processing modes *)
Definition resolve_mode (s : str) (stochastic : bool) : option mode :=
  if str_eqb s s_none then Some MNone else if str_eqb s s_poisson then Some MPoisson else if str_eqb s s_redist then Some MRedist
  else if str_eqb s s_auto then Some (if stochastic then MRedist else MNone) else None.
Definition action_of (m : mode) : N := match m with MNone => 0 | MPoisson => 1 | MRedist => 3 end.

(* ---- the code's dispatch, read off the translated tables ---- *)
Definition selects (stochastic : bool) (s : str) (sel : list N * N) : bool :=
  str_eqb s (fst sel) && (match snd sel with 0 => true | 1 => stochastic | _ => negb stochastic end).
Fixpoint code_resolve (branches : list (list (list N * N) * N * bool)) (s : str) (stochastic : bool) : option (N * bool) :=
  match branches with
  | [] => None
  | (sels, act, tr) :: r => if existsb (selects stochastic s) sels then Some (act, tr) else code_resolve r s stochastic
  end.

Definition policy_dispatch_ok (table : list (list N * N)) (switch : list (N * list N)) : bool :=
  forallb (fun s => match policy_of_name s, assoc s table with
                    | Some p, Some c => match assocN c switch with Some f => str_eqb f (sampler_of p) | None => false end
                    | _, _ => false
                    end) policies.
Definition modes_ok (branches : list (list (list N * N) * N * bool)) : bool :=
  forallb (fun s => forallb (fun st => match resolve_mode s st, code_resolve branches s st with
                                        | Some m, Some (a, tr) => (a =? action_of m) && tr
                                        | _, _ => false
                                        end) [true; false]) init_modes
  && forallb (fun b => snd b) branches.
Definition options_ok (opts : list (list N * list N)) (sto : list (list N)) : bool :=
  same_set (map fst opts) spec_options
  && forallb (fun e : list N * bool => match assoc (fst e) opts with Some _ => Bool.eqb (mem_s (fst e) sto) (snd e) | None => false end) code_engines.
Definition boundary_ok : bool :=
  forallb (fun ai : list N * N =>
             forallb (fun cv : list N * N => existsb (fun r : list N * list N * N * N =>
                let '(a, s, i, v) := r in str_eqb a (fst ai) && str_eqb s (fst cv) && (i =? snd ai) && (v =? snd cv)) code_boundary)
                     [(k_reflecting, 0); (k_periodical, 1)])
          [([120], 0); ([121], 1); ([122], 2)]
  && (length code_boundary =? 6)%nat.

Definition validators_ok : bool :=
  same_set code_script_policies policies && same_set code_script_modes init_modes && same_set code_grid_axes spec_axes
  && same_set code_grid_conditions spec_conditions && same_set code_lookup_policies spec_lookup.
Definition sampling_dispatch_ok : bool :=
  policy_dispatch_ok code_grid_policy code_grid_switch && policy_dispatch_ok code_graph_policy code_graph_switch
  && same_set (map fst code_grid_policy) policies && same_set (map fst code_graph_policy) policies.
Definition processing_dispatch_ok : bool := modes_ok code_grid_modes && modes_ok code_graph_modes.
Definition engine_options_ok : bool :=
  options_ok code_grid_options code_grid_stochastic && options_ok code_graph_options code_graph_stochastic
  && same_set (map fst code_engines) spec_options.

Lemma validators_agree : validators_ok = true.              Proof. vm_compute. reflexivity. Qed.
Lemma sampling_dispatch_agrees : sampling_dispatch_ok = true.   Proof. vm_compute. reflexivity. Qed.
Lemma processing_dispatch_agrees : processing_dispatch_ok = true. Proof. vm_compute. reflexivity. Qed.
Lemma engine_options_agree : engine_options_ok = true.       Proof. vm_compute. reflexivity. Qed.
Lemma boundary_strings_agree : boundary_ok = true.           Proof. vm_compute. reflexivity. Qed.
