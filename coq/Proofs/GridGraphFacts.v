(* grid_to_graph keeps the adjacency of the grid, with multiplicities: the number of graph edges
   joining two distinct cells (either orientation) is the multiplicity with which one occurs among
   the neighbours of the other on the grid (mult3: 2 on a periodic axis of length 2, else 0 or 1). *)
From Coq Require Import ZArith List Bool Lia ZifyBool FinFun.
From Verif Require Import Num Grid GridFacts.
Import ListNotations.
Open Scope Z_scope.

Definition cnt {A} (P : A -> bool) (l : list A) : nat := length (filter P l).
Definition b2n (b : bool) : nat := if b then 1%nat else 0%nat.

Lemma cnt_app {A} (P : A -> bool) l m : cnt P (l ++ m) = (cnt P l + cnt P m)%nat.
Proof. unfold cnt. rewrite filter_app, app_length. reflexivity. Qed.
Lemma cnt_nil {A} (P : A -> bool) : cnt P [] = 0%nat.
Proof. reflexivity. Qed.
Lemma cnt_opt {A} (P : A -> bool) c a : cnt P (opt_list c a) = b2n (c && P a).
Proof. destruct c; cbn; [destruct (P a)|]; reflexivity. Qed.
Lemma cnt_one {A} (P : A -> bool) a : cnt P [a] = b2n (P a).
Proof. cbn. destruct (P a); reflexivity. Qed.

Lemma cnt_flat_map_zero {A B} (P : B -> bool) (f : A -> list B) l :
  (forall x, In x l -> cnt P (f x) = 0%nat) -> cnt P (flat_map f l) = 0%nat.
Proof.
  induction l as [|x l IH]; intros H; [reflexivity|].
  cbn [flat_map]. rewrite cnt_app, H by (left; reflexivity).
  rewrite IH; [reflexivity|]. intros y Hy. apply H. right. exact Hy.
Qed.

Lemma cnt_flat_map_single {A B} (P : B -> bool) (f : A -> list B) l x0 :
  NoDup l -> In x0 l -> (forall x, In x l -> x <> x0 -> cnt P (f x) = 0%nat) ->
  cnt P (flat_map f l) = cnt P (f x0).
Proof.
  induction l as [|x l IH]; intros Hnd Hin H; [destruct Hin|].
  cbn [flat_map]. rewrite cnt_app. inversion Hnd as [|? ? Hx Hl]; subst.
  destruct Hin as [->|Hin].
  - rewrite cnt_flat_map_zero; [lia|]. intros y Hy. apply H; [right; exact Hy|].
    intros ->. contradiction.
  - rewrite H; [|left; reflexivity|intros ->; contradiction].
    rewrite IH; auto. intros y Hy. apply H. right. exact Hy.
Qed.

Lemma In_zrange n x : In x (zrange n) <-> 0 <= x < n.
Proof.
  unfold zrange. rewrite in_map_iff. split.
  - intros (k & <- & Hk). apply in_seq in Hk. lia.
  - intros Hx. exists (Z.to_nat x). split; [lia|]. apply in_seq. lia.
Qed.

Lemma NoDup_zrange n : NoDup (zrange n).
Proof.
  unfold zrange. apply FinFun.Injective_map_NoDup; [|apply seq_NoDup].
  intros a b. apply Nat2Z.inj.
Qed.

Lemma cnt_zrange_single {B} (P : B -> bool) (f : Z -> list B) n x0 :
  0 <= x0 < n -> (forall x, 0 <= x < n -> x <> x0 -> cnt P (f x) = 0%nat) ->
  cnt P (flat_map f (zrange n)) = cnt P (f x0).
Proof.
  intros Hx H. apply cnt_flat_map_single; [apply NoDup_zrange|apply In_zrange; exact Hx|].
  intros x Hin. apply H. apply In_zrange. exact Hin.
Qed.

Lemma cnt_zrange_zero {B} (P : B -> bool) (f : Z -> list B) n :
  (forall x, 0 <= x < n -> cnt P (f x) = 0%nat) -> cnt P (flat_map f (zrange n)) = 0%nat.
Proof. intros H. apply cnt_flat_map_zero. intros x Hx. apply H, In_zrange, Hx. Qed.

Lemma map_as_flat_map {A B} (f : A -> B) l : map f l = flat_map (fun x => [f x]) l.
Proof. induction l as [|x l IH]; [reflexivity|]. cbn. rewrite IH. reflexivity. Qed.

(* ------------------------------------------------------------------ directed edge counts *)

Definition dirP (a b : Z) (e : Z * Z) : bool := (fst e =? a) && (snd e =? b).

Lemma edge_mult_split es a b : a <> b ->
  edge_mult es a b = (cnt (dirP a b) es + cnt (dirP b a) es)%nat.
Proof.
  intros Hne. unfold edge_mult, cnt, dirP. induction es as [|e es IH]; [reflexivity|].
  cbn [filter]. destruct e as [i j]. cbn [fst snd].
  destruct (i =? a) eqn:A; destruct (j =? b) eqn:B; destruct (i =? b) eqn:C; destruct (j =? a) eqn:D;
    cbn [andb orb length]; try lia.
Qed.

Lemma index_eqb g p q : wf_grid g -> in_grid g p = true -> in_grid g q = true ->
  (index g p =? index g q) = coord_eqb p q.
Proof.
  intros Hg Hp Hq. destruct (coord_eqb p q) eqn:E.
  - apply coord_eqb_eq in E. subst q. apply Z.eqb_refl.
  - destruct (index g p =? index g q) eqn:R; [|reflexivity].
    apply Z.eqb_eq in R. apply index_inj in R; try assumption. subst q.
    assert (coord_eqb p p = true) by (apply coord_eqb_eq; reflexivity). congruence.
Qed.

(* one cell's contribution to the interior part *)
Definition g2g_leaf (g : grid) (z y x : Z) : list (Z * Z) :=
     opt_list (x <? gw g - 1) (index g (x, y, z), index g (x + 1, y, z))
  ++ opt_list (y <? gh g - 1) (index g (x, y, z), index g (x, y + 1, z))
  ++ opt_list (z <? gd g - 1) (index g (x, y, z), index g (x, y, z + 1)).

Definition g2g_interior (g : grid) : list (Z * Z) :=
  flat_map (fun z => flat_map (fun y => flat_map (g2g_leaf g z y) (zrange (gw g))) (zrange (gh g))) (zrange (gd g)).
Definition g2g_perx (g : grid) : list (Z * Z) :=
  flat_map (fun z => map (fun y => (index g (gw g - 1, y, z), index g (0, y, z))) (zrange (gh g))) (zrange (gd g)).
Definition g2g_pery (g : grid) : list (Z * Z) :=
  flat_map (fun z => map (fun x => (index g (x, gh g - 1, z), index g (x, 0, z))) (zrange (gw g))) (zrange (gd g)).
Definition g2g_perz (g : grid) : list (Z * Z) :=
  flat_map (fun y => map (fun x => (index g (x, y, gd g - 1), index g (x, y, 0))) (zrange (gw g))) (zrange (gh g)).

Lemma g2g_edges_parts g :
  g2g_edges g = g2g_interior g ++ (if px g then g2g_perx g else []) ++ (if py g then g2g_pery g else [])
                ++ (if pz g then g2g_perz g else []).
Proof. reflexivity. Qed.

Lemma leaf_other g a b x y z : index g (x, y, z) <> a -> cnt (dirP a b) (g2g_leaf g z y x) = 0%nat.
Proof.
  intros H. unfold g2g_leaf. rewrite !cnt_app, !cnt_opt. unfold dirP. cbn [fst snd].
  assert (E : (index g (x, y, z) =? a) = false) by (apply Z.eqb_neq; exact H).
  rewrite E. cbn [andb]. rewrite !andb_false_r. reflexivity.
Qed.

Lemma index_neq g p q : wf_grid g -> in_grid g p = true -> in_grid g q = true -> p <> q -> index g p <> index g q.
Proof. intros Hg Hp Hq Hne E. apply Hne. eapply index_inj; eauto. Qed.

Section Directed.
Variable g : grid.
Hypothesis Hg : wf_grid g.
Variables x0 y0 z0 x1 y1 z1 : Z.
Hypothesis Hp : in_grid g (x0, y0, z0) = true.
Hypothesis Hq : in_grid g (x1, y1, z1) = true.
Let a := index g (x0, y0, z0).
Let b := index g (x1, y1, z1).

Lemma interior_count :
  cnt (dirP a b) (g2g_interior g) =
  (b2n ((x0 <? gw g - 1) && coord_eqb (x0 + 1, y0, z0) (x1, y1, z1))%Z
   + b2n ((y0 <? gh g - 1) && coord_eqb (x0, y0 + 1, z0) (x1, y1, z1))%Z
   + b2n ((z0 <? gd g - 1) && coord_eqb (x0, y0, z0 + 1) (x1, y1, z1))%Z)%nat.
Proof.
  pose proof Hp as Hp'. apply in_grid_spec in Hp'. destruct Hp' as (Hx & Hy & Hz).
  unfold g2g_interior.
  rewrite (cnt_zrange_single _ _ _ z0) by
    (first [lia | intros z Hz' Hne; apply cnt_zrange_zero; intros y Hy'; apply cnt_zrange_zero; intros x Hx';
     apply leaf_other; apply index_neq; try assumption;
     [apply in_grid_spec; lia | intros E; inversion E; lia]]).
  rewrite (cnt_zrange_single _ _ _ y0) by
    (first [lia | intros y Hy' Hne; apply cnt_zrange_zero; intros x Hx';
     apply leaf_other; apply index_neq; try assumption;
     [apply in_grid_spec; lia | intros E; inversion E; lia]]).
  rewrite (cnt_zrange_single _ _ _ x0) by
    (first [lia | intros x Hx' Hne; apply leaf_other; apply index_neq; try assumption;
     [apply in_grid_spec; lia | intros E; inversion E; lia]]).
  unfold g2g_leaf. rewrite !cnt_app, !cnt_opt. unfold dirP. cbn [fst snd]. fold a. rewrite Z.eqb_refl. cbn [andb].
  unfold b.
  assert (EX : (x0 <? gw g - 1) && (index g (x0 + 1, y0, z0) =? index g (x1, y1, z1))
               = (x0 <? gw g - 1) && coord_eqb (x0 + 1, y0, z0) (x1, y1, z1)).
  { destruct (x0 <? gw g - 1) eqn:C; [|reflexivity]. cbn [andb]. apply index_eqb; try assumption.
    apply in_grid_spec. lia. }
  assert (EY : (y0 <? gh g - 1) && (index g (x0, y0 + 1, z0) =? index g (x1, y1, z1))
               = (y0 <? gh g - 1) && coord_eqb (x0, y0 + 1, z0) (x1, y1, z1)).
  { destruct (y0 <? gh g - 1) eqn:C; [|reflexivity]. cbn [andb]. apply index_eqb; try assumption.
    apply in_grid_spec. lia. }
  assert (EZ : (z0 <? gd g - 1) && (index g (x0, y0, z0 + 1) =? index g (x1, y1, z1))
               = (z0 <? gd g - 1) && coord_eqb (x0, y0, z0 + 1) (x1, y1, z1)).
  { destruct (z0 <? gd g - 1) eqn:C; [|reflexivity]. cbn [andb]. apply index_eqb; try assumption.
    apply in_grid_spec. lia. }
  rewrite EX, EY, EZ. lia.
Qed.

Lemma perx_count :
  cnt (dirP a b) (g2g_perx g) = b2n (coord_eqb (gw g - 1, y0, z0) (x0, y0, z0) && coord_eqb (0, y0, z0) (x1, y1, z1)).
Proof.
  pose proof Hp as Hp'. apply in_grid_spec in Hp'. destruct Hp' as (Hx & Hy & Hz).
  destruct Hg as (Hw & Hh & Hd).
  assert (other : forall y z, 0 <= y < gh g -> 0 <= z < gd g -> (y, z) <> (y0, z0) ->
            cnt (dirP a b) [(index g (gw g - 1, y, z), index g (0, y, z))] = 0%nat).
  { intros y z Hy' Hz' Hne. rewrite cnt_one. unfold dirP. cbn [fst snd].
    assert (E : (index g (gw g - 1, y, z) =? a) = false).
    { apply Z.eqb_neq. apply index_neq; try assumption; [apply in_grid_spec; lia|].
      intros E. inversion E. apply Hne. congruence. }
    rewrite E. reflexivity. }
  unfold g2g_perx.
  rewrite (cnt_zrange_single _ _ _ z0) by
    (first [lia | intros z Hz' Hne; rewrite map_as_flat_map; apply cnt_zrange_zero; intros y Hy';
     apply other; try lia; intros E; inversion E; lia]).
  rewrite map_as_flat_map.
  rewrite (cnt_zrange_single _ _ _ y0) by
    (first [lia | intros y Hy' Hne; apply other; try lia; intros E; inversion E; lia]).
  rewrite cnt_one. unfold dirP. cbn [fst snd]. unfold a, b.
  rewrite !index_eqb by (try assumption; apply in_grid_spec; lia). reflexivity.
Qed.

Lemma pery_count :
  cnt (dirP a b) (g2g_pery g) = b2n (coord_eqb (x0, gh g - 1, z0) (x0, y0, z0) && coord_eqb (x0, 0, z0) (x1, y1, z1)).
Proof.
  pose proof Hp as Hp'. apply in_grid_spec in Hp'. destruct Hp' as (Hx & Hy & Hz).
  destruct Hg as (Hw & Hh & Hd).
  assert (other : forall x z, 0 <= x < gw g -> 0 <= z < gd g -> (x, z) <> (x0, z0) ->
            cnt (dirP a b) [(index g (x, gh g - 1, z), index g (x, 0, z))] = 0%nat).
  { intros x z Hx' Hz' Hne. rewrite cnt_one. unfold dirP. cbn [fst snd].
    assert (E : (index g (x, gh g - 1, z) =? a) = false).
    { apply Z.eqb_neq. apply index_neq; try assumption; [apply in_grid_spec; lia|].
      intros E. inversion E. apply Hne. congruence. }
    rewrite E. reflexivity. }
  unfold g2g_pery.
  rewrite (cnt_zrange_single _ _ _ z0) by
    (first [lia | intros z Hz' Hne; rewrite map_as_flat_map; apply cnt_zrange_zero; intros x Hx';
     apply other; try lia; intros E; inversion E; lia]).
  rewrite map_as_flat_map.
  rewrite (cnt_zrange_single _ _ _ x0) by
    (first [lia | intros x Hx' Hne; apply other; try lia; intros E; inversion E; lia]).
  rewrite cnt_one. unfold dirP. cbn [fst snd]. unfold a, b.
  rewrite !index_eqb by (try assumption; apply in_grid_spec; lia). reflexivity.
Qed.

Lemma perz_count :
  cnt (dirP a b) (g2g_perz g) = b2n (coord_eqb (x0, y0, gd g - 1) (x0, y0, z0) && coord_eqb (x0, y0, 0) (x1, y1, z1)).
Proof.
  pose proof Hp as Hp'. apply in_grid_spec in Hp'. destruct Hp' as (Hx & Hy & Hz).
  destruct Hg as (Hw & Hh & Hd).
  assert (other : forall x y, 0 <= x < gw g -> 0 <= y < gh g -> (x, y) <> (x0, y0) ->
            cnt (dirP a b) [(index g (x, y, gd g - 1), index g (x, y, 0))] = 0%nat).
  { intros x y Hx' Hy' Hne. rewrite cnt_one. unfold dirP. cbn [fst snd].
    assert (E : (index g (x, y, gd g - 1) =? a) = false).
    { apply Z.eqb_neq. apply index_neq; try assumption; [apply in_grid_spec; lia|].
      intros E. inversion E. apply Hne. congruence. }
    rewrite E. reflexivity. }
  unfold g2g_perz.
  rewrite (cnt_zrange_single _ _ _ y0) by
    (first [lia | intros y Hy' Hne; rewrite map_as_flat_map; apply cnt_zrange_zero; intros x Hx';
     apply other; try lia; intros E; inversion E; lia]).
  rewrite map_as_flat_map.
  rewrite (cnt_zrange_single _ _ _ x0) by
    (first [lia | intros x Hx' Hne; apply other; try lia; intros E; inversion E; lia]).
  rewrite cnt_one. unfold dirP. cbn [fst snd]. unfold a, b.
  rewrite !index_eqb by (try assumption; apply in_grid_spec; lia). reflexivity.
Qed.

End Directed.

(* forward edges along one axis: x -> x+1 inside, and n-1 -> 0 on a periodic axis *)
Definition axis_fwd (n : Z) (per : bool) (x x' : Z) : nat :=
  (b2n ((x <? n - 1) && (x' =? x + 1))%Z + b2n (per && (x =? n - 1) && (x' =? 0))%Z)%nat.

Lemma axis_mult_fwd n per x x' : 0 < n -> 0 <= x < n -> 0 <= x' < n -> x <> x' ->
  axis_mult n per x x' = (axis_fwd n per x x' + axis_fwd n per x' x)%nat.
Proof.
  intros Hn Hx Hx' Hne. unfold axis_mult, axis_fwd, b2n.
  destruct per; cbn [andb];
  destruct (x' =? x + 1) eqn:A; destruct (x' =? x - 1) eqn:B;
  destruct (x =? 0) eqn:C; destruct (x =? n - 1) eqn:D;
  destruct (x' =? n - 1) eqn:E; destruct (x' =? 0) eqn:F;
  destruct (x <? n - 1) eqn:G; destruct (x' <? n - 1) eqn:H; destruct (x =? x' + 1) eqn:I; cbn [andb]; lia.
Qed.

Definition fwd3 (g : grid) (p q : coord) : nat :=
  let '(x, y, z) := p in let '(x', y', z') := q in
  ((if ((y' =? y) && (z' =? z))%Z then axis_fwd (gw g) (px g) x x' else 0)
   + (if ((x' =? x) && (z' =? z))%Z then axis_fwd (gh g) (py g) y y' else 0)
   + (if ((x' =? x) && (y' =? y))%Z then axis_fwd (gd g) (pz g) z z' else 0))%nat.

Lemma mult3_fwd g p q : wf_grid g -> in_grid g p = true -> in_grid g q = true -> p <> q ->
  mult3 g p q = (fwd3 g p q + fwd3 g q p)%nat.
Proof.
  intros (Hw & Hh & Hd) Hp Hq Hne. destruct p as [[x y] z], q as [[x' y'] z'].
  apply in_grid_spec in Hp. apply in_grid_spec in Hq. unfold mult3, fwd3.
  rewrite (Z.eqb_sym x x'), (Z.eqb_sym y y'), (Z.eqb_sym z z').
  destruct (x' =? x) eqn:Ex; destruct (y' =? y) eqn:Ey; destruct (z' =? z) eqn:Ez; cbn [andb]; try lia.
  - exfalso. apply Hne. f_equal; [f_equal|]; lia.
  - rewrite (axis_mult_fwd (gd g)) by lia. lia.
  - rewrite (axis_mult_fwd (gh g)) by lia. lia.
  - rewrite (axis_mult_fwd (gw g)) by lia. lia.
Qed.

Lemma directed_count g p q : wf_grid g -> in_grid g p = true -> in_grid g q = true -> p <> q ->
  cnt (dirP (index g p) (index g q)) (g2g_edges g) = fwd3 g p q.
Proof.
  intros Hg Hp Hq Hne. destruct p as [[x y] z], q as [[x' y'] z'].
  rewrite g2g_edges_parts, !cnt_app, interior_count by assumption.
  assert (PX : cnt (dirP (index g (x, y, z)) (index g (x', y', z'))) (if px g then g2g_perx g else [])
               = b2n (px g && (coord_eqb (gw g - 1, y, z) (x, y, z) && coord_eqb (0, y, z) (x', y', z')))).
  { destruct (px g); [apply perx_count; assumption|reflexivity]. }
  assert (PY : cnt (dirP (index g (x, y, z)) (index g (x', y', z'))) (if py g then g2g_pery g else [])
               = b2n (py g && (coord_eqb (x, gh g - 1, z) (x, y, z) && coord_eqb (x, 0, z) (x', y', z')))).
  { destruct (py g); [apply pery_count; assumption|reflexivity]. }
  assert (PZ : cnt (dirP (index g (x, y, z)) (index g (x', y', z'))) (if pz g then g2g_perz g else [])
               = b2n (pz g && (coord_eqb (x, y, gd g - 1) (x, y, z) && coord_eqb (x, y, 0) (x', y', z')))).
  { destruct (pz g); [apply perz_count; assumption|reflexivity]. }
  rewrite PX, PY, PZ. clear PX PY PZ.
  apply in_grid_spec in Hp. apply in_grid_spec in Hq.
  unfold fwd3, axis_fwd, coord_eqb.
  assert (NE : ~ (x' = x /\ y' = y /\ z' = z)) by (intros (-> & -> & ->); apply Hne; reflexivity).
  destruct (Z.eqb_spec x' x) as [Ex|Ex]; destruct (Z.eqb_spec y' y) as [Ey|Ey]; destruct (Z.eqb_spec z' z) as [Ez|Ez];
    try subst x'; try subst y'; try subst z'; try (exfalso; apply NE; repeat split; reflexivity); cbn [andb];
  repeat match goal with
  | |- context[(?u =? ?v)%Z] => destruct (Z.eqb_spec u v); try (exfalso; lia); cbn [andb]; rewrite ?andb_false_r
  | |- context[(?u <? ?v)%Z] => destruct (Z.ltb_spec u v); try (exfalso; lia); cbn [andb]; rewrite ?andb_false_r
  end;
  destruct (px g); destruct (py g); destruct (pz g); cbn [andb b2n]; lia.
Qed.

Theorem g2g_edge_multiplicity g a b : wf_grid g -> 0 <= a < gsize g -> 0 <= b < gsize g -> a <> b ->
  edge_mult (g2g_edges g) a b = mult3 g (coords g a) (coords g b).
Proof.
  intros Hg Ha Hb Hne.
  assert (Hpa : in_grid g (coords g a) = true) by (apply coords_in_grid; assumption).
  assert (Hpb : in_grid g (coords g b) = true) by (apply coords_in_grid; assumption).
  assert (Hc : coords g a <> coords g b) by (apply coords_neq; assumption).
  rewrite edge_mult_split by exact Hne.
  rewrite <- (index_coords g a Hg) at 1 2. rewrite <- (index_coords g b Hg) at 1 2.
  rewrite !directed_count by (try assumption; intros E; apply Hc; symmetry; exact E).
  rewrite mult3_fwd by assumption. reflexivity.
Qed.

(* every edge joins two cells of the grid *)
Lemma g2g_edges_in_range g e : wf_grid g -> In e (g2g_edges g) -> 0 <= fst e < gsize g /\ 0 <= snd e < gsize g.
Proof.
  intros Hg. pose proof Hg as (Hw & Hh & Hd). rewrite g2g_edges_parts, !in_app_iff.
  assert (R : forall p q, in_grid g p = true -> in_grid g q = true ->
                0 <= fst (index g p, index g q) < gsize g /\ 0 <= snd (index g p, index g q) < gsize g).
  { intros p q Hp Hq. split; apply index_range; assumption. }
  intros [H | [H | [H | H]]].
  - unfold g2g_interior in H. apply in_flat_map in H. destruct H as (z & Hz & H).
    apply in_flat_map in H. destruct H as (y & Hy & H). apply in_flat_map in H. destruct H as (x & Hx & H).
    apply In_zrange in Hx, Hy, Hz. unfold g2g_leaf in H. rewrite !in_app_iff in H.
    destruct H as [H | [H | H]];
      match type of H with In _ (opt_list ?c _) => destruct c eqn:C; unfold opt_list in H; [destruct H as [<-|[]]|destruct H] end;
      apply R; apply in_grid_spec; lia.
  - destruct (px g); [|destruct H]. unfold g2g_perx in H. apply in_flat_map in H. destruct H as (z & Hz & H).
    apply in_map_iff in H. destruct H as (y & <- & Hy). apply In_zrange in Hy, Hz. apply R; apply in_grid_spec; lia.
  - destruct (py g); [|destruct H]. unfold g2g_pery in H. apply in_flat_map in H. destruct H as (z & Hz & H).
    apply in_map_iff in H. destruct H as (x & <- & Hx). apply In_zrange in Hx, Hz. apply R; apply in_grid_spec; lia.
  - destruct (pz g); [|destruct H]. unfold g2g_perz in H. apply in_flat_map in H. destruct H as (y & Hy & H).
    apply in_map_iff in H. destruct H as (x & <- & Hx). apply In_zrange in Hx, Hy. apply R; apply in_grid_spec; lia.
Qed.
