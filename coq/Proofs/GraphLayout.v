(* Index arithmetic of the graph engines (SimulationAlgorithmGraphBase.hpp): the per-node slot lists built by SetNeighbors,
   the species-major tables mesh_kd_out[i] / mesh_kd_in[i] (entry s * n_neighbours + n) and the flat diffusion channel index
   of GillespieGraph (c = s * n_neighbours + n): every slot names a node of the graph, every table access lands on the entry
   of that very (species, slot), and the channel index decodes back to that pair. *)
From Coq Require Import ZArith QArith Qcanon List Lia Arith.
From Verif Require Import Num NumFacts Grid Units System SystemFacts Engine EngineFacts.
Import ListNotations.
Open Scope nat_scope.

(* mesh_kd_out[i] / mesh_kd_in[i]: for every species, one entry per slot of node i *)
Definition slot_table (f : nat -> slot -> Qc) (nS : nat) (sl : list slot) : list Qc :=
  flat_map (fun s => map (f s) sl) (seq 0 nS).

Lemma slot_table_length f nS sl : length (slot_table f nS sl) = nS * length sl.
Proof.
  unfold slot_table. induction (seq 0 nS) as [|s l IH] eqn:E in nS |- *.
  - destruct nS; [reflexivity|discriminate].
  - destruct nS as [|k]; [discriminate|].
    assert (forall a m, length (flat_map (fun s => map (f s) sl) (seq a m)) = m * length sl) as H.
    { intros a m. revert a. induction m as [|m IHm]; intros a; [reflexivity|].
      cbn [seq flat_map]. rewrite app_length, map_length, IHm. reflexivity. }
    rewrite <- E. apply H.
Qed.

Lemma slot_table_nth f nS sl s n d : s < nS -> n < length sl ->
  nth (s * length sl + n) (slot_table f nS sl) 0%Qc = f s (nth n sl d).
Proof.
  intros Hs Hn. unfold slot_table.
  rewrite (nth_flat_map_uniform (fun s => map (f s) sl) (length sl) (seq 0 nS) s n 0 0%Qc).
  - rewrite seq_nth by exact Hs. cbn [Nat.add]. rewrite (nth_map' (f s) sl n 0%Qc d) by exact Hn. reflexivity.
  - intros a _. apply map_length.
  - rewrite seq_length. exact Hs.
  - exact Hn.
Qed.

(* the index stays inside the table *)
Lemma slot_index_in_range nS nn s n : s < nS -> n < nn -> s * nn + n < nS * nn.
Proof. intros Hs Hn. nia. Qed.

(* GillespieGraph: the flat diffusion channel index decodes to the (species, slot) it was built from *)
Lemma channel_decode nn s n : n < nn -> (s * nn + n) / nn = s /\ (s * nn + n) mod nn = n.
Proof.
  intros Hn. split.
  - rewrite Nat.div_add_l by lia. rewrite Nat.div_small by exact Hn. lia.
  - rewrite Nat.add_comm, Nat.mod_add by lia. apply Nat.mod_small. exact Hn.
Qed.

(* the other decode (cell-first: c mod nS, c / nS) is a different pair as soon as two species and two slots exist *)
Lemma channel_decode_transposed_differs : exists nS nn s n, s < nS /\ n < nn /\ ((s * nn + n) mod nS, (s * nn + n) / nS) <> (s, n).
Proof. exists 2, 3, 1, 0. repeat split; try lia. cbn. discriminate. Qed.

(* SetNeighbors: every slot of every node names a node of the graph, and carries the surface and distance of its edge *)
Lemma slots_in_range (edges : list gedge) n i j sf ds :
  (forall e, In e edges -> let '(a, b, _, _) := e in a < n /\ b < n) ->
  In (j, sf, ds) (slots_of edges i) -> i < n /\ j < n.
Proof.
  intros H Hin. apply slots_of_in in Hin. destruct Hin as (e & He & Hsl). specialize (H e He).
  destruct e as [[[a b] sf'] ds']. destruct H as [Ha Hb].
  destruct Hsl as [[-> E]|[-> E]]; inversion E; subst; split; assumption.
Qed.

(* the number of slots of a node is the number of edge ends at it (mesh_neighbor_n) *)
Definition edge_ends (edges : list gedge) (i : nat) : nat :=
  fold_right Nat.add 0 (map (fun e : gedge => let '(a, b, _, _) := e in (if Nat.eqb a i then 1 else 0) + (if Nat.eqb b i then 1 else 0)) edges).
Lemma slots_count edges i : length (slots_of edges i) = edge_ends edges i.
Proof.
  unfold slots_of, edge_ends. induction edges as [|e l IH]; [reflexivity|].
  destruct e as [[[a b] sf] ds]. cbn [flat_map map fold_right]. rewrite !app_length, <- IH.
  destruct (Nat.eqb a i); destruct (Nat.eqb b i); reflexivity.
Qed.
