(* Facts about the coarse-graining model (Model/Coarse.v). *)
From Coq Require Import ZArith QArith Qcanon List Lia Bool.
From Verif Require Import Num NumFacts SamplingFacts EngineConserve Grid Coarse.
Open Scope Qc_scope.

(* ---------- sums over groups = sums over retained cells ---------- *)
Lemma sumQ_filter {A} (P : A -> bool) (f : A -> Qc) l : sumQ (map f (filter P l)) = sumQ (map (fun a => if P a then f a else 0) l).
Proof.
  induction l as [|a l IH]; [reflexivity|]. cbn [filter map]. destruct (P a); cbn [map]; rewrite !sumQ_cons, IH; [reflexivity|ring].
Qed.

Lemma max_bound im : forall c, (nth c im (-1) <= fold_right Z.max (-1) im)%Z.
Proof.
  induction im as [|z im IH]; intros [|c]; cbn [nth fold_right]; try lia. specialize (IH c). lia.
Qed.

Lemma grp_lt_ngroups im c : (0 <= grp im c)%Z -> (Z.to_nat (grp im c) < ngroups im)%nat.
Proof. intro H. unfold ngroups, grp in *. pose proof (max_bound im c). lia. Qed.

Definition retained (im : imap) (c : nat) : bool := Z.leb 0 (grp im c).

Lemma indicator_over_groups im c (v : Qc) :
  sumQ (map (fun g => if Z.eqb (grp im c) (Z.of_nat g) then v else 0) (seq 0 (ngroups im))) = if retained im c then v else 0.
Proof.
  unfold retained. destruct (Z.leb_spec 0 (grp im c)) as [H|H].
  - pose proof (grp_lt_ngroups im c H) as Hlt.
    rewrite (sumQ_map_ext _ (fun g => if Nat.eqb (Z.to_nat (grp im c)) g then v else 0)).
    + rewrite (sum_indicator (Z.to_nat (grp im c)) (ngroups im) (fun _ => v)). destruct (Nat.ltb_spec (Z.to_nat (grp im c)) (ngroups im)); [reflexivity|lia].
    + intros g _. destruct (Z.eqb_spec (grp im c) (Z.of_nat g)) as [E|E]; destruct (Nat.eqb_spec (Z.to_nat (grp im c)) g) as [E'|E']; try reflexivity; lia.
  - apply sumQ_map_zero. intros g _. destruct (Z.eqb_spec (grp im c) (Z.of_nat g)); [lia|reflexivity].
Qed.

Theorem group_sums_partition im n (f : nat -> Qc) :
  sumQ (map (fun g => sumQ (map f (members im n g))) (seq 0 (ngroups im)))
  = sumQ (map (fun c => if retained im c then f c else 0) (cells n)).
Proof.
  unfold members. rewrite (sumQ_map_ext _ (fun g => sumQ (map (fun c => if Z.eqb (grp im c) (Z.of_nat g) then f c else 0) (cells n)))).
  - rewrite sumQ_swap. apply sumQ_map_ext. intros c _. apply indicator_over_groups.
  - intros g _. apply sumQ_filter.
Qed.

(* total volume: number of retained cells x h^3 *)
Theorem total_volume im n h :
  sumQ (map (node_volume im n h) (seq 0 (ngroups im))) = sumQ (map (fun c => if retained im c then h * h * h else 0) (cells n)).
Proof. unfold node_volume. apply (group_sums_partition im n (fun _ => h * h * h)). Qed.

(* ---------- chemostat flags: OR over the members ---------- *)
Lemma flag_sum_or (fl : nat -> bool) l :
  Z.ltb 0 (Z.min (fold_right Z.add 0%Z (map (fun c => if fl c then 1%Z else 0%Z) l)) 1) = existsb fl l.
Proof.
  assert (H : (0 <= fold_right Z.add 0 (map (fun c => if fl c then 1 else 0) l))%Z /\
              ((0 < fold_right Z.add 0 (map (fun c => if fl c then 1 else 0) l))%Z <-> existsb fl l = true)).
  { induction l as [|c l IH]; [cbn; split; [lia|split; [lia|discriminate]]|]. cbn [map fold_right existsb]. destruct IH as (H0 & Hi).
    destruct (fl c); cbn [orb].
    - split; [lia|]. split; [reflexivity|lia].
    - split; [lia|]. rewrite Z.add_0_l. exact Hi. }
  destruct H as (H0 & Hi). destruct (existsb fl l) eqn:E.
  - apply Z.ltb_lt. assert (0 < fold_right Z.add 0%Z (map (fun c => if fl c then 1%Z else 0%Z) l))%Z by (apply Hi; reflexivity). lia.
  - apply Z.ltb_ge. destruct (Z_lt_le_dec 0%Z (fold_right Z.add 0%Z (map (fun c => if fl c then 1%Z else 0%Z) l))) as [Hp|Hp]; [apply Hi in Hp; discriminate|lia].
Qed.

(* ---------- un-coarse-graining: the members of a group share its value equally, the group total is preserved ---------- *)
Theorem uncg_group_total (v : Qc) (ms : list nat) : ms <> [] ->
  sumQ (map (fun _ => v / QcZ (Z.of_nat (length ms))) ms) = v.
Proof.
  intro Hne. assert (Hk : forall (l : list nat) (w : Qc), sumQ (map (fun _ => w) l) = QcZ (Z.of_nat (length l)) * w).
  { induction l as [|a l IH]; intro w; [cbn [map length]; rewrite sumQ_nil; change (QcZ (Z.of_nat 0)) with 0; ring|]. cbn [map length]. rewrite sumQ_cons, IH, Nat2Z.inj_succ, <- Z.add_1_r, QcZ_add. change (QcZ 1) with 1. ring. }
  rewrite Hk. assert (Hnz : QcZ (Z.of_nat (length ms)) <> 0).
  { destruct ms as [|a ms]; [contradiction|]. intro E. assert (H : QcZ 1 <= QcZ (Z.of_nat (length (a :: ms)))) by (apply QcZ_le; cbn [length]; lia).
    rewrite E in H. change (QcZ 1) with 1 in H. unfold Qcle in H. cbn in H. apply Qle_bool_iff in H. discriminate H. }
  field. exact Hnz.
Qed.

(* ---------- edges: distinct keys (no duplicate edge), lower index first (no self-loop) ---------- *)
Definition key_eqb (a b : ekey) : bool := (fst a =? fst b)%Z && (snd a =? snd b)%Z.
Lemma key_eqb_eq a b : key_eqb a b = true <-> a = b.
Proof.
  destruct a, b. unfold key_eqb. cbn. rewrite andb_true_iff, !Z.eqb_eq. split; [intros [-> ->]; reflexivity|intro H; injection H as -> ->; split; reflexivity].
Qed.

Lemma add_surface_keys k s es : map fst (add_surface k s es) = if existsb (key_eqb k) (map fst es) then map fst es else map fst es ++ [k].
Proof.
  induction es as [|[k' s'] es IH]; [reflexivity|]. cbn [add_surface map fst existsb]. fold (key_eqb k k').
  destruct (key_eqb k k') eqn:E; [reflexivity|]. cbn [orb map fst]. rewrite IH. destruct (existsb (key_eqb k) (map fst es)); reflexivity.
Qed.

Lemma NoDup_snoc {A} (l : list A) a : NoDup l -> ~ In a l -> NoDup (l ++ [a]).
Proof.
  induction l as [|b l IH]; intros H Hn; [constructor; [intros []|constructor]|].
  inversion H as [|? ? Hb Hl]; subst. cbn [app]. constructor.
  - intro Hin. apply in_app_or in Hin. destruct Hin as [Hin|[<-|[]]]; [contradiction|apply Hn; left; reflexivity].
  - apply IH; [exact Hl|intro Hin; apply Hn; right; exact Hin].
Qed.

Lemma add_surface_nodup k s es : NoDup (map fst es) -> NoDup (map fst (add_surface k s es)).
Proof.
  intro H. rewrite add_surface_keys. destruct (existsb (key_eqb k) (map fst es)) eqn:E; [exact H|].
  apply NoDup_snoc; [exact H|]. intro Hin. assert (existsb (key_eqb k) (map fst es) = true) by (apply existsb_exists; exists k; split; [exact Hin|apply key_eqb_eq; reflexivity]). congruence.
Qed.

Definition ordered_keys (es : list (ekey * Qc)) : Prop := forall k, In k (map fst es) -> (fst k < snd k)%Z.

Theorem cg_edges_wellformed g im h : NoDup (map fst (cg_edges g im h)) /\ ordered_keys (cg_edges g im h).
Proof.
  unfold cg_edges.
  assert (H : forall l es, NoDup (map fst es) -> ordered_keys es ->
    let r := fold_left (fun es (e : Z * Z) =>
               let i := grp im (Z.to_nat (fst e)) in let j := grp im (Z.to_nat (snd e)) in
               if (i =? j)%Z || (i =? -1)%Z || (j =? -1)%Z then es
               else add_surface (Z.min i j, Z.max i j) (h * h) es) l es in
    NoDup (map fst r) /\ ordered_keys r).
  { induction l as [|e l IH]; intros es Hn Ho; [split; assumption|]. cbn [fold_left]. cbn zeta.
    set (i := grp im (Z.to_nat (fst e))). set (j := grp im (Z.to_nat (snd e))).
    destruct ((i =? j)%Z || (i =? -1)%Z || (j =? -1)%Z) eqn:E; [apply IH; assumption|].
    apply IH; [apply add_surface_nodup; exact Hn|].
    intros k Hk. rewrite add_surface_keys in Hk. destruct (existsb _ _); [apply Ho; exact Hk|].
    apply in_app_or in Hk. destruct Hk as [Hk|[<-|[]]]; [apply Ho; exact Hk|]. cbn [fst snd].
    apply orb_false_iff in E. destruct E as (E & _). apply orb_false_iff in E. destruct E as (E & _). apply Z.eqb_neq in E. lia. }
  apply H; [constructor|intros k []].
Qed.
