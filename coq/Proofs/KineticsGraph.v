(* kinetics.py on a graph (_compute_dspeciesdt_graph + compute_diffusion_rates' graph branch): every node j != i that get_edge
   joins to i contributes once, with the surface and distance of the first edge found.  On a simple graph (no self-loop, at most
   one edge per pair - the graphs the Python functions are meant for; grid_to_graph of a grid with a periodic axis of length 2 is
   not one) this is the diffusion part of the rate law, which the engines compute per edge end. *)
From Coq Require Import ZArith QArith Qcanon List Lia Field Arith Bool.
From Verif Require Import Num NumFacts Grid Units System SystemFacts Engine EngineFacts EngineConserve GridGraphFacts KineticsGrid.
Import ListNotations.
Open Scope Qc_scope.

Definition joins_e (i j : nat) (e : gedge) : bool :=
  let '(a, b, _, _) := e in (Nat.eqb a i && Nat.eqb b j) || (Nat.eqb a j && Nat.eqb b i).
Definition get_edge (es : list gedge) (i j : nat) : option gedge := find (joins_e i j) es.

(* compute_diffusion_rates, graph branch: kr x_j - kf x_i with kf = Dij S / (Vi d), kr = Dij S / (Vj d) *)
Definition kin_graph_term (T : etab) (hs : list Qc) (x : list Qc) (i s j : nat) (e : gedge) : Qc :=
  let '(_, _, sf, ds) := e in
  let Dij := Dint (nth i hs 0) (nth j hs 0) (Dc T s (Env T i)) (Dc T s (Env T j)) in
  Dij * sf / (cube (nth j hs 0) * ds) * X T x j s - Dij * sf / (cube (nth i hs 0) * ds) * X T x i s.

Definition kin_graph_diffusion (T : etab) (hs : list Qc) (es : list gedge) (x : list Qc) (i s : nat) : Qc :=
  sumQ (map (fun j => if Nat.eqb j i then 0 else
                      match get_edge es i j with Some e => kin_graph_term T hs x i s j e | None => 0 end)
            (seq 0 (length hs))).

Definition simple_graph (n : nat) (es : list gedge) : Prop :=
  (forall e, In e es -> let '(a, b, _, _) := e in a <> b /\ (a < n)%nat /\ (b < n)%nat) /\
  (forall i j, i <> j -> (cnt (joins_e i j) es <= 1)%nat).

Lemma filter_has {A} (P : A -> bool) l x : In x l -> P x = true -> (1 <= length (filter P l))%nat.
Proof.
  induction l as [|a l IH]; intros Hin Hp; [destruct Hin|]. cbn [filter].
  destruct Hin as [->|Hin]; [rewrite Hp; cbn [length]; lia|].
  specialize (IH Hin Hp). destruct (P a); cbn [length]; lia.
Qed.

Lemma find_unique_sum {A} (P : A -> bool) (h : A -> Qc) l : (cnt P l <= 1)%nat ->
  match find P l with Some e => h e | None => 0 end = sumQ (map (fun e => if P e then h e else 0) l).
Proof.
  unfold cnt. induction l as [|e l IH]; intros H; [reflexivity|]. cbn [find map filter] in *. rewrite sumQ_cons.
  destruct (P e) eqn:E.
  - cbn [length] in H. assert (Z : sumQ (map (fun e0 => if P e0 then h e0 else 0) l) = 0).
    { apply sumQ_map_zero. intros a Ha. destruct (P a) eqn:Pa; [|reflexivity]. exfalso.
      assert (1 <= length (filter P l))%nat by (apply (filter_has P l a Ha Pa)). lia. }
    rewrite Z. ring.
  - rewrite IH by exact H. ring.
Qed.

Lemma sum_indicator_seq (v : nat -> Qc) n k : (k < n)%nat ->
  sumQ (map (fun j => if Nat.eqb j k then v j else 0) (seq 0 n)) = v k.
Proof.
  intros Hk. induction n as [|n IH]; [lia|]. rewrite seq_S, map_app, sumQ_app. cbn [map plus]. rewrite sumQ_cons, sumQ_nil.
  destruct (Nat.eqb_spec n k) as [->|Hne].
  - rewrite (sumQ_map_zero _ (seq 0 k)); [ring|]. intros j Hj. apply in_seq in Hj. destruct (Nat.eqb_spec j k); [lia|reflexivity].
  - rewrite IH by lia. ring.
Qed.

Lemma sum_no_hit (v : nat -> Qc) (P : nat -> bool) l : (forall j, In j l -> P j = false) ->
  sumQ (map (fun j => if P j then v j else 0) l) = 0.
Proof. intros H. apply sumQ_map_zero. intros j Hj. rewrite (H j Hj). reflexivity. Qed.

Section Graph.
Variables (T : etab) (hs : list Qc) (es : list gedge).
Let G := GGraph hs es.
Hypothesis Hw : wf_geom T G.
Hypothesis Hs : simple_graph (length hs) es.

Lemma term_is_exchange x i s j e : In e es -> (i < length hs)%nat -> (j < length hs)%nat ->
  kin_graph_term T hs x i s j e = exchange T G x s i j (snd (fst e)) (snd e).
Proof.
  intros He Hi Hj. destruct Hw as (Hh & Hes). specialize (Hes e He). destruct e as [[[a b] sf] ds]. destruct Hes as (_ & _ & Hds).
  unfold kin_graph_term, exchange, G, vol_of, edge_of. cbn [fst snd].
  pose proof (Hh i Hi) as Zi. pose proof (Hh j Hj) as Zj. unfold cube. field. repeat split; assumption.
Qed.

Theorem kin_graph_diffusion_law x i s : (i < length hs)%nat ->
  kin_graph_diffusion T hs es x i s
  = sumQ (map (fun sl : slot => exchange T G x s i (fst (fst sl)) (snd (fst sl)) (snd sl)) (neighbours G i)).
Proof.
  intros Hi. destruct Hs as (Hends & Huniq). unfold kin_graph_diffusion, G. cbn [neighbours]. unfold slots_of.
  rewrite sumQ_flat_map.
  (* kinetics side: a double sum over nodes and edges, then edges first *)
  rewrite (sumQ_map_ext _ (fun j => sumQ (map (fun e : gedge => if negb (Nat.eqb j i) && joins_e i j e
                                                              then exchange T G x s i j (snd (fst e)) (snd e) else 0) es))).
  2: { intros j Hj. apply in_seq in Hj. destruct (Nat.eqb_spec j i) as [->|Hne].
       - cbn [negb andb]. symmetry. apply sumQ_map_zero. intros; reflexivity.
       - cbn [negb andb]. unfold get_edge.
         rewrite (find_unique_sum (joins_e i j) (kin_graph_term T hs x i s j)) by (apply Huniq; lia).
         apply sumQ_map_ext. intros e He. destruct (joins_e i j e); [|reflexivity]. apply term_is_exchange; [exact He|exact Hi|lia]. }
  rewrite (sumQ_swap (fun j (e : gedge) => if negb (Nat.eqb j i) && joins_e i j e then exchange T G x s i j (snd (fst e)) (snd e) else 0)).
  apply sumQ_map_ext. intros e He. specialize (Hends e He). destruct e as [[[a b] sf] ds]. destruct Hends as (Hab & Ha & Hb).
  cbn [fst snd joins_e]. rewrite map_app, sumQ_app.
  destruct (Nat.eqb_spec a i) as [Eai|Nai]; destruct (Nat.eqb_spec b i) as [Ebi|Nbi]; try (exfalso; lia); cbn [map sumQ fold_right andb orb].
  - (* a = i: the only node is b *)
    subst a. rewrite (sumQ_map_ext _ (fun j => if Nat.eqb j b then exchange T G x s i j sf ds else 0)).
    + rewrite sum_indicator_seq by exact Hb. cbn [fst snd]. fold G. ring.
    + intros j _. destruct (Nat.eqb_spec j i) as [Eji|Nji]; destruct (Nat.eqb_spec b j) as [Ebj|Nbj];
        destruct (Nat.eqb_spec j b); destruct (Nat.eqb_spec i j); try lia; cbn [negb andb orb]; try reflexivity.
  - (* b = i: the only node is a *)
    subst b. rewrite (sumQ_map_ext _ (fun j => if Nat.eqb j a then exchange T G x s i j sf ds else 0)).
    + rewrite sum_indicator_seq by exact Ha. cbn [fst snd]. fold G. ring.
    + intros j _. destruct (Nat.eqb_spec j i) as [Eji|Nji]; destruct (Nat.eqb_spec a j) as [Eaj|Naj];
        destruct (Nat.eqb_spec j a); destruct (Nat.eqb_spec i j); try lia; cbn [negb andb orb]; try reflexivity.
  - (* the edge does not touch i *)
    rewrite (sumQ_map_zero _ (seq 0 (length hs))); [ring|]. intros j _.
    destruct (Nat.eqb j i); destruct (Nat.eqb b j); destruct (Nat.eqb a j); reflexivity.
Qed.

End Graph.

Definition kin_graph_dxdt (T : etab) (hs : list Qc) (es : list gedge) (x : list Qc) (apply_chemostats : bool) (i s Q : nat) : Qc :=
  if apply_chemostats && Chs T i s then 0
  else kin_reactions T (GGraph hs es) x i s Q + kin_graph_diffusion T hs es x i s.

Theorem kinetics_graph_is_rate_law T hs es x b i s Q :
  wf_geom T (GGraph hs es) -> simple_graph (length hs) es -> paired T Q -> (i < length hs)%nat ->
  kin_graph_dxdt T hs es x b i s Q = if b && Chs T i s then 0 else rate_law T (GGraph hs es) x i s.
Proof.
  intros Hw Hs HP Hi. unfold kin_graph_dxdt. destruct (b && Chs T i s); [reflexivity|].
  unfold rate_law. rewrite kin_reactions_law by exact HP. rewrite (kin_graph_diffusion_law T hs es Hw Hs) by exact Hi. reflexivity.
Qed.

(* the restriction is needed: two parallel edges are seen once by get_edge and twice by the engines *)
Example parallel_edges_differ :
  let T := {| nS := 1; nR := 0; nE := 1; nC := 2; tk := []; tsub := []; tsto := []; tD := [1]; tenv := [0; 0]%nat; tchs := [false; false] |} in
  let es : list gedge := [(0%nat, 1%nat, 1, 1); (0%nat, 1%nat, 1, 1)] in
  Qceqb (kin_graph_dxdt T [1; 1] es [QcZ 4; 0] false 0 0 0) (rate_law T (GGraph [1; 1] es) [QcZ 4; 0] 0 0) = false.
Proof. vm_compute. reflexivity. Qed.
