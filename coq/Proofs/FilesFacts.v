(* Facts about the file-name and text-array model (Model/Files.v). *)
From Coq Require Import NArith ZArith List Lia Bool.
From Verif Require Import Num ReactionText ReactionTextFacts Files.
Import ListNotations.
Open Scope N_scope.

(* ================================================================== text arrays *)
Lemma uint_chars_no_comma u : existsb (N.eqb c_comma) (uint_chars u) = false.
Proof. induction u; cbn [uint_chars existsb]; try reflexivity; rewrite IHu; reflexivity. Qed.
Lemma print_int_no_comma z : existsb (N.eqb c_comma) (print_int z) = false.
Proof. unfold print_int. destruct (Z.to_int z); cbn [existsb]; rewrite uint_chars_no_comma; reflexivity. Qed.

Lemma comma_to_space_id w : existsb (N.eqb c_comma) w = false -> comma_to_space w = w.
Proof.
  induction w as [|c w IH]; intro H; [reflexivity|].
  cbn [existsb] in H. apply orb_false_iff in H. destruct H as (Hc & Hw).
  unfold comma_to_space in *. cbn [map]. rewrite N.eqb_sym, Hc, (IH Hw). reflexivity.
Qed.
Lemma comma_to_space_app a b : comma_to_space (a ++ b) = comma_to_space a ++ comma_to_space b.
Proof. unfold comma_to_space. apply map_app. Qed.

Lemma comma_to_space_saved l : comma_to_space (save_array l) = save_array l.
Proof.
  induction l as [|z l IH]; [reflexivity|].
  unfold save_array in *. cbn [flat_map]. rewrite !comma_to_space_app, IH, (comma_to_space_id _ (print_int_no_comma z)). reflexivity.
Qed.

Lemma split_saved l : split_ws (save_array l) [] = map print_int l.
Proof.
  induction l as [|z l IH]; [reflexivity|].
  unfold save_array in *. cbn [flat_map map]. rewrite <- app_assoc.
  rewrite (split_ws_run _ (print_int_no_space z)). rewrite app_nil_r. cbn [app split_ws].
  change (is_space c_sp) with true. cbn iota.
  destruct (rev (print_int z)) eqn:E.
  - exfalso. apply (print_int_nonempty z). rewrite <- (rev_involutive (print_int z)), E. reflexivity.
  - rewrite <- E, rev_involutive, IH. reflexivity.
Qed.

Theorem load_save_array l : load_array (save_array l) = Some l.
Proof.
  unfold load_array. rewrite comma_to_space_saved, split_saved.
  induction l as [|z l IH]; [reflexivity|].
  cbn [map all_some_l]. rewrite parse_print_int, IH. reflexivity.
Qed.

(* ================================================================== extensions *)
Lemma have_extension_suffix p e : have_extension p e = true -> p = firstn (length p - length e) p ++ e.
Proof.
  unfold have_extension, slice_from. intro H. apply str_eqb_eq in H.
  destruct (Z.of_nat (length p) - Z.of_nat (length e) <? 0)%Z eqn:E.
  - exfalso. apply Z.ltb_lt in E. assert (L : (length e <= length p)%nat).
    { rewrite <- H at 1. rewrite skipn_length. lia. }
    lia.
  - apply Z.ltb_ge in E.
    replace (Z.to_nat (Z.min (Z.of_nat (length p) - Z.of_nat (length e)) (Z.of_nat (length p)))) with (length p - length e)%nat in H by lia.
    rewrite <- (firstn_skipn (length p - length e) p) at 1. rewrite H. reflexivity.
Qed.

Lemma have_extension_app q e : have_extension (q ++ e) e = true.
Proof.
  unfold have_extension, slice_from. rewrite app_length.
  destruct (Z.of_nat (length q + length e) - Z.of_nat (length e) <? 0)%Z eqn:E; [apply Z.ltb_lt in E; lia|].
  replace (Z.to_nat _) with (length q + 0)%nat by lia.
  rewrite skipn_app, Nat.add_0_r, skipn_all, Nat.sub_diag. cbn [skipn app]. apply str_eqb_refl.
Qed.

Theorem have_extension_iff p e : have_extension p e = true <-> exists q, p = q ++ e.
Proof.
  split; [intro H; eexists; exact (have_extension_suffix p e H) | intros (q & ->); apply have_extension_app].
Qed.

Theorem append_has_extension p e : have_extension (append_extension_if_missing p e) e = true.
Proof. unfold append_extension_if_missing. destruct (have_extension p e) eqn:E; [exact E | apply have_extension_app]. Qed.

Theorem append_idempotent p e :
  append_extension_if_missing (append_extension_if_missing p e) e = append_extension_if_missing p e.
Proof. unfold append_extension_if_missing at 1. rewrite append_has_extension. reflexivity. Qed.

Theorem remove_then_add p e : have_extension p e = true -> remove_extension_if_existing p e ++ e = p.
Proof. intro H. unfold remove_extension_if_existing. rewrite H. symmetry. apply have_extension_suffix, H. Qed.

(* both file names of a saved trajectory are one stem with two different endings *)
Theorem trajectory_names_stem p : exists q, json_path p = q ++ ext_json /\ data_path p = q ++ suffix_data.
Proof.
  unfold json_path, data_path, append_extension_if_missing, remove_extension_if_existing.
  destruct (have_extension p ext_json) eqn:E.
  - exists (firstn (length p - length ext_json) p). split; [apply have_extension_suffix, E | reflexivity].
  - exists p. split; reflexivity.
Qed.

(* ================================================================== paths *)
Definition nosep (w : str) : Prop := existsb (N.eqb c_slash) w = false.

Lemma nosep_app a b : nosep (a ++ b) <-> nosep a /\ nosep b.
Proof. unfold nosep. rewrite existsb_app, orb_false_iff. reflexivity. Qed.

Lemma split_nosep w : nosep w -> forall cur, split_char c_slash w cur = [rev cur ++ w].
Proof.
  intros H cur. rewrite <- (app_nil_r w) at 1. rewrite (split_char_run c_slash w H). cbn [split_char].
  rewrite rev_app_distr, rev_involutive. reflexivity.
Qed.

(* appending a slash-free text only lengthens the last piece *)
Lemma split_app_nosep s : nosep s -> forall r cur,
  split_char c_slash (r ++ s) cur = removelast (split_char c_slash r cur) ++ [last (split_char c_slash r cur) [] ++ s].
Proof.
  intros Hs. induction r as [|c r IH]; intro cur.
  - cbn [app]. rewrite (split_nosep s Hs). reflexivity.
  - cbn [app split_char]. destruct (c =? c_slash) eqn:E.
    + rewrite IH. pose proof (split_char_nonnil c_slash r []) as NN.
      destruct (split_char c_slash r []) as [|x xs] eqn:Ex; [contradiction|]. reflexivity.
    + apply IH.
Qed.

Lemma split_app_sep a q : forall cur,
  split_char c_slash (a ++ c_slash :: q) cur = split_char c_slash a cur ++ split_char c_slash q [].
Proof.
  induction a as [|c a IH]; intro cur.
  - cbn [app split_char]. change (c_slash =? c_slash) with true. reflexivity.
  - cbn [app split_char]. destruct (c =? c_slash); [rewrite IH; reflexivity | apply IH].
Qed.

Lemma existsb_rev {A} (f : A -> bool) l : existsb f (rev l) = existsb f l.
Proof. induction l as [|a l IH]; [reflexivity|]. cbn [rev existsb]. rewrite existsb_app, IH. cbn [existsb]. destruct (f a), (existsb f l); reflexivity. Qed.

(* pieces of a split contain no separator *)
Lemma split_pieces_nosep s : forall cur, nosep cur -> forall x, In x (split_char c_slash s cur) -> nosep x.
Proof.
  induction s as [|c s IH]; intros cur Hc x Hx.
  - cbn in Hx. destruct Hx as [<-|[]]. unfold nosep in *. rewrite existsb_rev. exact Hc.
  - cbn [split_char] in Hx. destruct (c =? c_slash) eqn:E.
    + destruct Hx as [<-|Hx]; [unfold nosep in *; rewrite existsb_rev; exact Hc | exact (IH [] eq_refl x Hx)].
    + apply (IH (c :: cur)); [|exact Hx]. unfold nosep in *. cbn [existsb]. rewrite N.eqb_sym, E. exact Hc.
Qed.

(* ---------- the last piece ---------- *)
Definition lc (z : str) : str := last (split_char c_slash z []) [].

Lemma last_app_nonnil {A} (a b : list A) d : b <> [] -> last (a ++ b) d = last b d.
Proof.
  intro Hb. induction a as [|x a IH]; [reflexivity|].
  cbn [app last]. destruct (a ++ b) eqn:E; [apply app_eq_nil in E; destruct E; contradiction | exact IH].
Qed.

Lemma lc_app_sep a q : lc (a ++ c_slash :: q) = lc q.
Proof. unfold lc. rewrite split_app_sep. apply last_app_nonnil, split_char_nonnil. Qed.
Lemma lc_sep q : lc (c_slash :: q) = lc q.
Proof. exact (lc_app_sep [] q). Qed.
Lemma lc_nosep q : nosep (lc q).
Proof.
  unfold lc. pose proof (split_char_nonnil c_slash q []) as NN.
  apply (split_pieces_nosep q [] eq_refl).
  destruct (@exists_last _ _ NN) as (l' & a & E). rewrite E, last_last. apply in_or_app. right. left. reflexivity.
Qed.

Definition head_not_slash (s : str) : Prop := match s with c :: _ => (c =? c_slash) = false | [] => False end.

(* the root is decided by the leading slashes alone *)
Lemma splitroot_app q s : head_not_slash s -> splitroot (q ++ s) = (fst (splitroot q), snd (splitroot q) ++ s).
Proof.
  intro Hs. destruct s as [|s0 s]; [contradiction|]. cbn in Hs.
  destruct q as [|a [|b [|c q]]]; cbn [app splitroot fst snd].
  - rewrite Hs. reflexivity.
  - destruct (a =? c_slash); [rewrite Hs|]; reflexivity.
  - destruct (a =? c_slash); [|reflexivity]. destruct (b =? c_slash); [rewrite Hs|]; reflexivity.
  - destruct (a =? c_slash); [|reflexivity]. destruct (b =? c_slash); [|reflexivity]. destruct (c =? c_slash); reflexivity.
Qed.

Lemma lc_splitroot q : lc (snd (splitroot q)) = lc q.
Proof.
  destruct q as [|a [|b [|c q]]]; cbn [splitroot snd]; try reflexivity.
  - destruct (a =? c_slash) eqn:E; [|reflexivity]. apply N.eqb_eq in E. subst a. symmetry. apply lc_sep.
  - destruct (a =? c_slash) eqn:E; [|reflexivity]. apply N.eqb_eq in E. subst a.
    destruct (b =? c_slash) eqn:E2; cbn [snd]; [|symmetry; apply lc_sep].
    apply N.eqb_eq in E2. subst b. rewrite !lc_sep. reflexivity.
  - destruct (a =? c_slash) eqn:E; [|reflexivity]. apply N.eqb_eq in E. subst a.
    destruct (b =? c_slash) eqn:E2; cbn [snd]; [|symmetry; apply lc_sep].
    apply N.eqb_eq in E2. subst b. destruct (c =? c_slash) eqn:E3; cbn [snd]; rewrite !lc_sep; reflexivity.
Qed.

Lemma root_of_absolute x : starts_slash x = true -> fst (splitroot x) = [c_slash] \/ fst (splitroot x) = [c_slash; c_slash].
Proof.
  destruct x as [|a [|b [|c q]]]; cbn [starts_slash splitroot]; intro H; try discriminate; rewrite H; cbn [fst]; auto.
  - destruct (b =? c_slash); cbn [fst]; auto.
  - destruct (b =? c_slash); cbn [fst]; auto. destruct (c =? c_slash); cbn [fst]; auto.
Qed.

(* ---------- a suffix that stays inside the last component ---------- *)
Definition good_suffix (s : str) : Prop := nosep s /\ (2 <= length s)%nat.

Lemma good_suffix_head s : good_suffix s -> head_not_slash s.
Proof.
  intros (Hn & Hl). destruct s as [|c s]; [cbn in Hl; lia|]. unfold nosep in Hn. cbn [existsb] in Hn.
  apply orb_false_iff in Hn. cbn. rewrite N.eqb_sym. apply Hn.
Qed.

Lemma keep_long x : (2 <= length x)%nat -> keep_part x = true.
Proof. destruct x as [|a [|b x]]; cbn [length]; intro H; try lia. reflexivity. Qed.

Definition dir_parts (z : str) : list str := filter keep_part (removelast (split_char c_slash (snd (splitroot z)) [])).

Lemma parse_with_suffix z s : good_suffix s ->
  parse_path (z ++ s) = (fst (splitroot z), dir_parts z ++ [lc z ++ s]).
Proof.
  intro Hs. unfold parse_path. rewrite (splitroot_app z s (good_suffix_head s Hs)). f_equal.
  unfold parts_of. rewrite (split_app_nosep s (proj1 Hs)). rewrite filter_app. cbn [filter].
  fold (lc (snd (splitroot z))). rewrite lc_splitroot.
  rewrite keep_long; [reflexivity|]. rewrite app_length. destruct Hs as (_ & Hl). lia.
Qed.

(* ---------- printing and re-reading a directory ---------- *)
Definition comp_ok (x : str) : Prop := nosep x /\ keep_part x = true.

Lemma dir_parts_ok z x : In x (dir_parts z) -> comp_ok x.
Proof.
  unfold dir_parts. intro H. apply filter_In in H. destruct H as (Hin & Hk). split; [|exact Hk].
  apply (split_pieces_nosep (snd (splitroot z)) [] eq_refl).
  pose proof (split_char_nonnil c_slash (snd (splitroot z)) []) as NN.
  apply (@exists_last _ _) in NN. destruct NN as (l' & a & E). rewrite E in *. rewrite removelast_last in Hin.
  apply in_or_app. left. exact Hin.
Qed.

Lemma split_join l : l <> [] -> (forall x, In x l -> nosep x) -> split_char c_slash (join_slash l) [] = l.
Proof.
  induction l as [|a l IH]; intros NN H; [contradiction|].
  destruct l as [|b l].
  - cbn [join_slash]. rewrite (split_nosep a (H a (or_introl eq_refl))). reflexivity.
  - change (join_slash (a :: b :: l)) with (a ++ [c_slash] ++ join_slash (b :: l)). cbn [app].
    rewrite split_app_sep, (split_nosep a (H a (or_introl eq_refl))). cbn [rev app].
    rewrite IH; [reflexivity | discriminate | intros x Hx; apply H; right; exact Hx].
Qed.

Lemma join_snoc l x : l <> [] -> join_slash (l ++ [x]) = join_slash l ++ [c_slash] ++ x.
Proof.
  induction l as [|a l IH]; intro NN; [contradiction|].
  destruct l as [|b l]; [reflexivity|].
  change ((a :: b :: l) ++ [x]) with (a :: (b :: l) ++ [x]).
  change (join_slash (a :: (b :: l) ++ [x])) with (a ++ [c_slash] ++ join_slash ((b :: l) ++ [x])).
  rewrite IH by discriminate. change (join_slash (a :: b :: l)) with (a ++ [c_slash] ++ join_slash (b :: l)).
  rewrite <- !app_assoc. reflexivity.
Qed.

Lemma filter_all_keep l : (forall x, In x l -> keep_part x = true) -> filter keep_part l = l.
Proof. induction l as [|a l IH]; intro H; [reflexivity|]. cbn [filter]. rewrite (H a (or_introl eq_refl)), IH; [reflexivity|]. intros x Hx. apply H. right. exact Hx. Qed.

Lemma comp_head x : comp_ok x -> head_not_slash x.
Proof.
  intros (Hn & Hk). destruct x as [|c x]; [discriminate|]. unfold nosep in Hn. cbn [existsb] in Hn.
  apply orb_false_iff in Hn. cbn. rewrite N.eqb_sym. apply Hn.
Qed.

Lemma ends_slash_snoc a c : ends_slash (a ++ [c]) = (c =? c_slash).
Proof. unfold ends_slash. rewrite rev_app_distr. reflexivity. Qed.

Lemma join_last_char l : l <> [] -> (forall x, In x l -> comp_ok x) -> exists a c, join_slash l = a ++ [c] /\ (c =? c_slash) = false.
Proof.
  induction l as [|x l IH]; intros NN H; [contradiction|].
  destruct l as [|y l].
  - cbn [join_slash]. destruct (H x (or_introl eq_refl)) as (Hn & Hk).
    destruct (@exists_last _ x) as (a & c & E); [intro E; subst x; discriminate|].
    exists a, c. split; [exact E|]. subst x. apply nosep_app in Hn. destruct Hn as (_ & Hn). unfold nosep in Hn. cbn [existsb] in Hn.
    apply orb_false_iff in Hn. rewrite N.eqb_sym. apply Hn.
  - destruct IH as (a & c & E & Hc); [discriminate | intros z Hz; apply H; right; exact Hz|].
    exists (x ++ [c_slash] ++ a), c. split; [|exact Hc].
    change (join_slash (x :: y :: l)) with (x ++ [c_slash] ++ join_slash (y :: l)). rewrite E, <- !app_assoc. reflexivity.
Qed.

(* a directory printed by pathlib, joined with a file name, parses as that directory plus the name *)
Lemma parse_join_dir root T name :
  root = [c_slash] \/ root = [c_slash; c_slash] -> (forall x, In x T -> comp_ok x) -> comp_ok name ->
  parse_path (pjoin (fmt_path (root, T)) name) = (root, T ++ [name]).
Proof.
  intros Hroot HT Hname.
  pose proof (comp_head name Hname) as Hh.
  assert (Hns : starts_slash name = false) by (destruct name; [reflexivity | exact Hh]).
  assert (Hparts : forall L, L <> [] -> (forall x, In x L -> comp_ok x) -> parts_of (join_slash L) = L).
  { intros L NN HL. unfold parts_of. rewrite split_join; [|exact NN | intros x Hx; apply HL, Hx]. apply filter_all_keep. intros x Hx. apply HL, Hx. }
  destruct T as [|t T].
  - (* the root alone *)
    assert (Ef : fmt_path (root, []) = root) by (destruct Hroot as [-> | ->]; reflexivity).
    assert (E : pjoin root name = root ++ name).
    { unfold pjoin. rewrite Hns. destruct Hroot as [-> | ->]; reflexivity. }
    rewrite Ef, E. unfold parse_path. rewrite (splitroot_app root name Hh).
    assert (Er : splitroot root = (root, [])) by (destruct Hroot as [-> | ->]; reflexivity).
    rewrite Er. cbn [fst snd app]. f_equal. apply (Hparts [name]); [discriminate|]. intros x [<-|[]]. exact Hname.
  - set (L := t :: T) in *. assert (NN : L <> []) by discriminate.
    destruct (join_last_char L NN HT) as (a & c & Ej & Hc).
    assert (Ef : fmt_path (root, L) = root ++ join_slash L).
    { unfold fmt_path. cbn [fst snd]. destruct Hroot as [-> | ->]; reflexivity. }
    assert (Ep : pjoin (root ++ join_slash L) name = root ++ join_slash (L ++ [name])).
    { unfold pjoin. rewrite Hns. rewrite Ej, app_assoc, ends_slash_snoc, Hc. rewrite <- app_assoc, <- Ej.
      rewrite (join_snoc L name NN). destruct (root ++ join_slash L) eqn:E0; [destruct Hroot as [-> | ->]; discriminate|].
      rewrite <- E0, <- !app_assoc. reflexivity. }
    rewrite Ef, Ep. unfold parse_path.
    assert (HL' : forall x, In x (L ++ [name]) -> comp_ok x).
    { intros x Hx. apply in_app_or in Hx. destruct Hx as [Hx|[<-|[]]]; [apply HT, Hx | exact Hname]. }
    assert (Hh' : head_not_slash (join_slash (L ++ [name]))).
    { unfold L. cbn [app]. pose proof (comp_head t (HT t (or_introl eq_refl))) as Ht.
      destruct (T ++ [name]) as [|u us] eqn:E0; [apply app_eq_nil in E0; destruct E0; discriminate|].
      change (join_slash (t :: u :: us)) with (t ++ [c_slash] ++ join_slash (u :: us)). destruct t; [contradiction | exact Ht]. }
    rewrite (splitroot_app root _ Hh').
    assert (Er : splitroot root = (root, [])) by (destruct Hroot as [-> | ->]; reflexivity).
    rewrite Er. cbn [fst snd app]. f_equal. apply Hparts; [|exact HL']. intro E0. apply app_eq_nil in E0. destruct E0; discriminate.
Qed.

(* ---------- the working directory ---------- *)
Definition abs_stem (cwd q : str) : str := if starts_slash q then q else pjoin cwd q.

Lemma starts_slash_app q s : head_not_slash s -> starts_slash (q ++ s) = starts_slash q.
Proof. intro H. destruct q; [|reflexivity]. destruct s; [contradiction | exact H]. Qed.

Lemma pjoin_suffix cwd q s : cwd <> [] -> starts_slash q = false -> head_not_slash s -> pjoin cwd (q ++ s) = pjoin cwd q ++ s.
Proof.
  intros NN Hq Hs. unfold pjoin. rewrite (starts_slash_app q s Hs), Hq.
  destruct cwd as [|a cwd]; [contradiction|]. destruct (ends_slash (a :: cwd)); rewrite <- !app_assoc; reflexivity.
Qed.

Lemma absolute_with_suffix cwd q s : starts_slash cwd = true -> good_suffix s -> absolute cwd (q ++ s) = abs_stem cwd q ++ s.
Proof.
  intros Hc Hs. pose proof (good_suffix_head s Hs) as Hh.
  assert (NN : cwd <> []) by (intro E; subst cwd; discriminate).
  unfold absolute, abs_stem. rewrite (starts_slash_app q s Hh).
  destruct (starts_slash q) eqn:Eq; [reflexivity|].
  rewrite (parse_with_suffix q s Hs).
  destruct (dir_parts q ++ [lc q ++ s]) as [|u us] eqn:E0; [apply app_eq_nil in E0; destruct E0; discriminate|].
  destruct (fst (splitroot q)); apply (pjoin_suffix cwd q s NN Eq Hh).
Qed.

Lemma abs_stem_absolute cwd q : starts_slash cwd = true -> starts_slash (abs_stem cwd q) = true.
Proof.
  intro Hc. unfold abs_stem. destruct (starts_slash q) eqn:Eq; [exact Eq|].
  unfold pjoin. rewrite Eq. destruct cwd as [|a cwd]; [discriminate|].
  destruct (ends_slash (a :: cwd)); exact Hc.
Qed.

Lemma lc_abs_stem cwd q : starts_slash cwd = true -> lc (abs_stem cwd q) = lc q.
Proof.
  intro Hc. unfold abs_stem. destruct (starts_slash q) eqn:Eq; [reflexivity|].
  unfold pjoin. rewrite Eq. destruct cwd as [|a cwd]; [discriminate|].
  destruct (ends_slash (a :: cwd)) eqn:Ee.
  - destruct (@exists_last _ (a :: cwd)) as (y & c & E); [discriminate|]. rewrite E in *. rewrite ends_slash_snoc in Ee.
    apply N.eqb_eq in Ee. subst c. rewrite <- app_assoc. apply lc_app_sep.
  - apply lc_app_sep.
Qed.

(* ---------- two files named by one stem live in one directory, and the one is found from the other ---------- *)
Theorem same_directory cwd q s1 s2 : starts_slash cwd = true -> good_suffix s1 -> good_suffix s2 ->
  get_path_with_base (get_last_element (q ++ s2)) (Some (get_base_path cwd (q ++ s1)))
  = fmt_path (parse_path (absolute cwd (q ++ s2))).
Proof.
  intros Hc H1 H2. unfold get_base_path, get_last_element, get_path_with_base.
  rewrite (absolute_with_suffix cwd q s1 Hc H1), (absolute_with_suffix cwd q s2 Hc H2).
  rewrite (parse_with_suffix (abs_stem cwd q) s1 H1), (parse_with_suffix (abs_stem cwd q) s2 H2), (parse_with_suffix q s2 H2).
  unfold path_parent, path_name. cbn [fst snd]. rewrite removelast_last, last_last, (lc_abs_stem cwd q Hc).
  assert (Hname : comp_ok (lc q ++ s2)).
  { split; [apply nosep_app; split; [apply lc_nosep | apply H2] | apply keep_long; rewrite app_length; destruct H2 as (_ & Hl); lia]. }
  pose proof (comp_head _ Hname) as Hh.
  replace (starts_slash (lc q ++ s2)) with false by (destruct (lc q ++ s2); [reflexivity | symmetry; exact Hh]).
  rewrite parse_join_dir; [reflexivity | apply root_of_absolute, abs_stem_absolute, Hc | apply dir_parts_ok | exact Hname].
Qed.

Lemma good_ext_json : good_suffix ext_json.      Proof. split; [reflexivity | cbn; lia]. Qed.
Lemma good_suffix_data : good_suffix suffix_data. Proof. split; [reflexivity | cbn; lia]. Qed.

(* save_rdtrajectory(path, separate_data=True) followed by load_rdtrajectory of the JSON file it wrote: for every path and
   every absolute working directory, the data file the loader opens is the data file the saver wrote *)
Theorem trajectory_data_found cwd p : starts_slash cwd = true -> data_loaded_from cwd p = data_saved_to cwd p.
Proof.
  intro Hc. destruct (trajectory_names_stem p) as (q & Ej & Ed).
  unfold data_loaded_from, data_saved_to, data_reference. rewrite Ej, Ed.
  apply (same_directory cwd q ext_json suffix_data Hc good_ext_json good_suffix_data).
Qed.

(* the reference written into the JSON file is a bare file name: no directory part, never empty, never '.' *)
Theorem data_reference_is_a_name p : nosep (data_reference p) /\ keep_part (data_reference p) = true.
Proof.
  destruct (trajectory_names_stem p) as (q & _ & Ed). unfold data_reference, get_last_element. rewrite Ed.
  rewrite (parse_with_suffix q suffix_data good_suffix_data). unfold path_name. cbn [snd]. rewrite last_last.
  split; [apply nosep_app; split; [apply lc_nosep | reflexivity] | apply keep_long; rewrite app_length; cbn; lia].
Qed.

(* a reference that is already absolute ignores the base; without a base the reference is used as it is *)
Theorem absolute_reference_kept p b : starts_slash p = true -> get_path_with_base p (Some b) = p.
Proof. intro H. unfold get_path_with_base. rewrite H. reflexivity. Qed.
Theorem no_base_kept p : get_path_with_base p None = p.
Proof. reflexivity. Qed.
