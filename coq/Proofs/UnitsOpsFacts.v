(* The operator suite is a homomorphism into SI arithmetic:  SIop (eval e) = sem e. *)
From Coq Require Import ZArith QArith Qcanon Qabs Qround Lia Field List.
From Verif Require Import Num NumFacts Units UnitsFacts UnitsOps.
Import ListNotations.
Open Scope Qc_scope.

(* ---------------------------------------------------------------- numbers *)

Lemma Qcinv_mult x y : / (x * y) = / x * / y.
Proof.
  apply Qc_is_canon. rewrite this_inv, !this_mult, !this_inv. apply Qinv_mult_distr.
Qed.

Lemma this_QcZ z : (this (QcZ z) == inject_Z z)%Q.
Proof. apply this_Q2Qc. Qed.

Lemma Qcfloor_scale k x y : 0 < k -> Qcfloor ((k * x) / (k * y)) = Qcfloor (x / y).
Proof.
  intros Hk. f_equal. unfold Qcdiv. rewrite Qcinv_mult.
  assert (k <> 0) by (apply Qc_pos_neq; exact Hk).
  replace (k * x * (/ k * / y)) with ((k * / k) * (x * / y)) by ring.
  rewrite Qcmult_inv_r by assumption. ring.
Qed.

Lemma Qcmod_scale k x y : 0 < k -> Qcmod (k * x) (k * y) = k * Qcmod x y.
Proof. intros Hk. unfold Qcmod. rewrite Qcfloor_scale by exact Hk. ring. Qed.

Lemma Qcabs_scale k x : 0 < k -> Qcabs (x * k) = Qcabs x * k.
Proof.
  intros Hk. apply Qc_is_canon.
  transitivity (Qabs (this x * this k))%Q.
  - unfold Qcabs. rewrite this_Q2Qc. apply Qabs_wd. apply this_mult.
  - rewrite this_mult. unfold Qcabs. rewrite this_Q2Qc. rewrite Qabs_Qmult.
    rewrite (Qabs_pos (this k)); [reflexivity|]. apply Qlt_le_weak. exact Hk.
Qed.

Lemma Qcleb_scale k x y : 0 < k -> Qcleb (x * k) (y * k) = Qcleb x y.
Proof.
  intros Hk. apply Bool.eq_true_iff_eq. rewrite !Qcleb_le. split; intros H.
  - apply Qcmult_le_compat_r with (z := / k) in H.
    + replace (x * k * / k) with x in H by (field; apply Qc_pos_neq; exact Hk).
      replace (y * k * / k) with y in H by (field; apply Qc_pos_neq; exact Hk). exact H.
    + apply Qclt_le_weak. apply Qcinv_pos. exact Hk.
  - apply Qcmult_le_compat_r; [exact H|]. apply Qclt_le_weak. exact Hk.
Qed.

Lemma Qcltb_scale k x y : 0 < k -> Qcltb (x * k) (y * k) = Qcltb x y.
Proof. intros Hk. unfold Qcltb. rewrite Qcleb_scale by exact Hk. reflexivity. Qed.

Lemma Qceqb_scale k x y : 0 < k -> Qceqb (x * k) (y * k) = Qceqb x y.
Proof.
  intros Hk. apply Bool.eq_true_iff_eq. rewrite !Qceqb_eq. split; intros H.
  - assert (k <> 0) by (apply Qc_pos_neq; exact Hk).
    replace x with (x * k * / k) by (field; assumption). rewrite H. field. assumption.
  - subst. reflexivity.
Qed.

Lemma cmpQ_scale c k x y : 0 < k -> cmpQ c (x * k) (y * k) = cmpQ c x y.
Proof.
  intros Hk. destruct c; unfold cmpQ;
  rewrite ?Qceqb_scale, ?Qcltb_scale, ?Qcleb_scale by exact Hk; reflexivity.
Qed.

(* ---------------------------------------------------------------- shapes *)

Lemma zipQ_hom f f' g g1 g2 l m :
  (forall x y, g (f x y) = f' (g1 x) (g2 y)) ->
  map_res (map g) (zipQ f l m) = zipQ f' (map g1 l) (map g2 m).
Proof.
  intros H. revert m. induction l as [|a l IH]; intros [|b m]; simpl; try reflexivity.
  rewrite <- IH. destruct (zipQ f l m); simpl; [rewrite H|]; reflexivity.
Qed.

Lemma zip_shape_hom f f' g g1 g2 a b :
  (forall x y, g (f x y) = f' (g1 x) (g2 y)) ->
  map_res (map_shape g) (zip_shape f a b) = zip_shape f' (map_shape g1 a) (map_shape g2 b).
Proof.
  intros H. destruct a as [x|xs], b as [y|ys]; simpl.
  - rewrite H. reflexivity.
  - f_equal. f_equal. rewrite !map_map. apply map_ext. intros; apply H.
  - f_equal. f_equal. rewrite !map_map. apply map_ext. intros; apply H.
  - rewrite <- (zipQ_hom f f' g g1 g2 xs ys H). destruct (zipQ f xs ys); reflexivity.
Qed.

Lemma map_shape_id a : map_shape (fun x => x) a = a.
Proof. destruct a; simpl; [reflexivity|]. rewrite map_id. reflexivity. Qed.

Lemma zip_shape_ext f f' a b : (forall x y, f x y = f' x y) -> zip_shape f a b = zip_shape f' a b.
Proof.
  intros H. rewrite <- (map_shape_id a) at 2. rewrite <- (map_shape_id b) at 2.
  rewrite <- (zip_shape_hom f f' (fun x => x) (fun x => x) (fun x => x) a b H).
  destruct (zip_shape f a b); simpl; [rewrite map_shape_id|]; reflexivity.
Qed.

(* a uniform way to state each operator case *)
Lemma mk_hom s1 d1 (g : Qc -> Qc) (r : res shape) (r' : res shape) u :
  map_res (map_shape (fun x => x * scale s1 d1)) r = r' ->
  u = Some (s1, d1) ->
  map_res SIop (mk r u) = mks r' u.
Proof.
  intros H ->. destruct r as [s|]; simpl in *; subst r'; reflexivity.
Qed.

Lemma scale_scal s n d : scale s (dim_scal n d) = Qcpowz (scale s d) n.
Proof.
  unfold scale, dim_scal; simpl. rewrite !Qcpowz_mul_base.
  rewrite (Z.mul_comm n (dS d)), (Z.mul_comm n (dT d)), (Z.mul_comm n (dQ d)).
  rewrite !Qcpowz_mul_exp. reflexivity.
Qed.

Ltac nz := repeat split; first [apply scale_nz | (let H := fresh in intro H; discriminate H)].

(* ---------------------------------------------------------------- binary operators *)

Lemma bin_hom op a b : map_res SIop (bin_impl op a b) = bin_sem op (SIop a) (SIop b).
Proof.
  destruct a as [sa [[s1 d1]|]], b as [sb [[s2 d2]|]]; destruct op; unfold bin_impl, bin_sem, SIop; cbn [un sh s_un s_sh];
  try (destruct (dim_eqb d1 d2) eqn:E; [apply dim_eqb_eq in E; subst d2 | reflexivity]);
  try rewrite map_shape_id.
  (* quantity op quantity *)
  - (* Add *) apply (mk_hom s1 d1 (fun x => x)); [|reflexivity].
    apply zip_shape_hom. intros x y. rewrite factor_scale. field. apply scale_nz.
  - (* Sub *) apply (mk_hom s1 d1 (fun x => x)); [|reflexivity].
    apply zip_shape_hom. intros x y. rewrite factor_scale. field. apply scale_nz.
  - (* Mul *) apply (mk_hom s1 (dim_add d1 d2) (fun x => x)); [|reflexivity].
    apply zip_shape_hom. intros x y. rewrite factor_scale, scale_add. field. apply scale_nz.
  - (* Div *) apply (mk_hom s1 (dim_add d1 (dim_opp d2)) (fun x => x)); [|reflexivity].
    apply zip_shape_hom. intros x y. rewrite factor_scale, scale_add, !scale_opp.
    unfold Qcdiv. rewrite !Qcinv_mult. generalize (/ y). intros iy. field. nz.
  - (* Mod *) apply (mk_hom s1 d1 (fun x => x)); [|reflexivity].
    apply zip_shape_hom. intros x y. rewrite factor_scale.
    rewrite (Qcmult_comm (Qcmod _ _)), <- Qcmod_scale by apply scale_pos.
    f_equal; field; apply scale_nz.
  (* quantity op number *)
  - apply (mk_hom s1 d1 (fun x => x)); [|reflexivity].
    rewrite <- (map_shape_id sb) at 2. apply zip_shape_hom. intros; ring.
  - apply (mk_hom s1 d1 (fun x => x)); [|reflexivity].
    rewrite <- (map_shape_id sb) at 2. apply zip_shape_hom. intros; ring.
  - apply (mk_hom s1 d1 (fun x => x)); [|reflexivity].
    rewrite <- (map_shape_id sb) at 2. apply zip_shape_hom. intros; ring.
  - apply (mk_hom s1 d1 (fun x => x)); [|reflexivity].
    rewrite <- (map_shape_id sb) at 2. apply zip_shape_hom. intros x y. unfold Qcdiv. ring.
  - apply (mk_hom s1 d1 (fun x => x)); [|reflexivity].
    rewrite <- (map_shape_id sb) at 2. apply zip_shape_hom. intros x y.
    rewrite (Qcmult_comm (Qcmod _ _)), <- Qcmod_scale by apply scale_pos.
    f_equal; ring.
  (* number op quantity *)
  - apply (mk_hom s2 d2 (fun x => x)); [|reflexivity].
    rewrite <- (map_shape_id sa) at 2. apply zip_shape_hom. intros; ring.
  - apply (mk_hom s2 d2 (fun x => x)); [|reflexivity].
    rewrite <- (map_shape_id sa) at 2. apply zip_shape_hom. intros; ring.
  - apply (mk_hom s2 d2 (fun x => x)); [|reflexivity].
    rewrite <- (map_shape_id sa) at 2. apply zip_shape_hom. intros; ring.
  - apply (mk_hom s2 (dim_opp d2) (fun x => x)); [|reflexivity].
    rewrite <- (map_shape_id sa) at 2. apply zip_shape_hom. intros x y.
    rewrite scale_opp. unfold Qcdiv. rewrite Qcinv_mult. generalize (/ y). intros iy. field. apply scale_nz.
  - apply (mk_hom s2 d2 (fun x => x)); [|reflexivity].
    rewrite <- (map_shape_id sa) at 2. apply zip_shape_hom. intros x y.
    rewrite (Qcmult_comm (Qcmod _ _)), <- Qcmod_scale by apply scale_pos.
    f_equal; ring.
  (* number op number *)
  - destruct (zip_shape Qcplus sa sb); reflexivity.
  - destruct (zip_shape Qcminus sa sb); reflexivity.
  - destruct (zip_shape Qcmult sa sb); reflexivity.
  - destruct (zip_shape Qcdiv sa sb); reflexivity.
  - destruct (zip_shape Qcmod sa sb); reflexivity.
Qed.

Lemma map_shape_map_shape f g a : map_shape f (map_shape g a) = map_shape (fun x => f (g x)) a.
Proof. destruct a; simpl; [reflexivity|]. rewrite map_map. reflexivity. Qed.

Lemma map_shape_ext f g a : (forall x, f x = g x) -> map_shape f a = map_shape g a.
Proof. intros H. destruct a; simpl; [rewrite H; reflexivity|]. f_equal. apply map_ext. exact H. Qed.

Lemma neg_hom a : SIop (neg_impl a) = neg_sem (SIop a).
Proof.
  destruct a as [sa [[s d]|]]; unfold SIop, neg_impl, neg_sem; cbn [un sh s_un s_sh]; [|reflexivity].
  f_equal. rewrite !map_shape_map_shape. apply map_shape_ext. intros; ring.
Qed.

Lemma abs_hom a : SIop (abs_impl a) = abs_sem (SIop a).
Proof.
  destruct a as [sa [[s d]|]]; unfold SIop, abs_impl, abs_sem; cbn [un sh s_un s_sh]; [|reflexivity].
  f_equal. rewrite !map_shape_map_shape. apply map_shape_ext. intros x.
  symmetry. apply Qcabs_scale. apply scale_pos.
Qed.

Lemma pow_hom a n : map_res SIop (pow_impl a n) = pow_sem (SIop a) n.
Proof.
  destruct a as [[x|xs] [[s d]|]]; unfold SIop, pow_impl, pow_sem; cbn [un sh s_un s_sh map_shape map_res]; try reflexivity.
  f_equal. unfold SIop; cbn [un sh]. f_equal. cbn [map_shape]. f_equal.
  rewrite scale_scal, Qcpowz_mul_base. reflexivity.
Qed.

Lemma cmp_hom c a b : cmp_impl c a b = cmp_sem c (SIop a) (SIop b).
Proof.
  destruct a as [[x|xs] [[s1 d1]|]], b as [[y|ys] [[s2 d2]|]];
  unfold cmp_impl, cmp_sem, SIop; cbn [un sh s_un s_sh map_shape]; try reflexivity.
  - destruct (dim_eqb d1 d2) eqn:E; [|reflexivity]. apply dim_eqb_eq in E; subst d2.
    f_equal. rewrite <- (cmpQ_scale c (scale s1 d1)) by apply scale_pos.
    f_equal. rewrite factor_scale. field. apply scale_nz.
  - f_equal. symmetry. apply cmpQ_scale. apply scale_pos.
  - f_equal. symmetry. apply cmpQ_scale. apply scale_pos.
Qed.

(* ---------------------------------------------------------------- expression trees *)

Theorem eval_sem e : map_res SIop (eval e) = sem e.
Proof.
  induction e as [o|op a IHa b IHb|a IH|a IH|a IH n]; cbn [eval sem].
  - reflexivity.
  - rewrite <- IHa, <- IHb. destruct (eval a) as [x|], (eval b) as [y|]; cbn [map_res]; try reflexivity.
    apply bin_hom.
  - rewrite <- IH. destruct (eval a) as [x|]; cbn [map_res]; [|reflexivity]. rewrite neg_hom. reflexivity.
  - rewrite <- IH. destruct (eval a) as [x|]; cbn [map_res]; [|reflexivity]. rewrite abs_hom. reflexivity.
  - rewrite <- IH. destruct (eval a) as [x|]; cbn [map_res]; [|reflexivity]. apply pow_hom.
Qed.

Theorem eval_cmp_sem c a b : eval_cmp c a b = sem_cmp c a b.
Proof.
  unfold eval_cmp, sem_cmp. rewrite <- !eval_sem.
  destruct (eval a) as [x|], (eval b) as [y|]; cbn [map_res]; try reflexivity. apply cmp_hom.
Qed.

Corollary eval_err_iff e : eval e = Err <-> sem e = Err.
Proof. rewrite <- eval_sem. destruct (eval e); cbn; split; congruence. Qed.

(* dimensionally meaningless operations are errors *)
Lemma additive_dim_mismatch op a b s1 d1 s2 d2 :
  (op = Add \/ op = Sub \/ op = Mod) -> un a = Some (s1, d1) -> un b = Some (s2, d2) -> d1 <> d2 ->
  bin_impl op a b = Err.
Proof.
  intros Hop Ha Hb Hd. unfold bin_impl. rewrite Ha, Hb.
  assert (E : dim_eqb d1 d2 = false).
  { destruct (dim_eqb d1 d2) eqn:E; [apply dim_eqb_eq in E; contradiction | reflexivity]. }
  rewrite E. destruct Hop as [->|[->| ->]]; reflexivity.
Qed.

Lemma ordering_dim_mismatch c x y s1 d1 s2 d2 :
  (c = CLt \/ c = CLe \/ c = CGt \/ c = CGe) -> d1 <> d2 ->
  cmp_impl c {| sh := Sc x; un := Some (s1, d1) |} {| sh := Sc y; un := Some (s2, d2) |} = Err.
Proof.
  intros Hc Hd. unfold cmp_impl; cbn.
  assert (E : dim_eqb d1 d2 = false).
  { destruct (dim_eqb d1 d2) eqn:E; [apply dim_eqb_eq in E; contradiction | reflexivity]. }
  rewrite E. destruct Hc as [->|[->|[->| ->]]]; reflexivity.
Qed.

Lemma zipQ_length_mismatch f l m : length l <> length m -> zipQ f l m = Err.
Proof.
  revert m. induction l as [|a l IH]; intros [|b m] H; simpl in *; try congruence; try reflexivity.
  rewrite IH by congruence. reflexivity.
Qed.

Lemma array_length_mismatch op xs ys ua ub :
  length xs <> length ys ->
  bin_impl op {| sh := Ve xs; un := Some ua |} {| sh := Ve ys; un := Some ub |} = Err.
Proof.
  intros H. destruct ua as [s1 d1], ub as [s2 d2].
  destruct op; unfold bin_impl; cbn [un sh];
  try (destruct (dim_eqb d1 d2); [|reflexivity]);
  unfold zip_shape; rewrite zipQ_length_mismatch by exact H; reflexivity.
Qed.

Lemma raiseto_nonintegral d p q :
  ((p * dS d) mod Zpos q <> 0 \/ (p * dT d) mod Zpos q <> 0 \/ (p * dQ d) mod Zpos q <> 0)%Z ->
  raiseto d p q = Err.
Proof.
  intros H. unfold raiseto.
  destruct (((p * dS d) mod Z.pos q =? 0)%Z) eqn:A; destruct (((p * dT d) mod Z.pos q =? 0)%Z) eqn:B;
  destruct (((p * dQ d) mod Z.pos q =? 0)%Z) eqn:C; cbn [andb]; try reflexivity.
  apply Z.eqb_eq in A, B, C. lia.
Qed.

(* independence of storage: a quantity leaf may be re-stored in any system without changing the
   SI result, provided no plain number is added to / subtracted from / taken modulo / compared with a
   quantity (there the number is read in the stored units, by definition). *)
Definition restore (o : operand) (s' : usys) : operand :=
  match un o with
  | Some (s, d) => {| sh := map_shape (fun x => x * factor s s' d) (sh o); un := Some (s', d) |}
  | None => o
  end.

Lemma SIop_restore_sh o s' : s_sh (SIop (restore o s')) = s_sh (SIop o).
Proof.
  destruct o as [sa [[s d]|]]; unfold restore, SIop; cbn [un sh s_sh]; [|reflexivity].
  rewrite map_shape_map_shape. apply map_shape_ext. intros x. rewrite factor_scale. field. apply scale_nz.
Qed.

Definition sdim (v : sval) : option dim := match s_un v with Some (_, d) => Some d | None => None end.
Definition same_phys (v w : sval) : Prop := s_sh v = s_sh w /\ sdim v = sdim w.

(* mixing a plain number with a quantity in an additive position *)
Definition mixed (op : binop) (a b : sval) : bool :=
  match op with
  | Add | Sub | Mod => match s_un a, s_un b with Some _, None | None, Some _ => true | _, _ => false end
  | _ => false
  end.

Lemma bin_sem_phys op a a' b b' :
  same_phys a a' -> same_phys b b' -> mixed op a b = false ->
  match bin_sem op a b, bin_sem op a' b' with
  | Ok r, Ok r' => same_phys r r'
  | Err, Err => True
  | _, _ => False
  end.
Proof.
  intros [Ha1 Ha2] [Hb1 Hb2] Hm.
  destruct a as [sa ua], a' as [sa' ua'], b as [sb ub], b' as [sb' ub'];
  cbn [s_sh s_un sdim] in *. unfold sdim in *; cbn [s_un] in *. subst sa' sb'.
  destruct ua as [[s1 d1]|], ua' as [[s1' d1']|]; try discriminate;
  destruct ub as [[s2 d2]|], ub' as [[s2' d2']|]; try discriminate;
  try (inversion Ha2; subst d1'); try (inversion Hb2; subst d2');
  destruct op; unfold mixed in Hm; cbn [s_un] in Hm; try discriminate; unfold bin_sem; cbn [s_sh s_un];
  try (destruct (dim_eqb d1 d2); [|exact I]);
  match goal with
  | |- context [zip_shape ?f ?a ?b] => destruct (zip_shape f a b)
  end; cbn; first [exact I | split; reflexivity].
Qed.

Inductive restored : expr -> expr -> Prop :=
| R_leaf o s' : restored (Leaf o) (Leaf (restore o s'))
| R_bin op a a' b b' : restored a a' -> restored b b' -> restored (Bin op a b) (Bin op a' b')
| R_neg a a' : restored a a' -> restored (Neg a) (Neg a')
| R_abs a a' : restored a a' -> restored (Abs a) (Abs a')
| R_pow a a' n : restored a a' -> restored (PowZ a n) (PowZ a' n).

Fixpoint unmixedb (e : expr) : bool :=
  match e with
  | Leaf _ => true
  | Bin op a b =>
      unmixedb a && unmixedb b &&
      match sem a, sem b with Ok x, Ok y => negb (mixed op x y) | _, _ => true end
  | Neg a | Abs a | PowZ a _ => unmixedb a
  end.

Definition phys_rel (r r' : res sval) : Prop :=
  match r, r' with Ok v, Ok v' => same_phys v v' | Err, Err => True | _, _ => False end.

Lemma mixed_phys op a a' b b' : same_phys a a' -> same_phys b b' -> mixed op a b = mixed op a' b'.
Proof.
  intros [_ Ha] [_ Hb]. unfold mixed, sdim in *.
  destruct (s_un a) as [[? ?]|], (s_un a') as [[? ?]|]; try discriminate;
  destruct (s_un b) as [[? ?]|], (s_un b') as [[? ?]|]; try discriminate; reflexivity.
Qed.

Theorem storage_independent e e' : restored e e' -> unmixedb e = true -> phys_rel (sem e) (sem e').
Proof.
  intros R. induction R as [o s'|op a a' b b' Ra IHa Rb IHb|a a' Ra IH|a a' Ra IH|a a' n Ra IH]; cbn [unmixedb sem]; intros U.
  - unfold phys_rel, same_phys. split; [symmetry; apply SIop_restore_sh|].
    destruct o as [sa [[s d]|]]; reflexivity.
  - apply Bool.andb_true_iff in U. destruct U as [U Um]. apply Bool.andb_true_iff in U. destruct U as [Ua Ub].
    specialize (IHa Ua). specialize (IHb Ub). unfold phys_rel in *.
    destruct (sem a) as [x|], (sem a') as [x'|]; try contradiction; try exact I;
    destruct (sem b) as [y|], (sem b') as [y'|]; try contradiction; try exact I.
    apply bin_sem_phys; auto. apply Bool.negb_true_iff in Um. exact Um.
  - specialize (IH U). unfold phys_rel in *.
    destruct (sem a) as [x|], (sem a') as [x'|]; try contradiction; try exact I.
    destruct IH as [H1 H2]. split; [cbn; rewrite H1; reflexivity | exact H2].
  - specialize (IH U). unfold phys_rel in *.
    destruct (sem a) as [x|], (sem a') as [x'|]; try contradiction; try exact I.
    destruct IH as [H1 H2]. split; [cbn; rewrite H1; reflexivity | exact H2].
  - specialize (IH U). unfold phys_rel in *.
    destruct (sem a) as [x|], (sem a') as [x'|]; try contradiction; try exact I.
    destruct IH as [H1 H2]. unfold pow_sem. rewrite <- H1. unfold sdim in H2.
    destruct (s_sh x) as [v|vs]; [|exact I].
    destruct (s_un x) as [[s d]|], (s_un x') as [[s2 d2]|]; try discriminate; cbn.
    + inversion H2. subst. split; reflexivity.
    + split; reflexivity.
Qed.

(* + and * commute in SI (for quantities of equal dimension / any dimension) *)
Lemma zip_shape_comm f a b : (forall x y, f x y = f y x) ->
  zip_shape f a b = zip_shape f b a.
Proof.
  intros H. destruct a as [x|xs], b as [y|ys]; simpl; try (rewrite H; reflexivity);
  try (f_equal; f_equal; apply map_ext; intros; apply H).
  revert ys. induction xs as [|a xs IH]; intros [|b ys]; simpl; try reflexivity.
  specialize (IH ys). destruct (zipQ f xs ys), (zipQ f ys xs); try discriminate; try reflexivity.
  inversion IH. rewrite H. reflexivity.
Qed.

Theorem add_mul_commute op a b s1 d1 s2 d2 :
  (op = Add \/ op = Mul) -> s_un a = Some (s1, d1) -> s_un b = Some (s2, d2) ->
  phys_rel (bin_sem op a b) (bin_sem op b a).
Proof.
  intros Hop Ha Hb. unfold bin_sem. rewrite Ha, Hb. destruct Hop as [-> | ->].
  - destruct (dim_eqb d1 d2) eqn:E.
    + assert (E' : dim_eqb d2 d1 = true) by (apply dim_eqb_eq; apply dim_eqb_eq in E; congruence).
      rewrite E'. rewrite (zip_shape_comm Qcplus (s_sh a) (s_sh b)) by (intros; ring).
      destruct (zip_shape Qcplus (s_sh b) (s_sh a)); cbn; [|exact I].
      split; [reflexivity|]. unfold sdim; cbn. apply dim_eqb_eq in E. congruence.
    + assert (E' : dim_eqb d2 d1 = false).
      { destruct (dim_eqb d2 d1) eqn:Q; [|reflexivity]. apply dim_eqb_eq in Q. subst.
        rewrite dim_eqb_refl in E. discriminate. }
      rewrite E'. exact I.
  - rewrite (zip_shape_comm Qcmult (s_sh a) (s_sh b)) by (intros; ring).
    destruct (zip_shape Qcmult (s_sh b) (s_sh a)); cbn; [|exact I].
    split; [reflexivity|]. unfold sdim; cbn. f_equal. unfold dim_add. f_equal; ring.
Qed.
