(* Facts about the initial-state processing model (Model/InitState.v). *)
From Coq Require Import ZArith QArith Qcanon List Lia Lqa Bool.
From Verif Require Import Num NumFacts SamplingFacts EngineConserve Engine EngineFacts Prng StochStep StochStepFacts InitState.
Open Scope Qc_scope.

(* ---------- pick ---------- *)
Lemma pick_some w : forall target, (forall a, In a w -> 0 <= a) -> 0 <= target -> target < sumQ w ->
  exists i, pick target w = Some i /\ (i < length w)%nat /\ 0 < nth i w 0.
Proof.
  induction w as [|a w IH]; intros target Hnn H0 Hlt.
  - cbn in Hlt. exfalso. qc_lra.
  - cbn [pick]. assert (Ha : 0 <= a) by (apply Hnn; left; reflexivity). destruct (Qcltb target a) eqn:E.
    + apply Qcltb_true in E. exists 0%nat. split; [reflexivity|]. split; [cbn; lia|]. cbn. qc_lra.
    + apply Qcltb_false in E. rewrite sumQ_cons in Hlt.
      destruct (IH (target - a)) as (i & Hp & Hi & Hpos).
      * intros b Hb. apply Hnn. right. exact Hb.
      * qc_lra.
      * qc_lra.
      * exists (S i). rewrite Hp. split; [reflexivity|]. split; [cbn; lia|exact Hpos].
Qed.

(* ---------- bump ---------- *)
Lemma bump_length i d l : length (bump i d l) = length l.
Proof. revert i. induction l as [|a l IH]; intros [|i]; cbn; try reflexivity. rewrite IH. reflexivity. Qed.
Lemma bump_sum i d l : (i < length l)%nat -> sumZ (bump i d l) = (sumZ l + d)%Z.
Proof.
  revert i. induction l as [|a l IH]; intros [|i] H; cbn [bump length] in *; try lia.
  - cbn [sumZ fold_right]. unfold sumZ. lia.
  - cbn [sumZ fold_right]. fold (sumZ (bump i d l)). fold (sumZ l). rewrite IH by lia. lia.
Qed.
Lemma bump_nth i d l j : nth j (bump i d l) 0%Z = if Nat.eqb i j && Nat.ltb i (length l) then (nth j l 0 + d)%Z else nth j l 0%Z.
Proof.
  revert i j. induction l as [|a l IH]; intros i j.
  - cbn. destruct i, j; cbn; try reflexivity; destruct (Nat.eqb i j); reflexivity.
  - destruct i as [|i], j as [|j]; cbn [bump nth Nat.eqb length]; try reflexivity.
    rewrite IH. cbn [Nat.ltb Nat.leb]. reflexivity.
Qed.

Lemma sumQ_QcZ l : sumQ (map QcZ l) = QcZ (sumZ l).
Proof. induction l as [|a l IH]; [reflexivity|]. cbn [map sumZ fold_right]. rewrite sumQ_cons, IH, QcZ_add. reflexivity. Qed.

Definition all_nonneg (l : list Z) : Prop := forall j, (0 <= nth j l 0)%Z.
Definition unit_interval (us : list Qc) : Prop := forall u, In u us -> 0 <= u /\ u < 1.

Lemma QcZ_pos_ge1 z : 0 < QcZ z -> (1 <= z)%Z.
Proof.
  intro H. destruct (Z_lt_le_dec 0 z) as [Hz|Hz]; [lia|]. exfalso.
  assert (QcZ z <= QcZ 0) by (apply QcZ_le; exact Hz). change (QcZ 0) with 0 in *. apply (Qclt_irrefl 0). eapply Qclt_le_trans; eassumption.
Qed.

Lemma Qcmult_lt_1 u a : 0 <= u -> u < 1 -> 0 < a -> u * a < a.
Proof. intros H0 H1 Ha. rewrite <- (Qcmult_1_l a) at 2. apply Qcmult_lt_compat_r; assumption. Qed.

(* ---------- removal: exactly delta draws, every one removes a molecule that is there ---------- *)
Lemma remove_n_spec delta : forall sto us, all_nonneg sto -> unit_interval us -> (delta <= length us)%nat ->
  (Z.of_nat delta <= sumZ sto)%Z ->
  exists sto' us', remove_n delta sto us = Some (sto', us') /\ length us' = (length us - delta)%nat /\
    sumZ sto' = (sumZ sto - Z.of_nat delta)%Z /\ all_nonneg sto' /\ length sto' = length sto /\
    (forall j, nth j sto 0%Z = 0%Z -> nth j sto' 0%Z = 0%Z).
Proof.
  induction delta as [|d IH]; intros sto us Hnn Hu Hlen Hsum.
  - exists sto, us. cbn. repeat split; try lia; try assumption; auto.
  - destruct us as [|u us]; [cbn in Hlen; lia|]. cbn [remove_n].
    destruct (Hu u (or_introl eq_refl)) as (Hu0 & Hu1).
    assert (HS : 0 < QcZ (sumZ sto)).
    { change 0 with (QcZ 0). unfold Qclt. rewrite !this_QcZ'. rewrite <- Zlt_Qlt. lia. }
    destruct (pick_some (map QcZ sto) (u * QcZ (sumZ sto))) as (i & Hp & Hi & Hpos).
    + intros a Ha. apply in_map_iff in Ha. destruct Ha as (z & <- & Hz). apply In_nth with (d := 0%Z) in Hz.
      destruct Hz as (j & _ & <-). change 0 with (QcZ 0). apply QcZ_le. apply Hnn.
    + apply Qcmult_nonneg; [exact Hu0|apply Qclt_le_weak, HS].
    + rewrite sumQ_QcZ. apply Qcmult_lt_1; assumption.
    + rewrite Hp. rewrite map_length in Hi.
      assert (Hge1 : (1 <= nth i sto 0)%Z).
      { apply QcZ_pos_ge1. rewrite <- (map_nth QcZ). exact Hpos. }
      destruct (IH (bump i (-1) sto) us) as (sto' & us' & Hr & Hl & Hs & Hn & Hlen' & Hz).
      * intro j. rewrite bump_nth. destruct (Nat.eqb i j && Nat.ltb i (length sto)) eqn:E; [|apply Hnn].
        apply andb_true_iff in E. destruct E as (E & _). apply Nat.eqb_eq in E. subst j. lia.
      * intros v Hv. apply Hu. right. exact Hv.
      * cbn in Hlen. lia.
      * rewrite bump_sum by exact Hi. lia.
      * exists sto', us'. rewrite Hr. split; [reflexivity|]. split; [cbn; lia|]. split; [rewrite Hs, bump_sum by exact Hi; lia|].
        split; [exact Hn|]. split; [rewrite Hlen', bump_length; reflexivity|].
        intros j Hj. apply Hz. rewrite bump_nth. destruct (Nat.eqb i j && Nat.ltb i (length sto)) eqn:E; [|exact Hj].
        apply andb_true_iff in E. destruct E as (E & _). apply Nat.eqb_eq in E. subst j. lia.
Qed.

(* ---------- addition: exactly delta draws, every one adds a molecule to a cell whose real-valued amount is positive ---------- *)
Lemma add_n_spec delta : forall x tot sto us, (forall a, In a x -> 0 <= a) -> length sto = length x ->
  unit_interval us -> (delta <= length us)%nat -> (delta = 0%nat \/ (1 <= tot)%Z) -> QcZ tot <= sumQ x ->
  all_nonneg sto -> (forall j, nth j x 0 = 0 -> nth j sto 0%Z = 0%Z) ->
  exists sto' us', add_n delta x tot sto us = Some (sto', us') /\ length us' = (length us - delta)%nat /\
    sumZ sto' = (sumZ sto + Z.of_nat delta)%Z /\ all_nonneg sto' /\ length sto' = length x /\
    (forall j, nth j x 0 = 0 -> nth j sto' 0%Z = 0%Z).
Proof.
  induction delta as [|d IH]; intros x tot sto us Hx Hlen Hu Hl Htot Hle Hnn Hz.
  - exists sto, us. cbn. repeat split; try lia; try assumption.
  - destruct us as [|u us]; [cbn in Hl; lia|]. cbn [add_n].
    destruct Htot as [Htot|Htot]; [discriminate|].
    destruct (Hu u (or_introl eq_refl)) as (Hu0 & Hu1).
    assert (HT : 0 < QcZ tot).
    { change 0 with (QcZ 0). unfold Qclt. rewrite !this_QcZ'. rewrite <- Zlt_Qlt. lia. }
    destruct (pick_some x (u * QcZ tot)) as (i & Hp & Hi & Hpos).
    + exact Hx.
    + apply Qcmult_nonneg; [exact Hu0|apply Qclt_le_weak, HT].
    + eapply Qclt_le_trans; [apply Qcmult_lt_1; assumption|exact Hle].
    + rewrite Hp.
      destruct (IH x tot (bump i 1 sto) us) as (sto' & us' & Hr & Hl' & Hs & Hn & Hlen' & Hz').
      * exact Hx.
      * rewrite bump_length. exact Hlen.
      * intros v Hv. apply Hu. right. exact Hv.
      * cbn in Hl. lia.
      * right. exact Htot.
      * exact Hle.
      * intro j. rewrite bump_nth. destruct (Nat.eqb i j && Nat.ltb i (length sto)); [specialize (Hnn j); lia|apply Hnn].
      * intros j Hj. rewrite bump_nth. destruct (Nat.eqb i j && Nat.ltb i (length sto)) eqn:E; [|apply Hz; exact Hj].
        apply andb_true_iff in E. destruct E as (E & _). apply Nat.eqb_eq in E. subst j. rewrite Hj in Hpos. exfalso. apply (Qclt_irrefl 0 Hpos).
      * exists sto', us'. rewrite Hr. split; [reflexivity|]. split; [cbn; lia|].
        split; [rewrite Hs, bump_sum by (rewrite Hlen; exact Hi); lia|]. split; [exact Hn|]. split; [exact Hlen'|exact Hz'].
Qed.

(* ---------- one species: floored total, non-negative integers, nothing where the real amount is zero; exactly |delta| draws ---------- *)
Theorem correct_species_spec x sto us : (forall a, In a x -> 0 <= a) -> length sto = length x -> all_nonneg sto ->
  (forall j, nth j x 0 = 0 -> nth j sto 0%Z = 0%Z) -> unit_interval us ->
  (Z.abs_nat (sumZ sto - Qcfloor (sumQ x)) <= length us)%nat ->
  exists sto' us', correct_species x sto us = Some (sto', us') /\
    sumZ sto' = Qcfloor (sumQ x) /\ all_nonneg sto' /\ length sto' = length x /\
    (forall j, nth j x 0 = 0 -> nth j sto' 0%Z = 0%Z) /\
    length us' = (length us - Z.abs_nat (sumZ sto - Qcfloor (sumQ x)))%nat.
Proof.
  intros Hx Hlen Hnn Hz Hu Hl. unfold correct_species.
  set (tot := Qcfloor (sumQ x)) in *.
  assert (Htot0 : (0 <= tot)%Z).
  { unfold tot, Qcfloor. change 0%Z with (Qfloor 0). apply Qfloor_resp_le. apply (sumQ_nonneg x Hx). }
  assert (Hfl : QcZ tot <= sumQ x).
  { unfold tot, Qcfloor, QcZ, Qcle. rewrite this_Q2Qc. apply Qfloor_le. }
  destruct (Z.ltb_spec 0 (sumZ sto - tot)) as [Hpos|Hneg].
  - destruct (remove_n_spec (Z.to_nat (sumZ sto - tot)) sto us Hnn Hu) as (sto' & us' & Hr & Hl' & Hs & Hn & Hlen' & Hz').
    + lia.
    + lia.
    + exists sto', us'. rewrite Hr. split; [reflexivity|]. split; [lia|]. split; [exact Hn|]. split; [lia|].
      split; [intros j Hj; apply Hz', Hz, Hj|lia].
  - destruct (add_n_spec (Z.to_nat (- (sumZ sto - tot))) x tot sto us Hx Hlen Hu) as (sto' & us' & Hr & Hl' & Hs & Hn & Hlen' & Hz').
    + lia.
    + assert (Hs0 : (0 <= sumZ sto)%Z).
      { clear -Hnn. induction sto as [|a l IH]; [cbn; lia|]. cbn [sumZ fold_right].
        assert (0 <= a)%Z by (apply (Hnn 0%nat)). assert (0 <= sumZ l)%Z by (apply IH; intro j; apply (Hnn (S j))). unfold sumZ in *. lia. }
      destruct (Z.eq_dec (sumZ sto - tot) 0) as [E|E]; [left; rewrite E; reflexivity|right; lia].
    + exact Hfl.
    + exact Hnn.
    + exact Hz.
    + exists sto', us'. rewrite Hr. split; [reflexivity|]. split; [lia|]. split; [exact Hn|]. split; [exact Hlen'|].
      split; [exact Hz'|lia].
Qed.

(* ---------- the Poisson stage: non-negative counts, zero mean gives zero and consumes nothing ---------- *)
Lemma poisson_loop_ge fuel : forall lo hi prod x us n us', poisson_loop fuel lo hi prod x us = Some (n, us') -> (x <= n)%Z.
Proof.
  induction fuel as [|f IH]; intros lo hi prod x us n us' H; [discriminate|].
  destruct us as [|u us]; [discriminate|]. cbn [poisson_loop] in H.
  destruct (Qcltb hi (prod * u)).
  - apply IH in H. lia.
  - destruct (Qcleb (prod * u) lo); [injection H as <- _; lia|discriminate].
Qed.

Lemma poisson_sample_nonneg mean us n us' : poisson_sample mean us = Some (n, us') -> (0 <= n)%Z.
Proof.
  unfold poisson_sample. destruct (Qcltb 0 mean); [|intro H; injection H as <- _; lia].
  destruct (Qcltb mean (QcZ 12)); [|discriminate]. unfold poisson_small.
  destruct (exp_neg_enclosure mean) as [lo hi]. intro H. apply poisson_loop_ge in H. exact H.
Qed.

Lemma poisson_sample_zero us : poisson_sample 0 us = Some (0%Z, us).
Proof. reflexivity. Qed.

Lemma poisson_all_spec xs : forall us l us', poisson_all xs us = Some (l, us') ->
  length l = length xs /\ all_nonneg l /\ (forall j, nth j xs 0 = 0 -> nth j l 0%Z = 0%Z).
Proof.
  induction xs as [|x xs IH]; intros us l us' H.
  - injection H as <- _. repeat split; intros [|j]; cbn; try lia; reflexivity.
  - cbn [poisson_all] in H. destruct (poisson_sample x us) as [[n us1]|] eqn:E1; [|discriminate].
    destruct (poisson_all xs us1) as [[ns us2]|] eqn:E2; [|discriminate]. injection H as <- _.
    destruct (IH _ _ _ E2) as (Hl & Hn & Hz). split; [cbn; rewrite Hl; reflexivity|]. split.
    + intros [|j]; cbn; [eapply poisson_sample_nonneg; exact E1|apply Hn].
    + intros [|j] Hj; cbn in *; [|apply Hz; exact Hj]. subst x. rewrite poisson_sample_zero in E1. injection E1 as <- _. reflexivity.
Qed.

(* ---------- mode none ---------- *)
Lemma init_none ns nc sm us : init_state MNone ns nc sm us = Some (to_cell_major 0 ns nc sm).
Proof. reflexivity. Qed.
