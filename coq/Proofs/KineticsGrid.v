(* kinetics.py on a grid, branch by branch (compute_reaction_rates, compute_diffusion_rates' grid branch,
   _compute_dspeciesdt_grid): the derivative it computes is the rate law of the model, for every network table, grid (all
   boundary mixes, periodic axes of length 1 and 2 included), state, cell and species.
     reactions : sum over the *unsplit* reactions of (forward rate - reverse rate) x (product - substrate coefficient), each rate
                 being k x V x prod (x/V)^coefficient;
     diffusion : six candidate neighbours (+x -x +y -y +z -z, wrapped on a periodic axis longer than 1, kept when inside),
                 each contributing k x_neighbour - k x_cell with k = 2 / (h^2 (1/Di + 1/Dj)), 0 when either coefficient is 0;
     chemostat : 0 for a flagged entry when asked to apply the flags. *)
From Coq Require Import ZArith QArith Qcanon List Lia Field Arith Bool Lqa.
From Verif Require Import Num NumFacts Grid GridFacts GridGraphFacts Units System SystemFacts Engine EngineFacts EngineConserve GridGraphRate.
Import ListNotations.
Open Scope Qc_scope.

(* the engine's table holds, for every reaction q of the network, its forward half at 2q and its reverse half at 2q+1
   (EngineBuild.split_reactions): substrates of the reverse half = products of the forward half, opposite net change *)
Definition paired (T : etab) (Q : nat) : Prop :=
  nR T = (2 * Q)%nat /\
  forall s q, (q < Q)%nat -> Sto T s (2 * q + 1) = (- Sto T s (2 * q))%Z.

Definition kin_reactions (T : etab) (G : geom) (x : list Qc) (i s Q : nat) : Qc :=
  sumQ (map (fun q => (mass_action T G x i (2 * q) - mass_action T G x i (2 * q + 1)) * QcZ (Sto T s (2 * q))) (seq 0 Q)).

Lemma sum_pairs (f : nat -> Qc) Q : sumQ (map f (seq 0 (2 * Q))) = sumQ (map (fun q => f (2 * q)%nat + f (2 * q + 1)%nat) (seq 0 Q)).
Proof.
  induction Q as [|Q IH]; [reflexivity|].
  replace (2 * S Q)%nat with (S (S (2 * Q))) by lia. rewrite !seq_S, !map_app, !sumQ_app, IH. cbn [map sumQ fold_right plus].
  replace (2 * Q + 1)%nat with (S (2 * Q)) by lia. ring.
Qed.

Lemma QcZ_opp' z : QcZ (- z) = - QcZ z.
Proof.
  assert (E : QcZ (- z) + QcZ z = 0) by (rewrite <- QcZ_add; replace (- z + z)%Z with 0%Z by lia; apply QcZ_0).
  replace (QcZ (- z)) with (QcZ (- z) + QcZ z - QcZ z) by ring. rewrite E. ring.
Qed.

Lemma kin_reactions_law T G x i s Q : paired T Q ->
  kin_reactions T G x i s Q = sumQ (map (fun r => QcZ (Sto T s r) * mass_action T G x i r) (reaction_idx T)).
Proof.
  intros [HR HP]. unfold kin_reactions, reaction_idx. rewrite HR, sum_pairs. apply sumQ_map_ext.
  intros q Hq. apply in_seq in Hq. rewrite (HP s q) by lia. rewrite QcZ_opp'. ring.
Qed.

(* compute_diffusion_rates, grid branch *)
Definition kin_k (T : etab) (h : Qc) (i j s : nat) : Qc :=
  let Di := Dc T s (Env T i) in let Dj := Dc T s (Env T j) in
  if Qceqb Di 0 || Qceqb Dj 0 then 0 else (1 + 1) / (h * h * (1 / Di + 1 / Dj)).

Definition kin_js (g : grid) (i : nat) : list nat := map Z.to_nat (kin_neighbors g (Z.of_nat i)).

Definition kin_diffusion (T : etab) (g : grid) (h : Qc) (x : list Qc) (i s : nat) : Qc :=
  sumQ (map (fun j => kin_k T h i j s * X T x j s - kin_k T h i j s * X T x i s) (kin_js g i)).

Definition kin_dxdt (T : etab) (g : grid) (h : Qc) (x : list Qc) (apply_chemostats : bool) (i s Q : nat) : Qc :=
  if apply_chemostats && Chs T i s then 0
  else kin_reactions T (GGrid g h) x i s Q + kin_diffusion T g h x i s.

Lemma kin_neighbors_range g a b : wf_grid g -> In b (kin_neighbors g a) -> (0 <= b < gsize g)%Z.
Proof.
  intros Hg Hb. unfold kin_neighbors in Hb. apply in_map_iff in Hb. destruct Hb as (c & <- & Hc).
  apply index_range; [exact Hg|]. eapply kin_nbrs_in_grid. exact Hc.
Qed.

Lemma kin_js_count g i j : wf_grid g -> (Z.of_nat i < gsize g)%Z -> j <> i ->
  count_occ Nat.eq_dec (kin_js g i) j
  = if (Z.of_nat j <? gsize g)%Z then mult3 g (coords g (Z.of_nat i)) (coords g (Z.of_nat j)) else 0%nat.
Proof.
  intros Hg Hi Hne. unfold kin_js.
  rewrite count_occ_map_to_nat by (intros a Ha; apply (kin_neighbors_range g _ a Hg) in Ha; lia).
  destruct (Z.ltb_spec (Z.of_nat j) (gsize g)) as [Hj|Hj].
  - pose proof (neighbour_multiplicities g (Z.of_nat i) (Z.of_nat j) Hg) as M.
    destruct M as (_ & M & _ & _); try lia.
  - apply countZ_absent. intros Hin. apply (kin_neighbors_range g _ _ Hg) in Hin. lia.
Qed.

Section Law.
Variables (T : etab) (g : grid) (h : Qc).
Hypothesis Hg : wf_grid g.
Hypothesis Hn : Z.of_nat (nC T) = gsize g.
Hypothesis Hh : h <> 0.
Hypothesis HD : forall s e, 0 <= Dc T s e.

Lemma pos_of_nonneg_nz a : 0 <= a -> a <> 0 -> 0 < a.
Proof. intros H1 H2. apply Qcle_lt_or_eq in H1. destruct H1 as [H|H]; [exact H|]. exfalso. apply H2. symmetry. exact H. Qed.

Lemma kin_term_is_exchange x i j s :
  kin_k T h i j s * X T x j s - kin_k T h i j s * X T x i s = exchange T (GGrid g h) x s i j (h * h) h.
Proof.
  unfold kin_k, exchange, Dint, vol_of, edge_of, cube. cbv zeta.
  set (Di := Dc T s (Env T i)). set (Dj := Dc T s (Env T j)).
  destruct (Qceqb Di 0 || Qceqb Dj 0) eqn:Z; [field; exact Hh|].
  apply orb_false_iff in Z. destruct Z as [Zi Zj]. apply Qceqb_false in Zi, Zj.
  assert (Pi : 0 < Di) by (apply pos_of_nonneg_nz; [apply HD|exact Zi]).
  assert (Pj : 0 < Dj) by (apply pos_of_nonneg_nz; [apply HD|exact Zj]).
  assert (S : Di + Dj <> 0).
  { intros E. assert (0 < Di + Dj) as L by (unfold Qclt, Qcle in *; rewrite this_plus; change (this 0) with 0%Q in *; lra).
    rewrite E in L. exact (Qclt_not_eq _ _ L eq_refl). }
  field. repeat split; try assumption.
  all: try (intros E; apply S; rewrite <- E; ring).
  all: intros E; replace (h * Dj + h * Di) with (h * (Di + Dj)) in E by ring; apply Qcmult_integral in E; destruct E as [E|E]; [exact (Hh E)|exact (S E)].
Qed.

Theorem kin_diffusion_law x i s : (i < nC T)%nat ->
  kin_diffusion T g h x i s
  = sumQ (map (fun sl : slot => exchange T (GGrid g h) x s i (fst (fst sl)) (snd (fst sl)) (snd sl)) (neighbours (GGrid g h) i)).
Proof.
  intros Hi. unfold kin_diffusion. rewrite neighbours_grid, map_map. cbn [fst snd].
  rewrite (sumQ_map_ext _ (fun j => exchange T (GGrid g h) x s i j (h * h) h)) by (intros j _; apply kin_term_is_exchange).
  apply (sum_by_multiplicity _ i); [apply exchange_self|].
  intros j Hne. rewrite kin_js_count, grid_js_count by (try assumption; lia). reflexivity.
Qed.

Theorem kinetics_grid_is_rate_law x b i s Q : paired T Q -> (i < nC T)%nat ->
  kin_dxdt T g h x b i s Q = if b && Chs T i s then 0 else rate_law T (GGrid g h) x i s.
Proof.
  intros HP Hi. unfold kin_dxdt. destruct (b && Chs T i s); [reflexivity|].
  unfold rate_law. rewrite kin_reactions_law by exact HP. rewrite kin_diffusion_law by exact Hi. reflexivity.
Qed.

End Law.

(* ---------------------------------------------------------------- the tables built from a system are paired *)
From Verif Require Import EngineBuild.

Lemma split_length net : length (split_reactions net) = (2 * length (n_reactions net))%nat.
Proof. unfold split_reactions. induction (n_reactions net) as [|r l IH]; [reflexivity|]. cbn [flat_map length app]. rewrite IH. lia. Qed.

Lemma split_nth net q d d0 : (q < length (n_reactions net))%nat ->
  nth (2 * q) (split_reactions net) d = (r_sub (nth q (n_reactions net) d0), r_prod (nth q (n_reactions net) d0), r_kf (nth q (n_reactions net) d0)) /\
  nth (2 * q + 1) (split_reactions net) d = (r_prod (nth q (n_reactions net) d0), r_sub (nth q (n_reactions net) d0), r_kr (nth q (n_reactions net) d0)).
Proof.
  unfold split_reactions. revert q. induction (n_reactions net) as [|r l IH]; intros q Hq; [cbn in Hq; lia|].
  destruct q as [|q].
  - cbn. split; reflexivity.
  - cbn [length] in Hq. replace (2 * S q)%nat with (S (S (2 * q))) by lia. replace (S (S (2 * q)) + 1)%nat with (S (S (2 * q + 1))) by lia.
    cbn [flat_map app nth]. apply IH. lia.
Qed.

Theorem build_tables_paired sys ue chs : paired (build_tables sys ue chs) (length (n_reactions (sy_net sys))).
Proof.
  set (net := sy_net sys). split; [cbn [build_tables nR]; apply split_length|].
  intros s q Hq. unfold Sto. cbn [build_tables tsto nR]. fold net. unfold build_sto.
  set (nr := length (split_reactions net)).
  assert (Hnr : nr = (2 * length (n_reactions net))%nat) by apply split_length.
  destruct (Nat.lt_ge_cases s (length (n_species net))) as [Hs|Hs].
  - set (f := fun sp : species => map (fun r : list (label * Z) * list (label * Z) * envval quantity =>
                   (coef (snd (fst r)) (sp_label sp) - coef (fst (fst r)) (sp_label sp))%Z) (split_reactions net)).
    assert (Hlen : forall a, In a (n_species net) -> length (f a) = nr) by (intros a _; unfold f; rewrite map_length; reflexivity).
    destruct (n_species net) as [|sp0 rest] eqn:E; [cbn in Hs; lia|]. rewrite <- E in *.
    rewrite !(nth_flat_map_uniform f nr (n_species net) s _ sp0 0%Z Hlen Hs) by lia.
    unfold f. set (dr := (@nil (label * Z), @nil (label * Z), Scalar (zero_q ue (kdim 0)))).
    rewrite !(nth_map' _ (split_reactions net) _ 0%Z dr) by (fold nr; lia).
    destruct (n_reactions net) as [|r0 rs] eqn:ER; [cbn in Hq; lia|]. rewrite <- ER in *.
    destruct (split_nth net q dr r0 Hq) as [E0 E1]. rewrite E0, E1. cbn [fst snd]. lia.
  - rewrite !nth_overflow; [reflexivity| |];
      rewrite (length_flat_map_uniform _ nr) by (intros a _; rewrite map_length; reflexivity); fold nr; nia.
Qed.
