(* Facts about the engine lifecycle models (Model/Lifecycle.v): the implementation's single global
   simulation refines the per-object specification on histories that use one engine object;
   objects are independent in the specification; set-up is fresh; output is a pure read. *)
From Coq Require Import ZArith QArith Qcanon List Lia Bool.
From Verif Require Import Num NumFacts Sampling SamplingFacts Lifecycle.
Open Scope Qc_scope.

Lemma start_not_complete sc : s_complete (start sc) = false.
Proof.
  unfold start. rewrite sim_init_eq.
  destruct (sampling_step_core (init0 (sc_pol sc) (sc_ts sc) (sc_int sc) (sc_tmax sc))) as (_ & _ & _ & _ & E & _).
  rewrite E. reflexivity.
Qed.

(* ---------- simulation relation between the global implementation and object A of the specification ---------- *)
Definition R (w : world) (g : gworld) : Prop :=
  match e_sim (get w A) with
  | Some (s, sc) => g_algo g = Some (s, sc) /\ g_freed g = false /\ g_deleted g = false /\
                    py_script g A = Some sc /\ py_unfinished g A = negb (s_complete s)
  | None => g_freed g = true
  end.

Definition liveA (w : world) : bool := match e_sim (get w A) with Some _ => true | None => false end.

Lemma R0 : R world0 gworld0. Proof. reflexivity. Qed.

Lemma refine_step w g c : R w g -> obj_eqb (target c) A = true ->
  (match c with LSetup _ _ | LFinalize _ => true | _ => liveA w end) = true ->
  R (fst (spec_step w c)) (fst (impl_step g c)) /\ snd (impl_step g c) = snd (spec_step w c).
Proof.
  intros HR Ht Hl. destruct c as [e sc|e|e k|e|e|e|e|e|e]; destruct e; try discriminate Ht; clear Ht;
    unfold R, liveA in *; cbn [spec_step impl_step]; cbn [get] in *.
  - (* setup *) cbn. rewrite start_not_complete. repeat split.
  - (* iterate *) unfold on_sim; cbn [get]. destruct (e_sim (fst w)) as [[s sc]|]; [|discriminate].
    destruct HR as (Ha & Hf & Hd & Hs & Hu). unfold through. rewrite Ha, Hd. cbn. repeat split; assumption.
  - (* iterate_n *) unfold on_sim; cbn [get]. destruct (e_sim (fst w)) as [[s sc]|]; [|discriminate].
    destruct HR as (Ha & Hf & Hd & Hs & Hu). destruct k as [|k].
    + cbn. rewrite Hu. repeat split; assumption.
    + unfold through. rewrite Ha, Hd. cbn. repeat split; assumption.
  - (* run *) unfold on_sim; cbn [get]. destruct (e_sim (fst w)) as [[s sc]|]; [|discriminate].
    destruct HR as (Ha & Hf & Hd & Hs & Hu). unfold through. rewrite Ha, Hd. cbn. repeat split; assumption.
  - (* sample *) unfold on_sim; cbn [get]. destruct (e_sim (fst w)) as [[s sc]|]; [|discriminate].
    destruct HR as (Ha & Hf & Hd & Hs & Hu). unfold through. rewrite Ha, Hd. cbn. repeat split; try assumption.
    rewrite Hu. destruct (sample_core s) as (_ & _ & _ & _ & E & _). rewrite E. reflexivity.
  - (* progress *) unfold on_sim; cbn [get]. destruct (e_sim (fst w)) as [[s sc]|] eqn:Es; [|discriminate].
    destruct HR as (Ha & Hf & Hd & Hs & Hu). unfold through. rewrite Ha, Hd. cbn. rewrite ?Es. repeat split; assumption.
  - (* is_complete *) unfold on_sim; cbn [get]. destruct (e_sim (fst w)) as [[s sc]|] eqn:Es; [|discriminate].
    destruct HR as (Ha & Hf & Hd & Hs & Hu). cbn. rewrite ?Es, Hu, negb_involutive. repeat split; assumption.
  - (* get_output *) unfold on_sim; cbn [get]. destruct (e_sim (fst w)) as [[s sc]|] eqn:Es; [|discriminate].
    destruct HR as (Ha & Hf & Hd & Hs & Hu). rewrite Hs. unfold through. rewrite Ha, Hd. cbn. rewrite ?Es. repeat split; assumption.
  - (* finalize *) destruct (e_sim (fst w)) as [[s sc]|] eqn:Es.
    + destruct HR as (Ha & Hf & Hd & Hs & Hu). rewrite Hf, Ha, Hd. cbn. repeat split.
    + rewrite HR. cbn. repeat split. exact HR.
Qed.

(* live status of object A along a history = what `respects` tracks *)
Lemma liveA_step w c : obj_eqb (target c) A = true ->
  liveA (fst (spec_step w c)) = match c with LSetup _ _ => true | LFinalize _ => false | _ => liveA w end.
Proof.
  intro Ht. destruct c as [e sc|e|e k|e|e|e|e|e|e]; destruct e; try discriminate Ht; unfold liveA; cbn [spec_step]; try reflexivity;
    unfold on_sim; cbn [get]; destruct (e_sim (fst w)) as [[s sc']|] eqn:Es; cbn; rewrite ?Es; reflexivity.
Qed.

Lemma refinement_gen h : forall w g lb, R w g -> only_on A h = true -> respects (liveA w) lb h = true ->
  impl_run g h = spec_run w h.
Proof.
  induction h as [|c h IH]; intros w g lb HR Ho Hr; [reflexivity|].
  cbn [only_on forallb] in Ho. apply andb_true_iff in Ho. destruct Ho as (Ht & Ho).
  cbn [impl_run spec_run].
  assert (Hl : (match c with LSetup _ _ | LFinalize _ => true | _ => liveA w end) = true).
  { destruct c as [e sc|e|e k|e|e|e|e|e|e]; destruct e; try discriminate Ht; try reflexivity;
      cbn [respects target] in Hr; apply andb_true_iff in Hr; apply Hr. }
  destruct (refine_step w g c HR Ht Hl) as (HR' & Ho').
  destruct (impl_step g c) as [g' o] eqn:Ei. destruct (spec_step w c) as [w' o'] eqn:Es. cbn [fst snd] in *. subst o'.
  f_equal. apply (IH w' g' lb HR' Ho).
  pose proof (liveA_step w c Ht) as Hlive. rewrite Es in Hlive. cbn [fst] in Hlive. rewrite Hlive.
  destruct c as [e sc|e|e k|e|e|e|e|e|e]; destruct e; try discriminate Ht; cbn [respects target] in Hr; try exact Hr;
    apply andb_true_iff in Hr; apply Hr.
Qed.

Theorem refinement h : only_on A h = true -> respects false false h = true ->
  impl_run gworld0 h = spec_run world0 h.
Proof. intros. apply (refinement_gen h world0 gworld0 false); [exact R0|assumption|assumption]. Qed.

(* the specification never exhibits undefined behaviour, hence neither does the implementation on such histories *)
Lemma spec_no_ub h : forall w, ~ In OUB (spec_run w h).
Proof.
  induction h as [|c h IH]; intros w Hin; [exact Hin|]. cbn [spec_run] in Hin.
  destruct (spec_step w c) as [w' o] eqn:E. destruct Hin as [Ho|Hin]; [|exact (IH w' Hin)].
  subst o. destruct c; cbn [spec_step] in E; try (injection E; discriminate);
    unfold on_sim in E; destruct (e_sim (get w e)) as [[s sc]|]; injection E; discriminate.
Qed.

Theorem impl_no_ub h : only_on A h = true -> respects false false h = true -> ~ In OUB (impl_run gworld0 h).
Proof. intros Ho Hr. rewrite (refinement h Ho Hr). apply spec_no_ub. Qed.

(* ---------- independence of engine objects (specification) ---------- *)
Fixpoint sel (e : obj) (h : list lcall) (outs : list outcome) : list outcome :=
  match h, outs with
  | c :: h', o :: outs' => if obj_eqb (target c) e then o :: sel e h' outs' else sel e h' outs'
  | _, _ => []
  end.

Lemma get_put_same w e x : get (put w e x) e = x.
Proof. destruct e; reflexivity. Qed.
Lemma get_put_other w e e' x : obj_eqb e e' = false -> get (put w e x) e' = get w e'.
Proof. destruct e, e'; try discriminate; reflexivity. Qed.

Lemma on_sim_frame w e0 f e : obj_eqb e0 e = false -> get (fst (on_sim w e0 f)) e = get w e.
Proof.
  intro H. unfold on_sim. destruct (e_sim (get w e0)) as [[s sc]|]; [|reflexivity].
  destruct (f s sc) as [s' o]. cbn [fst]. apply get_put_other. exact H.
Qed.

Lemma step_frame w c e : obj_eqb (target c) e = false -> get (fst (spec_step w c)) e = get w e.
Proof.
  intro H. destruct c as [e0 sc|e0|e0 k|e0|e0|e0|e0|e0|e0]; cbn [target] in H; cbn [spec_step];
    try (apply on_sim_frame; exact H); cbn [fst]; apply get_put_other; exact H.
Qed.

Lemma on_sim_local w1 w2 e f : get w1 e = get w2 e ->
  snd (on_sim w1 e f) = snd (on_sim w2 e f) /\ get (fst (on_sim w1 e f)) e = get (fst (on_sim w2 e f)) e.
Proof.
  intro H. unfold on_sim. rewrite <- H. destruct (e_sim (get w1 e)) as [[s sc]|]; [|split; [reflexivity|exact H]].
  destruct (f s sc) as [s' o]. cbn [fst snd]. rewrite !get_put_same. split; reflexivity.
Qed.

Lemma step_local w1 w2 c : get w1 (target c) = get w2 (target c) ->
  snd (spec_step w1 c) = snd (spec_step w2 c) /\
  get (fst (spec_step w1 c)) (target c) = get (fst (spec_step w2 c)) (target c).
Proof.
  intro H. destruct c as [e0 sc|e0|e0 k|e0|e0|e0|e0|e0|e0]; cbn [target] in H; cbn [spec_step target];
    try (apply on_sim_local; exact H); cbn [fst snd]; rewrite !get_put_same; split; reflexivity.
Qed.

Theorem spec_independent e h : forall w1 w2, get w1 e = get w2 e ->
  sel e h (spec_run w1 h) = spec_run w2 (filter (fun c => obj_eqb (target c) e) h).
Proof.
  induction h as [|c h IH]; intros w1 w2 H; [reflexivity|].
  cbn [spec_run filter]. destruct (spec_step w1 c) as [w1' o1] eqn:E1. cbn [sel].
  destruct (obj_eqb (target c) e) eqn:Ht.
  - assert (target c = e) by (destruct (target c), e; try discriminate; reflexivity). subst e.
    destruct (step_local w1 w2 c H) as (Ho & Hg). rewrite E1 in Ho, Hg. cbn [fst snd] in Ho, Hg.
    cbn [spec_run]. destruct (spec_step w2 c) as [w2' o2] eqn:E2. cbn [fst snd] in Ho, Hg. subst o2. f_equal.
    apply IH. exact Hg.
  - apply IH. pose proof (step_frame w1 c e Ht) as Hf. rewrite E1 in Hf. cbn [fst] in Hf. rewrite Hf. exact H.
Qed.

(* ---------- set-up is fresh, status is current, output is a pure read, release is idempotent ---------- *)
Lemma setup_fresh w e sc : get (fst (spec_step w (LSetup e sc))) e = {| e_sim := Some (start sc, sc) |}.
Proof. cbn. apply get_put_same. Qed.

Lemma status_current w e sc : snd (spec_step (fst (spec_step w (LSetup e sc))) (LIsComplete e)) = OBool false.
Proof. cbn. unfold on_sim. rewrite get_put_same. cbn. rewrite start_not_complete. reflexivity. Qed.

Lemma put_get w e : put w e (get w e) = w.
Proof. destruct w, e; reflexivity. Qed.

Lemma output_pure w e : fst (spec_step w (LGetOutput e)) = w.
Proof.
  cbn. unfold on_sim. destruct (e_sim (get w e)) as [[s sc]|] eqn:E; [|reflexivity]. cbn.
  rewrite <- E. destruct (get w e) eqn:G. cbn. rewrite <- G. apply put_get.
Qed.

Lemma finalize_twice w e : spec_step (fst (spec_step w (LFinalize e))) (LFinalize e) = (fst (spec_step w (LFinalize e)), OUnit).
Proof. cbn. destruct w, e; reflexivity. Qed.
