(* Facts about the exact-number layer (Model/Num.v). *)
From Coq Require Import ZArith QArith Qcanon Qpower Qabs Qround List Lia Setoid.
From Verif Require Import Num.
Open Scope Qc_scope.

Lemma this_Q2Qc (q : Q) : (this (Q2Qc q) == q)%Q.
Proof. unfold Q2Qc; simpl. apply Qred_correct. Qed.

Lemma this_mult x y : (this (x * y) == this x * this y)%Q.
Proof. apply this_Q2Qc. Qed.
Lemma this_plus x y : (this (x + y) == this x + this y)%Q.
Proof. apply this_Q2Qc. Qed.
Lemma this_opp x : (this (- x) == - this x)%Q.
Proof. apply this_Q2Qc. Qed.
Lemma this_inv x : (this (/ x) == / this x)%Q.
Proof. apply this_Q2Qc. Qed.
Lemma this_powz x n : (this (Qcpowz x n) == this x ^ n)%Q.
Proof. apply this_Q2Qc. Qed.

Lemma Qcpowz_0_r x : Qcpowz x 0 = 1.
Proof. apply Qc_is_canon. rewrite this_powz. reflexivity. Qed.

Lemma Qcpowz_1_r x : Qcpowz x 1 = x.
Proof. apply Qc_is_canon. rewrite this_powz. apply Qpower_1_r. Qed.

Lemma Qcpowz_1_l n : Qcpowz 1 n = 1.
Proof. apply Qc_is_canon. rewrite this_powz. apply Qpower_1. Qed.

Lemma Qcpowz_mul_base x y n : Qcpowz (x * y) n = Qcpowz x n * Qcpowz y n.
Proof.
  apply Qc_is_canon. rewrite this_mult, !this_powz, this_mult. apply Qmult_power.
Qed.

Lemma Qcpowz_inv x n : Qcpowz (/ x) n = / Qcpowz x n.
Proof.
  apply Qc_is_canon. rewrite this_inv, !this_powz, this_inv. apply Qinv_power.
Qed.

Lemma Qcpowz_div x y n : Qcpowz (x / y) n = Qcpowz x n / Qcpowz y n.
Proof. unfold Qcdiv. rewrite Qcpowz_mul_base, Qcpowz_inv. reflexivity. Qed.

Lemma Qc_neq_Q (x : Qc) : x <> 0 -> ~ (this x == 0)%Q.
Proof. intros H E. apply H. apply Qc_is_canon. exact E. Qed.

Lemma Qcpowz_add x n m : x <> 0 -> Qcpowz x (n + m) = Qcpowz x n * Qcpowz x m.
Proof.
  intros Hx. apply Qc_is_canon. rewrite this_mult, !this_powz.
  apply Qpower_plus. apply Qc_neq_Q; assumption.
Qed.

Lemma Qcpowz_opp x n : Qcpowz x (- n) = / Qcpowz x n.
Proof.
  apply Qc_is_canon. rewrite this_inv, !this_powz. apply Qpower_opp.
Qed.

Lemma Qcpowz_mul_exp x n m : Qcpowz x (n * m) = Qcpowz (Qcpowz x n) m.
Proof.
  apply Qc_is_canon. rewrite !this_powz. apply Qpower_mult.
Qed.

Lemma Qcpowz_nonzero x n : x <> 0 -> Qcpowz x n <> 0.
Proof.
  intros Hx E. apply (Qpower_not_0 (this x) n (Qc_neq_Q x Hx)).
  rewrite <- this_powz. rewrite E. reflexivity.
Qed.

Lemma Qcpowz_pos x n : 0 < x -> 0 < Qcpowz x n.
Proof.
  intros Hx. unfold Qclt. rewrite this_powz.
  apply Qpower_0_lt. exact Hx.
Qed.

Lemma Qc_pos_neq x : 0 < x -> x <> 0.
Proof. intros H E. subst. exact (Qclt_not_eq _ _ H eq_refl). Qed.

Lemma Qcpowz_sub x n m : x <> 0 -> Qcpowz x (n - m) = Qcpowz x n / Qcpowz x m.
Proof.
  intros Hx. unfold Z.sub. rewrite Qcpowz_add by assumption.
  rewrite Qcpowz_opp. reflexivity.
Qed.

(* boolean comparisons reflect the order *)
Lemma Qcleb_le a b : Qcleb a b = true <-> a <= b.
Proof. unfold Qcleb, Qcle. apply Qle_bool_iff. Qed.

Lemma Qceqb_eq a b : Qceqb a b = true <-> a = b.
Proof.
  unfold Qceqb. rewrite Qeq_bool_iff. split.
  - apply Qc_is_canon.
  - intros ->. reflexivity.
Qed.

(* sums *)
Lemma sumQ_app l m : sumQ (l ++ m) = sumQ l + sumQ m.
Proof. induction l as [|a l IH]; simpl; [ring | rewrite IH; ring]. Qed.

Lemma sumQ_map_ext {A} (f g : A -> Qc) l :
  (forall a, In a l -> f a = g a) -> sumQ (map f l) = sumQ (map g l).
Proof.
  induction l as [|a l IH]; simpl; intros H; [reflexivity|].
  rewrite (H a) by (left; reflexivity). rewrite IH; [reflexivity|].
  intros b Hb. apply H. right; exact Hb.
Qed.

Lemma sumQ_map_plus {A} (f g : A -> Qc) l :
  sumQ (map (fun a => f a + g a) l) = sumQ (map f l) + sumQ (map g l).
Proof. induction l as [|a l IH]; simpl; [ring | rewrite IH; ring]. Qed.

Lemma sumQ_map_scal {A} (c : Qc) (f : A -> Qc) l :
  sumQ (map (fun a => c * f a) l) = c * sumQ (map f l).
Proof. induction l as [|a l IH]; simpl; [ring | rewrite IH; ring]. Qed.

Lemma sumQ_map_zero {A} (f : A -> Qc) l :
  (forall a, In a l -> f a = 0) -> sumQ (map f l) = 0.
Proof.
  induction l as [|a l IH]; simpl; intros H; [reflexivity|].
  rewrite (H a) by (left; reflexivity). rewrite IH; [ring|].
  intros b Hb. apply H. right; exact Hb.
Qed.

(* tabulate *)
Lemma tabulate_length {A} n (f : nat -> A) : length (tabulate n f) = n.
Proof. unfold tabulate. rewrite map_length, seq_length. reflexivity. Qed.

Lemma nth_tabulate {A} n (f : nat -> A) i d : (i < n)%nat -> nth i (tabulate n f) d = f i.
Proof.
  intros H. unfold tabulate.
  rewrite (nth_indep _ d (f 0%nat)) by (rewrite map_length, seq_length; exact H).
  rewrite map_nth. rewrite seq_nth by exact H. reflexivity.
Qed.

Lemma Qcinv_pos x : 0 < x -> 0 < / x.
Proof. intros H. unfold Qclt. rewrite this_inv. apply Qinv_lt_0_compat. exact H. Qed.

Lemma prodQ_cons a l : prodQ (a :: l) = a * prodQ l.
Proof. reflexivity. Qed.
Lemma sumQ_cons a l : sumQ (a :: l) = a + sumQ l.
Proof. reflexivity. Qed.
Lemma sumQ_nil : sumQ [] = 0.
Proof. reflexivity. Qed.
