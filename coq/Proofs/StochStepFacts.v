(* Facts about the stochastic step model (Model/StochStep.v): which draws select which channel, positive propensity
   means a possible event, possible events keep states non-negative and integral. *)
From Coq Require Import ZArith QArith Qcanon List Lia Lqa Bool.
From Verif Require Import Num NumFacts Grid GridFacts System Engine EngineFacts SamplingFacts EngineConserve Stochastic StochasticFacts Prng StochStep.
Open Scope Qc_scope.

(* linear arithmetic on Qc through Q *)
Ltac qc_lra :=
  unfold Qcle, Qclt, Qcminus in *;
  repeat match goal with
         | H : context [this (_ + _)] |- _ => rewrite this_plus in H
         | H : context [this (- _)] |- _ => rewrite this_opp in H
         | |- context [this (_ + _)] => rewrite this_plus
         | |- context [this (- _)] => rewrite this_opp
         end;
  change (this 0) with 0%Q in *; change (this 1) with 1%Q in *; lra.

Lemma Qcltb_false a b : Qcltb a b = false <-> b <= a.
Proof. unfold Qcltb. rewrite negb_false_iff. apply Qcleb_le. Qed.
Lemma Qcltb_true a b : Qcltb a b = true <-> a < b.
Proof.
  unfold Qcltb. rewrite negb_true_iff. split; intro H.
  - apply Qcnot_le_lt. intro Hle. apply Qcleb_le in Hle. congruence.
  - destruct (Qcleb b a) eqn:E; [|reflexivity]. apply Qcleb_le in E. exfalso. apply (Qclt_not_le _ _ H E).
Qed.

Lemma Qclt_irrefl x : ~ x < x.
Proof. intro H. apply (Qclt_not_eq _ _ H). reflexivity. Qed.

(* ---------- selection ---------- *)
Lemma select_some_pos r chs e : (forall p, In p chs -> 0 <= snd p) -> 0 <= r ->
  select r chs = Some e -> exists a, In (e, a) chs /\ 0 < a.
Proof.
  revert r. induction chs as [|[e1 a1] rest IH]; intros r Hnn Hr H; [discriminate|].
  cbn [select] in H. destruct (Qcltb r a1) eqn:E.
  - injection H as <-. apply Qcltb_true in E. exists a1. split; [left; reflexivity|]. qc_lra.
  - apply Qcltb_false in E. destruct (IH (r - a1)) as (a & Hin & Ha).
    + intros p Hp. apply Hnn. right. exact Hp.
    + qc_lra.
    + exact H.
    + exists a. split; [right; exact Hin|exact Ha].
Qed.

(* the draws r that select a given channel are exactly an interval whose length is the channel's propensity *)
Lemma select_interval pre e a post r : (forall p, In p pre -> 0 <= snd p) ->
  sumQ (map snd pre) <= r -> r < sumQ (map snd pre) + a -> select r (pre ++ (e, a) :: post) = Some e.
Proof.
  revert r. induction pre as [|[e1 a1] pre IH]; intros r Hnn Hlo Hhi.
  - cbn in *. assert (E : Qcltb r a = true) by (apply Qcltb_true; qc_lra). rewrite E. reflexivity.
  - cbn [app select map snd sumQ fold_right] in *.
    assert (H1 : 0 <= a1) by (apply (Hnn (e1, a1)); left; reflexivity).
    assert (Hs : 0 <= sumQ (map snd pre)).
    { clear -Hnn. induction pre as [|[e2 a2] pre IH]; [apply Qcle_refl|].
      cbn [map snd sumQ fold_right]. assert (0 <= a2) by (apply (Hnn (e2, a2)); right; left; reflexivity).
      assert (0 <= sumQ (map snd pre)) by (apply IH; intros p Hp; apply Hnn; destruct Hp as [Hp|Hp]; [left; exact Hp|right; right; exact Hp]).
      unfold sumQ in *. qc_lra. }
    unfold sumQ in *.
    assert (E : Qcltb r a1 = false) by (apply Qcltb_false; qc_lra). rewrite E.
    apply IH; [intros p Hp; apply Hnn; right; exact Hp|qc_lra|qc_lra].
Qed.

Lemma select_none_or_in r chs e : select r chs = Some e -> In e (map fst chs).
Proof.
  revert r. induction chs as [|[e1 a1] rest IH]; intros r H; [discriminate|].
  cbn [select] in H. destruct (Qcltb r a1); [injection H as <-; left; reflexivity|right; eapply IH; exact H].
Qed.

(* ---------- combinatorial factor ---------- *)
Fixpoint falling (x n : nat) : nat := match n with O => 1 | S n' => x * falling (x - 1) n' end.

Lemma QcZ_sub1 z : QcZ (z - 1) = QcZ z - 1.
Proof. replace (z - 1)%Z with (z + -1)%Z by lia. rewrite QcZ_add. reflexivity. Qed.

Lemma ffall_nat n : forall x, ffall (QcZ (Z.of_nat x)) n = QcZ (Z.of_nat (falling x n)).
Proof.
  induction n as [|n IH]; intro x; [reflexivity|]. cbn [ffall falling].
  destruct x as [|x].
  - cbn [Nat.mul Z.of_nat]. change (QcZ 0) with 0. apply Qcmult_0_l.
  - rewrite Nat2Z.inj_mul, QcZ_mul. f_equal.
    replace (QcZ (Z.of_nat (S x)) - 1) with (QcZ (Z.of_nat x)).
    + cbn [Nat.sub]. rewrite Nat.sub_0_r. apply IH.
    + rewrite <- QcZ_sub1. f_equal. lia.
Qed.

(* x (x-1) ... (x-n+1) = x! / (x-n)!  = n! C(x, n): the number of ordered choices of n distinct molecules among x *)
Lemma falling_fact n : forall x, (n <= x)%nat -> (falling x n * fact (x - n) = fact x)%nat.
Proof.
  induction n as [|n IH]; intros x H; [cbn; rewrite Nat.sub_0_r; lia|].
  destruct x as [|x]; [lia|]. cbn [falling Nat.sub]. rewrite Nat.sub_0_r.
  rewrite <- Nat.mul_assoc, IH by lia. reflexivity.
Qed.
Lemma falling_zero n : forall x, (x < n)%nat -> falling x n = 0%nat.
Proof.
  induction n as [|n IH]; intros x H; [lia|]. destruct x as [|x]; [reflexivity|].
  cbn [falling Nat.sub]. rewrite Nat.sub_0_r, IH by lia. lia.
Qed.

(* positivity of the factor: exactly when there are enough molecules (no integrality needed) *)
Lemma ffall_pos n : forall x, QcZ (Z.of_nat n) <= x -> 0 < ffall x n.
Proof.
  induction n as [|n IH]; intros x H; [reflexivity|]. cbn [ffall].
  rewrite Nat2Z.inj_succ, <- Z.add_1_r, QcZ_add in H. change (QcZ 1) with 1 in H.
  assert (Hn : 0 <= QcZ (Z.of_nat n)) by (change 0 with (QcZ 0); apply QcZ_le; lia).
  assert (Hx : 0 < x) by qc_lra.
  assert (Hrec : 0 < ffall (x - 1) n) by (apply IH; qc_lra).
  rewrite <- (Qcmult_0_l (ffall (x - 1) n)). apply Qcmult_lt_compat_r; assumption.
Qed.

Lemma ff_pos_iff x n : (0 <= n)%Z -> (0 < ff x n <-> QcZ n <= x).
Proof.
  intro Hn. unfold ff. destruct (Qcleb (QcZ n) x) eqn:E.
  - apply Qcleb_le in E. split; [intros _; exact E|intros _]. apply ffall_pos. rewrite Z2Nat.id by exact Hn. exact E.
  - split; [intro H; exfalso; apply (Qclt_irrefl 0); exact H|intro H; apply Qcleb_le in H; congruence].
Qed.
Lemma ff_nonneg x n : (0 <= n)%Z -> 0 <= ff x n.
Proof.
  intro Hn. unfold ff. destruct (Qcleb (QcZ n) x) eqn:E; [|apply Qcle_refl].
  apply Qclt_le_weak, ffall_pos. apply Qcleb_le in E. rewrite Z2Nat.id by exact Hn. exact E.
Qed.

(* products of non-negative factors *)
Lemma prodQ_nonneg l : (forall a, In a l -> 0 <= a) -> 0 <= prodQ l.
Proof.
  induction l as [|a l IH]; intro H; [cbn; unfold Qcle; cbn; lra|].
  rewrite prodQ_cons. rewrite <- (Qcmult_0_l (prodQ l)). apply Qcmult_le_compat_r; [apply H; left; reflexivity|apply IH; intros b Hb; apply H; right; exact Hb].
Qed.
Lemma prodQ_pos_iff l : (forall a, In a l -> 0 <= a) -> (0 < prodQ l <-> forall a, In a l -> 0 < a).
Proof.
  induction l as [|a l IH]; intro H.
  - split; [intros _ b []|intros _; reflexivity].
  - rewrite prodQ_cons.
    assert (Ha : 0 <= a) by (apply H; left; reflexivity).
    assert (Hl : forall b, In b l -> 0 <= b) by (intros b Hb; apply H; right; exact Hb).
    specialize (IH Hl). pose proof (prodQ_nonneg l Hl) as Hp. split.
    + intros Hpos b [<-|Hb].
      * destruct (Qc_eq_dec a 0) as [->|Hne]; [rewrite Qcmult_0_l in Hpos; exfalso; apply (Qclt_irrefl 0 Hpos)|].
        apply Qcle_lt_or_eq in Ha. destruct Ha as [Ha|Ha]; [exact Ha|congruence].
      * apply IH; [|exact Hb]. destruct (Qc_eq_dec (prodQ l) 0) as [E|Hne]; [rewrite E, Qcmult_0_r in Hpos; exfalso; apply (Qclt_irrefl 0 Hpos)|].
        apply Qcle_lt_or_eq in Hp. destruct Hp as [Hp|Hp]; [exact Hp|congruence].
    + intro Hall. rewrite <- (Qcmult_0_l (prodQ l)). apply Qcmult_lt_compat_r; [apply IH; intros b Hb; apply Hall; right; exact Hb|apply Hall; left; reflexivity].
Qed.

(* ---------- positive propensity = possible event ---------- *)
Definition nonneg_sub (T : etab) : Prop := forall s r, (0 <= Sub T s r)%Z.

Lemma reaction_prop_pos T G x i r : nonneg_sub T -> 0 < mesh_kr T G i r ->
  (0 < reaction_prop T G x i r <-> forall s, (s < nS T)%nat -> QcZ (Sub T s r) <= X T x i s).
Proof.
  intros Hs Hk. unfold reaction_prop.
  set (l := map (fun s => ff (X T x i s) (Sub T s r)) (species_idx T)).
  assert (Hnn : forall a, In a l -> 0 <= a).
  { intros a Ha. apply in_map_iff in Ha. destruct Ha as (s & <- & _). apply ff_nonneg, Hs. }
  pose proof (prodQ_pos_iff l Hnn) as Hp. pose proof (prodQ_nonneg l Hnn) as Hge. split.
  - intros H s Hlt. apply (ff_pos_iff _ _ (Hs s r)). apply Hp.
    + destruct (Qc_eq_dec (prodQ l) 0) as [E|Hne]; [rewrite E, Qcmult_0_r in H; exfalso; apply (Qclt_irrefl 0 H)|].
      apply Qcle_lt_or_eq in Hge. destruct Hge as [Hg|Hg]; [exact Hg|congruence].
    + unfold l. apply (in_map (fun s0 => ff (X T x i s0) (Sub T s0 r))). apply in_seq. lia.
  - intro H. rewrite <- (Qcmult_0_l (prodQ l)). apply Qcmult_lt_compat_r; [|exact Hk].
    apply Hp. intros a Ha. apply in_map_iff in Ha. destruct Ha as (s & <- & Hin). apply in_seq in Hin.
    apply (ff_pos_iff _ _ (Hs s r)). apply H. lia.
Qed.

Lemma reaction_prop_zero_constant T G x i r : mesh_kr T G i r = 0 -> reaction_prop T G x i r = 0.
Proof. intro H. unfold reaction_prop. rewrite H. apply Qcmult_0_l. Qed.

(* ---------- the channel table ---------- *)
Lemma in_channels T G x e a : In (e, a) (channels T G x) ->
  match e with
  | EReact i r => (i < nC T)%nat /\ (r < nR T)%nat /\ a = reaction_prop T G x i r
  | EMove i s j => (i < nC T)%nat /\ (s < nS T)%nat /\ exists k, In (j, k) (moves_of T G i s) /\ a = X T x i s * k
  end.
Proof.
  unfold channels. intro H. apply in_flat_map in H. destruct H as (i & Hi & H). apply in_seq in Hi.
  apply in_app_or in H. destruct H as [H|H].
  - apply in_map_iff in H. destruct H as (r & E & Hr). injection E as <- <-. apply in_seq in Hr. repeat split; lia.
  - apply in_flat_map in H. destruct H as (s & Hs & H). apply in_seq in Hs.
    apply in_map_iff in H. destruct H as ([j k] & E & Hjk). injection E as <- <-. cbn [fst snd].
    split; [lia|]. split; [lia|]. exists k. split; [exact Hjk|reflexivity].
Qed.

Definition nonneg_tables (T : etab) (G : geom) : Prop :=
  (forall i r, 0 <= mesh_kr T G i r) /\ (forall i s j k, In (j, k) (moves_of T G i s) -> 0 <= k).
Definition nonneg_state (T : etab) (x : list Qc) : Prop :=
  forall i s, (i < nC T)%nat -> (s < nS T)%nat -> 0 <= X T x i s.
Definition integral_state (T : etab) (x : list Qc) : Prop :=
  forall i s, (i < nC T)%nat -> (s < nS T)%nat -> exists z, X T x i s = QcZ z.

Lemma Qcmult_nonneg a b : 0 <= a -> 0 <= b -> 0 <= a * b.
Proof. intros Ha Hb. rewrite <- (Qcmult_0_l b). apply Qcmult_le_compat_r; assumption. Qed.

Lemma channels_nonneg T G x : nonneg_sub T -> nonneg_tables T G -> nonneg_state T x ->
  forall p, In p (channels T G x) -> 0 <= snd p.
Proof.
  intros Hs (Hk & Hm) Hx [e a] Hin. cbn [snd]. pose proof (in_channels T G x e a Hin) as H. destruct e as [i r|i s j].
  - destruct H as (_ & _ & ->). unfold reaction_prop. apply Qcmult_nonneg; [apply Hk|].
    apply prodQ_nonneg. intros b Hb. apply in_map_iff in Hb. destruct Hb as (s & <- & _). apply ff_nonneg, Hs.
  - destruct H as (Hi & Hs' & k & Hjk & ->). apply Qcmult_nonneg; [apply Hx; assumption|eapply Hm; exact Hjk].
Qed.

Lemma sumQ_nonneg l : (forall a, In a l -> 0 <= a) -> 0 <= sumQ l.
Proof.
  induction l as [|a l IH]; intro H; [apply Qcle_refl|]. rewrite sumQ_cons.
  assert (0 <= a) by (apply H; left; reflexivity).
  assert (0 <= sumQ l) by (apply IH; intros b Hb; apply H; right; exact Hb). qc_lra.
Qed.

Lemma pos_integer_ge_1 z : 0 < QcZ z -> 1 <= QcZ z.
Proof.
  intro H. change 1 with (QcZ 1). apply QcZ_le. destruct (Z_lt_le_dec 0 z) as [Hz|Hz]; [lia|].
  exfalso. assert (QcZ z <= QcZ 0) by (apply QcZ_le; exact Hz). change (QcZ 0) with 0 in *. apply (Qclt_irrefl 0).
  eapply Qclt_le_trans; eassumption.
Qed.

Lemma mult_pos_factors a b : 0 <= a -> 0 <= b -> 0 < a * b -> 0 < a /\ 0 < b.
Proof.
  intros Ha Hb H. split.
  - apply Qcle_lt_or_eq in Ha. destruct Ha as [Ha|<-]; [exact Ha|]. rewrite Qcmult_0_l in H. exfalso. apply (Qclt_irrefl 0 H).
  - apply Qcle_lt_or_eq in Hb. destruct Hb as [Hb|<-]; [exact Hb|]. rewrite Qcmult_0_r in H. exfalso. apply (Qclt_irrefl 0 H).
Qed.

(* every event Gillespie's draw can select is possible in the state it is drawn in *)
Theorem draw_legal T G x u1 e : nonneg_sub T -> nonneg_tables T G -> nonneg_state T x -> integral_state T x -> 0 <= u1 ->
  gillespie_draw T G x u1 = DEvent e -> legal T G x e.
Proof.
  intros Hs Ht Hx Hz Hu H. unfold gillespie_draw in H.
  set (chs := channels T G x) in *. destruct (Qceqb (total_prop chs) 0); [discriminate|].
  destruct (Qcleb _ _); [discriminate|]. destruct (select (u1 * total_prop chs) chs) as [e'|] eqn:Es; [|discriminate].
  injection H as ->.
  pose proof (channels_nonneg T G x Hs Ht Hx) as Hnn. fold chs in Hnn.
  assert (Ha0 : 0 <= total_prop chs).
  { unfold total_prop. apply sumQ_nonneg. intros a Ha. apply in_map_iff in Ha. destruct Ha as (p & <- & Hp). apply Hnn, Hp. }
  destruct (select_some_pos _ _ _ Hnn (Qcmult_nonneg _ _ Hu Ha0) Es) as (a & Hin & Hpos).
  pose proof (in_channels T G x e a Hin) as Hc. destruct Ht as (Hk & Hm). destruct e as [i r|i s j]; cbn [legal].
  - destruct Hc as (Hi & Hr & ->). split; [exact Hi|]. split; [exact Hr|].
    assert (Hne : mesh_kr T G i r <> 0).
    { intro E. rewrite (reaction_prop_zero_constant _ _ _ _ _ E) in Hpos. apply (Qclt_irrefl 0 Hpos). }
    split; [exact Hne|].
    assert (Hkp : 0 < mesh_kr T G i r).
    { specialize (Hk i r). apply Qcle_lt_or_eq in Hk. destruct Hk as [Hk|Hk]; [exact Hk|congruence]. }
    apply (reaction_prop_pos T G x i r Hs Hkp). exact Hpos.
  - destruct Hc as (Hi & Hs' & k & Hjk & ->). split; [exact Hi|]. split; [exact Hs'|].
    destruct (mult_pos_factors _ _ (Hx i s Hi Hs') (Hm i s j k Hjk) Hpos) as (HX & Hkp).
    split.
    + destruct (Hz i s Hi Hs') as (z & Ez). rewrite Ez in *. apply pos_integer_ge_1. exact HX.
    + exists k. split; [exact Hjk|]. intro E. rewrite E in Hkp. apply (Qclt_irrefl 0 Hkp).
Qed.

(* ---------- a possible event keeps the state non-negative and integral ---------- *)
Definition sto_bounded (T : etab) : Prop := forall s r, (- Sub T s r <= Sto T s r)%Z.

Theorem legal_event_preserves T G x e : wf_state T x -> sto_bounded T ->
  (forall i s j k, In (j, k) (moves_of T G i s) -> (j < nC T)%nat) ->
  nonneg_state T x -> integral_state T x -> legal T G x e ->
  nonneg_state T (apply_event T x (e, 1)) /\ integral_state T (apply_event T x (e, 1)).
Proof.
  intros Hw Hb Hj Hx Hz Hl. destruct e as [i r|i s j]; cbn [legal apply_event] in *.
  - destruct Hl as (Hi & Hr & _ & Hsub). split; intros i' s' Hi' Hs'; rewrite (X_apply_react T x i r 1 i' s' Hw Hi Hi' Hs').
    + destruct (Nat.eqb i i' && negb (Chs T i s')) eqn:E; [|apply Hx; assumption].
      apply andb_true_iff in E. destruct E as (E & _). apply Nat.eqb_eq in E. subst i'.
      specialize (Hsub s' Hs'). specialize (Hb s' r).
      assert (H1 : QcZ (- Sub T s' r) <= QcZ (Sto T s' r)) by (apply QcZ_le; exact Hb).
      replace (QcZ (- Sub T s' r)) with (- QcZ (Sub T s' r)) in H1.
      2:{ replace (- Sub T s' r)%Z with (-1 * Sub T s' r)%Z by lia. rewrite EngineConserve.QcZ_mul. change (QcZ (-1)) with (- (1)). ring. }
      rewrite Qcmult_1_r. qc_lra.
    + destruct (Hz i' s' Hi' Hs') as (z & Ez). destruct (Nat.eqb i i' && negb (Chs T i s')).
      * exists (z + Sto T s' r)%Z. rewrite Ez, Qcmult_1_r, EngineConserve.QcZ_add. reflexivity.
      * exists z. exact Ez.
  - destruct Hl as (Hi & Hs & H1 & k & Hjk & _). pose proof (Hj i s j k Hjk) as Hjl.
    split; intros i' s' Hi' Hs'; rewrite (X_apply_move T x i s j 1 i' s' Hw Hi Hs Hjl Hi' Hs').
    + pose proof (Hx i' s' Hi' Hs') as H0.
      destruct (Nat.eqb i i' && Nat.eqb s s' && negb (Chs T i s)) eqn:E1;
        destruct (Nat.eqb j i' && Nat.eqb s s' && negb (Chs T j s)) eqn:E2; try qc_lra;
        (apply andb_true_iff in E1; destruct E1 as (E1 & _); apply andb_true_iff in E1; destruct E1 as (Ea & Eb);
         apply Nat.eqb_eq in Ea, Eb; subst i' s'; qc_lra).
    + destruct (Hz i' s' Hi' Hs') as (z & Ez). rewrite Ez.
      destruct (Nat.eqb i i' && Nat.eqb s s' && negb (Chs T i s)); destruct (Nat.eqb j i' && Nat.eqb s s' && negb (Chs T j s)).
      * exists (z + -1 + 1)%Z. rewrite !EngineConserve.QcZ_add. reflexivity.
      * exists (z + -1)%Z. rewrite !EngineConserve.QcZ_add. change (QcZ (-1)) with (- (1)). ring.
      * exists (z + 1)%Z. rewrite !EngineConserve.QcZ_add. change (QcZ 1) with 1. ring.
      * exists z. ring.
Qed.
