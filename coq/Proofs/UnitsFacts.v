(* Lemmas about the unit model: positivity of SI scales, factor = ratio of scales,
   conversion preserves the SI value, identity / composition / round trip. *)
From Coq Require Import ZArith QArith Qcanon Lia Field.
From Verif Require Import Num NumFacts Units.
Open Scope Qc_scope.

Lemma si_space_pos u : 0 < si_space u.
Proof. destruct u; vm_compute; reflexivity. Qed.
Lemma si_time_pos u : 0 < si_time u.
Proof. destruct u; vm_compute; reflexivity. Qed.
Lemma si_amount_pos u : 0 < si_amount u.
Proof. destruct u; vm_compute; reflexivity. Qed.

Lemma si_space_nz u : si_space u <> 0.  Proof. apply Qc_pos_neq, si_space_pos. Qed.
Lemma si_time_nz u : si_time u <> 0.    Proof. apply Qc_pos_neq, si_time_pos. Qed.
Lemma si_amount_nz u : si_amount u <> 0. Proof. apply Qc_pos_neq, si_amount_pos. Qed.

Lemma Qcmult_pos a b : 0 < a -> 0 < b -> 0 < a * b.
Proof.
  intros Ha Hb. replace 0 with (0 * b) by ring.
  apply Qcmult_lt_compat_r; assumption.
Qed.

Lemma scale_pos u d : 0 < scale u d.
Proof.
  unfold scale. repeat apply Qcmult_pos; apply Qcpowz_pos;
  [apply si_space_pos | apply si_time_pos | apply si_amount_pos].
Qed.

Lemma scale_nz u d : scale u d <> 0.
Proof. apply Qc_pos_neq, scale_pos. Qed.

Lemma factor_scale src dst d : factor src dst d = scale src d / scale dst d.
Proof.
  unfold factor, scale. rewrite !Qcpowz_div.
  field. repeat split; apply Qcpowz_nonzero;
  [apply si_amount_nz | apply si_time_nz | apply si_space_nz].
Qed.

Lemma factor_pos src dst d : 0 < factor src dst d.
Proof.
  rewrite factor_scale. unfold Qcdiv. apply Qcmult_pos; [apply scale_pos|].
  apply Qcinv_pos. apply scale_pos.
Qed.

Lemma factor_id u d : factor u u d = 1.
Proof. rewrite factor_scale. field. apply scale_nz. Qed.

Lemma factor_trans a b c d : factor a b d * factor b c d = factor a c d.
Proof. rewrite !factor_scale. field. split; apply scale_nz. Qed.

Lemma factor_inv a b d : factor a b d * factor b a d = 1.
Proof. rewrite factor_trans. apply factor_id. Qed.

Lemma SI_convert q dst : SI (convert q dst) = SI q.
Proof.
  unfold SI, convert; simpl. rewrite factor_scale. field. apply scale_nz.
Qed.

Lemma convert_id q : convert q (qu q) = q.
Proof.
  destruct q as [v u d]. unfold convert; simpl. rewrite factor_id.
  f_equal. ring.
Qed.

Lemma convert_compose q s1 s2 : convert (convert q s1) s2 = convert q s2.
Proof.
  destruct q as [v u d]. unfold convert; simpl. f_equal.
  rewrite <- (factor_trans u s1 s2 d). ring.
Qed.

Lemma convert_roundtrip q s : convert (convert q s) (qu q) = q.
Proof. rewrite convert_compose. apply convert_id. Qed.

Lemma dim_eqb_eq a b : dim_eqb a b = true <-> a = b.
Proof.
  destruct a as [a1 a2 a3], b as [b1 b2 b3]. unfold dim_eqb; simpl.
  rewrite !Bool.andb_true_iff, !Z.eqb_eq. split.
  - intros [[-> ->] ->]. reflexivity.
  - intros E. inversion E. auto.
Qed.

Lemma dim_eqb_refl a : dim_eqb a a = true.
Proof. apply dim_eqb_eq. reflexivity. Qed.

Lemma convert_to_units_wrong_dim q ts td : td <> qd q -> convert_to_units q ts td = Err.
Proof.
  intros H. unfold convert_to_units. destruct (dim_eqb td (qd q)) eqn:E; [|reflexivity].
  apply dim_eqb_eq in E. contradiction.
Qed.

Lemma convert_to_units_ok q ts : convert_to_units q ts (qd q) = Ok (convert q ts).
Proof. unfold convert_to_units. rewrite dim_eqb_refl. reflexivity. Qed.

(* arrays *)
Lemma convert_arr_id a : convert_arr a (au a) = a.
Proof.
  destruct a as [v u d]. unfold convert_arr; simpl. rewrite factor_id. f_equal.
  induction v as [|x v IH]; simpl; [reflexivity|]. rewrite IH. f_equal. ring.
Qed.

Lemma convert_arr_compose a s1 s2 : convert_arr (convert_arr a s1) s2 = convert_arr a s2.
Proof.
  destruct a as [v u d]. unfold convert_arr; simpl. f_equal.
  rewrite map_map. apply map_ext. intros x.
  rewrite <- (factor_trans u s1 s2 d). ring.
Qed.

Lemma convert_arr_nth a dst i :
  nth i (av (convert_arr a dst)) 0 = qv (convert {| qv := nth i (av a) 0; qu := au a; qd := ad a |} dst).
Proof.
  unfold convert_arr, convert; simpl.
  set (f := fun x : Qc => x * factor (au a) dst (ad a)).
  replace 0 with (f 0) at 1 by (unfold f; ring).
  rewrite map_nth. reflexivity.
Qed.

(* additivity of the factor in the dimension (used by products, C04/C05) *)

Lemma scale_add u a b : scale u (dim_add a b) = scale u a * scale u b.
Proof.
  unfold scale, dim_add; simpl.
  rewrite !Qcpowz_add by (first [apply si_space_nz | apply si_time_nz | apply si_amount_nz]).
  ring.
Qed.

Lemma scale_opp u a : scale u (dim_opp a) = / scale u a.
Proof.
  unfold scale, dim_opp; simpl. rewrite !Qcpowz_opp. field.
  repeat split; apply Qcpowz_nonzero;
  [apply si_amount_nz | apply si_time_nz | apply si_space_nz].
Qed.

Lemma scale_dim0 u : scale u dim0 = 1.
Proof. unfold scale, dim0; simpl. rewrite !Qcpowz_0_r. ring. Qed.

Lemma factor_add s t a b : factor s t (dim_add a b) = factor s t a * factor s t b.
Proof. rewrite !factor_scale, !scale_add. field. split; apply scale_nz. Qed.

Lemma factor_opp s t a : factor s t (dim_opp a) = / factor s t a.
Proof.
  rewrite !factor_scale, !scale_opp. field.
  repeat split; first [apply scale_nz | (intro H; discriminate H)].
Qed.

Lemma factor_dim0 s t : factor s t dim0 = 1.
Proof. rewrite factor_scale, !scale_dim0. field. intro H; discriminate H. Qed.
