(* Correspondence verdict for C04: observations (in SI / common units) of a base description and of re-descriptions that
   differ only in units must coincide: initial state, chemostat map, rate of change, Euler times and data. *)
From Verif Require Import Num Decode.
Open Scope Qc_scope.

Definition obs04 := (list Qc * list bool * list Qc * list Qc * list Qc)%type.

Definition vmax (l : list Qc) : Qc := fold_right (fun a m => if Qcleb m (Qcabs a) then Qcabs a else m) 0 l.
Definition close_vec (fl : Qc) (a b : list Qc) : bool :=
  let m := vmax a in
  forall2b (fun x y => Qcleb (Qcabs (x - y)) (p10 (-6) * (Qcabs x + Qcabs y) + p10 (-9) * m + fl)) a b.

(* floor_rate / floor_amount: absolute floors for rates and amounts (sums of cancelling terms computed along different unit paths) *)
Definition same_obs (floor_rate floor_amount : Qc) (a b : obs04) : bool :=
  let '(s1, c1, d1, t1, x1) := a in let '(s2, c2, d2, t2, x2) := b in
  close_vec 0 s1 s2 && forall2b Bool.eqb c1 c2 && close_vec floor_rate d1 d2 && close_vec 0 t1 t2 && close_vec floor_amount x1 x2.

Definition accept_C04 (base : option obs04 * Qc * Qc) (variants : list (option obs04)) : verdict :=
  let '(b0, fr, fa) := base in
  match b0 with
  | None => (false, 9%nat)
  | Some b => (forallb (fun v => match v with Some o => same_obs fr fa b o | None => false end) variants, 1%nat)
  end.
