(* From a system description to the engine's tables (librdengine.py: setup, build_*_matrix and
   the unit conversions applied to every argument), in a given engine units system. *)
From Verif Require Import Num Units Grid System Engine.
Open Scope Qc_scope.

(* Reaction.split: forward (kf) and reverse (kr, sides exchanged) irreversible reactions, interleaved *)
Definition split_reactions (net : network) : list (list (label * Z) * list (label * Z) * envval quantity) :=
  flat_map (fun r => [(r_sub r, r_prod r, r_kf r); (r_prod r, r_sub r, r_kr r)]) (n_reactions net).

Fixpoint coef (side : list (label * Z)) (l : label) : Z :=
  match side with
  | [] => 0%Z
  | (l', c) :: side' => if Nat.eqb l' l then c else coef side' l
  end.

Definition side_order (side : list (label * Z)) : Z := fold_right Z.add 0%Z (map snd side).

Definition kdim (n : Z) : dim := {| dS := 3 * n - 3; dT := -1; dQ := 1 - n |}%Z.

Definition zero_q (u : usys) (d : dim) : quantity := {| qv := 0; qu := u; qd := d |}.

(* build_substrate_stoechiometric_matrix / build_stoechiometric_difference_matrix : [s * nR + r] *)
Definition build_sub (net : network) : list Z :=
  flat_map (fun s => map (fun r => coef (fst (fst r)) (sp_label s)) (split_reactions net)) (n_species net).
Definition build_sto (net : network) : list Z :=
  flat_map (fun s => map (fun r => (coef (snd (fst r)) (sp_label s) - coef (fst (fst r)) (sp_label s))%Z)
                         (split_reactions net)) (n_species net).

(* build_reaction_rate_constant_matrix : [env * nR + r], converted to the engine's units *)
Definition build_k (net : network) (ue : usys) : list Qc :=
  flat_map (fun e => map (fun r => qv (convert (in_env (snd r) e (zero_q ue (kdim (side_order (fst (fst r)))))) ue))
                         (split_reactions net)) (n_envs net).

(* build_diff_coef_environment_matrix : [s * nE + env] *)
Definition build_D (net : network) (ue : usys) : list Qc :=
  flat_map (fun s => map (fun e => qv (convert (in_env (sp_D s) e (zero_q default_usys dim_diff)) ue)) (n_envs net))
           (n_species net).

(* the geometry handed to the engine; cell sizes are described by their edge quantity (volume = edge^3) *)
Definition build_geom (sp : space) (edges_q : list quantity) (ue : usys) : geom :=
  match sp with
  | SGrid g _ _ _ => GGrid g (qv (convert (nth 0 edges_q (zero_q ue dim_length)) ue))
  | SGraph _ es _ =>
      GGraph (map (fun hq => qv (convert hq ue)) edges_q)
             (map (fun e : Z * Z * quantity * quantity =>
                     let '(a, b, sf, ds) := e in (Z.to_nat a, Z.to_nat b, qv (convert sf ue), qv (convert ds ue))) es)
  end.

Definition build_tables (sys : system) (ue : usys) (chs_species_major : list bool) : etab :=
  let net := sy_net sys in
  let ns := length (n_species net) in
  let nc := ncells (sy_space sys) in
  {| nS := ns; nR := length (split_reactions net); nE := length (n_envs net); nC := nc;
     tk := build_k net ue; tsub := build_sub net; tsto := build_sto net; tD := build_D net ue;
     tenv := map Z.to_nat (cell_envs (sy_space sys));
     tchs := to_cell_major false ns nc chs_species_major |}.

(* the state handed to the engine: converted to engine units, then species-major -> cell-major *)
Definition import_state (ns nc : nat) (st : sstate) (ue : usys) : list Qc :=
  to_cell_major 0 ns nc (map (fun v => v * factor (st_u st) ue dim_amount) (st_v st)).
Definition export_state (ns nc : nat) (x : list Qc) : list Qc := to_species_major 0 ns nc x.

(* consistency of the edge description with the declared volumes: SI(vol_c) = SI(edge_c)^3 *)
Definition edges_consistent (sp : space) (edges_q : list quantity) : bool :=
  forall2b (fun v h => Qceqb (SI v) (cube (SI h)) && dim_eqb (qd h) dim_length && dim_eqb (qd v) dim_volume)
           (cell_vols sp) (match sp with SGrid g _ _ _ => map (fun _ => nth 0 edges_q (zero_q default_usys dim_length))
                                                                   (seq 0 (Z.to_nat (gsize g)))
                                          | SGraph _ _ _ => edges_q end).
