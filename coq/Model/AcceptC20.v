(* C20: which inputs are invalid - decided by the models (key processing, dimensions, symbol tables, grid geometry, index-map
   rules) - and the verdict: the implementation must raise exactly on those (valid controls must be accepted) and leave the
   object untouched. *)
From Coq Require Import NArith.
From Verif Require Import Num Units Grid ReactionText UnitText Schemas Dict Coarse Decode AcceptC06.

Inductive c20_case :=
| KKeys (sc : schema) (keys : list str)                         (* the keys of a dictionary handed to a reader *)
| KMissing (mandatory present : list str)                       (* mandatory keys / keys present *)
| KDim (given expected : dim)                                   (* dimension of a quantity / of the field it is assigned to *)
| KSpaceSym (s : str) | KTimeSym (s : str) | KAmountSym (s : str)   (* a base unit symbol in a units declaration *)
| KUnitText (s : str)                                           (* a unit expression inside a quantity string *)
| KSize (w h d : Z)
| KEnvMap (ncells nenv : nat) (env : list Z)
| KChoice (allowed : list str) (s : str)                        (* boundary condition, axis, sampling policy, processing mode *)
| KEnvNames (names : list str)
| KGridPos (g : grid) (p : position)
| KGraphPos (n : nat) (i : Z)
| KSpecies (nspecies : nat) (labels : list str) (by_index : option Z) (by_label : str)
| KMap (n : nat) (env : list Z) (im : imap).

Definition str_in (s : str) (l : list str) : bool := existsb (str_eqb s) l.
Definition str_default : str := [100; 101; 102; 97; 117; 108; 116]%N.

Definition invalid (c : c20_case) : bool :=
  match c with
  | KKeys sc keys => negb (keys_ok unit sc (map (fun k => (k, tt)) keys))
  | KMissing mandatory present => negb (forallb (fun k => str_in k present) mandatory)
  | KDim given expected => negb (dim_eqb given expected)
  | KSpaceSym s => negb (existsb (fun u => str_eqb (sym_space u) s) all_space)
  | KTimeSym s => negb (existsb (fun u => str_eqb (sym_time u) s) all_time)
  | KAmountSym s => negb (existsb (fun u => str_eqb (sym_amount u) s) all_amount)
  | KUnitText s => match parse_units s with None => true | Some _ => false end
  | KSize w h d => negb ((0 <? w) && (0 <? h) && (0 <? d))%Z
  | KEnvMap ncells nenv env => negb (Nat.eqb (length env) ncells && forallb (fun e => (0 <=? e) && (e <? Z.of_nat nenv))%Z env)
  | KChoice allowed s => negb (str_in s allowed)
  | KEnvNames names => match names with [] => true | _ => str_in str_default names end
  | KGridPos g p => match get_cell_index g p with Err => true | Ok _ => false end
  | KGraphPos n i => negb ((0 <=? i) && (i <? Z.of_nat n))%Z
  | KSpecies ns labels by_index by_label =>
      match by_index with
      | Some i => negb ((0 <=? i) && (i <? Z.of_nat ns))%Z
      | None => negb (str_in by_label labels)
      end
  | KMap n env im => negb (valid_map im n env)
  end.

(* raised: the call raised; untouched: the object compares equal before and after *)
Definition accept_C20 (c : c20_case) (o : bool * bool) : verdict :=
  let inv := invalid c in
  (Bool.eqb (fst o) inv && (snd o || negb inv), if inv then 2%nat else 1%nat).      (* a valid set_* call may of course change the object *)
