(* File names and text arrays (filepath.py, text_array_rw.py, and the file names save_rdtrajectory / load_rdtrajectory derive),
   over code points.  Modelled Python semantics: slicing with a start that may be negative, str.split() / str.replace on one
   character, int(), and the part of pathlib (PurePosixPath of CPython 3.12: posixpath.splitroot, _parse_path, __str__, name,
   parent, is_absolute, absolute with the working directory as an argument, posixpath.join of the raw segments) that
   filepath.py calls.  pathlib itself is environment, not repository code: this model of it is kept honest by the correspondence. *)
From Coq Require Import NArith ZArith List Bool.
From Verif Require Import Num ReactionText.
Import ListNotations.
Open Scope N_scope.

Definition c_slash : N := 47.
Definition c_dot : N := 46.
Definition c_comma : N := 44.

(* ---------------------------------------------------------------- text_array_rw.py *)
(* save_1D_array_txt: str(l[i]) + " " for every element *)
Definition save_array (l : list Z) : str := flat_map (fun z => print_int z ++ [c_sp]) l.
(* load_1D_array_txt(path, int): s.replace(",", " ").split(), int() of every token *)
Definition comma_to_space (s : str) : str := map (fun c => if c =? c_comma then c_sp else c) s.
Fixpoint all_some_l {A} (l : list (option A)) : option (list A) :=
  match l with
  | [] => Some []
  | Some a :: r => option_map (cons a) (all_some_l r)
  | None :: _ => None
  end.
Definition load_array (s : str) : option (list Z) := all_some_l (map parse_int (split_ws (comma_to_space s) [])).

(* ---------------------------------------------------------------- filepath.py: extensions *)
(* path[len(path)-len(ext) : len(path)]: a negative start counts from the end and is clamped at 0 *)
Definition slice_from (p : str) (start : Z) : str :=
  let n := Z.of_nat (length p) in
  let s := if (start <? 0)%Z then Z.max 0 (start + n) else Z.min start n in
  skipn (Z.to_nat s) p.
Definition have_extension (p e : str) : bool :=
  str_eqb (slice_from p (Z.of_nat (length p) - Z.of_nat (length e))) e.
Definition append_extension_if_missing (p e : str) : str := if have_extension p e then p else p ++ e.
(* path[0 : len(path)-len(ext)], reached only when have_extension holds *)
Definition remove_extension_if_existing (p e : str) : str :=
  if have_extension p e then firstn (length p - length e) p else p.

(* ---------------------------------------------------------------- pathlib (posix flavour) *)
Definition starts_slash (p : str) : bool := match p with c :: _ => c =? c_slash | [] => false end.
Definition ends_slash (p : str) : bool := starts_slash (rev p).
(* posixpath.splitroot: (root, rest); exactly two leading slashes are a root of their own *)
Definition splitroot (p : str) : str * str :=
  match p with
  | a :: r1 =>
      if a =? c_slash then
        match r1 with
        | b :: r2 =>
            if b =? c_slash then
              match r2 with
              | c :: _ => if c =? c_slash then ([c_slash], r1) else ([c_slash; c_slash], r2)
              | [] => ([c_slash; c_slash], r2)
              end
            else ([c_slash], r1)
        | [] => ([c_slash], r1)
        end
      else ([], p)
  | [] => ([], p)
  end.
Definition is_dot (x : str) : bool := match x with [c] => c =? c_dot | _ => false end.
Definition keep_part (x : str) : bool := negb (match x with [] => true | _ => false end) && negb (is_dot x).
Definition parts_of (rel : str) : list str := filter keep_part (split_char c_slash rel []).
Definition ppath := (str * list str)%type.        (* root, tail *)
Definition parse_path (p : str) : ppath := let (root, rel) := splitroot p in (root, parts_of rel).
Fixpoint join_slash (l : list str) : str :=
  match l with [] => [] | [a] => a | a :: r => a ++ [c_slash] ++ join_slash r end.
Definition fmt_path (pp : ppath) : str :=
  match fst pp ++ join_slash (snd pp) with [] => [c_dot] | s => s end.
Definition path_name (pp : ppath) : str := last (snd pp) [].
Definition path_parent (pp : ppath) : ppath := (fst pp, removelast (snd pp)).
(* posixpath.join(a, b) *)
Definition pjoin (a b : str) : str :=
  if starts_slash b then b
  else match a with [] => b | _ => if ends_slash a then a ++ b else a ++ [c_slash] ++ b end.
(* Path(p).absolute() with the working directory cwd *)
Definition absolute (cwd p : str) : str :=
  if starts_slash p then p
  else match parse_path p with
       | ([], []) => cwd
       | _ => pjoin cwd p
       end.

(* ---------------------------------------------------------------- filepath.py: paths *)
Definition get_base_path (cwd p : str) : str := fmt_path (path_parent (parse_path (absolute cwd p))).
Definition get_path_with_base (p : str) (base : option str) : str :=
  match base with
  | None => p
  | Some b => if starts_slash p then p else fmt_path (parse_path (pjoin b p))
  end.
Definition get_last_element (p : str) : str := path_name (parse_path p).

(* ---------------------------------------------------------------- rdoutput.py: the two files of a saved trajectory *)
Definition ext_json : str := [46; 106; 115; 111; 110].                          (* ".json" *)
Definition suffix_data : str := [95; 100; 97; 116; 97; 46; 110; 112; 121].       (* "_data.npy" *)
Definition json_path (p : str) : str := append_extension_if_missing p ext_json.
Definition data_path (p : str) : str := remove_extension_if_existing p ext_json ++ suffix_data.
(* what save_rdtrajectory writes under "data"/"value" when the data are kept apart *)
Definition data_reference (p : str) : str := get_last_element (data_path p).
(* the file load_rdtrajectory(json_path p) opens for the data *)
Definition data_loaded_from (cwd p : str) : str :=
  get_path_with_base (data_reference p) (Some (get_base_path cwd (json_path p))).
(* the file np.save wrote, as the operating system resolves it from the working directory *)
Definition data_saved_to (cwd p : str) : str := fmt_path (parse_path (absolute cwd (data_path p))).
