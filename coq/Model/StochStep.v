(* One iteration of the stochastic engines as functions of the uniforms they consume:
   propensities (ReactionProp, DiffusionProp), the channel table in the engine's scanning order,
   Gillespie's DrawAndApplyEvent, tau-leap's Compute_nevt / Apply_nevt.  Exact numbers (Qc). *)
From Verif Require Import Num Grid System Engine Stochastic Prng.
Open Scope Qc_scope.

(* x (x-1) ... (x-n+1) *)
Fixpoint ffall (x : Qc) (n : nat) : Qc := match n with O => 1 | S n' => x * ffall (x - 1) n' end.
(* ReactionProp's inner loop: the factor of one species, 0 when there are fewer molecules than the reaction needs *)
Definition ff (x : Qc) (n : Z) : Qc := if Qcleb (QcZ n) x then ffall x (Z.to_nat n) else 0.

Definition reaction_prop (T : etab) (G : geom) (x : list Qc) (i r : nat) : Qc :=
  mesh_kr T G i r * prodQ (map (fun s => ff (X T x i s) (Sub T s r)) (species_idx T)).

(* the diffusion channels of cell i for species s, in scanning order: (destination, first-order constant) *)
Definition moves_of (T : etab) (G : geom) (i s : nat) : list (nat * Qc) :=
  match G with
  | GGrid g h => flat_map (fun dir => match nbr g i dir with Some j => [(j, kd_grid T g h i s dir)] | None => [] end) dirs
  | GGraph hs edges => map (fun sl : slot => (fst (fst sl), kd_out T hs i s sl)) (slots_of edges i)
  end.

(* all channels with their propensities, in the order ComputePropensities / DrawAndApplyEvent / Compute_nevt scan them *)
Definition channels (T : etab) (G : geom) (x : list Qc) : list (event * Qc) :=
  flat_map (fun i =>
      map (fun r => (EReact i r, reaction_prop T G x i r)) (reaction_idx T)
      ++ flat_map (fun s => map (fun jk : nat * Qc => (EMove i s (fst jk), X T x i s * snd jk)) (moves_of T G i s)) (species_idx T))
    (cell_idx T).

Definition total_prop (chs : list (event * Qc)) : Qc := sumQ (map snd chs).

(* first channel whose cumulative propensity exceeds r *)
Fixpoint select (r : Qc) (chs : list (event * Qc)) : option event :=
  match chs with
  | [] => None
  | (e, a) :: rest => if Qcltb r a then Some e else select (r - a) rest
  end.

(* distance of r to the nearest boundary between two channels (to recognise draws that binary64 rounding could flip) *)
Fixpoint boundary_gap (r : Qc) (chs : list (event * Qc)) : Qc :=
  match chs with
  | [] => Qcabs r + 1
  | (e, a) :: rest => let g := Qcabs (r - a) in
                      if Qcltb r a then (if Qcleb (Qcabs r) g then Qcabs r else g)
                      else let g' := boundary_gap (r - a) rest in if Qcleb g g' then g else g'
  end.

Inductive draw := DComplete | DEvent (e : event) | DAmbiguous.

(* Gillespie: a0 = 0 -> complete; else r = u1 * a0 selects the event *)
Definition gillespie_draw (T : etab) (G : geom) (x : list Qc) (u1 : Qc) : draw :=
  let chs := channels T G x in
  let a0 := total_prop chs in
  if Qceqb a0 0 then DComplete
  else let r := u1 * a0 in
       if Qcleb (boundary_gap r chs) (p10 (-9) * a0) then DAmbiguous
       else match select r chs with Some e => DEvent e | None => DAmbiguous end.

(* tau-leap: every channel with a positive mean draws its number of firings, in scanning order *)
Fixpoint tauleap_counts (dt : Qc) (chs : list (event * Qc)) (us : list Qc) : option (list (event * Qc) * list Qc) :=
  match chs with
  | [] => Some ([], us)
  | (e, a) :: rest =>
      let mean := a * dt in
      if Qcltb 0 mean then
        if Qcleb (QcZ 12) mean then None                  (* the library switches to another algorithm: not replayed *)
        else match poisson_small mean us with
             | None => None
             | Some (n, us') =>
                 match tauleap_counts dt rest us' with
                 | None => None
                 | Some (evs, us'') => Some ((e, QcZ n) :: evs, us'')
                 end
             end
      else tauleap_counts dt rest us
  end.

Definition tauleap_step (T : etab) (G : geom) (dt : Qc) (x : list Qc) (us : list Qc) : option (list Qc * list Qc) :=
  match tauleap_counts dt (channels T G x) us with
  | None => None
  | Some (evs, us') => Some (apply_events T evs x, us')
  end.

(* an event that is possible in state x: enough reactant molecules and a non-zero constant / a molecule to move and a non-zero interface constant *)
Definition legal (T : etab) (G : geom) (x : list Qc) (e : event) : Prop :=
  match e with
  | EReact i r => (i < nC T)%nat /\ (r < nR T)%nat /\ mesh_kr T G i r <> 0 /\ forall s, (s < nS T)%nat -> QcZ (Sub T s r) <= X T x i s
  | EMove i s j => (i < nC T)%nat /\ (s < nS T)%nat /\ 1 <= X T x i s /\ exists k, In (j, k) (moves_of T G i s) /\ k <> 0
  end.
