(* Model of the operator suite of UnitValue / UnitArray (units.py): + - * / % ** neg abs and
   comparisons, including Python's reflected dispatch for a plain number on the left, the
   system in which the result is stored, and the conversion of the right operand.
   `eval` mirrors the code (works on stored values, converts with `factor`);
   `sem` is the reference semantics: arithmetic on SI values and dimension vectors. *)
From Verif Require Import Num Units.
Open Scope Qc_scope.

Inductive shape := Sc (x : Qc) | Ve (xs : list Qc).

(* un = None : a plain Python number (dimensionless in * /, takes the other operand's units in + - % cmp) *)
Record operand := { sh : shape; un : option (usys * dim) }.

Definition ONum (x : Qc) : operand := {| sh := Sc x; un := None |}.
Definition OVal (q : quantity) : operand := {| sh := Sc (qv q); un := Some (qu q, qd q) |}.
Definition OArr (a : qarray) : operand := {| sh := Ve (av a); un := Some (au a, ad a) |}.

Fixpoint zipQ (f : Qc -> Qc -> Qc) (l m : list Qc) : res (list Qc) :=
  match l, m with
  | [], [] => Ok []
  | a :: l', b :: m' => match zipQ f l' m' with Ok r => Ok (f a b :: r) | Err => Err end
  | _, _ => Err
  end.

(* broadcasting: scalar with array is element-wise; two arrays need the same length *)
Definition zip_shape (f : Qc -> Qc -> Qc) (a b : shape) : res shape :=
  match a, b with
  | Sc x, Sc y => Ok (Sc (f x y))
  | Sc x, Ve ys => Ok (Ve (map (fun y => f x y) ys))
  | Ve xs, Sc y => Ok (Ve (map (fun x => f x y) xs))
  | Ve xs, Ve ys => match zipQ f xs ys with Ok r => Ok (Ve r) | Err => Err end
  end.

Definition map_shape (f : Qc -> Qc) (a : shape) : shape :=
  match a with Sc x => Sc (f x) | Ve xs => Ve (map f xs) end.

Definition mk (s : res shape) (u : option (usys * dim)) : res operand :=
  match s with Ok s' => Ok {| sh := s'; un := u |} | Err => Err end.

Inductive binop := Add | Sub | Mul | Div | Mod.


(* ---- the implementation model: stored values, explicit conversion factors ---- *)
Definition bin_impl (op : binop) (a b : operand) : res operand :=
  match op, un a, un b with
  (* _sum: same dimension required; right operand converted into the left one's system *)
  | Add, Some (s1, d1), Some (s2, d2) =>
      if dim_eqb d1 d2 then mk (zip_shape (fun x y => x + y * factor s2 s1 d2) (sh a) (sh b)) (Some (s1, d1)) else Err
  | Add, Some u, None => mk (zip_shape (fun x y => x + y) (sh a) (sh b)) (Some u)
  | Add, None, Some u => mk (zip_shape (fun x y => y + x) (sh a) (sh b)) (Some u)            (* __radd__ *)
  | Sub, Some (s1, d1), Some (s2, d2) =>
      if dim_eqb d1 d2 then mk (zip_shape (fun x y => x + (- y) * factor s2 s1 d2) (sh a) (sh b)) (Some (s1, d1)) else Err
  | Sub, Some u, None => mk (zip_shape (fun x y => x + - y) (sh a) (sh b)) (Some u)
  | Sub, None, Some u => mk (zip_shape (fun x y => - (y + - x)) (sh a) (sh b)) (Some u)      (* __rsub__ *)
  (* _product: no dimension requirement; exponents add *)
  | Mul, Some (s1, d1), Some (s2, d2) =>
      mk (zip_shape (fun x y => x * (y * factor s2 s1 d2)) (sh a) (sh b)) (Some (s1, dim_add d1 d2))
  | Mul, Some u, None => mk (zip_shape (fun x y => x * y) (sh a) (sh b)) (Some u)
  | Mul, None, Some u => mk (zip_shape (fun x y => y * x) (sh a) (sh b)) (Some u)            (* __rmul__ *)
  (* truediv: product with the inverted right operand *)
  | Div, Some (s1, d1), Some (s2, d2) =>
      mk (zip_shape (fun x y => x * ((1 / y) * factor s2 s1 (dim_opp d2))) (sh a) (sh b)) (Some (s1, dim_add d1 (dim_opp d2)))
  | Div, Some u, None => mk (zip_shape (fun x y => x * (1 / y)) (sh a) (sh b)) (Some u)
  | Div, None, Some (s2, d2) => mk (zip_shape (fun x y => (1 / y) * x) (sh a) (sh b)) (Some (s2, dim_opp d2))  (* __rtruediv__ *)
  (* _modulo / _rmodulo *)
  | Mod, Some (s1, d1), Some (s2, d2) =>
      if dim_eqb d1 d2 then mk (zip_shape (fun x y => Qcmod x (y * factor s2 s1 d2)) (sh a) (sh b)) (Some (s1, d1)) else Err
  | Mod, Some u, None => mk (zip_shape (fun x y => Qcmod x y) (sh a) (sh b)) (Some u)
  | Mod, None, Some u => mk (zip_shape (fun x y => Qcmod x y) (sh a) (sh b)) (Some u)        (* __rmod__ *)
  (* two plain numbers: ordinary arithmetic *)
  | Add, None, None => mk (zip_shape Qcplus (sh a) (sh b)) None
  | Sub, None, None => mk (zip_shape Qcminus (sh a) (sh b)) None
  | Mul, None, None => mk (zip_shape Qcmult (sh a) (sh b)) None
  | Div, None, None => mk (zip_shape Qcdiv (sh a) (sh b)) None
  | Mod, None, None => mk (zip_shape Qcmod (sh a) (sh b)) None
  end.

Definition neg_impl (a : operand) : operand := {| sh := map_shape Qcopp (sh a); un := un a |}.
Definition abs_impl (a : operand) : operand := {| sh := map_shape Qcabs (sh a); un := un a |}.

(* ** with an integer exponent: only scalar quantities (UnitArray.__pow__ raises) *)
Definition pow_impl (a : operand) (n : Z) : res operand :=
  match sh a, un a with
  | Sc x, Some (s, d) => Ok {| sh := Sc (Qcpowz x n); un := Some (s, dim_scal n d) |}
  | Sc x, None => Ok {| sh := Sc (Qcpowz x n); un := None |}
  | Ve _, _ => Err
  end.

(* Units.raiseto with a rational exponent p/q: every resulting exponent must be an integer *)
Definition raiseto (d : dim) (p : Z) (q : positive) : res dim :=
  let ok k := Z.eqb ((p * k) mod Zpos q) 0 in
  if ok (dS d) && ok (dT d) && ok (dQ d)
  then Ok {| dS := p * dS d / Zpos q; dT := p * dT d / Zpos q; dQ := p * dQ d / Zpos q |}
  else Err.

Inductive cmpop := CEq | CNe | CLt | CLe | CGt | CGe.

Definition cmpQ (c : cmpop) (x y : Qc) : bool :=
  match c with
  | CEq => Qceqb x y | CNe => negb (Qceqb x y)
  | CLt => Qcltb x y | CLe => Qcleb x y | CGt => Qcltb y x | CGe => Qcleb y x
  end.

(* comparisons between scalars; a plain number on the left is dispatched to the reflected method *)
Definition cmp_impl (c : cmpop) (a b : operand) : res bool :=
  match sh a, sh b with
  | Sc x, Sc y =>
      match un a, un b with
      | Some (s1, d1), Some (s2, d2) =>
          if dim_eqb d1 d2 then Ok (cmpQ c x (y * factor s2 s1 d2))
          else match c with CEq => Ok false | CNe => Ok true | _ => Err end
      | Some _, None => Ok (cmpQ c x y)
      | None, Some _ => Ok (cmpQ c x y)
      | None, None => Ok (cmpQ c x y)
      end
  | _, _ => Err
  end.

Inductive expr :=
| Leaf (o : operand)
| Bin (op : binop) (a b : expr)
| Neg (a : expr)
| Abs (a : expr)
| PowZ (a : expr) (n : Z).

Fixpoint eval (e : expr) : res operand :=
  match e with
  | Leaf o => Ok o
  | Bin op a b => match eval a, eval b with Ok x, Ok y => bin_impl op x y | _, _ => Err end
  | Neg a => match eval a with Ok x => Ok (neg_impl x) | Err => Err end
  | Abs a => match eval a with Ok x => Ok (abs_impl x) | Err => Err end
  | PowZ a n => match eval a with Ok x => pow_impl x n | Err => Err end
  end.

Definition eval_cmp (c : cmpop) (a b : expr) : res bool :=
  match eval a, eval b with Ok x, Ok y => cmp_impl c x y | _, _ => Err end.

(* ---- the reference semantics: SI values, dimension vectors ----
   An SI operand keeps, besides its SI value(s) and dimension, the system it is stored in: the
   unit of that system is what a plain number met by + - % or a comparison is read in; nothing
   else depends on it. *)
Record sval := { s_sh : shape; s_un : option (usys * dim) }.

Definition SIop (o : operand) : sval :=
  match un o with
  | Some (s, d) => {| s_sh := map_shape (fun x => x * scale s d) (sh o); s_un := Some (s, d) |}
  | None => {| s_sh := sh o; s_un := None |}
  end.

Definition mks (s : res shape) (u : option (usys * dim)) : res sval :=
  match s with Ok s' => Ok {| s_sh := s'; s_un := u |} | Err => Err end.

Definition bin_sem (op : binop) (a b : sval) : res sval :=
  match op, s_un a, s_un b with
  | Add, Some (s1, d1), Some (s2, d2) => if dim_eqb d1 d2 then mks (zip_shape Qcplus (s_sh a) (s_sh b)) (Some (s1, d1)) else Err
  | Add, Some (s, d), None => mks (zip_shape (fun x y => x + y * scale s d) (s_sh a) (s_sh b)) (Some (s, d))
  | Add, None, Some (s, d) => mks (zip_shape (fun x y => x * scale s d + y) (s_sh a) (s_sh b)) (Some (s, d))
  | Sub, Some (s1, d1), Some (s2, d2) => if dim_eqb d1 d2 then mks (zip_shape Qcminus (s_sh a) (s_sh b)) (Some (s1, d1)) else Err
  | Sub, Some (s, d), None => mks (zip_shape (fun x y => x - y * scale s d) (s_sh a) (s_sh b)) (Some (s, d))
  | Sub, None, Some (s, d) => mks (zip_shape (fun x y => x * scale s d - y) (s_sh a) (s_sh b)) (Some (s, d))
  | Mul, Some (s1, d1), Some (s2, d2) => mks (zip_shape Qcmult (s_sh a) (s_sh b)) (Some (s1, dim_add d1 d2))
  | Mul, Some u, None => mks (zip_shape Qcmult (s_sh a) (s_sh b)) (Some u)
  | Mul, None, Some u => mks (zip_shape Qcmult (s_sh a) (s_sh b)) (Some u)
  | Div, Some (s1, d1), Some (s2, d2) => mks (zip_shape Qcdiv (s_sh a) (s_sh b)) (Some (s1, dim_add d1 (dim_opp d2)))
  | Div, Some u, None => mks (zip_shape Qcdiv (s_sh a) (s_sh b)) (Some u)
  | Div, None, Some (s, d) => mks (zip_shape Qcdiv (s_sh a) (s_sh b)) (Some (s, dim_opp d))
  | Mod, Some (s1, d1), Some (s2, d2) => if dim_eqb d1 d2 then mks (zip_shape Qcmod (s_sh a) (s_sh b)) (Some (s1, d1)) else Err
  | Mod, Some (s, d), None => mks (zip_shape (fun x y => Qcmod x (y * scale s d)) (s_sh a) (s_sh b)) (Some (s, d))
  | Mod, None, Some (s, d) => mks (zip_shape (fun x y => Qcmod (x * scale s d) y) (s_sh a) (s_sh b)) (Some (s, d))
  | Add, None, None => mks (zip_shape Qcplus (s_sh a) (s_sh b)) None
  | Sub, None, None => mks (zip_shape Qcminus (s_sh a) (s_sh b)) None
  | Mul, None, None => mks (zip_shape Qcmult (s_sh a) (s_sh b)) None
  | Div, None, None => mks (zip_shape Qcdiv (s_sh a) (s_sh b)) None
  | Mod, None, None => mks (zip_shape Qcmod (s_sh a) (s_sh b)) None
  end.

Definition neg_sem (a : sval) : sval := {| s_sh := map_shape Qcopp (s_sh a); s_un := s_un a |}.
Definition abs_sem (a : sval) : sval := {| s_sh := map_shape Qcabs (s_sh a); s_un := s_un a |}.
Definition pow_sem (a : sval) (n : Z) : res sval :=
  match s_sh a, s_un a with
  | Sc x, Some (s, d) => Ok {| s_sh := Sc (Qcpowz x n); s_un := Some (s, dim_scal n d) |}
  | Sc x, None => Ok {| s_sh := Sc (Qcpowz x n); s_un := None |}
  | Ve _, _ => Err
  end.

Definition cmp_sem (c : cmpop) (a b : sval) : res bool :=
  match s_sh a, s_sh b with
  | Sc x, Sc y =>
      match s_un a, s_un b with
      | Some (s1, d1), Some (s2, d2) =>
          if dim_eqb d1 d2 then Ok (cmpQ c x y)
          else match c with CEq => Ok false | CNe => Ok true | _ => Err end
      | Some (s, d), None => Ok (cmpQ c x (y * scale s d))
      | None, Some (s, d) => Ok (cmpQ c (x * scale s d) y)
      | None, None => Ok (cmpQ c x y)
      end
  | _, _ => Err
  end.

Definition map_res {A B} (f : A -> B) (r : res A) : res B := match r with Ok a => Ok (f a) | Err => Err end.

Fixpoint sem (e : expr) : res sval :=
  match e with
  | Leaf o => Ok (SIop o)
  | Bin op a b => match sem a, sem b with Ok x, Ok y => bin_sem op x y | _, _ => Err end
  | Neg a => match sem a with Ok x => Ok (neg_sem x) | Err => Err end
  | Abs a => match sem a with Ok x => Ok (abs_sem x) | Err => Err end
  | PowZ a n => match sem a with Ok x => pow_sem x n | Err => Err end
  end.

Definition sem_cmp (c : cmpop) (a b : expr) : res bool :=
  match sem a, sem b with Ok x, Ok y => cmp_sem c x y | _, _ => Err end.
