(* Exact numbers used by every model: canonical rationals (Qc), integer powers, floor,
   absolute value, tolerant comparison, result type.  No proofs here (see Proofs/NumFacts.v). *)
From Coq Require Export ZArith QArith Qcanon Qabs Qround Qpower List Bool.
Export ListNotations.
Open Scope Qc_scope.

(* x^n for an integer exponent, through the standard library's Qpower. *)
Definition Qcpowz (x : Qc) (n : Z) : Qc := Q2Qc (Qpower (this x) n).

Definition Qcabs (x : Qc) : Qc := Q2Qc (Qabs (this x)).
Definition Qcfloor (x : Qc) : Z := Qfloor (this x).
Definition Qcleb (a b : Qc) : bool := Qle_bool (this a) (this b).
Definition Qceqb (a b : Qc) : bool := Qeq_bool (this a) (this b).
Definition Qcltb (a b : Qc) : bool := negb (Qcleb b a).
Definition QcZ (z : Z) : Qc := Q2Qc (inject_Z z).
Definition Qcfrac (p : Z) (q : positive) : Qc := Q2Qc (p # q).

Definition sumQ (l : list Qc) : Qc := fold_right Qcplus 0 l.
Definition prodQ (l : list Qc) : Qc := fold_right Qcmult 1 l.

(* |a - b| <= eps * mag  (mag = magnitude of the terms that were added to obtain the model value) *)
Definition close (eps mag a b : Qc) : bool := Qcleb (Qcabs (a - b)) (eps * mag).

(* Python's float modulo sign convention on exact numbers: a - b*floor(a/b), b <> 0 *)
Definition Qcmod (a b : Qc) : Qc := a - b * QcZ (Qcfloor (a / b)).

Inductive res (A : Type) : Type := Ok (a : A) | Err.
Arguments Ok {A} a.
Arguments Err {A}.

Definition bind {A B} (r : res A) (f : A -> res B) : res B :=
  match r with Ok a => f a | Err => Err end.
Definition is_ok {A} (r : res A) : bool := match r with Ok _ => true | Err => false end.

Definition tabulate {A} (n : nat) (f : nat -> A) : list A := map f (seq 0 n).

Fixpoint forall2b {A B} (f : A -> B -> bool) (l : list A) (m : list B) : bool :=
  match l, m with
  | [], [] => true
  | a :: l', b :: m' => f a b && forall2b f l' m'
  | _, _ => false
  end.

Definition ten : Qc := QcZ 10.
Definition p10 (n : Z) : Qc := Qcpowz ten n.
