(* C08: the whole engine state = sampling machine x (chemical state + random generator state).
   One iteration acts on the second component by a function `chem_step` of that component alone -
   this is the modelling assumption that the C++ iteration reads nothing but the simulation object
   (no static variable, no clock, no uninitialised memory); the correspondence check tests it. *)
From Verif Require Import Num Sampling.
Open Scope Qc_scope.

Section WithChem.
  Variable X : Type.                 (* mesh_x, rng, propensity tables ... *)
  Variable chem_step : X -> X.       (* Compute + Apply of one iteration, including the random draws *)

  Definition full := (sim * X)%type.

  Definition fiterate (dt : Qc) (f : full) : full :=
    let (s, x) := f in
    if s_complete s then (iterate (Some dt) s, x) else (iterate (Some dt) s, chem_step x).

  Fixpoint fiterate_n (dt : Qc) (k : nat) (f : full) : full :=
    match k with
    | O => f
    | S k' => let f' := fiterate dt f in if s_complete (fst f') then f' else fiterate_n dt k' f'
    end.

  (* run(ms): at least one iteration, then as many more as the wall clock allows (j, chosen by an oracle), stopping at completion *)
  Definition frun (dt : Qc) (j : nat) (f : full) : full := fiterate_n dt (S j) f.

  Inductive sched := SIterate | SIterateN (k : nat) | SRun (j : nat).
  Definition do_sched (dt : Qc) (f : full) (c : sched) : full :=
    match c with SIterate => fiterate dt f | SIterateN k => fiterate_n dt k f | SRun j => frun dt j f end.
  Definition do_scheds (dt : Qc) (cs : list sched) (f : full) : full := fold_left (do_sched dt) cs f.

  Definition budget (c : sched) : nat := match c with SIterate => 1 | SIterateN k => k | SRun j => S j end.
  Definition total_budget (cs : list sched) : nat := fold_right (fun c n => (budget c + n)%nat) 0%nat cs.

  Fixpoint fiter (dt : Qc) (n : nat) (f : full) : full :=
    match n with O => f | S n' => fiter dt n' (fiterate dt f) end.

  (* observable part: everything except the "sampled during this iteration" flag *)
  Definition obs (f : full) : sim * X := (reset_done (fst f), snd f).
End WithChem.
