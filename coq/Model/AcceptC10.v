(* Correspondence verdict for C10: observed outcomes of a call history against the per-object
   specification; a disagreement that the single-global-simulation model reproduces exactly is
   tagged (known architectural finding F13: engine objects share one native simulation). *)
From Verif Require Import Num Decode Sampling Lifecycle Simulate.
Open Scope Qc_scope.

Definition outcome_eqb (m o : outcome) : bool :=
  match m, o with
  | OUnit, OUnit => true
  | OBool a, OBool b => Bool.eqb a b
  | ONum a, ONum b => Qcleb (Qcabs (a - b)) (p10 (-9) * (Qcabs a + Qcabs b))
  | OOut ta na, OOut tb nb => forall2b Qceqb ta tb && Nat.eqb na nb
  | _, _ => false
  end.

(* the implementation model may predict undefined behaviour: from there on anything can be observed *)
Fixpoint impl_matches (m o : list outcome) : bool :=
  match m, o with
  | [], [] => true
  | OUB :: _, _ => true
  | a :: m', b :: o' => outcome_eqb a b && impl_matches m' o'
  | _ :: m', [] => existsb (fun x => match x with OUB => true | _ => false end) m'    (* the process died before reporting *)
  | _, _ => false
  end.

Definition accept_C10 (h : list lcall) (obs : list outcome) : verdict :=
  let spec := spec_run world0 h in
  let ok := forall2b outcome_eqb spec obs in
  let two := existsb (fun c => obj_eqb (target c) B) h && existsb (fun c => obj_eqb (target c) A) h in
  if ok then (true, if two then 2%nat else 1%nat)
  else (false, if two && impl_matches (impl_run gworld0 h) obs then 64%nat else 3%nat).

(* whole runs: (dt, t_max, fixed-step?) against (iterations until iterate() reported completion, is_complete(), anything moved
   afterwards); None = the run did not return *)
Definition accept_C10_run (c : Qc * Qc * bool) (o : option (nat * bool * bool)) : verdict :=
  let '(dt, tmax, fixed) := c in
  match o with
  | None => (false, 5%nat)
  | Some (n, complete, moved) =>
      let s := run_fixed dt n (sim_init NoSampling [] 1 tmax) in
      let ok_fixed := s_complete s && Nat.eqb (s_step s) n && negb (s_complete (run_fixed dt (Nat.pred n) (sim_init NoSampling [] 1 tmax))) in
      ((if fixed then ok_fixed && complete else true) && negb moved, if fixed then 6%nat else 7%nat)
  end.

(* simulate_script: the calls it makes on (proxies of) its engines over a sequence of invocations, with what they returned, against
   the specification run of the modelled history.  Every run(1000) of these small scripts reaches completion in its first call:
   one iterate_n of more iterations than any of them needs. *)
Definition tag_of (c : lcall) : nat :=
  match c with
  | LSetup _ _ => 0 | LIterate _ => 1 | LIterateN _ _ => 2 | LRun _ => 3 | LSample _ => 4 | LProgress _ => 5 | LIsComplete _ => 6
  | LGetOutput _ => 7 | LFinalize _ => 8
  end%nat.
Definition accept_C10_simulate (invs : list (obj * script * bool)) (obs : list (nat * outcome)) : verdict :=
  let h := flat_map (fun i : obj * script * bool => let '(e, sc, pr) := i in simulate_history e sc pr [1000%nat]) invs in
  if negb (forall2b Nat.eqb (map tag_of h) (map fst obs)) then (false, 21%nat)
  else (forall2b outcome_eqb (spec_run world0 h) (map snd obs), 20%nat).
