(* Initial-state processing of engine.cpp (the engineexport_initialize functions): modes none / Poisson / redist (auto).
   Input: the real-valued state as the Python side hands it over (species-major), already in engine units.
   Output: the cell-major state the simulation starts from.  Integer amounts are Z, real ones Qc.
   `GenerateStochasticDistribution` is modelled on per-species columns for the correction loop. *)
From Verif Require Import Num Engine Prng.
Open Scope Qc_scope.

Inductive mode := MNone | MPoisson | MRedist.

(* PoissonSample: mean <= 0 gives 0 and draws nothing; 0 < mean < 12 is the library's small-mean algorithm; larger means are
   not modelled (None) *)
Definition poisson_sample (mean : Qc) (us : list Qc) : option (Z * list Qc) :=
  if Qcltb 0 mean then (if Qcltb mean (QcZ 12) then poisson_small mean us else None) else Some (0%Z, us).

Fixpoint poisson_all (xs : list Qc) (us : list Qc) : option (list Z * list Qc) :=
  match xs with
  | [] => Some ([], us)
  | x :: xs' =>
      match poisson_sample x us with
      | None => None
      | Some (n, us') => match poisson_all xs' us' with None => None | Some (ns, us'') => Some (n :: ns, us'') end
      end
  end.

(* first index whose cumulative weight exceeds the target *)
Fixpoint pick (target : Qc) (w : list Qc) : option nat :=
  match w with
  | [] => None
  | a :: w' => if Qcltb target a then Some 0%nat else option_map S (pick (target - a) w')
  end.

Fixpoint bump (i : nat) (d : Z) (l : list Z) : list Z :=
  match l, i with
  | [], _ => []
  | a :: l', O => (a + d)%Z :: l'
  | a :: l', S i' => a :: bump i' d l'
  end.

Definition sumZ (l : list Z) : Z := fold_right Z.add 0%Z l.

(* removal: `delta` times, draw one of the molecules present (weights = current counts) and remove it *)
Fixpoint remove_n (delta : nat) (sto : list Z) (us : list Qc) : option (list Z * list Qc) :=
  match delta with
  | O => Some (sto, us)
  | S d =>
      match us with
      | [] => None
      | u :: us' =>
          match pick (u * QcZ (sumZ sto)) (map QcZ sto) with
          | None => None
          | Some i => remove_n d (bump i (-1) sto) us'
          end
      end
  end.

(* addition: `delta` times, draw a cell with the real-valued amounts as weights (target = u * floor(total)) and add a molecule *)
Fixpoint add_n (delta : nat) (x : list Qc) (tot : Z) (sto : list Z) (us : list Qc) : option (list Z * list Qc) :=
  match delta with
  | O => Some (sto, us)
  | S d =>
      match us with
      | [] => None
      | u :: us' =>
          match pick (u * QcZ tot) x with
          | None => None
          | Some i => add_n d x tot (bump i 1 sto) us'
          end
      end
  end.

(* step 5 for one species: x = its real-valued amounts per cell, sto = its Poisson-drawn counts *)
Definition correct_species (x : list Qc) (sto : list Z) (us : list Qc) : option (list Z * list Qc) :=
  let tot := Qcfloor (sumQ x) in
  let delta := (sumZ sto - tot)%Z in
  if Z.ltb 0 delta then remove_n (Z.to_nat delta) sto us
  else add_n (Z.to_nat (- delta)) x tot sto us.

Fixpoint correct_all (cols : list (list Qc * list Z)) (us : list Qc) : option (list (list Z) * list Qc) :=
  match cols with
  | [] => Some ([], us)
  | (x, sto) :: rest =>
      match correct_species x sto us with
      | None => None
      | Some (sto', us') => match correct_all rest us' with None => None | Some (r, us'') => Some (sto' :: r, us'') end
      end
  end.

Definition column {A} (d : A) (ns nc s : nat) (cm : list A) : list A := map (fun i => nth (i * ns + s) cm d) (seq 0 nc).
Definition of_columns (ns nc : nat) (cols : list (list Z)) : list Z :=
  flat_map (fun i => map (fun s => nth i (nth s cols []) 0%Z) (seq 0 ns)) (seq 0 nc).

(* the three modes; sm = species-major input; result cell-major *)
Definition init_state (m : mode) (ns nc : nat) (sm : list Qc) (us : list Qc) : option (list Qc) :=
  let cm := to_cell_major 0 ns nc sm in
  match m with
  | MNone => Some cm
  | MPoisson => match poisson_all cm us with None => None | Some (l, _) => Some (map QcZ l) end
  | MRedist =>
      match poisson_all cm us with
      | None => None
      | Some (sto, us') =>
          let cols := map (fun s => (column 0 ns nc s cm, column 0%Z ns nc s sto)) (seq 0 ns) in
          match correct_all cols us' with
          | None => None
          | Some (cols', _) => Some (map QcZ (of_columns ns nc cols'))
          end
      end
  end.
