(* Correspondence verdict for C11: the sanitizer build (ASan + UBSan + _GLIBCXX_ASSERTIONS) must report nothing wherever
   the model predicts no fault. *)
From Verif Require Import Num Decode Sampling Lifecycle Safety.

(* a call history: predicted safe iff the lifecycle model reaches no undefined behaviour *)
Definition accept_C11_history (h : list lcall) (observed_clean : bool) : verdict :=
  let predicted_safe := negb (existsb (fun o => match o with OUB => true | _ => false end) (impl_run gworld0 h)) in
  if predicted_safe then (observed_clean, 1%nat) else (true, 64%nat).     (* predicted UB: two objects sharing the simulation (F13) *)

(* a whole run of a valid script: always predicted safe *)
Definition accept_C11_run (ts : list Qc) (observed_clean : bool) : verdict :=
  let model_safe := match tsample_loop (S (length ts)) ts 0 0 with Fault => false | Safe _ => true end in
  (model_safe && observed_clean, 2%nat).
