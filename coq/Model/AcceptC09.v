(* Correspondence verdict for C09: the sampling / completion state machine against the engines. *)
From Verif Require Import Num Decode Sampling.
Open Scope Qc_scope.

Record c09_case := {
  c9_pol : policy; c9_ts : list Qc; c9_int : Qc; c9_tmax : Qc;
  c9_dt : Qc;                          (* fixed-step engines *)
  c9_calls : list call;                (* fixed-step engines: the calls made after setup *)
  c9_steps : list (option Qc)          (* Gillespie: the clock increment observed at each iterate() (None: completion without an event) *)
}.

Record c09_obs := {
  o9_times : list Qc;                  (* trajectory.t *)
  o9_flags : list bool;                (* is_complete() after each call *)
  o9_progress : list Qc;               (* get_progress() after each call *)
  o9_final_t : Qc;                     (* engine clock at the end *)
  o9_ndata : nat; o9_state_size : nat; (* len(trajectory.data), nspecies * ncells *)
  o9_content : list bool               (* record n holds the state the engine had at that record's time *)
}.

Fixpoint scan_calls (dt : Qc) (cs : list call) (s : sim) : list sim :=
  match cs with [] => [] | c :: cs' => let s' := do_call dt s c in s' :: scan_calls dt cs' s' end.
Fixpoint scan_steps (st : list (option Qc)) (s : sim) : list sim :=
  match st with [] => [] | x :: st' => let s' := iterate x s in s' :: scan_steps st' s' end.

Definition eqQ_list (a b : list Qc) : bool := forall2b Qceqb a b.
Definition close_list (a b : list Qc) : bool :=
  forall2b (fun x y => Qcleb (Qcabs (x - y)) (p10 (-9) * (Qcabs x + Qcabs y))) a b.

Definition accept_C09 (c : c09_case) (o : c09_obs) : verdict :=
  let s0 := sim_init (c9_pol c) (c9_ts c) (c9_int c) (c9_tmax c) in
  let trace := match c9_steps c with
               | [] => scan_calls (c9_dt c) (c9_calls c) s0
               | st => scan_steps st s0
               end in
  let sf := last trace s0 in
  let ok_times := eqQ_list (map fst (s_recs sf)) (o9_times o) in
  let ok_flags := forall2b Bool.eqb (map s_complete trace) (o9_flags o) in
  let ok_prog := close_list (map progress trace) (o9_progress o) in
  let ok_t := Qceqb (s_t sf) (o9_final_t o) in
  let ok_shape := Nat.eqb (o9_ndata o) (length (s_recs sf) * o9_state_size o) in
  let ok_content := forallb (fun b => b) (o9_content o) && Nat.eqb (length (o9_content o)) (length (s_recs sf)) in
  (ok_times && ok_flags && ok_prog && ok_t && ok_shape && ok_content,
   (1 + (if ok_times then 0 else 1) + (if ok_flags then 0 else 2) + (if ok_prog then 0 else 4) + (if ok_t then 0 else 8)
    + (if ok_shape then 0 else 16) + (if ok_content then 0 else 32))%nat).
