(* Correspondence verdict for C14: the recorded t = 0 state against the initial-state processing model (exact replay from
   the seed where the library's small-mean Poisson algorithm is the only sampler involved, the stated invariants otherwise). *)
From Verif Require Import Num Engine Prng InitState Decode.
Open Scope Qc_scope.

Record c14_case := { c14_ns : nat; c14_nc : nat; c14_sm : list Qc; c14_mode : mode; c14_seed : Z; c14_blocks : nat }.

Definition is_nonneg_int (q : Qc) : bool := Qcleb 0 q && Qceqb (QcZ (Qcfloor q)) q.

(* species-major helpers *)
Definition sm_species (nc s : nat) (x : list Qc) : list Qc := firstn nc (skipn (s * nc) x).

Definition invariants (c : c14_case) (obs : list Qc) : bool :=
  let ns := c14_ns c in let nc := c14_nc c in
  Nat.eqb (length obs) (ns * nc) &&
  match c14_mode c with
  | MNone => forall2b Qceqb (c14_sm c) obs
  | MPoisson => forallb is_nonneg_int obs && forall2b (fun a b => if Qceqb a 0 then Qceqb b 0 else true) (c14_sm c) obs
  | MRedist =>
      forallb is_nonneg_int obs && forall2b (fun a b => if Qceqb a 0 then Qceqb b 0 else true) (c14_sm c) obs
      && forallb (fun s => Qceqb (sumQ (sm_species nc s obs)) (QcZ (Qcfloor (sumQ (sm_species nc s (c14_sm c)))))) (seq 0 ns)
  end.

Definition accept_C14 (c : c14_case) (both : list Qc * list Qc) : verdict :=
  let obs := fst both in
  (* the second component is the t = 0 state of a second set-up of the same script in the same process: reproducible *)
  let inv := invariants c obs && forall2b Qceqb obs (snd both) in
  let us := uniforms (mt_outputs (c14_seed c) (c14_blocks c)) in
  match init_state (c14_mode c) (c14_ns c) (c14_nc c) (c14_sm c) us with
  | Some y => (inv && forall2b Qceqb y (to_cell_major 0 (c14_ns c) (c14_nc c) obs), 1%nat)
  | None => (inv, 2%nat)
  end.
