(* Correspondence verdict for C15: one case = one grid, observed through the public API. *)
From Verif Require Import Num Grid Decode.
Open Scope Z_scope.

Record c15_obs := {
  (* get_cell_coordinates(i), get_cell_index(i) for every integer i in [-2*size, 3*size) *)
  o_coords : list (res coord);
  o_index_lin : list (res Z);
  (* get_cell_index on triples / objects for x in [-1,w], y in [-1,h], z in [-1,d] (x fastest) *)
  o_index_tri : list (res Z);
  o_index_obj : list (res Z);
  o_nbrs : list (list Z);               (* get_neighbors(i), every cell *)
  o_are : list (list bool);             (* are_neighbors(a, b), every pair *)
  (* pure-diffusion probes with state x_c = 8^c and unit rate constant (None = not run) *)
  o_kin : option (list Z);              (* kinetics.compute_dstatedt on the grid *)
  o_eng : option (list Z);              (* (x1 - x0)/dt of one Euler engine step on the grid *)
  o_kin_graph : option (list Z);        (* kinetics on grid_to_graph(grid) *)
  o_eng_graph : option (list Z);        (* Euler engine on grid_to_graph(grid) *)
  (* grid_to_graph: nodes (volume, environment), edges (i, j, surface, distance) *)
  o_nodes : list (Qc * Z);
  o_edges : list (Z * Z * Qc * Qc)
}.

Record c15_case := { c_grid : grid; c_env : list Z; c_edge : Qc (* h, cell volume h^3 *) }.

Definition res_eqb {A} (eqb : A -> A -> bool) (a b : res A) : bool :=
  match a, b with Ok x, Ok y => eqb x y | Err, Err => true | _, _ => false end.

Definition same_multiset (size : Z) (l m : list Z) : bool :=
  Nat.eqb (length l) (length m) && forallb (fun b => Nat.eqb (countZ b l) (countZ b m)) (zrange size).

Definition probe_x (c : Z) : Z := 8 ^ c.
Definition diff_probe (nbrs : Z -> list Z) (b : Z) : Z :=
  fold_right Z.add 0 (map (fun a => probe_x a - probe_x b) (nbrs b)).

Definition list_eqb {A} (eqb : A -> A -> bool) (l m : list A) : bool := forall2b eqb l m.

Definition opt_check {A} (o : option A) (f : A -> bool) : bool := match o with None => true | Some a => f a end.

Definition triples (g : grid) : list coord :=
  flat_map (fun z => flat_map (fun y => map (fun x => (x - 1, y - 1, z - 1)) (zrange (gw g + 2)))
                                (zrange (gh g + 2))) (zrange (gd g + 2)).

Definition epsq : Qc := p10 (-9).
Definition closeq (model obs : Qc) : bool := close epsq (Qcabs model) model obs.

Definition accept_C15 (c : c15_case) (o : c15_obs) : verdict :=
  let g := c_grid c in
  let n := gsize g in
  let cells := zrange n in
  let probe := map (fun k => k - 2 * n) (zrange (5 * n)) in
  let ok_coords := list_eqb (res_eqb coord_eqb) (map (get_cell_coordinates g) probe) (o_coords o) in
  let ok_lin := list_eqb (res_eqb Z.eqb) (map (fun i => get_cell_index g (PIndex i)) probe) (o_index_lin o) in
  let tri := map (fun p => get_cell_index g (PCoord p)) (triples g) in
  let ok_tri := list_eqb (res_eqb Z.eqb) tri (o_index_tri o) && list_eqb (res_eqb Z.eqb) tri (o_index_obj o) in
  let ok_nbrs := list_eqb (same_multiset n) (map (py_get_neighbors g) cells) (o_nbrs o) in
  let ok_are := list_eqb (list_eqb Bool.eqb)
                  (map (fun a => map (fun b => match are_neighbors g a b with Ok r => r | Err => false end) cells) cells)
                  (o_are o) in
  let ok_kin := opt_check (o_kin o) (list_eqb Z.eqb (map (diff_probe (kin_neighbors g)) cells)) in
  let ok_eng := opt_check (o_eng o) (list_eqb Z.eqb (map (diff_probe (eng_neighbors g)) cells)) in
  let ok_king := opt_check (o_kin_graph o) (list_eqb Z.eqb (map (diff_probe (kin_neighbors g)) cells)) in
  let ok_engg := opt_check (o_eng_graph o) (list_eqb Z.eqb (map (diff_probe (eng_neighbors g)) cells)) in
  let h := c_edge c in
  let ok_nodes := list_eqb (fun (m : Qc * Z) (ob : Qc * Z) => closeq (fst m) (fst ob) && (snd m =? snd ob))
                    (map (fun e => (h * h * h, e)%Qc) (c_env c)) (o_nodes o) in
  let oe := map (fun e => (fst (fst (fst e)), snd (fst (fst e)))) (o_edges o) in
  let me := g2g_edges g in
  let ok_edges := Nat.eqb (length oe) (length me)
                  && forallb (fun a => forallb (fun b => Nat.eqb (edge_mult oe a b) (edge_mult me a b)) cells) cells
                  && forallb (fun e => closeq (h * h)%Qc (snd (fst e)) && closeq h (snd e)) (o_edges o) in
  (ok_coords && ok_lin && ok_tri && ok_nbrs && ok_are && ok_kin && ok_eng && ok_king && ok_engg && ok_nodes && ok_edges,
   (1 + (if ok_coords then 0 else 1) + (if ok_lin then 0 else 2) + (if ok_tri then 0 else 4) + (if ok_nbrs then 0 else 8)
    + (if ok_are then 0 else 16) + (if ok_kin then 0 else 32) + (if ok_eng then 0 else 64)
    + (if ok_king then 0 else 128) + (if ok_engg then 0 else 256) + (if ok_nodes then 0 else 512)
    + (if ok_edges then 0 else 1024))%nat).
