(* Object level of the dictionary I/O, for two kinds of objects: a units system (unitssystem_to_dict / unitssystem_from_dict) and a
   species (species_to_dict / species_from_dict with value_processing.format_unitvar_for_save / process_unitvar_input and
   retrive_units_system_from_dict).  Keys are those of the schemas translated from the source (Model/Schemas.v); values are JSON
   values; quantities travel as text, str(UnitValue).  float() / repr(float) are parameters. *)
From Coq Require Import NArith ZArith List Bool.
From Verif Require Import Num ReactionText Units UnitText Schemas Dict.
Import ListNotations.

Inductive jv := JStr (s : str) | JBool (b : bool) | JNull | JObj (d : list (str * jv)) | JArr (l : list jv) | JInt (z : Z) | JNum (t : str).

(* ---- units system ---- *)
Definition write_usys (wr : schema -> list (option jv) -> list (str * jv)) (u : usys) : jv :=
  JObj (wr schema_unitssystem [Some (JStr (sym_space (us u))); Some (JStr (sym_time (ut u))); Some (JStr (sym_amount (uq u)))]).

Definition read_usys (v : jv) : res usys :=
  match v with
  | JObj d =>
      match read_fields jv schema_unitssystem d with
      | Ok [Some (JStr a); Some (JStr b); Some (JStr c)] =>
          match classify a, classify b, classify c with
          | Some (KSpace s), Some (KTime t), Some (KAmount q) => Ok {| us := s; ut := t; uq := q |}
          | _, _, _ => Err
          end
      | _ => Err
      end
  | _ => Err
  end.

(* ---- species ---- *)
Section WithFloat.
  Variable F : Type.
  Variable parse_float : str -> option F.
  Variable print_float : F -> str.
  Variable zero : F.

  Definition qty := (F * (usys * dim))%type.                    (* value, units *)
  Inductive envv (A : Type) := EScalar (a : A) | EDict (m : list (str * A)).   (* one value, or one per environment label / "default" *)
  Arguments EScalar {A} a.
  Arguments EDict {A} m.

  Record species_obj := { so_label : str; so_D : envv qty; so_density : envv qty; so_chstt : envv bool; so_units : usys }.

  Definition print_qty (q : qty) : str := print_float (fst q) ++ [32%N] ++ print_units (fst (snd q)) (snd (snd q)).

  (* format_unitvar_for_save *)
  Definition write_envq (v : envv qty) : jv :=
    match v with
    | EScalar q => JStr (print_qty q)
    | EDict m => JObj (map (fun kq : str * qty => (fst kq, JStr (print_qty (snd kq)))) m)
    end.
  Definition write_envb (v : envv bool) : jv :=
    match v with
    | EScalar b => JBool b
    | EDict m => JObj (map (fun kb : str * bool => (fst kb, JBool (snd kb))) m)
    end.

  Variable wr : schema -> list (option jv) -> list (str * jv).    (* the generic writer: each present field under its primary key *)

  Definition write_species (s : species_obj) : jv :=
    JObj (wr schema_species [Some (JStr (so_label s)); Some (write_envq (so_D s)); Some (write_envq (so_density s));
                            Some (write_envb (so_chstt s)); Some (write_usys wr (so_units s))]).

  (* process_unitvar_input on what a dictionary can hold for a quantity field of dimension d: text (or a dictionary of texts) *)
  Definition read_qty (d : dim) (t : str) : res qty :=
    match parse_unitvalue F parse_float zero t with
    | Some (x, (u, d')) => if dim_eqb d' d then Ok (x, (u, d')) else Err
    | None => Err
    end.
  Fixpoint read_qdict (d : dim) (m : list (str * jv)) : res (list (str * qty)) :=
    match m with
    | [] => Ok []
    | (k, JStr t) :: rest =>
        match read_qty d t, read_qdict d rest with Ok q, Ok r => Ok ((k, q) :: r) | _, _ => Err end
    | _ :: _ => Err
    end.
  Definition read_envq (d : dim) (v : jv) : res (envv qty) :=
    match v with
    | JStr t => match read_qty d t with Ok q => Ok (EScalar q) | Err => Err end
    | JObj m => match read_qdict d m with Ok r => Ok (EDict r) | Err => Err end
    | _ => Err
    end.
  Fixpoint read_bdict (m : list (str * jv)) : res (list (str * bool)) :=
    match m with
    | [] => Ok []
    | (k, JBool b) :: rest => match read_bdict rest with Ok r => Ok ((k, b) :: r) | Err => Err end
    | _ :: _ => Err
    end.
  Definition read_envb (v : jv) : res (envv bool) :=
    match v with
    | JBool b => Ok (EScalar b)
    | JObj m => match read_bdict m with Ok r => Ok (EDict r) | Err => Err end
    | _ => Err
    end.

  Definition dimD : dim := {| dS := 2; dT := -1; dQ := 0 |}.
  Definition dimDensity : dim := {| dS := -3; dT := 0; dQ := 1 |}.
  Definition k_inherit : str := [105; 110; 104; 101; 114; 105; 116]%N.
  Definition k_default : str := [100; 101; 102; 97; 117; 108; 116]%N.

  (* retrive_units_system_from_dict(d, default = "inherit", parent) *)
  Definition read_units_field (parent : usys) (f : option jv) : res usys :=
    match f with
    | None => Ok parent
    | Some (JStr t) => if str_eqb t k_inherit then Ok parent else if str_eqb t k_default then Ok default_usys else Err
    | Some (JObj d) => read_usys (JObj d)
    | Some _ => Err
    end.

  Definition zero_qty (u : usys) (d : dim) : qty := (zero, (u, d)).

  (* species_from_dict + the Species constructor's defaults (D = 0, density = 0, chstt = False, in the species' units) *)
  Definition read_species (parent : usys) (v : jv) : res species_obj :=
    match v with
    | JObj d =>
        match read_fields jv schema_species d with
        | Ok [Some (JStr l); fD; fdens; fchs; funits] =>
            match read_units_field parent funits with
            | Ok u =>
                match (match fD with Some x => read_envq dimD x | None => Ok (EScalar (zero_qty u dimD)) end),
                      (match fdens with Some x => read_envq dimDensity x | None => Ok (EScalar (zero_qty u dimDensity)) end),
                      (match fchs with Some x => read_envb x | None => Ok (EScalar false) end) with
                | Ok D, Ok dens, Ok chs => Ok {| so_label := l; so_D := D; so_density := dens; so_chstt := chs; so_units := u |}
                | _, _, _ => Err
                end
            | Err => Err
            end
        | _ => Err
        end
    | _ => Err
    end.
  (* ---- reaction: reaction_to_dict / reaction_from_dict; the equation travels as Reaction.to_string() ---- *)
  Record reaction_obj := { ro_label : option str; ro_eq : side * side; ro_kf : envv qty; ro_kr : envv qty; ro_units : usys }.

  Definition kdim_of (n : Z) : dim := {| dS := 3 * n - 3; dT := -1; dQ := 1 - n |}%Z.

  Definition write_reaction (r : reaction_obj) : jv :=
    JObj (wr schema_reaction [Some (JStr (print_eq (ro_eq r))); Some (match ro_label r with Some l => JStr l | None => JNull end);
                             Some (write_envq (ro_kf r)); Some (write_envq (ro_kr r)); Some (write_usys wr (ro_units r))]).

  Definition read_label (f : option jv) : res (option str) :=
    match f with
    | None | Some JNull => Ok None
    | Some (JStr l) => if valid_label l then Ok (Some l) else Err       (* assert_string_is_a_valid_label *)
    | Some _ => Err
    end.

  Definition read_reaction (parent : usys) (v : jv) : res reaction_obj :=
    match v with
    | JObj d =>
        match read_fields jv schema_reaction d with
        | Ok [Some (JStr t); flabel; fkf; fkr; funits] =>
            match parse_eq t, read_label flabel, read_units_field parent funits with
            | Some e, Ok l, Ok u =>
                match (match fkf with Some x => read_envq (kdim_of (side_order (fst e))) x | None => Ok (EScalar (zero_qty u (kdim_of (side_order (fst e))))) end),
                      (match fkr with Some x => read_envq (kdim_of (side_order (snd e))) x | None => Ok (EScalar (zero_qty u (kdim_of (side_order (snd e))))) end) with
                | Ok kf, Ok kr => Ok {| ro_label := l; ro_eq := e; ro_kf := kf; ro_kr := kr; ro_units := u |}
                | _, _ => Err
                end
            | _, _, _ => Err
            end
        | _ => Err
        end
    | _ => Err
    end.
  (* ---- network: rdnetwork_to_dict / rdnetwork_from_dict + RDNetwork's own validation ---- *)
  Record network_obj := { no_species : list species_obj; no_reactions : list reaction_obj; no_envs : list str; no_units : usys }.

  Definition write_network (n : network_obj) : jv :=
    JObj (wr schema_network [Some (JArr (map write_species (no_species n))); Some (JArr (map write_reaction (no_reactions n)));
                            Some (JArr (map JStr (no_envs n))); Some (write_usys wr (no_units n))]).

  Fixpoint read_list {A} (f : jv -> res A) (l : list jv) : res (list A) :=
    match l with
    | [] => Ok []
    | x :: rest => match f x, read_list f rest with Ok a, Ok r => Ok (a :: r) | _, _ => Err end
    end.

  Definition reaction_labels (rs : list reaction_obj) : list str :=
    flat_map (fun r => match ro_label r with Some l => [l] | None => [] end) rs.

  (* RDNetwork._assert_validity and the environments setter *)
  Definition network_valid (n : network_obj) : bool :=
    let sl := map so_label (no_species n) in
    nodupb sl && nodupb (reaction_labels (no_reactions n))
    && forallb (fun r => forallb (fun p : str * Z => mem_str (fst p) sl) (fst (ro_eq r) ++ snd (ro_eq r))) (no_reactions n)
    && negb (match no_envs n with [] => true | _ => false end) && forallb (fun e => negb (str_eqb e k_default)) (no_envs n).

  Definition read_network (parent : usys) (v : jv) : res network_obj :=
    match v with
    | JObj d =>
        match read_fields jv schema_network d with
        | Ok [Some (JArr sp); freac; fenv; funits] =>
            match read_units_field parent funits with
            | Ok u =>
                match read_list (read_species u) sp,
                      (match freac with None => Ok [] | Some (JArr l) => read_list (read_reaction u) l | Some _ => Err end),
                      (match fenv with None => Ok [[]] | Some (JArr l) => read_list (fun x => match x with JStr e => Ok e | _ => Err end) l | Some _ => Err end) with
                | Ok ss, Ok rs, Ok es =>
                    let n := {| no_species := ss; no_reactions := rs; no_envs := es; no_units := u |} in
                    if network_valid n then Ok n else Err
                | _, _, _ => Err
                end
            | Err => Err
            end
        | _ => Err
        end
    | _ => Err
    end.
  (* ---- grid space: rdgridspace_to_dict / rdgridspace_from_dict + the RDGridSpace constructor ---- *)
  Record grid_obj := { go_w : Z; go_h : Z; go_d : Z; go_env : list Z; go_vol : qty; go_per : bool * bool * bool; go_units : usys }.

  Definition k_grid : str := [103; 114; 105; 100]%N.
  Definition k_reflecting : str := [114; 101; 102; 108; 101; 99; 116; 105; 110; 103]%N.
  Definition k_periodical : str := [112; 101; 114; 105; 111; 100; 105; 99; 97; 108]%N.
  Definition k_x : str := [120%N].  Definition k_y : str := [121%N].  Definition k_z : str := [122%N].
  Definition bc_text (b : bool) : jv := JStr (if b then k_periodical else k_reflecting).
  Definition dimVolume : dim := {| dS := 3; dT := 0; dQ := 0 |}.

  Definition write_grid (g : grid_obj) : jv :=
    let '(bx, by_, bz) := go_per g in
    JObj (wr schema_grid [Some (JStr k_grid); Some (JInt (go_w g)); Some (JInt (go_h g)); Some (JInt (go_d g));
                         Some (JArr (map JInt (go_env g))); Some (JStr (print_qty (go_vol g)));
                         Some (JObj [(k_x, bc_text bx); (k_y, bc_text by_); (k_z, bc_text bz)]); Some (write_usys wr (go_units g))]).

  Definition read_size (f : option jv) : res Z :=
    match f with None => Ok 1%Z | Some (JInt z) => if (0 <? z)%Z then Ok z else Err | Some _ => Err end.

  (* set_boundary_conditions: every axis reflecting, then the given entries in order *)
  Fixpoint read_bc (m : list (str * jv)) (acc : bool * bool * bool) : res (bool * bool * bool) :=
    match m with
    | [] => Ok acc
    | (a, JStr c) :: rest =>
        let '(bx, by_, bz) := acc in
        match (if str_eqb c k_reflecting then Some false else if str_eqb c k_periodical then Some true else None) with
        | Some b => if str_eqb a k_x then read_bc rest (b, by_, bz) else if str_eqb a k_y then read_bc rest (bx, b, bz)
                    else if str_eqb a k_z then read_bc rest (bx, by_, b) else Err
        | None => Err
        end
    | _ :: _ => Err
    end.

  Variable one : F.      (* the text of the default cell volume, 1 *)

  Definition read_grid (parent : usys) (v : jv) : res grid_obj :=
    match v with
    | JObj dct =>
        match read_fields jv schema_grid dct with
        | Ok [_; fw; fh; fd; fenv; fvol; fbc; funits] =>
            match read_units_field parent funits, read_size fw, read_size fh, read_size fd with
            | Ok u, Ok w, Ok h, Ok d =>
                let size := (w * h * d)%Z in
                match (match fenv with
                       | None => Ok (repeat 0%Z (Z.to_nat size))
                       | Some (JInt e) => Ok (repeat e (Z.to_nat size))
                       | Some (JArr l) => match read_list (fun x => match x with JInt e => Ok e | _ => Err end) l with
                                          | Ok es => if (Z.of_nat (length es) =? size)%Z then Ok es else Err
                                          | Err => Err end
                       | Some _ => Err end),
                      (match fvol with None => Ok (one, (u, dimVolume)) | Some (JStr t) => read_qty dimVolume t | Some _ => Err end),
                      (match fbc with None => Ok (false, false, false) | Some (JObj m) => read_bc m (false, false, false) | Some _ => Err end) with
                | Ok env, Ok vol, Ok per => Ok {| go_w := w; go_h := h; go_d := d; go_env := env; go_vol := vol; go_per := per; go_units := u |}
                | _, _, _ => Err
                end
            | _, _, _, _ => Err
            end
        | _ => Err
        end
    | _ => Err
    end.
  (* ---- graph space: rdgraphspace{node,edge,}_to_dict / _from_dict; a node or edge states its units only when they differ from the graph's ---- *)
  Record node_obj := { nd_vol : qty; nd_env : Z; nd_units : usys }.
  Record edge_obj := { ed_i : Z; ed_j : Z; ed_sf : qty; ed_ds : qty; ed_units : usys }.
  Record graph_obj := { gr_nodes : list node_obj; gr_edges : list edge_obj; gr_units : usys }.

  Definition k_graph : str := [103; 114; 97; 112; 104]%N.
  Definition dimSurface : dim := {| dS := 2; dT := 0; dQ := 0 |}.
  Definition dimLength : dim := {| dS := 1; dT := 0; dQ := 0 |}.
  Definition usys_same (a b : usys) : bool := space_eqb (us a) (us b) && time_eqb (ut a) (ut b) && amount_eqb (uq a) (uq b).
  Definition units_if_differs (u parent : usys) : option jv := if usys_same u parent then None else Some (write_usys wr u).

  Definition write_node (parent : usys) (n : node_obj) : jv :=
    JObj (wr schema_node [Some (JStr (print_qty (nd_vol n))); Some (JInt (nd_env n)); units_if_differs (nd_units n) parent]).
  Definition write_edge (parent : usys) (e : edge_obj) : jv :=
    JObj (wr schema_edge [Some (JArr [JInt (ed_i e); JInt (ed_j e)]); Some (JStr (print_qty (ed_sf e))); Some (JStr (print_qty (ed_ds e)));
                         units_if_differs (ed_units e) parent]).
  Definition write_graph (g : graph_obj) : jv :=
    JObj (wr schema_graph [Some (JStr k_graph); Some (JArr (map (write_node (gr_units g)) (gr_nodes g)));
                          Some (JArr (map (write_edge (gr_units g)) (gr_edges g))); Some (write_usys wr (gr_units g))]).

  Definition read_node (parent : usys) (v : jv) : res node_obj :=
    match v with
    | JObj dct =>
        match read_fields jv schema_node dct with
        | Ok [fvol; fenv; funits] =>
            match read_units_field parent funits with
            | Ok u =>
                match (match fvol with None => Ok (one, (u, dimVolume)) | Some (JStr t) => read_qty dimVolume t | Some _ => Err end),
                      (match fenv with None => Ok 0%Z | Some (JInt e) => Ok e | Some _ => Err end) with
                | Ok vol, Ok env => Ok {| nd_vol := vol; nd_env := env; nd_units := u |}
                | _, _ => Err
                end
            | Err => Err
            end
        | _ => Err
        end
    | _ => Err
    end.

  Definition read_edge (parent : usys) (v : jv) : res edge_obj :=
    match v with
    | JObj dct =>
        match read_fields jv schema_edge dct with
        | Ok [Some (JArr (JInt i :: JInt j :: _)); fsf; fds; funits] =>
            match read_units_field parent funits with
            | Ok u =>
                match (match fsf with None => Ok (one, (u, dimSurface)) | Some (JStr t) => read_qty dimSurface t | Some _ => Err end),
                      (match fds with None => Ok (one, (u, dimLength)) | Some (JStr t) => read_qty dimLength t | Some _ => Err end) with
                | Ok sf, Ok ds => Ok {| ed_i := i; ed_j := j; ed_sf := sf; ed_ds := ds; ed_units := u |}
                | _, _ => Err
                end
            | Err => Err
            end
        | _ => Err
        end
    | _ => Err
    end.

  Definition read_graph (parent : usys) (v : jv) : res graph_obj :=
    match v with
    | JObj dct =>
        match read_fields jv schema_graph dct with
        | Ok [_; Some (JArr ns); Some (JArr es); funits] =>
            match read_units_field parent funits with
            | Ok u =>
                match read_list (read_node u) ns, read_list (read_edge u) es with
                | Ok nodes, Ok edges => Ok {| gr_nodes := nodes; gr_edges := edges; gr_units := u |}
                | _, _ => Err
                end
            | Err => Err
            end
        | _ => Err
        end
    | _ => Err
    end.
  (* ---- system: rdsystem_to_dict / rdsystem_from_dict (network and space given in line, state and chemostat map given) ---- *)
  Inductive space_obj := SpGrid (g : grid_obj) | SpGraph (g : graph_obj).
  Record system_obj := { sy_net : network_obj; sy_space : space_obj; sy_state : list F * (usys * dim); sy_chs : list Z; sy_units : usys }.

  Definition k_type : str := [116; 121; 112; 101]%N.
  Definition dimAmount : dim := {| dS := 0; dT := 0; dQ := 1 |}.

  Definition write_space (sp : space_obj) : jv := match sp with SpGrid g => write_grid g | SpGraph g => write_graph g end.
  (* unitarray_to_dict *)
  Definition write_unitarray (a : list F * (usys * dim)) : jv :=
    JObj (wr schema_unitarray [Some (JArr (map (fun x => JNum (print_float x)) (fst a))); Some (JStr (print_units (fst (snd a)) (snd (snd a))))]).
  Definition write_system (s : system_obj) : jv :=
    JObj (wr schema_system [Some (write_network (sy_net s)); Some (write_space (sy_space s)); Some (write_unitarray (sy_state s));
                           Some (JArr (map JInt (sy_chs s))); Some (write_usys wr (sy_units s))]).

  (* rdspace_from_dict: the raw dictionary's "type" decides (absent: a grid) *)
  Definition read_space (parent : usys) (v : jv) : res space_obj :=
    match v with
    | JObj dct =>
        match find (fun kv : str * jv => str_eqb (fst kv) k_type) dct with
        | None => match read_grid parent v with Ok g => Ok (SpGrid g) | Err => Err end
        | Some (_, JStr t) =>
            if str_eqb t k_grid then match read_grid parent v with Ok g => Ok (SpGrid g) | Err => Err end
            else if str_eqb t k_graph then match read_graph parent v with Ok g => Ok (SpGraph g) | Err => Err end
            else Err
        | Some _ => Err
        end
    | _ => Err
    end.

  (* unitarray_from_dict, then the state setter: an amount *)
  Definition read_unitarray (d : dim) (v : jv) : res (list F * (usys * dim)) :=
    match v with
    | JObj dct =>
        match read_fields jv schema_unitarray dct with
        | Ok [Some (JArr xs); Some (JStr t)] =>
            match read_list (fun x => match x with JNum n => match parse_float n with Some f => Ok f | None => Err end | _ => Err end) xs, parse_units t with
            | Ok vals, Some (u, d') => if dim_eqb d' d then Ok (vals, (u, d')) else Err
            | _, _ => Err
            end
        | _ => Err
        end
    | _ => Err
    end.

  Definition space_envs (sp : space_obj) : list Z := match sp with SpGrid g => go_env g | SpGraph g => map nd_env (gr_nodes g) end.

  Definition read_system (parent : usys) (v : jv) : res system_obj :=
    match v with
    | JObj dct =>
        match read_fields jv schema_system dct with
        | Ok [Some fnet; Some fsp; Some fstate; Some (JArr fchs); funits] =>
            match read_units_field parent funits with
            | Ok u =>
                match read_network u fnet, read_space u fsp, read_unitarray dimAmount fstate,
                      read_list (fun x => match x with JInt z => Ok z | JBool b => Ok (if b then 1%Z else 0%Z) | _ => Err end) fchs with
                | Ok net, Ok sp, Ok st, Ok chs =>
                    if forallb (fun e => (0 <=? e)%Z && (e <? Z.of_nat (length (no_envs net)))%Z) (space_envs sp)
                    then Ok {| sy_net := net; sy_space := sp; sy_state := st; sy_chs := chs; sy_units := u |} else Err
                | _, _, _, _ => Err
                end
            | Err => Err
            end
        | _ => Err
        end
    | _ => Err
    end.
  (* ---- script: rdscript_to_dict / rdscript_from_dict (the seed given; without one the constructor draws it) ---- *)
  Record script_obj := { sc_system : system_obj; sc_tsample : list F * (usys * dim); sc_dt : qty; sc_tmax : option qty; sc_policy : str;
                         sc_interval : qty; sc_seed : Z; sc_init : str; sc_units : usys }.
  Variable milli : F.    (* the text of the default time step, 1e-3 *)

  Definition dimTime : dim := {| dS := 0; dT := 1; dQ := 0 |}.
  Definition policies : list str :=
    [[111; 110; 95; 116; 95; 115; 97; 109; 112; 108; 101]; [111; 110; 95; 105; 116; 101; 114; 97; 116; 105; 111; 110];
     [111; 110; 95; 105; 110; 116; 101; 114; 118; 97; 108]; [110; 111; 95; 115; 97; 109; 112; 108; 105; 110; 103]]%N.   (* on_t_sample on_iteration on_interval no_sampling *)
  Definition init_modes : list str := [[97; 117; 116; 111]; [110; 111; 110; 101]; [80; 111; 105; 115; 115; 111; 110]; [114; 101; 100; 105; 115; 116]]%N.   (* auto none Poisson redist *)

  (* the t_max property: the value given, else the last requested time in the requested times' own units *)
  Definition effective_tmax (s : script_obj) : qty :=
    match sc_tmax s with Some q => q | None => (last (fst (sc_tsample s)) zero, snd (sc_tsample s)) end.

  Definition write_script (s : script_obj) : jv :=
    JObj (wr schema_script [Some (write_system (sc_system s)); Some (write_unitarray (sc_tsample s)); Some (JStr (print_qty (sc_dt s)));
                           Some (JStr (print_qty (effective_tmax s))); Some (JStr (sc_policy s)); Some (JStr (print_qty (sc_interval s)));
                           Some (JInt (sc_seed s)); Some (JStr (sc_init s)); Some (write_usys wr (sc_units s))]).

  Definition read_script (v : jv) : res script_obj :=
    match v with
    | JObj dct =>
        match read_fields jv schema_script dct with
        | Ok [Some fsys; Some fts; fdt; ftmax; fpol; fint; Some (JInt seed); finit; funits] =>
            match (match funits with None => Ok default_usys | x => read_units_field default_usys x end) with      (* default = "default" *)
            | Ok u =>
                match read_system u fsys, read_unitarray dimTime fts,
                      (match fdt with None => Ok (milli, (u, dimTime)) | Some (JStr t) => read_qty dimTime t | Some _ => Err end),
                      (match ftmax with None => Ok None | Some (JStr t) => match read_qty dimTime t with Ok q => Ok (Some q) | Err => Err end | Some _ => Err end),
                      (match fint with None => Ok (one, (u, dimTime)) | Some (JStr t) => read_qty dimTime t | Some _ => Err end) with
                | Ok sy, Ok ts, Ok dt, Ok tmax, Ok itv =>
                    let pol := match fpol with Some (JStr p) => Some p | None => Some (hd [] policies) | Some _ => None end in
                    let ini := match finit with Some (JStr p) => Some p | None => Some (hd [] init_modes) | Some _ => None end in
                    match pol, ini with
                    | Some p, Some m =>
                        if mem_str p policies && mem_str m init_modes
                        then Ok {| sc_system := sy; sc_tsample := ts; sc_dt := dt; sc_tmax := tmax; sc_policy := p; sc_interval := itv;
                                   sc_seed := seed; sc_init := m; sc_units := u |}
                        else Err
                    | _, _ => Err
                    end
                | _, _, _, _, _ => Err
                end
            | Err => Err
            end
        | _ => Err
        end
    | _ => Err
    end.
  (* ---- trajectory: the dictionary save_rdtrajectory writes (data in line) and load_rdtrajectory reads; the loader indexes the parsed
     JSON object directly: no aliases, unknown keys ignored, `cgmap` optional ---- *)
  Record trajectory_obj := { tr_script : script_obj; tr_system : system_obj; tr_data : list F * (usys * dim); tr_t : list F * (usys * dim);
                             tr_descr : str; tr_option : str; tr_cgmap : option (list Z) }.

  Definition write_trajectory (t : trajectory_obj) : jv :=
    JObj (wr schema_trajectory [option_map (fun m => JArr (map JInt m)) (tr_cgmap t); Some (write_unitarray (tr_data t)); Some (JStr (tr_descr t));
                               Some (JStr (tr_option t)); Some (write_script (tr_script t)); Some (write_system (tr_system t));
                               Some (write_unitarray (tr_t t))]).

  Definition read_trajectory (v : jv) : res trajectory_obj :=
    match v with
    | JObj dct =>
        match map (fun syn => field jv syn dct) schema_trajectory with
        | [fcg; Some fdata; Some (JStr descr); Some (JStr opt); Some fscript; Some fsys; Some ft] =>
            match read_script fscript, read_system default_usys fsys, read_unitarray dimAmount fdata, read_unitarray dimTime ft,
                  (match fcg with None | Some JNull => Ok None
                   | Some (JArr l) => match read_list (fun x => match x with JInt z => Ok z | _ => Err end) l with Ok m => Ok (Some m) | Err => Err end
                   | Some _ => Err end) with
            | Ok sc, Ok sy, Ok data, Ok ts, Ok cg =>
                Ok {| tr_script := sc; tr_system := sy; tr_data := data; tr_t := ts; tr_descr := descr; tr_option := opt; tr_cgmap := cg |}
            | _, _, _, _, _ => Err
            end
        | _ => Err
        end
    | _ => Err
    end.
End WithFloat.

(* ---- executable comparison of JSON values, for the correspondence ---- *)
(* JSON objects are compared as key -> value maps (the order of keys is not part of a JSON object) *)
Fixpoint jv_eqb (a b : jv) : bool :=
  match a, b with
  | JStr s, JStr t => str_eqb s t
  | JBool x, JBool y => Bool.eqb x y
  | JNull, JNull => true
  | JInt x, JInt y => Z.eqb x y
  | JNum x, JNum y => str_eqb x y
  | JArr l, JArr m =>
      (fix go (l m : list jv) : bool :=
         match l, m with
         | [], [] => true
         | x :: l', y :: m' => jv_eqb x y && go l' m'
         | _, _ => false
         end) l m
  | JObj d, JObj e =>
      Nat.eqb (length d) (length e) &&
      (fix all (d : list (str * jv)) : bool :=
         match d with
         | [] => true
         | (k, v) :: d' =>
             (fix look (e : list (str * jv)) : bool :=
                match e with
                | [] => false
                | (k', v') :: e' => if str_eqb k k' then jv_eqb v v' else look e'
                end) e && all d'
         end) d
  | _, _ => false
  end.
