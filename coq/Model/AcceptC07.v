(* Correspondence verdict for C07: exact replay of a stochastic engine run from its seed.
   The harness passes the sequence of engine states (after every iteration) and clock values; the model derives
   the uniforms from the seed (Model/Prng.v), predicts every event / every firing count (Model/StochStep.v)
   and compares.  Replay continues from the OBSERVED state, so one disagreement does not cascade. *)
From Verif Require Import Num Units Grid System Engine EngineBuild Stochastic Prng StochStep Decode AcceptC06 AcceptC05 AcceptC01.
Open Scope Qc_scope.

Record c07_case := {
  c7_sys : system; c7_ue : usys; c7_edges : list quantity; c7_chs : list bool;   (* species-major flags *)
  c7_dt : Qc; c7_gillespie : bool; c7_seed : Z; c7_blocks : nat
}.

Definition eq_state (a b : list Qc) : bool := forall2b Qceqb a b.

(* exp(-a0 (d + delta)) <= u2 <= exp(-a0 (d - delta)) *)
Definition waiting_ok (a0 d t' u2 : Qc) : bool :=
  let delta := d * Qcpowz (QcZ 2) (-40) + Qcabs t' * Qcpowz (QcZ 2) (-49) in
  let dm := if Qcltb delta d then d - delta else 0 in
  let (lo1, _) := exp_neg_enclosure (a0 * (d + delta)) in
  let (_, hi2) := exp_neg_enclosure (a0 * dm) in
  Qcleb lo1 u2 && Qcleb u2 hi2.

(* result: (number of steps verified, code)  code 1 = every observed step verified, 2 = stopped at an ambiguous draw,
   3 = stopped at a mean >= 12 / stream exhausted, 0 = disagreement *)
Fixpoint replay_g (T : etab) (G : geom) (x : list Qc) (t : Qc) (rest : list (list Qc * Qc)) (us : list Qc) (n : nat) : nat * nat :=
  match rest with
  | [] => (n, 1%nat)
  | (x', t') :: rest' =>
      match us with
      | u1 :: u2 :: us' =>
          match gillespie_draw T G x u1 with
          | DComplete => (n, 0%nat)                      (* the engine moved although nothing can happen *)
          | DAmbiguous => (n, 2%nat)
          | DEvent e =>
              if eq_state (apply_event T x (e, 1)) x' && Qcltb t t' && waiting_ok (total_prop (channels T G x)) (t' - t) t' u2
              then replay_g T G x' t' rest' us' (S n) else (n, 0%nat)
          end
      | _ => (n, 3%nat)
      end
  end.

Fixpoint replay_t (T : etab) (G : geom) (dt : Qc) (x : list Qc) (rest : list (list Qc * Qc)) (us : list Qc) (n : nat) : nat * nat :=
  match rest with
  | [] => (n, 1%nat)
  | (x', _) :: rest' =>
      match tauleap_step T G dt x us with
      | None => (n, 3%nat)
      | Some (x'', us') => if eq_state x'' x' then replay_t T G dt x' rest' us' (S n) else (n, 0%nat)
      end
  end.

Definition accept_C07 (c : c07_case) (obs : list (list Qc * Qc)) : verdict :=
  let T := build_tables (c7_sys c) (c7_ue c) (c7_chs c) in
  let G := build_geom (sy_space (c7_sys c)) (c7_edges c) (c7_ue c) in
  let ns := nS T in let nc := nC T in
  let cm := map (fun p : list Qc * Qc => (to_cell_major 0 ns nc (fst p), snd p)) obs in
  let us := uniforms (mt_outputs (c7_seed c) (c7_blocks c)) in
  match cm with
  | [] => (true, 0%nat)
  | (x0, t0) :: rest =>
      let '(n, code) := if c7_gillespie c then replay_g T G x0 t0 rest us 0 else replay_t T G (c7_dt c) x0 rest us 0 in
      (negb (Nat.eqb code 0), (n + 1000 * code)%nat)
  end.
