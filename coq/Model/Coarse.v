(* Coarse-graining of a grid system into a graph system and its inverse on trajectories (coarsegrain.py):
   check_index_map_validity, coarsegrain_grid, coarsegrain_system, uncoarsegrain_trajectory_data.
   The grid has reflecting boundaries; cells have edge h (volume h^3); positions are x*h, y*h, z*h. *)
From Verif Require Import Num Grid.
Open Scope Qc_scope.

Definition imap := list Z.                       (* group index of every cell; -1 = dropped *)
Definition grp (im : imap) (c : nat) : Z := nth c im (-1)%Z.
Definition ngroups (im : imap) : nat := Z.to_nat (fold_right Z.max (-1)%Z im + 1).
Definition cells (n : nat) : list nat := seq 0 n.
Definition members (im : imap) (n : nat) (g : nat) : list nat := filter (fun c => Z.eqb (grp im c) (Z.of_nat g)) (cells n).

(* the documented rules *)
Definition valid_map (im : imap) (n : nat) (env : list Z) : bool :=
  Nat.eqb (length im) n
  && forallb (fun z => Z.leb (-1) z) im
  && Nat.ltb 0 (ngroups im)
  && forallb (fun g => negb (match members im n g with [] => true | _ => false end)) (seq 0 (ngroups im))
  && forallb (fun g => match members im n g with
                       | [] => true
                       | c0 :: rest => forallb (fun c => Z.eqb (nth c env 0%Z) (nth c0 env 0%Z)) rest
                       end) (seq 0 (ngroups im)).

(* nodes: volume = sum of member volumes, environment = that of the members, centroid = mean member position *)
Definition node_volume (im : imap) (n : nat) (h : Qc) (g : nat) : Qc :=
  sumQ (map (fun _ => h * h * h) (members im n g)).
Definition node_env (im : imap) (n : nat) (env : list Z) (g : nat) : Z :=
  match rev (members im n g) with c :: _ => nth c env 0%Z | [] => 0%Z end.
Definition cell_pos (g : grid) (h : Qc) (c : nat) : Qc * Qc * Qc :=
  let '(x, y, z) := coords g (Z.of_nat c) in (QcZ x * h, QcZ y * h, QcZ z * h).
Definition centroid (g : grid) (im : imap) (n : nat) (h : Qc) (k : nat) : Qc * Qc * Qc :=
  let ms := members im n k in
  let cnt := QcZ (Z.of_nat (length ms)) in
  (sumQ (map (fun c => fst (fst (cell_pos g h c))) ms) / cnt,
   sumQ (map (fun c => snd (fst (cell_pos g h c))) ms) / cnt,
   sumQ (map (fun c => snd (cell_pos g h c)) ms) / cnt).

(* edges: the grid's adjacencies in grid_to_graph's order, merged by unordered group pair, surfaces added *)
Definition ekey := (Z * Z)%type.
Fixpoint add_surface (k : ekey) (s : Qc) (es : list (ekey * Qc)) : list (ekey * Qc) :=
  match es with
  | [] => [(k, s)]
  | (k', s') :: rest => if (fst k =? fst k')%Z && (snd k =? snd k')%Z then (k', s' + s) :: rest else (k', s') :: add_surface k s rest
  end.
Definition cg_edges (g : grid) (im : imap) (h : Qc) : list (ekey * Qc) :=
  fold_left (fun es (e : Z * Z) =>
               let i := grp im (Z.to_nat (fst e)) in let j := grp im (Z.to_nat (snd e)) in
               if (i =? j)%Z || (i =? -1)%Z || (j =? -1)%Z then es
               else add_surface (Z.min i j, Z.max i j) (h * h) es)
            (g2g_edges g) [].
Definition dist2 (p q : Qc * Qc * Qc) : Qc :=
  let '(a, b, c) := p in let '(a', b', c') := q in (a - a') * (a - a') + (b - b') * (b - b') + (c - c') * (c - c').

(* state and flags, species-major: entry s * G + g *)
Definition cg_state (im : imap) (n ns : nat) (x : list Qc) : list Qc :=
  flat_map (fun s => map (fun g => sumQ (map (fun c => nth (s * n + c) x 0) (members im n g))) (seq 0 (ngroups im))) (seq 0 ns).
Definition cg_flags (im : imap) (n ns : nat) (ch : list bool) : list bool :=
  flat_map (fun s => map (fun g =>
      Z.ltb 0 (Z.min (fold_right Z.add 0%Z (map (fun c => if nth (s * n + c) ch false then 1%Z else 0%Z) (members im n g))) 1))
      (seq 0 (ngroups im))) (seq 0 ns).

(* un-coarse-graining one sample (species-major, G groups) onto the n cells *)
Definition uncg_sample (im : imap) (n ns : nat) (v : list Qc) : list Qc :=
  let G := ngroups im in
  flat_map (fun s => map (fun c =>
      let k := grp im c in
      if (k <? 0)%Z then 0
      else nth (s * G + Z.to_nat k) v 0 / QcZ (Z.of_nat (length (members im n (Z.to_nat k))))) (cells n)) (seq 0 ns).
