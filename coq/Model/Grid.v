(* Model of grid geometry: rdgridspace.py (index/coordinates, bounds, get_neighbors,
   are_neighbors), the neighbour candidates of kinetics.py, GetNeighborIndex of the C++ engine,
   and grid_to_graph of coarsegrain.py.  All relations are defined on coordinates and composed
   with the index map, exactly as the code does. *)
From Verif Require Import Num.
Open Scope Z_scope.

Record grid := { gw : Z; gh : Z; gd : Z; px : bool; py : bool; pz : bool }.

Definition gsize (g : grid) : Z := gw g * gh g * gd g.
Definition wf_grid (g : grid) : Prop := 0 < gw g /\ 0 < gh g /\ 0 < gd g.

Definition coord := (Z * Z * Z)%type.

(* get_cell_index on a triple *)
Definition index (g : grid) (p : coord) : Z :=
  let '(x, y, z) := p in z * (gw g * gh g) + y * gw g + x.

(* get_cell_coordinates *)
Definition coords (g : grid) (i : Z) : coord :=
  (i mod gw g, (i mod (gw g * gh g)) / gw g, i / (gw g * gh g)).

Definition in_grid (g : grid) (p : coord) : bool :=
  let '(x, y, z) := p in
  (0 <=? x) && (x <? gw g) && (0 <=? y) && (y <? gh g) && (0 <=? z) && (z <? gd g).

Definition in_range (g : grid) (i : Z) : bool := (0 <=? i) && (i <? gsize g).

(* positions in the forms the API accepts *)
Inductive position := PIndex (i : Z) | PCoord (p : coord).

(* is_within_bounds / get_cell_index: positions outside the grid are rejected *)
Definition get_cell_index (g : grid) (p : position) : res Z :=
  match p with
  | PIndex i => if in_range g i then Ok i else Err
  | PCoord c => if in_grid g c then Ok (index g c) else Err
  end.

Definition get_cell_coordinates (g : grid) (i : Z) : res coord :=
  if in_range g i then Ok (coords g i) else Err.

(* ---- one axis ---- *)
Definition opt_list {A} (b : bool) (a : A) : list A := if b then [a] else [].

(* rdgridspace.get_neighbors, one axis, in the code's order of tests *)
Definition axis_py (n : Z) (per : bool) (x : Z) : list Z :=
  opt_list (0 <? x) (x - 1) ++ opt_list (x <? n - 1) (x + 1)
  ++ opt_list (per && (x =? 0)) (n - 1) ++ opt_list (per && (x =? n - 1)) 0.

(* engine GetNeighborIndex: wrap whenever periodic (also for n = 1), then range test *)
Definition wrap_eng (n : Z) (per : bool) (y : Z) : Z := if per then (n + y) mod n else y.
Definition axis_eng1 (n : Z) (per : bool) (x d : Z) : option Z :=
  let y := wrap_eng n per (x + d) in if (0 <=? y) && (y <? n) then Some y else None.
Definition olist {A} (o : option A) : list A := match o with Some a => [a] | None => [] end.
Definition axis_eng (n : Z) (per : bool) (x : Z) : list Z :=
  olist (axis_eng1 n per x 1) ++ olist (axis_eng1 n per x (-1)).

(* kinetics._compute_dspeciesdt_grid: wrap only when periodic and n > 1 *)
Definition wrap_kin (n : Z) (per : bool) (y : Z) : Z := if per && (1 <? n) then (n + y) mod n else y.
Definition axis_kin1 (n : Z) (per : bool) (x d : Z) : option Z :=
  let y := wrap_kin n per (x + d) in if (0 <=? y) && (y <? n) then Some y else None.
Definition axis_kin (n : Z) (per : bool) (x : Z) : list Z :=
  olist (axis_kin1 n per x 1) ++ olist (axis_kin1 n per x (-1)).

(* are_neighbors, one axis distance *)
Definition axis_dist (n : Z) (per : bool) (x x' : Z) : Z :=
  let dx := Z.abs (x - x') in if per then Z.min dx (Z.abs (n - dx)) else dx.

(* ---- three axes ---- *)
Definition lift_x (p : coord) (l : list Z) : list coord := let '(x, y, z) := p in map (fun a => (a, y, z)) l.
Definition lift_y (p : coord) (l : list Z) : list coord := let '(x, y, z) := p in map (fun a => (x, a, z)) l.
Definition lift_z (p : coord) (l : list Z) : list coord := let '(x, y, z) := p in map (fun a => (x, y, a)) l.

(* get_neighbors in the code's order: x-1, y-1, z-1, x+1, y+1, z+1, then the periodic closures *)
Definition py_nbrs_c (g : grid) (p : coord) : list coord :=
  let '(x, y, z) := p in
  opt_list (0 <? x) (x - 1, y, z) ++ opt_list (0 <? y) (x, y - 1, z) ++ opt_list (0 <? z) (x, y, z - 1)
  ++ opt_list (x <? gw g - 1) (x + 1, y, z) ++ opt_list (y <? gh g - 1) (x, y + 1, z)
  ++ opt_list (z <? gd g - 1) (x, y, z + 1)
  ++ opt_list (px g && (x =? 0)) (gw g - 1, y, z) ++ opt_list (py g && (y =? 0)) (x, gh g - 1, z)
  ++ opt_list (pz g && (z =? 0)) (x, y, gd g - 1)
  ++ opt_list (px g && (x =? gw g - 1)) (0, y, z) ++ opt_list (py g && (y =? gh g - 1)) (x, 0, z)
  ++ opt_list (pz g && (z =? gd g - 1)) (x, y, 0).

Definition py_get_neighbors (g : grid) (i : Z) : list Z := map (index g) (py_nbrs_c g (coords g i)).

(* engine: direction 0..5 = +x -x +y -y +z -z; the wrap is applied to all three coordinates *)
Definition dir_delta (dir : nat) : coord :=
  match dir with
  | 0%nat => (1, 0, 0) | 1%nat => (-1, 0, 0) | 2%nat => (0, 1, 0)
  | 3%nat => (0, -1, 0) | 4%nat => (0, 0, 1) | _ => (0, 0, -1)
  end.
Definition opp_dir (dir : nat) : nat :=
  match dir with 0 => 1 | 1 => 0 | 2 => 3 | 3 => 2 | 4 => 5 | _ => 4 end%nat.

Definition eng_nbr_c (g : grid) (p : coord) (dir : nat) : option coord :=
  let '(x, y, z) := p in
  let '(dx, dy, dz) := dir_delta dir in
  let q := (wrap_eng (gw g) (px g) (x + dx), wrap_eng (gh g) (py g) (y + dy), wrap_eng (gd g) (pz g) (z + dz)) in
  if in_grid g q then Some q else None.

(* mesh_neighbors[i*6+dir], with -1 as None *)
Definition engine_nbr (g : grid) (i : Z) (dir : nat) : option Z :=
  option_map (index g) (eng_nbr_c g (coords g i) dir).

Definition dirs : list nat := [0; 1; 2; 3; 4; 5]%nat.
Definition eng_nbrs_c (g : grid) (p : coord) : list coord :=
  flat_map (fun dir => olist (eng_nbr_c g p dir)) dirs.

(* kinetics: six candidates in the order +x -x +y -y +z -z, wrap (n > 1 only), bounds filter *)
Definition kin_nbr_c (g : grid) (p : coord) (dir : nat) : option coord :=
  let '(x, y, z) := p in
  let '(dx, dy, dz) := dir_delta dir in
  let q := (wrap_kin (gw g) (px g) (x + dx), wrap_kin (gh g) (py g) (y + dy), wrap_kin (gd g) (pz g) (z + dz)) in
  if in_grid g q then Some q else None.
Definition kin_nbrs_c (g : grid) (p : coord) : list coord :=
  flat_map (fun dir => olist (kin_nbr_c g p dir)) dirs.
Definition kin_neighbors (g : grid) (i : Z) : list Z := map (index g) (kin_nbrs_c g (coords g i)).
(* engine neighbour table row of cell i as a list of indices (absent neighbours dropped) *)
Definition eng_neighbors (g : grid) (i : Z) : list Z := map (index g) (eng_nbrs_c g (coords g i)).

(* are_neighbors *)
Definition are_nb_c (g : grid) (p q : coord) : bool :=
  let '(x, y, z) := p in let '(x', y', z') := q in
  (axis_dist (gw g) (px g) x x' + axis_dist (gh g) (py g) y y' + axis_dist (gd g) (pz g) z z' =? 1).
Definition are_neighbors (g : grid) (a b : Z) : res bool :=
  if in_range g a && in_range g b then Ok (are_nb_c g (coords g a) (coords g b)) else Err.

(* ---- grid_to_graph: edge list (i, j) in the code's order; all with surface h^2, distance h ---- *)
Definition zrange (n : Z) : list Z := map Z.of_nat (seq 0 (Z.to_nat n)).

Definition g2g_edges (g : grid) : list (Z * Z) :=
  flat_map (fun z => flat_map (fun y => flat_map (fun x =>
      opt_list (x <? gw g - 1) (index g (x, y, z), index g (x + 1, y, z))
   ++ opt_list (y <? gh g - 1) (index g (x, y, z), index g (x, y + 1, z))
   ++ opt_list (z <? gd g - 1) (index g (x, y, z), index g (x, y, z + 1)))
   (zrange (gw g))) (zrange (gh g))) (zrange (gd g))
  ++ (if px g then flat_map (fun z => map (fun y => (index g (gw g - 1, y, z), index g (0, y, z))) (zrange (gh g))) (zrange (gd g)) else [])
  ++ (if py g then flat_map (fun z => map (fun x => (index g (x, gh g - 1, z), index g (x, 0, z))) (zrange (gw g))) (zrange (gd g)) else [])
  ++ (if pz g then flat_map (fun y => map (fun x => (index g (x, y, gd g - 1), index g (x, y, 0))) (zrange (gw g))) (zrange (gh g)) else []).

(* multiplicity of b among a list *)
Definition countZ (b : Z) (l : list Z) : nat := length (filter (Z.eqb b) l).
Definition coord_eqb (p q : coord) : bool :=
  let '(x, y, z) := p in let '(x', y', z') := q in (x =? x') && (y =? y') && (z =? z').
Definition countC (q : coord) (l : list coord) : nat := length (filter (coord_eqb q) l).

(* number of graph edges joining a and b (either orientation) *)
Definition edge_mult (es : list (Z * Z)) (a b : Z) : nat :=
  length (filter (fun e => ((fst e =? a) && (snd e =? b)) || ((fst e =? b) && (snd e =? a))) es).
