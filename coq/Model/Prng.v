(* The random number machinery the engines rely on, as executable definitions:
   std::mt19937 (C++11 [rand.eng.mers], parameters of mt19937), libstdc++'s
   generate_canonical<double,53> on it (two draws, sum rounded to binary64, divided by 2^64),
   libstdc++'s poisson_distribution<int> for means below 12 (product of uniforms against
   exp(-mean)), and a fixed-point enclosure of exp(-y) used to decide that comparison.
   Used by the correspondence checks of C07 / C14 (exact replay of an engine run from its seed). *)
From Coq Require Import NArith.
From Verif Require Import Num.
Open Scope N_scope.

Definition w32 : N := 4294967296.
Definition mask32 (x : N) : N := N.land x 4294967295.

(* ---- seeding: x0 = seed mod 2^32; x_i = 1812433253 * (x_{i-1} xor (x_{i-1} >> 30)) + i  mod 2^32 ---- *)
Fixpoint mt_seed_from (n : nat) (i prev : N) : list N :=
  match n with
  | O => []
  | S n' => let x := mask32 (1812433253 * (N.lxor prev (N.shiftr prev 30)) + i) in x :: mt_seed_from n' (i + 1) x
  end.
Definition mt_seed (seed : Z) : list N :=
  let x0 := Z.to_N (Z.modulo seed 4294967296) in x0 :: mt_seed_from 623 1 x0.

(* ---- one regeneration of the 624 words ---- *)
Definition tw (a b : N) : N :=
  let y := N.lor (N.land a 2147483648) (N.land b 2147483647) in
  N.lxor (N.shiftr y 1) (if N.odd y then 2567483615 else 0).

Fixpoint map3 (f : N -> N -> N -> N) (a b c : list N) : list N :=
  match a, b, c with
  | x :: a', y :: b', z :: c' => f x y z :: map3 f a' b' c'
  | _, _, _ => []
  end.

Definition mt_twist (old : list N) : list N :=
  let step m a b := N.lxor m (tw a b) in
  let o1 := skipn 1 old in
  (* new[0..226] from old[397..623] *)
  let p1 := map3 step (skipn 397 old) (firstn 227 old) (firstn 227 o1) in
  (* new[227..453] from new[0..226] *)
  let p2 := map3 step p1 (firstn 227 (skipn 227 old)) (firstn 227 (skipn 227 o1)) in
  (* new[454..622] from new[227..395] *)
  let p3 := map3 step (firstn 169 p2) (firstn 169 (skipn 454 old)) (firstn 169 (skipn 454 o1)) in
  (* new[623] from new[396] = p2[169], old[623], new[0] *)
  let last := step (nth 169 p2 0) (nth 623 old 0) (nth 0 p1 0) in
  p1 ++ p2 ++ p3 ++ [last].

Definition temper (y : N) : N :=
  let y := N.lxor y (N.shiftr y 11) in
  let y := N.lxor y (N.land (mask32 (N.shiftl y 7)) 2636928640) in
  let y := N.lxor y (N.land (mask32 (N.shiftl y 15)) 4022730752) in
  N.lxor y (N.shiftr y 18).

(* the first 624 * blocks outputs of mt19937(seed) *)
Fixpoint mt_blocks (blocks : nat) (st : list N) : list N :=
  match blocks with
  | O => []
  | S b => let st' := mt_twist st in map temper st' ++ mt_blocks b st'
  end.
Definition mt_outputs (seed : Z) (blocks : nat) : list N := mt_blocks blocks (mt_seed seed).

(* ---- generate_canonical<double,53>: RN53(lo + hi * 2^32) / 2^64, clamped below 1 ---- *)
Definition round53 (v : N) : N :=
  let bits := N.size v in
  if bits <=? 53 then v
  else
    let sh := bits - 53 in
    let q := N.shiftr v sh in
    let r := v - N.shiftl q sh in
    let half := N.shiftl 1 (sh - 1) in
    let q' := if (half <? r) || ((half =? r) && N.odd q) then q + 1 else q in
    N.shiftl q' sh.

Definition two64 : positive := 18446744073709551616.
Definition canon (lo hi : N) : Qc :=
  let v := round53 (lo + hi * w32) in
  if (Z.of_N v <? Zpos two64)%Z then Q2Qc (Z.of_N v # two64)
  else Q2Qc ((9007199254740991 # 9007199254740992)).          (* nextafter(1, 0) = 1 - 2^-53 *)

Fixpoint uniforms (draws : list N) : list Qc :=
  match draws with
  | lo :: hi :: rest => canon lo hi :: uniforms rest
  | _ => []
  end.

(* ---- enclosure of exp(-y), y >= 0: fixed point with P fractional bits ---- *)
Definition P : N := 160.
Definition one : N := N.shiftl 1 P.
Definition mul_dn (a b : N) : N := N.shiftr (a * b) P.
Definition mul_up (a b : N) : N := N.shiftr (a * b) P + 1.

(* sum_{i<n} z^i / i!, lower and upper, z in fixed point, z <= 1/2 *)
Fixpoint exp_terms (n : nat) (i : N) (zlo zhi tlo thi slo shi : N) : N * N * N :=
  match n with
  | O => (slo, shi, thi)
  | S n' =>
      let tlo' := mul_dn tlo zlo / i in
      let thi' := mul_up thi zhi / i + 1 in
      exp_terms n' (i + 1) zlo zhi tlo' thi' (slo + tlo') (shi + thi')
  end.

Fixpoint square_n (k : nat) (lo hi : N) : N * N :=
  match k with O => (lo, hi) | S k' => square_n k' (mul_dn lo lo) (mul_up hi hi) end.

(* lo <= exp(-y) <= hi as rationals *)
Definition exp_neg_enclosure (y : Qc) : Qc * Qc :=
  let yq := this y in
  let num := Z.to_N (Qnum yq) in let den := Npos (Qden yq) in
  (* k halvings so that y / 2^k <= 1/2 *)
  let k := N.to_nat (N.size (2 * num / den + 1)) in
  let d2 := den * N.shiftl 1 (N.of_nat k) in
  let zlo := N.shiftl num P / d2 in
  let zhi := zlo + 1 in
  let '(slo, shi, tlast) := exp_terms 40 1 zlo zhi one one one one in
  let elo := slo in let ehi := shi + tlast + 1 in           (* exp(z) in [elo, ehi] (remaining terms: geometric, ratio <= 1/2) *)
  let '(Elo, Ehi) := square_n k elo ehi in                  (* exp(y) *)
  let two2P := N.shiftl 1 (2 * P) in
  let rlo := two2P / Ehi in let rhi := two2P / Elo + 1 in   (* exp(-y) in fixed point *)
  (Q2Qc (Z.of_N rlo # N.succ_pos (N.pred (N.shiftl 1 P)))%Q, Q2Qc (Z.of_N rhi # N.succ_pos (N.pred (N.shiftl 1 P)))%Q).

(* ---- poisson_distribution<int>, mean < 12: count uniforms until their product drops to exp(-mean) or below ----
   returns (count, remaining uniforms); None = the stream ran out, or the comparison falls inside the enclosure (ambiguous) *)
Fixpoint poisson_loop (fuel : nat) (thr_lo thr_hi prod : Qc) (x : Z) (us : list Qc) : option (Z * list Qc) :=
  match fuel, us with
  | S f, u :: us' =>
      let prod' := (prod * u)%Qc in
      if Qcltb thr_hi prod' then poisson_loop f thr_lo thr_hi prod' (x + 1) us'
      else if Qcleb prod' thr_lo then Some (x, us')
      else None
  | _, _ => None
  end.
Definition poisson_small (mean : Qc) (us : list Qc) : option (Z * list Qc) :=
  let (lo, hi) := exp_neg_enclosure mean in
  (* widen by 2^-48 relative: the library compares against a binary64 exp, and multiplies in binary64 *)
  let eps := Q2Qc (1 # 281474976710656) in
  poisson_loop 200 (lo * (1 - eps))%Qc (hi * (1 + eps))%Qc 1%Qc 0%Z us.
