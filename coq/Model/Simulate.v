(* simulate.py: the calls simulate_script makes on its engine, as a lifecycle history (Model/Lifecycle.v).
   engine.run(1000) iterates for a second of wall time, at least once, and stops at completion: an iterate_n of some k+1 >= 1
   (iterate_n stops after the iteration that reports completion, further iterations of a completed simulation change nothing).
   The number of run calls and the iterations inside each are whatever the clock made them: the lists `ks` below. *)
From Coq Require Import List Bool.
From Verif Require Import Num Sampling Lifecycle.
Import ListNotations.

Definition opt_call (b : bool) (c : lcall) : list lcall := if b then [c] else [].

(* simulate_script(script, engine, print_progress, cgmap=None) *)
Definition simulate_history (e : obj) (sc : script) (print_progress : bool) (ks : list nat) : list lcall :=
  LSetup e sc       (* then `_print_progress(0)`: the literal 0, not a query of the engine *)
  :: flat_map (fun k => LIterateN e (S k) :: opt_call print_progress (LProgress e)) ks
  ++ [LGetOutput e; LFinalize e].

Record invocation := { i_engine : obj; i_script : script; i_progress : bool; i_runs : list nat }.
Definition invocation_history (i : invocation) : list lcall :=
  simulate_history (i_engine i) (i_script i) (i_progress i) (i_runs i).

(* the discipline under which engine objects may share a process: at most one of them holds a live simulation at a time *)
Fixpoint exclusive (own : option obj) (h : list lcall) : bool :=
  match h with
  | [] => true
  | c :: h' =>
      match c with
      | LSetup e _ => match own with None => exclusive (Some e) h' | Some o => obj_eqb o e && exclusive (Some e) h' end
      | LFinalize e => match own with None => exclusive None h' | Some o => obj_eqb o e && exclusive None h' end
      | _ => match own with Some o => obj_eqb o (target c) && exclusive own h' | None => false end
      end
  end.
