(* Correspondence verdict for C06: what the implementation returned versus the model. *)
From Verif Require Import Num Units Decode.
Open Scope Qc_scope.

Scheme Equality for space_u.
Scheme Equality for time_u.
Scheme Equality for amount_u.

Definition usys_eqb (a b : usys) : bool :=
  space_u_beq (us a) (us b) && time_u_beq (ut a) (ut b) && amount_u_beq (uq a) (uq b).

Inductive c06_case :=
| ConvScalar (v : Qc) (src : usys) (d : dim) (dst : usys) (tdim : option dim)
| ConvArray (vs : list Qc) (src : usys) (d : dim) (dst : usys) (tdim : option dim)
| ConvVia (v : Qc) (src : usys) (d : dim) (via dst : usys)
| DerivedVol (sym : volume_sym) (e : Z) (dst : usys)
| DerivedMol (sym : molar_sym) (e : Z) (dst : usys).

Inductive c06_obs :=
| ORaise
| OScalar (v : Qc) (s : usys) (d : dim)
| OArray (vs : list Qc) (s : usys) (d : dim)
(* parse_units result (system, dimension) and the value of 1 unit converted to dst *)
| OParsed (ps : usys) (pd : dim) (v : Qc).

Definition eps12 : Qc := p10 (-12).

Definition closeq (model obs : Qc) : bool := close eps12 (Qcabs model) model obs.

Definition accept_C06 (c : c06_case) (o : c06_obs) : verdict :=
  match c with
  | ConvScalar v src d dst tdim =>
      let q := {| qv := v; qu := src; qd := d |} in
      let r := match tdim with None => Ok (convert q dst) | Some td => convert_to_units q dst td end in
      match r, o with
      | Err, ORaise => (true, 1%nat)
      | Ok q', OScalar v' s' d' =>
          (usys_eqb s' dst && dim_eqb d' d && closeq (qv q') v', 2%nat)
      | _, _ => (false, 0%nat)
      end
  | ConvArray vs src d dst tdim =>
      let a := {| av := vs; au := src; ad := d |} in
      let r := match tdim with None => Ok (convert_arr a dst) | Some td => convert_arr_to_units a dst td end in
      match r, o with
      | Err, ORaise => (true, 3%nat)
      | Ok a', OArray vs' s' d' =>
          (usys_eqb s' dst && dim_eqb d' d && forall2b closeq (av a') vs', 4%nat)
      | _, _ => (false, 0%nat)
      end
  | ConvVia v src d via dst =>
      let q := {| qv := v; qu := src; qd := d |} in
      match o with
      | OScalar v' s' d' =>
          (usys_eqb s' dst && dim_eqb d' d && closeq (qv (convert q dst)) v', 5%nat)
      | _ => (false, 0%nat)
      end
  | DerivedVol sym e dst =>
      let (s, d) := volume_units sym e in
      match o with
      | OParsed ps pd v => (usys_eqb ps s && dim_eqb pd d && closeq (factor s dst d) v, 6%nat)
      | _ => (false, 0%nat)
      end
  | DerivedMol sym e dst =>
      let (s, d) := molar_units sym e in
      match o with
      | OParsed ps pd v => (usys_eqb ps s && dim_eqb pd d && closeq (factor s dst d) v, 7%nat)
      | _ => (false, 0%nat)
      end
  end.
