(* Correspondence verdicts for C02 (conservation laws on trajectories), and for the trajectory /
   apply_reaction parts of C03. *)
From Verif Require Import Num Units Grid System Engine EngineBuild Decode AcceptC06 AcceptC05 AcceptC01.
Open Scope Qc_scope.

(* ---- C02 ---- *)
Record c02_case := {
  c2_sys : system; c2_ue : usys; c2_chs : list bool (* species-major *);
  c2_laws : list (list Z);          (* integer combinations of species offered by the harness *)
  c2_exact : bool;                  (* stochastic engines: totals must be exactly equal, in molecules *)
  c2_du : usys                      (* units the samples are reported in *)
}.

(* stochastic engines compute in molecules; the samples come back in the script's amount unit. A
   reported value is read back as the integer number of molecules it denotes (it must denote one,
   to 1e-6), and the totals of those integers are compared exactly. *)
Definition to_molecules (du ue : usys) (v : Qc) : option Qc :=
  let m := v * factor du ue dim_amount in
  let r := QcZ (Qcfloor (m + Qcfrac 1 2)) in
  if Qcleb (Qcabs (m - r)) (p10 (-6) * (1 + Qcabs m)) then Some r else None.
Definition sample_molecules (du ue : usys) (x : list Qc) : option (list Qc) :=
  fold_right (fun v acc => match to_molecules du ue v, acc with Some r, Some l => Some (r :: l) | _, _ => None end) (Some []) x.
Definition all_some {A} (l : list (option A)) : option (list A) :=
  fold_right (fun o acc => match o, acc with Some a, Some l => Some (a :: l) | _, _ => None end) (Some []) l.

Definition conservedb (T : etab) (c : list Z) : bool :=
  forallb (fun r => Z.eqb (fold_right Z.add 0%Z (map (fun s => (nth s c 0 * Sto T s r)%Z) (species_idx T))) 0)
          (reaction_idx T).

Definition unchemostatedb (T : etab) (c : list Z) : bool :=
  forallb (fun s => Z.eqb (nth s c 0%Z) 0 || forallb (fun i => negb (Chs T i s)) (cell_idx T)) (species_idx T).

(* total of c over a species-major sample, and the magnitude of its terms *)
Definition total_sm (ns nc : nat) (c : list Z) (x : list Qc) : Qc :=
  sumQ (map (fun s => QcZ (nth s c 0%Z) * sumQ (map (fun i => nth (s * nc + i) x 0) (seq 0 nc))) (seq 0 ns)).
Definition total_mag (ns nc : nat) (c : list Z) (x : list Qc) : Qc :=
  sumQ (map (fun s => Qcabs (QcZ (nth s c 0%Z)) * sumQ (map (fun i => Qcabs (nth (s * nc + i) x 0)) (seq 0 nc))) (seq 0 ns)).

Definition accept_C02 (c : c02_case) (samples : list (list Qc)) : verdict :=
  let T := build_tables (c2_sys c) (c2_ue c) (c2_chs c) in
  let ns := nS T in let nc := nC T in
  let ok_laws := forallb (fun l => Nat.eqb (length l) ns && conservedb T l && unchemostatedb T l) (c2_laws c) in
  let ok_shape := forallb (fun x => Nat.eqb (length x) (ns * nc)) samples in
  let samples' := if c2_exact c then all_some (map (sample_molecules (c2_du c) (c2_ue c)) samples) else Some samples in
  let ok_tot :=
    match samples' with None => false | Some samples => match samples with
    | [] => true
    | x0 :: rest =>
        forallb (fun l =>
          let t0 := total_sm ns nc l x0 in
          forallb (fun x => if c2_exact c then Qceqb (total_sm ns nc l x) t0
                            else close_mag eps9 (total_mag ns nc l x + total_mag ns nc l x0) t0 (total_sm ns nc l x)) rest)
          (c2_laws c)
    end end in
  (ok_laws && ok_shape && ok_tot,
   (1 + (if ok_laws then 0 else 1) + (if ok_shape then 0 else 2) + (if ok_tot then 0 else 4)
    + (if match c2_laws c with [] => true | _ => false end then 8 else 0))%nat).

(* ---- C03, trajectories: every flagged entry keeps its first recorded value in every sample ---- *)
Definition accept_C03_traj (chs : list bool) (samples : list (list Qc)) : verdict :=
  match samples with
  | [] => (true, 1%nat)
  | x0 :: rest =>
      let ok := forallb (fun x => Nat.eqb (length x) (length chs)
                  && forall2b (fun (f : bool) (p : Qc * Qc) => if f then Qceqb (fst p) (snd p) else true) chs (combine x0 x)) rest in
      (ok && Nat.eqb (length x0) (length chs), if existsb (fun b => b) chs then 2%nat else 1%nat)
  end.

(* ---- C03, RDSystem.apply_reaction ---- *)
Record c03_apply_case := {
  ca_sys : system; ca_state : sstate; ca_chs : list bool;   (* species-major *)
  ca_reaction : nat; ca_cell : nat; ca_n : Qc
}.

(* dx = dsto * n molecules, converted to the state's units; added to the unflagged entries of that cell *)
Definition apply_reaction_py (c : c03_apply_case) : list (Qc * Qc) :=     (* new value, magnitude of its terms *)
  let net := sy_net (ca_sys c) in
  let nc := ncells (sy_space (ca_sys c)) in
  let r := nth (ca_reaction c) (n_reactions net) {| r_sub := []; r_prod := []; r_kf := Scalar (zero_q default_usys dim0); r_kr := Scalar (zero_q default_usys dim0) |} in
  let f := factor default_usys (st_u (ca_state c)) dim_amount in
  sm_tabulate (length (n_species net)) nc (fun i s =>
    let idx := (s * nc + i)%nat in
    let old := nth idx (st_v (ca_state c)) 0 in
    if Nat.eqb i (ca_cell c) && negb (nth idx (ca_chs c) false)
    then let l := sp_label (nth s (n_species net) {| sp_label := 0%nat; sp_D := Scalar zero_density; sp_dens := Scalar zero_density; sp_chs := Scalar false |}) in
         let d := QcZ (coef (r_prod r) l - coef (r_sub r) l) * ca_n c * f in
         (old + d, Qcabs old + Qcabs d)
    else (old, Qcabs old)).

Definition accept_C03_apply (c : c03_apply_case) (obs : list Qc) : verdict :=
  let m := apply_reaction_py c in
  (forall2b (fun (a : Qc * Qc) b => close_mag eps9 (snd a) (fst a) b) m obs, 3%nat).
