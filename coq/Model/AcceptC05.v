(* Correspondence verdict for C05: an expression evaluated by the implementation vs `eval`. *)
From Verif Require Import Num Units UnitsOps Decode AcceptC06.
Open Scope Qc_scope.

Inductive c05_case :=
| CExpr (e : expr)
| CCmp (c : cmpop) (a b : expr)
| CPowQ (o : operand) (p : Z) (q : positive).   (* scalar ** (p/q) *)

Inductive c05_obs := ORaise5 | OOp (o : operand) | OBool (b : bool).

Definition eps9 : Qc := p10 (-9).
Definition close9 (model obs : Qc) : bool := close eps9 (Qcabs model) model obs.

Definition un_eqb (a b : option (usys * dim)) : bool :=
  match a, b with
  | Some (s1, d1), Some (s2, d2) => usys_eqb s1 s2 && dim_eqb d1 d2
  | None, None => true
  | _, _ => false
  end.

Definition shape_close (m o : shape) : bool :=
  match m, o with
  | Sc x, Sc y => close9 x y
  | Ve xs, Ve ys => forall2b close9 xs ys
  | _, _ => false
  end.

Definition operand_close (m o : operand) : bool := un_eqb (un m) (un o) && shape_close (sh m) (sh o).

Definition accept_C05 (c : c05_case) (o : c05_obs) : verdict :=
  match c with
  | CExpr e =>
      match eval e, o with
      | Err, ORaise5 => (true, 1%nat)
      | Ok m, OOp ob => (operand_close m ob, 2%nat)
      | _, _ => (false, 0%nat)
      end
  | CCmp cm a b =>
      match eval_cmp cm a b, o with
      | Err, ORaise5 => (true, 3%nat)
      | Ok r, OBool r' => (Bool.eqb r r', 4%nat)
      | _, _ => (false, 0%nat)
      end
  | CPowQ a p q =>
      match sh a, un a with
      | Ve _, _ => (match o with ORaise5 => true | _ => false end, 5%nat)
      | Sc x, Some (s, d) =>
          match raiseto d p q, o with
          | Err, ORaise5 => (true, 6%nat)
          | Ok d', OOp {| sh := Sc v; un := Some (s', d'') |} =>
              (usys_eqb s s' && dim_eqb d' d''
               && close (p10 (-8)) (Qcabs (Qcpowz x p)) (Qcpowz x p) (Qcpowz v (Zpos q)), 7%nat)
          | _, _ => (false, 0%nat)
          end
      | Sc x, None =>
          match o with
          | OOp {| sh := Sc v; un := None |} =>
              (close (p10 (-8)) (Qcabs (Qcpowz x p)) (Qcpowz x p) (Qcpowz v (Zpos q)), 8%nat)
          | _ => (false, 0%nat)
          end
      end
  end.
