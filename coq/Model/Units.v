(* Model of strengths/units.py: base units, unit systems, dimension vectors, SI scales,
   conversion factor and conversion (compute_conversion_factor, convert_value,
   convert_unitvalue / UnitArray.convert), derived symbols (litre and molar families). *)
From Verif Require Import Num.
Open Scope Qc_scope.

Inductive space_u  := Km | Me | Dm | Cm | Mm | Dmm | Cmm | Um | Nm | Pm | Fm.
Inductive time_u   := Ho | Mi | Se | Ds | Cs | Ms | Us | Ns | Ps | Fs.
Inductive amount_u := Kmol | Mol | Dmol | Cmol | Mmol | Umol | Nmol | Pmol | Fmol | Molecule.

Definition all_space  := [Km; Me; Dm; Cm; Mm; Dmm; Cmm; Um; Nm; Pm; Fm].
Definition all_time   := [Ho; Mi; Se; Ds; Cs; Ms; Us; Ns; Ps; Fs].
Definition all_amount := [Kmol; Mol; Dmol; Cmol; Mmol; Umol; Nmol; Pmol; Fmol; Molecule].

Record usys := { us : space_u; ut : time_u; uq : amount_u }.
Record dim  := { dS : Z; dT : Z; dQ : Z }.

Definition default_usys : usys := {| us := Um; ut := Se; uq := Molecule |}.
Definition dim0 : dim := {| dS := 0; dT := 0; dQ := 0 |}.



(* SI meaning of every base symbol, as _units_conversion_dict *)
Definition si_space (u : space_u) : Qc :=
  match u with
  | Km => p10 3 | Me => 1 | Dm => p10 (-1) | Cm => p10 (-2) | Mm => p10 (-3)
  | Dmm => p10 (-4) | Cmm => p10 (-5) | Um => p10 (-6) | Nm => p10 (-9)
  | Pm => p10 (-12) | Fm => p10 (-15)
  end.

Definition si_time (u : time_u) : Qc :=
  match u with
  | Ho => QcZ 3600 | Mi => QcZ 60 | Se => 1 | Ds => p10 (-1) | Cs => p10 (-2)
  | Ms => p10 (-3) | Us => p10 (-6) | Ns => p10 (-9) | Ps => p10 (-12) | Fs => p10 (-15)
  end.

Definition avogadro : Qc := QcZ 602214076 * p10 15.

Definition si_amount (u : amount_u) : Qc :=
  match u with
  | Kmol => p10 3 * avogadro | Mol => avogadro | Dmol => p10 (-1) * avogadro
  | Cmol => p10 (-2) * avogadro | Mmol => p10 (-3) * avogadro | Umol => p10 (-6) * avogadro
  | Nmol => p10 (-9) * avogadro | Pmol => p10 (-12) * avogadro | Fmol => p10 (-15) * avogadro
  | Molecule => 1
  end.

(* SI value of one unit  sys^d *)
Definition scale (u : usys) (d : dim) : Qc :=
  Qcpowz (si_space (us u)) (dS d) * Qcpowz (si_time (ut u)) (dT d) * Qcpowz (si_amount (uq u)) (dQ d).

(* compute_conversion_factor *)
Definition factor (src dst : usys) (d : dim) : Qc :=
  Qcpowz (si_space (us src) / si_space (us dst)) (dS d)
  * Qcpowz (si_time (ut src) / si_time (ut dst)) (dT d)
  * Qcpowz (si_amount (uq src) / si_amount (uq dst)) (dQ d).

Definition dim_add (a b : dim) : dim := {| dS := dS a + dS b; dT := dT a + dT b; dQ := dQ a + dQ b |}%Z.
Definition dim_opp (a : dim) : dim := {| dS := - dS a; dT := - dT a; dQ := - dQ a |}%Z.
Definition dim_scal (k : Z) (a : dim) : dim := {| dS := k * dS a; dT := k * dT a; dQ := k * dQ a |}%Z.

Record quantity := { qv : Qc; qu : usys; qd : dim }.

Definition SI (q : quantity) : Qc := qv q * scale (qu q) (qd q).

(* convert_unitvalue with a UnitsSystem / dict target: no dimension check *)
Definition convert (q : quantity) (dst : usys) : quantity :=
  {| qv := qv q * factor (qu q) dst (qd q); qu := dst; qd := qd q |}.

Definition dim_eqb (a b : dim) : bool :=
  Z.eqb (dS a) (dS b) && Z.eqb (dT a) (dT b) && Z.eqb (dQ a) (dQ b).

(* convert_unitvalue with a str / Units / UnitValue target: dimension check first *)
Definition convert_to_units (q : quantity) (tsys : usys) (tdim : dim) : res quantity :=
  if dim_eqb tdim (qd q) then Ok (convert q tsys) else Err.

(* arrays: UnitArray.convert multiplies every element by the same factor *)
Record qarray := { av : list Qc; au : usys; ad : dim }.
Definition convert_arr (a : qarray) (dst : usys) : qarray :=
  {| av := map (fun x => x * factor (au a) dst (ad a)) (av a); au := dst; ad := ad a |}.
Definition convert_arr_to_units (a : qarray) (tsys : usys) (tdim : dim) : res qarray :=
  if dim_eqb tdim (ad a) then Ok (convert_arr a tsys) else Err.

(* Derived symbols of parse_units: the litre family is read as the cube of a length unit,
   the molar family as an amount unit over the cube of the decimetre. *)
Inductive volume_sym := KL | L_ | ML | UL | NL | PL | FL.
Inductive molar_sym  := KM_ | M_ | DM_ | CM_ | MM_ | UM_ | NM_ | PM_ | FM_.
Definition all_volume_sym := [KL; L_; ML; UL; NL; PL; FL].
Definition all_molar_sym  := [KM_; M_; DM_; CM_; MM_; UM_; NM_; PM_; FM_].

Definition volume_base (v : volume_sym) : space_u :=
  match v with KL => Me | L_ => Dm | ML => Cm | UL => Mm | NL => Dmm | PL => Cmm | FL => Um end.
Definition molar_base (m : molar_sym) : amount_u :=
  match m with KM_ => Kmol | M_ => Mol | DM_ => Dmol | CM_ => Cmol | MM_ => Mmol
             | UM_ => Umol | NM_ => Nmol | PM_ => Pmol | FM_ => Fmol end.

(* the units object parse_units returns for "sym^e" *)
Definition volume_units (v : volume_sym) (e : Z) : usys * dim :=
  ({| us := volume_base v; ut := Se; uq := Molecule |}, {| dS := 3 * e; dT := 0; dQ := 0 |}).
Definition molar_units (m : molar_sym) (e : Z) : usys * dim :=
  ({| us := Dm; ut := Se; uq := molar_base m |}, {| dS := -3 * e; dT := 0; dQ := e |}).

(* SI prefixes of the derived families, for the statement of their meaning *)
Definition volume_prefix (v : volume_sym) : Z :=
  match v with KL => 3 | L_ => 0 | ML => -3 | UL => -6 | NL => -9 | PL => -12 | FL => -15 end.
Definition molar_prefix (m : molar_sym) : Z :=
  match m with KM_ => 3 | M_ => 0 | DM_ => -1 | CM_ => -2 | MM_ => -3
             | UM_ => -6 | NM_ => -9 | PM_ => -12 | FM_ => -15 end.
Definition space_prefix (u : space_u) : Z :=
  match u with Km => 3 | Me => 0 | Dm => -1 | Cm => -2 | Mm => -3 | Dmm => -4 | Cmm => -5
             | Um => -6 | Nm => -9 | Pm => -12 | Fm => -15 end.
Definition amount_prefix (u : amount_u) : option Z :=
  match u with Kmol => Some 3 | Mol => Some 0 | Dmol => Some (-1) | Cmol => Some (-2)
             | Mmol => Some (-3) | Umol => Some (-6) | Nmol => Some (-9) | Pmol => Some (-12)
             | Fmol => Some (-15) | Molecule => None end%Z.
Definition time_prefix (u : time_u) : option Z :=
  match u with Ho | Mi => None | Se => Some 0 | Ds => Some (-1) | Cs => Some (-2) | Ms => Some (-3)
             | Us => Some (-6) | Ns => Some (-9) | Ps => Some (-12) | Fs => Some (-15) end%Z.
