(* Correspondence verdict for C12: the physical content (numbers in SI, discrete items as text) of every object obtained by a
   round trip must be that of the original; serialising twice must be stable. *)
From Coq Require Import NArith.
From Verif Require Import Num Decode AcceptC04.
Open Scope Qc_scope.

Definition fp := (list Qc * list (list N))%type.

Definition text_eqb (a b : list N) : bool := forall2b N.eqb a b.
Definition same_fp (a b : fp) : bool :=
  forall2b (fun x y => Qcleb (Qcabs (x - y)) (p10 (-9) * (Qcabs x + Qcabs y))) (fst a) (fst b) && forall2b text_eqb (snd a) (snd b).

Definition accept_C12 (c : option fp * bool) (variants : list (option fp)) : verdict :=
  match fst c with
  | None => (false, 9%nat)
  | Some r => (snd c && forallb (fun v => match v with Some f => same_fp r f | None => false end) variants, length variants)
  end.

(* ---- object level (Model/ObjDict.v): the species writer and reader, numbers carried as the text Python prints for them ---- *)
From Coq Require Import List.
From Verif Require Import ReactionText Units UnitText Schemas Dict ObjDict.
Import ListNotations.

Definition sp_obj := species_obj str.
Definition wr12 := write_fields jv.
Definition model_write (s : sp_obj) : jv := write_species str (fun t => t) wr12 s.
Definition model_read (parent : usys) (v : jv) : res sp_obj := read_species str (fun t => Some t) [48%N; 46%N; 48%N] parent v.

(* written: species_to_dict of the object built from s; variants: dictionaries given to species_from_dict (under `parent`) with what
   species_to_dict returned for the object read *)
Definition accept_C12_species (c : sp_obj * usys) (o : jv * list (jv * jv)) : verdict :=
  let '(s, parent) := c in let '(written, variants) := o in
  (jv_eqb (model_write s) written
   && forallb (fun io : jv * jv => match model_read parent (fst io) with Ok s' => jv_eqb (model_write s') (snd io) | Err => jv_eqb JNull (snd io) end) variants,
   S (length variants)).

Definition re_obj := reaction_obj str.
Definition model_write_r (r : re_obj) : jv := write_reaction str (fun t => t) wr12 r.
Definition model_read_r (parent : usys) (v : jv) : res re_obj := read_reaction str (fun t => Some t) [48%N; 46%N; 48%N] parent v.
Definition accept_C12_reaction (c : re_obj * usys) (o : jv * list (jv * jv)) : verdict :=
  let '(r, parent) := c in let '(written, variants) := o in
  (jv_eqb (model_write_r r) written
   && forallb (fun io : jv * jv => match model_read_r parent (fst io) with Ok r' => jv_eqb (model_write_r r') (snd io) | Err => jv_eqb JNull (snd io) end) variants,
   S (length variants)).

Definition ne_obj := network_obj str.
Definition model_write_n (n : ne_obj) : jv := write_network str (fun t => t) wr12 n.
Definition model_read_n (parent : usys) (v : jv) : res ne_obj := read_network str (fun t => Some t) [48%N; 46%N; 48%N] parent v.
Definition accept_C12_network (c : ne_obj * usys) (o : jv * list (jv * jv)) : verdict :=
  let '(n, parent) := c in let '(written, variants) := o in
  (jv_eqb (model_write_n n) written
   && forallb (fun io : jv * jv => match model_read_n parent (fst io) with Ok n' => jv_eqb (model_write_n n') (snd io) | Err => jv_eqb JNull (snd io) end) variants,
   S (length variants)).

Definition gr_obj := grid_obj str.
Definition model_write_g (g : gr_obj) : jv := write_grid str (fun t => t) wr12 g.
Definition model_read_g (parent : usys) (v : jv) : res gr_obj := read_grid str (fun t => Some t) [48%N; 46%N; 48%N] [49%N; 46%N; 48%N] parent v.
Definition accept_C12_grid (c : gr_obj * usys) (o : jv * list (jv * jv)) : verdict :=
  let '(g, parent) := c in let '(written, variants) := o in
  (jv_eqb (model_write_g g) written
   && forallb (fun io : jv * jv => match model_read_g parent (fst io) with Ok g' => jv_eqb (model_write_g g') (snd io) | Err => jv_eqb JNull (snd io) end) variants,
   S (length variants)).

Definition gp_obj := graph_obj str.
Definition model_write_gp (g : gp_obj) : jv := write_graph str (fun t => t) wr12 g.
Definition model_read_gp (parent : usys) (v : jv) : res gp_obj := read_graph str (fun t => Some t) [48%N; 46%N; 48%N] [49%N; 46%N; 48%N] parent v.
Definition accept_C12_graph (c : gp_obj * usys) (o : jv * list (jv * jv)) : verdict :=
  let '(g, parent) := c in let '(written, variants) := o in
  (jv_eqb (model_write_gp g) written
   && forallb (fun io : jv * jv => match model_read_gp parent (fst io) with Ok g' => jv_eqb (model_write_gp g') (snd io) | Err => jv_eqb JNull (snd io) end) variants,
   S (length variants)).

Definition sy_obj := system_obj str.
Definition model_write_sy (s : sy_obj) : jv := write_system str (fun t => t) wr12 s.
Definition model_read_sy (parent : usys) (v : jv) : res sy_obj := read_system str (fun t => Some t) [48%N; 46%N; 48%N] [49%N; 46%N; 48%N] parent v.
Definition accept_C12_system (c : sy_obj * usys) (o : jv * list (jv * jv)) : verdict :=
  let '(s, parent) := c in let '(written, variants) := o in
  (jv_eqb (model_write_sy s) written
   && forallb (fun io : jv * jv => match model_read_sy parent (fst io) with Ok s' => jv_eqb (model_write_sy s') (snd io) | Err => jv_eqb JNull (snd io) end) variants,
   S (length variants)).

Definition sc_obj := script_obj str.
Definition txt0 : str := [48%N; 46%N; 48%N].
Definition model_write_sc (s : sc_obj) : jv := write_script str (fun t => t) txt0 wr12 s.
Definition model_read_sc (v : jv) : res sc_obj := read_script str (fun t => Some t) txt0 [49%N; 46%N; 48%N] [48%N; 46%N; 48%N; 48%N; 49%N] v.
Definition accept_C12_script (c : sc_obj) (o : jv * list (jv * jv)) : verdict :=
  let '(written, variants) := o in
  (jv_eqb (model_write_sc c) written
   && forallb (fun io : jv * jv => match model_read_sc (fst io) with Ok s' => jv_eqb (model_write_sc s') (snd io) | Err => jv_eqb JNull (snd io) end) variants,
   S (length variants)).

Definition tj_obj := trajectory_obj str.
Definition model_write_tj (t : tj_obj) : jv := write_trajectory str (fun x => x) txt0 wr12 t.
Definition model_read_tj (v : jv) : res tj_obj := read_trajectory str (fun x => Some x) txt0 [49%N; 46%N; 48%N] [48%N; 46%N; 48%N; 48%N; 49%N] v.
Definition accept_C12_trajectory (c : tj_obj) (o : jv * list (jv * jv)) : verdict :=
  let '(written, variants) := o in
  (jv_eqb (model_write_tj c) written
   && forallb (fun io : jv * jv => match model_read_tj (fst io) with Ok t' => jv_eqb (model_write_tj t') (snd io) | Err => jv_eqb JNull (snd io) end) variants,
   S (length variants)).
