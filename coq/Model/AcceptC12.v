(* Correspondence verdict for C12: the physical content (numbers in SI, discrete items as text) of every object obtained by a
   round trip must be that of the original; serialising twice must be stable. *)
From Coq Require Import NArith.
From Verif Require Import Num Decode AcceptC04.
Open Scope Qc_scope.

Definition fp := (list Qc * list (list N))%type.

Definition text_eqb (a b : list N) : bool := forall2b N.eqb a b.
Definition same_fp (a b : fp) : bool :=
  forall2b (fun x y => Qcleb (Qcabs (x - y)) (p10 (-9) * (Qcabs x + Qcabs y))) (fst a) (fst b) && forall2b text_eqb (snd a) (snd b).

Definition accept_C12 (c : option fp * bool) (variants : list (option fp)) : verdict :=
  match fst c with
  | None => (false, 9%nat)
  | Some r => (snd c && forallb (fun v => match v with Some f => same_fp r f | None => false end) variants, length variants)
  end.
