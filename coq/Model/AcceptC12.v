(* Correspondence verdict for C12: the physical content (numbers in SI, discrete items as text) of every object obtained by a
   round trip must be that of the original; serialising twice must be stable. *)
From Coq Require Import NArith.
From Verif Require Import Num Decode AcceptC04.
Open Scope Qc_scope.

Definition fp := (list Qc * list (list N))%type.

Definition text_eqb (a b : list N) : bool := forall2b N.eqb a b.
Definition same_fp (a b : fp) : bool :=
  forall2b (fun x y => Qcleb (Qcabs (x - y)) (p10 (-9) * (Qcabs x + Qcabs y))) (fst a) (fst b) && forall2b text_eqb (snd a) (snd b).

Definition accept_C12 (c : option fp * bool) (variants : list (option fp)) : verdict :=
  match fst c with
  | None => (false, 9%nat)
  | Some r => (snd c && forallb (fun v => match v with Some f => same_fp r f | None => false end) variants, length variants)
  end.

(* ---- object level (Model/ObjDict.v): the species writer and reader, numbers carried as the text Python prints for them ---- *)
From Coq Require Import List.
From Verif Require Import ReactionText Units UnitText Schemas Dict ObjDict.
Import ListNotations.

Definition sp_obj := species_obj str.
Definition wr12 := write_fields jv.
Definition model_write (s : sp_obj) : jv := write_species str (fun t => t) wr12 s.
Definition model_read (parent : usys) (v : jv) : res sp_obj := read_species str (fun t => Some t) [48%N; 46%N; 48%N] parent v.

(* written: species_to_dict of the object built from s; variants: dictionaries given to species_from_dict (under `parent`) with what
   species_to_dict returned for the object read *)
Definition accept_C12_species (c : sp_obj * usys) (o : jv * list (jv * jv)) : verdict :=
  let '(s, parent) := c in let '(written, variants) := o in
  (jv_eqb (model_write s) written
   && forallb (fun io : jv * jv => match model_read parent (fst io) with Ok s' => jv_eqb (model_write s') (snd io) | Err => jv_eqb JNull (snd io) end) variants,
   S (length variants)).

Definition re_obj := reaction_obj str.
Definition model_write_r (r : re_obj) : jv := write_reaction str (fun t => t) wr12 r.
Definition model_read_r (parent : usys) (v : jv) : res re_obj := read_reaction str (fun t => Some t) [48%N; 46%N; 48%N] parent v.
Definition accept_C12_reaction (c : re_obj * usys) (o : jv * list (jv * jv)) : verdict :=
  let '(r, parent) := c in let '(written, variants) := o in
  (jv_eqb (model_write_r r) written
   && forallb (fun io : jv * jv => match model_read_r parent (fst io) with Ok r' => jv_eqb (model_write_r r') (snd io) | Err => jv_eqb JNull (snd io) end) variants,
   S (length variants)).

Definition ne_obj := network_obj str.
Definition model_write_n (n : ne_obj) : jv := write_network str (fun t => t) wr12 n.
Definition model_read_n (parent : usys) (v : jv) : res ne_obj := read_network str (fun t => Some t) [48%N; 46%N; 48%N] parent v.
Definition accept_C12_network (c : ne_obj * usys) (o : jv * list (jv * jv)) : verdict :=
  let '(n, parent) := c in let '(written, variants) := o in
  (jv_eqb (model_write_n n) written
   && forallb (fun io : jv * jv => match model_read_n parent (fst io) with Ok n' => jv_eqb (model_write_n n') (snd io) | Err => jv_eqb JNull (snd io) end) variants,
   S (length variants)).

Definition gr_obj := grid_obj str.
Definition model_write_g (g : gr_obj) : jv := write_grid str (fun t => t) wr12 g.
Definition model_read_g (parent : usys) (v : jv) : res gr_obj := read_grid str (fun t => Some t) [48%N; 46%N; 48%N] [49%N; 46%N; 48%N] parent v.
Definition accept_C12_grid (c : gr_obj * usys) (o : jv * list (jv * jv)) : verdict :=
  let '(g, parent) := c in let '(written, variants) := o in
  (jv_eqb (model_write_g g) written
   && forallb (fun io : jv * jv => match model_read_g parent (fst io) with Ok g' => jv_eqb (model_write_g g') (snd io) | Err => jv_eqb JNull (snd io) end) variants,
   S (length variants)).

Definition gp_obj := graph_obj str.
Definition model_write_gp (g : gp_obj) : jv := write_graph str (fun t => t) wr12 g.
Definition model_read_gp (parent : usys) (v : jv) : res gp_obj := read_graph str (fun t => Some t) [48%N; 46%N; 48%N] [49%N; 46%N; 48%N] parent v.
Definition accept_C12_graph (c : gp_obj * usys) (o : jv * list (jv * jv)) : verdict :=
  let '(g, parent) := c in let '(written, variants) := o in
  (jv_eqb (model_write_gp g) written
   && forallb (fun io : jv * jv => match model_read_gp parent (fst io) with Ok g' => jv_eqb (model_write_gp g') (snd io) | Err => jv_eqb JNull (snd io) end) variants,
   S (length variants)).

Definition sy_obj := system_obj str.
Definition model_write_sy (s : sy_obj) : jv := write_system str (fun t => t) wr12 s.
Definition model_read_sy (parent : usys) (v : jv) : res sy_obj := read_system str (fun t => Some t) [48%N; 46%N; 48%N] [49%N; 46%N; 48%N] parent v.
Definition accept_C12_system (c : sy_obj * usys) (o : jv * list (jv * jv)) : verdict :=
  let '(s, parent) := c in let '(written, variants) := o in
  (jv_eqb (model_write_sy s) written
   && forallb (fun io : jv * jv => match model_read_sy parent (fst io) with Ok s' => jv_eqb (model_write_sy s') (snd io) | Err => jv_eqb JNull (snd io) end) variants,
   S (length variants)).

Definition sc_obj := script_obj str.
Definition txt0 : str := [48%N; 46%N; 48%N].
Definition model_write_sc (s : sc_obj) : jv := write_script str (fun t => t) txt0 wr12 s.
Definition model_read_sc (v : jv) : res sc_obj := read_script str (fun t => Some t) txt0 [49%N; 46%N; 48%N] [48%N; 46%N; 48%N; 48%N; 49%N] v.
Definition accept_C12_script (c : sc_obj) (o : jv * list (jv * jv)) : verdict :=
  let '(written, variants) := o in
  (jv_eqb (model_write_sc c) written
   && forallb (fun io : jv * jv => match model_read_sc (fst io) with Ok s' => jv_eqb (model_write_sc s') (snd io) | Err => jv_eqb JNull (snd io) end) variants,
   S (length variants)).

Definition tj_obj := trajectory_obj str.
Definition model_write_tj (t : tj_obj) : jv := write_trajectory str (fun x => x) txt0 wr12 t.
Definition model_read_tj (v : jv) : res tj_obj := read_trajectory str (fun x => Some x) txt0 [49%N; 46%N; 48%N] [48%N; 46%N; 48%N; 48%N; 49%N] v.
Definition accept_C12_trajectory (c : tj_obj) (o : jv * list (jv * jv)) : verdict :=
  let '(written, variants) := o in
  (jv_eqb (model_write_tj c) written
   && forallb (fun io : jv * jv => match model_read_tj (fst io) with Ok t' => jv_eqb (model_write_tj t') (snd io) | Err => jv_eqb JNull (snd io) end) variants,
   S (length variants)).

(* ---- file names and text arrays (Model/Files.v) ---- *)
From Verif Require Import Files.

Definition opt_str_is (a : option str) (b : str) : bool := match a with Some x => str_eqb x b | None => false end.
Fixpoint first_false (l : list bool) (k : nat) : verdict :=
  match l with [] => (true, k) | b :: r => if b then first_false r (S k) else (false, S k) end.

(* c: path, extension, base directory, working directory; o: what the seven functions of filepath.py returned (None = raised) *)
Definition accept_C12_paths (c : str * str * option str * str)
    (o : option bool * option str * option str * option str * option str * option str * option str) : verdict :=
  let '(p, e, base, cwd) := c in
  let '(have, app, rem, lst, wn, wb, bp) := o in
  first_false [ match have with Some h => Bool.eqb h (have_extension p e) | None => false end;
                opt_str_is app (append_extension_if_missing p e);
                opt_str_is rem (remove_extension_if_existing p e);
                opt_str_is lst (get_last_element p);
                opt_str_is wn (get_path_with_base p None);
                opt_str_is wb (get_path_with_base p base);
                opt_str_is bp (get_base_path cwd p) ] 0.

Definition opt_zs_eqb (a b : option (list Z)) : bool :=
  match a, b with Some x, Some y => forall2b Z.eqb x y | None, None => true | _, _ => false end.
(* c: a text and a list of integers; o: load of the text (None = ValueError), the text saved for the integers, and its load *)
Definition accept_C12_textarray (c : str * list Z) (o : option (option (list Z) * str * option (list Z))) : verdict :=
  match o with
  | None => (false, 9%nat)
  | Some (loaded, saved, back) =>
      first_false [ opt_zs_eqb loaded (load_array (fst c)); str_eqb saved (save_array (snd c)); opt_zs_eqb back (Some (snd c)) ] 0
  end.

(* how the operating system resolves a pathlib-normal absolute path in a tree without symbolic links: '..' steps up *)
Fixpoint collapse (tail acc : list str) : list str :=
  match tail with
  | [] => rev acc
  | x :: r => if str_eqb x [c_dot; c_dot] then collapse r (match acc with [] => [] | _ :: a => a end) else collapse r (x :: acc)
  end.
Definition os_resolve (p : str) : str := let pp := parse_path p in fmt_path ([c_slash], collapse (snd pp) []).
Definition mem_str_l (x : str) (l : list str) : bool := existsb (str_eqb x) l.
(* c: working directory and the name given to save_rdtrajectory(separate_data=True); o: the files that appeared, the data
   reference in the JSON file, whether load_rdtrajectory of the JSON file (from another working directory) gave the data back *)
Definition accept_C12_trajfiles (c : str * str) (o : option (list str * option str * bool)) : verdict :=
  match o with
  | None => (false, 9%nat)
  | Some (files, ref, loaded) =>
      let (cwd, p) := c in
      first_false [ Nat.eqb (length files) 2;
                    mem_str_l (os_resolve (absolute cwd (json_path p))) files;
                    mem_str_l (os_resolve (data_saved_to cwd p)) files;
                    opt_str_is ref (data_reference p);
                    str_eqb (os_resolve (data_loaded_from cwd p)) (os_resolve (data_saved_to cwd p));
                    loaded ] 0
  end.
