(* The native engine's data and its deterministic (Euler) algorithm, as the C++ computes them:
   flat tables k[env*nR+r], sub/sto[s*nR+r], D[s*nE+env], cell-major state x[i*nS+s] and
   chemostat flags, the grid neighbour table / the graph's per-node slot lists, Build_mesh_kr,
   Build_mesh_kd, ReactionRate, DiffusionRateDifference, Compute_dxdt, Apply_dxdt; the
   species-major <-> cell-major transposition of engine.cpp.  All numbers are in engine units. *)
From Verif Require Import Num Grid.
Open Scope Qc_scope.

Record etab := {
  nS : nat; nR : nat; nE : nat; nC : nat;
  tk : list Qc;        (* nE * nR : k[env * nR + r]      (split, irreversible reactions) *)
  tsub : list Z;       (* nS * nR : sub[s * nR + r]      substrate coefficients *)
  tsto : list Z;       (* nS * nR : sto[s * nR + r]      products - substrates *)
  tD : list Qc;        (* nS * nE : D[s * nE + env] *)
  tenv : list nat;     (* nC : environment index of each cell *)
  tchs : list bool     (* nC * nS, cell-major : chstt[i * nS + s] *)
}.

(* a graph edge as the engine receives it: i, j, contact surface, centre distance *)
Definition gedge := (nat * nat * Qc * Qc)%type.

(* geometry; cell sizes are given by their edge h (volume h^3) so that no cube root is needed *)
Inductive geom :=
| GGrid (g : grid) (h : Qc)
| GGraph (hs : list Qc) (edges : list gedge).

Definition X (T : etab) (x : list Qc) (i s : nat) : Qc := nth (i * nS T + s) x 0.
Definition Kf (T : etab) (e r : nat) : Qc := nth (e * nR T + r) (tk T) 0.
Definition Sub (T : etab) (s r : nat) : Z := nth (s * nR T + r) (tsub T) 0%Z.
Definition Sto (T : etab) (s r : nat) : Z := nth (s * nR T + r) (tsto T) 0%Z.
Definition Dc (T : etab) (s e : nat) : Qc := nth (s * nE T + e) (tD T) 0.
Definition Env (T : etab) (i : nat) : nat := nth i (tenv T) 0%nat.
Definition Chs (T : etab) (i s : nat) : bool := nth (i * nS T + s) (tchs T) false.

Definition cube (h : Qc) : Qc := h * h * h.
Definition edge_of (G : geom) (i : nat) : Qc :=
  match G with GGrid _ h => h | GGraph hs _ => nth i hs 0 end.
Definition vol_of (G : geom) (i : nat) : Qc := cube (edge_of G i).

Definition species_idx (T : etab) : list nat := seq 0 (nS T).
Definition reaction_idx (T : etab) : list nat := seq 0 (nR T).
Definition cell_idx (T : etab) : list nat := seq 0 (nC T).

(* Build_mesh_kr: q = sum_s sub[s,r];  k[env_i, r] * vol^(1 - q) *)
Definition order (T : etab) (r : nat) : Z := fold_right Z.add 0%Z (map (fun s => Sub T s r) (species_idx T)).
Definition mesh_kr (T : etab) (G : geom) (i r : nat) : Qc :=
  Kf T (Env T i) r * Qcpowz (vol_of G i) (1 - order T r).

(* ReactionRate: mesh_kr * prod_s x[i,s]^sub[s,r] *)
Definition reaction_rate (T : etab) (G : geom) (x : list Qc) (i r : nat) : Qc :=
  mesh_kr T G i r * prodQ (map (fun s => Qcpowz (X T x i s) (Sub T s r)) (species_idx T)).

(* Bernstein interface diffusivity: size-weighted harmonic mean, zero if either side is zero *)
Definition Dint (hi hj Di Dj : Qc) : Qc :=
  if Qceqb Di 0 || Qceqb Dj 0 then 0 else (hi + hj) / (hi / Di + hj / Dj).

(* ---- grid: six directions ---- *)
Definition nbr (g : grid) (i dir : nat) : option nat := option_map Z.to_nat (engine_nbr g (Z.of_nat i) dir).

(* Build_mesh_kd (grid): Dij / edge^2, 0 where there is no neighbour *)
Definition kd_grid (T : etab) (g : grid) (h : Qc) (i s dir : nat) : Qc :=
  match nbr g i dir with
  | None => 0
  | Some j => Dint h h (Dc T s (Env T i)) (Dc T s (Env T j)) / (h * h)
  end.

(* DiffusionRateDifference(i, s, n) = x[i,s]*kd[i,s,n] - x[j,s]*kd[j,s,opp n] *)
Definition flux_grid (T : etab) (g : grid) (h : Qc) (x : list Qc) (i s dir : nat) : Qc :=
  match nbr g i dir with
  | None => 0
  | Some j => X T x i s * kd_grid T g h i s dir - X T x j s * kd_grid T g h j s (opp_dir dir)
  end.

(* ---- graph: SetNeighbors builds, for every node, the list of its slots in edge order ---- *)
(* a slot of node i: (neighbour j, surface, distance) *)
Definition slot := (nat * Qc * Qc)%type.
Definition slots_of (edges : list gedge) (i : nat) : list slot :=
  flat_map (fun e : gedge =>
              let '(a, b, sf, ds) := e in
              (if Nat.eqb a i then [(b, sf, ds)] else []) ++ (if Nat.eqb b i then [(a, sf, ds)] else []))
           edges.

(* mesh_kd_out / mesh_kd_in for one slot *)
Definition kd_out (T : etab) (hs : list Qc) (i s : nat) (sl : slot) : Qc :=
  let '(j, sf, ds) := sl in
  Dint (nth i hs 0) (nth j hs 0) (Dc T s (Env T i)) (Dc T s (Env T j)) * sf / (cube (nth i hs 0) * ds).
Definition kd_in (T : etab) (hs : list Qc) (i s : nat) (sl : slot) : Qc :=
  let '(j, sf, ds) := sl in
  Dint (nth i hs 0) (nth j hs 0) (Dc T s (Env T i)) (Dc T s (Env T j)) * sf / (cube (nth j hs 0) * ds).

Definition flux_graph (T : etab) (hs : list Qc) (x : list Qc) (i s : nat) (sl : slot) : Qc :=
  X T x i s * kd_out T hs i s sl - X T x (fst (fst sl)) s * kd_in T hs i s sl.

(* total outgoing-minus-incoming diffusion of entry (i, s) *)
Definition diffusion_out (T : etab) (G : geom) (x : list Qc) (i s : nat) : Qc :=
  match G with
  | GGrid g h => sumQ (map (fun dir => flux_grid T g h x i s dir) dirs)
  | GGraph hs edges => sumQ (map (fun sl => flux_graph T hs x i s sl) (slots_of edges i))
  end.

Definition reaction_part (T : etab) (G : geom) (x : list Qc) (i s : nat) : Qc :=
  sumQ (map (fun r => QcZ (Sto T s r) * reaction_rate T G x i r) (reaction_idx T)).

(* Compute_dxdt *)
Definition dxdt (T : etab) (G : geom) (x : list Qc) (i s : nat) : Qc :=
  if Chs T i s then 0 else reaction_part T G x i s - diffusion_out T G x i s.

(* the arrays, cell-major *)
Definition cm_tabulate (T : etab) (f : nat -> nat -> Qc) : list Qc :=
  flat_map (fun i => map (fun s => f i s) (species_idx T)) (cell_idx T).

Definition dxdt_array (T : etab) (G : geom) (x : list Qc) : list Qc := cm_tabulate T (dxdt T G x).

(* Apply_dxdt *)
Definition euler_step (T : etab) (G : geom) (dt : Qc) (x : list Qc) : list Qc :=
  cm_tabulate T (fun i s => X T x i s + dxdt T G x i s * dt).

Fixpoint euler_steps (T : etab) (G : geom) (dt : Qc) (n : nat) (x : list Qc) : list Qc :=
  match n with O => x | S n' => euler_steps T G dt n' (euler_step T G dt x) end.

(* ---- engine.cpp: SpeciesFirstToMeshFirstArray and the export loop ---- *)
Definition to_cell_major {A} (d : A) (ns nc : nat) (x : list A) : list A :=
  flat_map (fun i => map (fun s => nth (s * nc + i) x d) (seq 0 ns)) (seq 0 nc).
Definition to_species_major {A} (d : A) (ns nc : nat) (x : list A) : list A :=
  flat_map (fun s => map (fun i => nth (i * ns + s) x d) (seq 0 nc)) (seq 0 ns).

(* ---- the rate law as the property states it (engine units) ---- *)
(* mass action: k * V * prod_s (x_s / V)^(sub_s) *)
Definition mass_action (T : etab) (G : geom) (x : list Qc) (i r : nat) : Qc :=
  Kf T (Env T i) r * vol_of G i
  * prodQ (map (fun s => Qcpowz (X T x i s / vol_of G i) (Sub T s r)) (species_idx T)).

(* exchange through one interface, seen from cell i with neighbour j:
   Dint * surface / distance * (x_j / V_j - x_i / V_i) *)
Definition exchange (T : etab) (G : geom) (x : list Qc) (s i j : nat) (sf ds : Qc) : Qc :=
  Dint (edge_of G i) (edge_of G j) (Dc T s (Env T i)) (Dc T s (Env T j)) * sf / ds
  * (X T x j s / vol_of G j - X T x i s / vol_of G i).

Definition neighbours (G : geom) (i : nat) : list slot :=
  match G with
  | GGrid g h => flat_map (fun dir => match nbr g i dir with Some j => [(j, h * h, h)] | None => [] end) dirs
  | GGraph _ edges => slots_of edges i
  end.

Definition rate_law (T : etab) (G : geom) (x : list Qc) (i s : nat) : Qc :=
  sumQ (map (fun r => QcZ (Sto T s r) * mass_action T G x i r) (reaction_idx T))
  + sumQ (map (fun sl : slot => exchange T G x s i (fst (fst sl)) (snd (fst sl)) (snd sl)) (neighbours G i)).
