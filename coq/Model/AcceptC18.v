(* Correspondence verdicts for C18. *)
From Coq Require Import NArith.
From Verif Require Import Num Units ReactionText UnitText Decode AcceptC06.

Definition ud_eqb (a b : usys * dim) : bool := usys_eqb (fst a) (fst b) && dim_eqb (snd a) (snd b).

(* parse_units(text): raised, or the units *)
Definition accept_C18_units (s : str) (obs : option (usys * dim)) : verdict :=
  match spec_parse_units s, obs with
  | None, None => (true, 1%nat)
  | Some a, Some b => (ud_eqb a b, 2%nat)
  | Some _, None => (false, 3%nat)
  | None, Some _ => (false, 4%nat)          (* text outside the grammar was read as something *)
  end.

(* str(Units) and parse_units(str(Units)) *)
Definition accept_C18_print (c : usys * dim) (o : str * option (usys * dim)) : verdict :=
  let ok_text := str_eqb (print_units (fst c) (snd c)) (fst o) in
  let ok_back := match snd o with Some b => units_equiv c b | None => false end in
  let ok_model := match parse_units (print_units (fst c) (snd c)) with Some b => units_equiv c b | None => false end in
  (ok_text && ok_back && ok_model, (1 + (if ok_text then 0 else 1) + (if ok_back then 0 else 2) + (if ok_model then 0 else 4))%nat).

(* UnitValue(text): the value part is judged by Python's own float() (float_ok), the unit part by the grammar *)
Definition accept_C18_value (c : str * bool) (obs : option (usys * dim)) : verdict :=
  match spec_parse_value_units (fst c) (snd c), obs with
  | None, None => (true, 1%nat)
  | Some a, Some b => (ud_eqb a b, 2%nat)
  | Some _, None => (false, 3%nat)
  | None, Some _ => (false, 4%nat)
  end.
