(* Unit and quantity text (units.py: parse_units, Units.__str__, parse_unitvalue, UnitValue.__str__), over code points.
   The symbol tables below were generated once from the symbol lists of the documentation; the correspondence check
   compares every entry with the package on every run. *)
From Coq Require Import NArith.
From Verif Require Import Num Units ReactionText.
Open Scope N_scope.

Definition sym_space (u : space_u) : str :=
  match u with
  | Km => [107; 109]   (* km *)
  | Me => [109]   (* m *)
  | Dm => [100; 109]   (* dm *)
  | Cm => [99; 109]   (* cm *)
  | Mm => [109; 109]   (* mm *)
  | Dmm => [100; 109; 109]   (* dmm *)
  | Cmm => [99; 109; 109]   (* cmm *)
  | Um => [181; 109]   (* µm *)
  | Nm => [110; 109]   (* nm *)
  | Pm => [112; 109]   (* pm *)
  | Fm => [102; 109]   (* fm *)
  end.

Definition sym_time (u : time_u) : str :=
  match u with
  | Ho => [104]   (* h *)
  | Mi => [109; 105; 110]   (* min *)
  | Se => [115]   (* s *)
  | Ds => [100; 115]   (* ds *)
  | Cs => [99; 115]   (* cs *)
  | Ms => [109; 115]   (* ms *)
  | Us => [181; 115]   (* µs *)
  | Ns => [110; 115]   (* ns *)
  | Ps => [112; 115]   (* ps *)
  | Fs => [102; 115]   (* fs *)
  end.

Definition sym_amount (u : amount_u) : str :=
  match u with
  | Kmol => [107; 109; 111; 108]   (* kmol *)
  | Mol => [109; 111; 108]   (* mol *)
  | Dmol => [100; 109; 111; 108]   (* dmol *)
  | Cmol => [99; 109; 111; 108]   (* cmol *)
  | Mmol => [109; 109; 111; 108]   (* mmol *)
  | Umol => [181; 109; 111; 108]   (* µmol *)
  | Nmol => [110; 109; 111; 108]   (* nmol *)
  | Pmol => [112; 109; 111; 108]   (* pmol *)
  | Fmol => [102; 109; 111; 108]   (* fmol *)
  | Molecule => [109; 111; 108; 101; 99; 117; 108; 101]   (* molecule *)
  end.

Definition sym_volume (u : volume_sym) : str :=
  match u with
  | KL => [107; 76]   (* kL *)
  | L_ => [76]   (* L *)
  | ML => [109; 76]   (* mL *)
  | UL => [181; 76]   (* µL *)
  | NL => [110; 76]   (* nL *)
  | PL => [112; 76]   (* pL *)
  | FL => [102; 76]   (* fL *)
  end.

Definition sym_molar (u : molar_sym) : str :=
  match u with
  | KM_ => [107; 77]   (* kM *)
  | M_ => [77]   (* M *)
  | DM_ => [100; 77]   (* dM *)
  | CM_ => [99; 77]   (* cM *)
  | MM_ => [109; 77]   (* mM *)
  | UM_ => [181; 77]   (* µM *)
  | NM_ => [110; 77]   (* nM *)
  | PM_ => [112; 77]   (* pM *)
  | FM_ => [102; 77]   (* fM *)
  end.

Inductive unit_kind := KSpace (u : space_u) | KTime (u : time_u) | KAmount (u : amount_u) | KVolume (v : volume_sym) | KMolar (m : molar_sym).

Definition all_kinds : list unit_kind :=
  map KSpace all_space ++ map KTime all_time ++ map KAmount all_amount ++ map KVolume all_volume_sym ++ map KMolar all_molar_sym.
Definition sym_of (k : unit_kind) : str :=
  match k with KSpace u => sym_space u | KTime u => sym_time u | KAmount u => sym_amount u | KVolume v => sym_volume v | KMolar m => sym_molar m end.

(* get_unit_type: the first table entry with that spelling *)
Definition classify (name : str) : option unit_kind := find (fun k => str_eqb (sym_of k) name) all_kinds.

(* the five str.replace calls: a 'u' directly followed by m, s, L or M becomes the micro sign *)
Fixpoint u_to_micro (s : str) : str :=
  match s with
  | c :: rest =>
      (if (c =? 117) && match rest with d :: _ => (d =? 109) || (d =? 115) || (d =? 76) || (d =? 77) | [] => false end then 181 else c)
      :: u_to_micro rest
  | [] => []
  end.

Fixpoint lstrip (s : str) : str := match s with c :: rest => if is_space c then lstrip rest else s | [] => [] end.
Definition strip (s : str) : str := rev (lstrip (rev (lstrip s))).

(* the tokeniser: blocks (separator, name, exponent text); once an exponent character was seen, everything up to the next
   separator belongs to the exponent text *)
Definition is_exp_char (c : N) : bool := (c =? 45) || ((48 <=? c) && (c <=? 57)).
Definition is_sep (c : N) : bool := (c =? 46) || (c =? 47).
Record block := { b_sep : N; b_name : str; b_exp : str }.

Fixpoint tokenize (s : str) (sep : N) (name expt : str) (in_exp : bool) : list block :=
  match s with
  | [] => [{| b_sep := sep; b_name := rev name; b_exp := rev expt |}]
  | c :: rest =>
      if is_sep c then {| b_sep := sep; b_name := rev name; b_exp := rev expt |} :: tokenize rest c [] [] false
      else if in_exp || is_exp_char c then tokenize rest sep name (c :: expt) true
      else tokenize rest sep (c :: name) expt false
  end.

(* ---- the documented grammar: exponent text is -?[0-9]+ (no blanks, underscores or other digits) ---- *)
Fixpoint all_digits (s : str) : bool := match s with [] => true | c :: r => (48 <=? c) && (c <=? 57) && all_digits r end.
Definition strict_exp_text (t : str) : bool :=
  match t with
  | [] => true
  | c :: r => if c =? 45 then negb (match r with [] => true | _ => false end) && all_digits r else all_digits t
  end.

(* the exponent of a block: absent = 1; otherwise the text must be -?[0-9]+ and is read by int(); '/' negates *)
Definition block_exp (b : block) : option Z :=
  let e := match b_exp b with [] => Some 1%Z | t => if strict_exp_text t then parse_int t else None end in
  option_map (fun z => if b_sep b =? 47 then Z.opp z else z) e.

Record acc := { a_s : option space_u; a_t : option time_u; a_q : option amount_u; a_d : dim }.
Definition acc0 : acc := {| a_s := None; a_t := None; a_q := None; a_d := dim0 |}.

Definition space_eqb (a b : space_u) : bool := str_eqb (sym_space a) (sym_space b).
Definition time_eqb (a b : time_u) : bool := str_eqb (sym_time a) (sym_time b).
Definition amount_eqb (a b : amount_u) : bool := str_eqb (sym_amount a) (sym_amount b).

Definition add_space (a : acc) (u : space_u) (e : Z) : option acc :=
  match a_s a with
  | Some u' => if space_eqb u u' then Some {| a_s := a_s a; a_t := a_t a; a_q := a_q a; a_d := dim_add (a_d a) {| dS := e; dT := 0; dQ := 0 |} |} else None
  | None => Some {| a_s := Some u; a_t := a_t a; a_q := a_q a; a_d := dim_add (a_d a) {| dS := e; dT := 0; dQ := 0 |} |}
  end.
Definition add_time (a : acc) (u : time_u) (e : Z) : option acc :=
  match a_t a with
  | Some u' => if time_eqb u u' then Some {| a_s := a_s a; a_t := a_t a; a_q := a_q a; a_d := dim_add (a_d a) {| dS := 0; dT := e; dQ := 0 |} |} else None
  | None => Some {| a_s := a_s a; a_t := Some u; a_q := a_q a; a_d := dim_add (a_d a) {| dS := 0; dT := e; dQ := 0 |} |}
  end.
Definition add_amount (a : acc) (u : amount_u) (e : Z) : option acc :=
  match a_q a with
  | Some u' => if amount_eqb u u' then Some {| a_s := a_s a; a_t := a_t a; a_q := a_q a; a_d := dim_add (a_d a) {| dS := 0; dT := 0; dQ := e |} |} else None
  | None => Some {| a_s := a_s a; a_t := a_t a; a_q := Some u; a_d := dim_add (a_d a) {| dS := 0; dT := 0; dQ := e |} |}
  end.

Definition add_block (a : acc) (b : block) : option acc :=
  match classify (b_name b), block_exp b with
  | Some k, Some e =>
      match k with
      | KSpace u => add_space a u e
      | KTime u => add_time a u e
      | KAmount u => add_amount a u e
      | KVolume v => add_space a (volume_base v) (e * 3)%Z
      | KMolar m => match add_space a Dm (e * -3)%Z with Some a' => add_amount a' (molar_base m) e | None => None end
      end
  | _, _ => None
  end.

Fixpoint add_blocks (a : acc) (bs : list block) : option acc :=
  match bs with [] => Some a | b :: rest => match add_block a b with Some a' => add_blocks a' rest | None => None end end.

Definition finish (a : acc) : usys * dim :=
  ({| us := match a_s a with Some u => u | None => Um end; ut := match a_t a with Some u => u | None => Se end;
      uq := match a_q a with Some u => u | None => Molecule end |}, a_d a).

Definition parse_units (s : str) : option (usys * dim) :=
  let s := strip (u_to_micro s) in
  match s with
  | [] => Some (default_usys, dim0)
  | _ => option_map finish (add_blocks acc0 (tokenize s 46 [] [] false))
  end.

(* Units.__str__ *)
Definition print_factor (sym : str) (e : Z) : list str :=
  if Z.eqb e 0 then [] else [sym ++ (if Z.eqb e 1 then [] else print_int e)].
Fixpoint join_dot (l : list str) : str :=
  match l with [] => [] | [a] => a | a :: rest => a ++ 46 :: join_dot rest end.
Definition print_units (u : usys) (d : dim) : str :=
  join_dot (print_factor (sym_space (us u)) (dS d) ++ print_factor (sym_time (ut u)) (dT d) ++ print_factor (sym_amount (uq u)) (dQ d)).

(* Units.__eq__: same exponents, same base unit wherever the exponent is not zero *)
Definition units_equiv (a b : usys * dim) : bool :=
  let (ua, da) := a in let (ub, db) := b in
  Z.eqb (dS da) (dS db) && Z.eqb (dT da) (dT db) && Z.eqb (dQ da) (dQ db)
  && (Z.eqb (dS da) 0 || space_eqb (us ua) (us ub)) && (Z.eqb (dT da) 0 || time_eqb (ut ua) (ut ub))
  && (Z.eqb (dQ da) 0 || amount_eqb (uq ua) (uq ub)).

(* parse_unitvalue: strip, split on blanks, float(first token), the other tokens glued together are the unit text.
   float() and str(float) are outside the model: they enter as parameters of the section. *)
Section WithFloat.
  Variable F : Type.
  Variable parse_float : str -> option F.
  Variable zero : F.
  Definition parse_unitvalue (s : str) : option (F * (usys * dim)) :=
    match split_ws s [] with
    | [] => option_map (fun u => (zero, u)) (parse_units [])
    | t :: rest => match parse_float t, parse_units (concat rest) with Some v, Some u => Some (v, u) | _, _ => None end
    end.
End WithFloat.

Definition spec_parse_units := parse_units.

(* a quantity text: value, blanks, one unit expression (or a value alone) *)
Definition spec_parse_value_units (s : str) (float_ok : bool) : option (usys * dim) :=
  match split_ws s [] with
  | [] => Some (default_usys, dim0)
  | [_] => if float_ok then Some (default_usys, dim0) else None
  | [_; u] => if float_ok then spec_parse_units u else None
  | _ => None
  end.
