(* Transport decoding used only by generated case files (coq/Cases): big numerals are written as
   primitive 63-bit integers (cheap to parse) and turned into Z / Qc here, inside vm_compute.
   Nothing in a model, proof or property file depends on this file. *)
From Coq Require Import Uint63 ZArith QArith Qcanon.
From Verif Require Import Num.

Definition zp (i : int) : Z := Uint63.to_Z i.
Definition zn (i : int) : Z := Z.opp (Uint63.to_Z i).

(* m * 2^e : the exact value of a binary64 number *)
Definition flp (m : int) (e : Z) : Qc := Q2Qc (inject_Z (zp m) * Qpower 2 e).
Definition fln (m : int) (e : Z) : Qc := Q2Qc (inject_Z (zn m) * Qpower 2 e).
(* p / q *)
Definition qp (p q : int) : Qc := Q2Qc (zp p # Z.to_pos (zp q)).
Definition qn (p q : int) : Qc := Q2Qc (zn p # Z.to_pos (zp q)).

(* case verdict: ok flag and a small branch tag (which part of the model the case exercised) *)
Definition verdict := (bool * nat)%type.

Fixpoint failing (i : nat) (l : list verdict) : list nat :=
  match l with
  | [] => []
  | (ok, _) :: l' => if ok then failing (S i) l' else i :: failing (S i) l'
  end.
