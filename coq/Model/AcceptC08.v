(* Correspondence verdict for C08: trajectories (times ++ data, exact binary64 values) of the same script + seed obtained
   under different schedules / histories / engine objects must be identical to the reference run; runs with another seed must
   differ (stochastic engines with something to draw) or be identical (deterministic engine). *)
From Verif Require Import Num Decode.

Definition same_traj (a b : list Qc) : bool := forall2b Qceqb a b.

Definition accept_C08 (ref : list Qc) (runs : list (list Qc * bool)) : verdict :=
  (forallb (fun r : list Qc * bool => Bool.eqb (same_traj ref (fst r)) (snd r)) runs,
   if existsb (fun r : list Qc * bool => negb (snd r)) runs then 2%nat else 1%nat).
