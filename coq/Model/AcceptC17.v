(* Correspondence verdict for C17: every accessor of a trajectory, and the look-ups. *)
From Verif Require Import Num Units System Trajectory Decode AcceptC06 AcceptC05.
Open Scope Qc_scope.

Inductive lookup_policy := LClosest | LInfeq | LSupeq.

Record c17_query := { q_t : Qc; q_units : option usys (* None: a bare number, read in the units of the sample times *);
                      q_policy : lookup_policy }.

Record c17_case := { c_traj : traj; c_ts : list Qc; c_tunits : usys; c_queries : list c17_query }.

Record c17_obs := {
  o_points : list Qc;                  (* get_trajectory_point for n, then s, then c *)
  o_states : list (list Qc);           (* get_state(s, n) for n, then s *)
  o_wholes : list (list Qc);           (* get_state(None, n) *)
  o_trajs : list (list Qc);            (* get_trajectory(s, c) for s, then c *)
  o_merged : list (list Qc);           (* get_trajectory(s, merge=True) *)
  o_units_ok : bool;                   (* every returned value carried the data's units *)
  o_lookups : list (option nat)
}.

Definition eqQ (a b : Qc) : bool := Qceqb a b.

Definition do_lookup (ts : list Qc) (tu : usys) (q : c17_query) : option nat :=
  let t := match q_units q with
           | None => q_t q
           | Some u => qv (convert {| qv := q_t q; qu := u; qd := dim_time |} tu)
           end in
  match q_policy q with LClosest => closest ts t | LInfeq => infeq ts t | LSupeq => supeq ts t end.

Definition optnat_eqb (a b : option nat) : bool :=
  match a, b with Some x, Some y => Nat.eqb x y | None, None => true | _, _ => false end.

Definition accept_C17 (c : c17_case) (o : c17_obs) : verdict :=
  let T := c_traj c in
  let ns := seq 0 (tN T) in let ss := seq 0 (tS T) in let cs := seq 0 (tC T) in
  let ok_pts := forall2b eqQ (flat_map (fun n => flat_map (fun s => map (fun c => point T s n c) cs) ss) ns) (o_points o) in
  let ok_st := forall2b (forall2b eqQ) (flat_map (fun n => map (fun s => state_of T s n) ss) ns) (o_states o) in
  let ok_wh := forall2b (forall2b eqQ) (map (whole_state T) ns) (o_wholes o) in
  let ok_tr := forall2b (forall2b eqQ) (flat_map (fun s => map (fun c => trajectory_of T s c) cs) ss) (o_trajs o) in
  let ok_mg := forall2b (forall2b close9) (map (merged_trajectory T) ss) (o_merged o) in
  let ok_lk := forall2b optnat_eqb (map (do_lookup (c_ts c) (c_tunits c)) (c_queries c)) (o_lookups o) in
  (ok_pts && ok_st && ok_wh && ok_tr && ok_mg && o_units_ok o && ok_lk,
   (1 + (if ok_pts then 0 else 1) + (if ok_st then 0 else 2) + (if ok_wh then 0 else 4) + (if ok_tr then 0 else 8)
    + (if ok_mg then 0 else 16) + (if o_units_ok o then 0 else 32) + (if ok_lk then 0 else 64))%nat).
