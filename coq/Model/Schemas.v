(* GENERATED on every run by harness/translate_schemas.py from /repo/src/strengths/*.py (ast): the synonym tables of the
   *_from_dict readers, the keys each reader looks up, the keys each *_to_dict writer emits.  Do not edit. *)
From Coq Require Import NArith.
From Verif Require Import Num ReactionText.
Open Scope N_scope.

Definition schema := list (list str).        (* one list of synonyms per field; the first is the key the writers use *)

Definition schema_species : schema :=
  [[[108; 97; 98; 101; 108]; [108]]   (* label | l *);
   [[68]; [100; 105; 102; 102; 95; 99; 111; 101; 102]; [100; 105; 102; 102; 117; 115; 105; 111; 110; 95; 99; 111; 101; 102; 102; 105; 99; 105; 101; 110; 116]; [100; 105; 102; 102; 32; 99; 111; 101; 102]; [100; 105; 102; 102; 117; 115; 105; 111; 110; 32; 99; 111; 101; 102; 102; 105; 99; 105; 101; 110; 116]]   (* D | diff_coef | diffusion_coefficient | diff coef | diffusion coefficient *);
   [[100; 101; 110; 115; 105; 116; 121]; [99; 111; 110; 99; 101; 110; 116; 114; 97; 116; 105; 111; 110]; [100; 101; 110; 115]; [99; 111; 110; 99]; [67]]   (* density | concentration | dens | conc | C *);
   [[99; 104; 115; 116; 116]; [99; 104; 101; 109; 111; 115; 116; 97; 116]]   (* chstt | chemostat *);
   [[117; 110; 105; 116; 115]; [117; 110; 105; 116; 115; 95; 115; 121; 115; 116; 101; 109]; [117; 110; 105; 116; 115; 32; 115; 121; 115; 116; 101; 109]; [117]]   (* units | units_system | units system | u *)].

Definition schema_reaction : schema :=
  [[[115; 116; 111; 105; 99; 104; 105; 111; 109; 101; 116; 114; 121]; [101; 113]; [115; 116; 111]; [101; 113; 117; 97; 116; 105; 111; 110]]   (* stoichiometry | eq | sto | equation *);
   [[108; 97; 98; 101; 108]; [108]]   (* label | l *);
   [[107; 43]; [107; 102]]   (* k+ | kf *);
   [[107; 45]; [107; 114]]   (* k- | kr *);
   [[117; 110; 105; 116; 115]; [117; 110; 105; 116; 115; 95; 115; 121; 115; 116; 101; 109]; [117; 110; 105; 116; 115; 32; 115; 121; 115; 116; 101; 109]; [117]]   (* units | units_system | units system | u *)].

Definition schema_network : schema :=
  [[[115; 112; 101; 99; 105; 101; 115]]   (* species *);
   [[114; 101; 97; 99; 116; 105; 111; 110; 115]]   (* reactions *);
   [[101; 110; 118; 105; 114; 111; 110; 109; 101; 110; 116; 115]; [101; 110; 118]]   (* environments | env *);
   [[117; 110; 105; 116; 115]; [117; 110; 105; 116; 115; 95; 115; 121; 115; 116; 101; 109]; [117; 110; 105; 116; 115; 32; 115; 121; 115; 116; 101; 109]; [117]]   (* units | units_system | units system | u *)].

Definition schema_grid : schema :=
  [[[116; 121; 112; 101]]   (* type *);
   [[119]; [119; 105; 100; 116; 104]]   (* w | width *);
   [[104]; [104; 101; 105; 103; 104; 116]]   (* h | height *);
   [[100]; [100; 101; 112; 116; 104]]   (* d | depth *);
   [[99; 101; 108; 108; 95; 101; 110; 118]; [99; 101; 108; 108; 95; 101; 110; 118; 105; 114; 111; 110; 109; 101; 110; 116; 115]; [99; 101; 108; 108; 32; 101; 110; 118; 105; 114; 111; 110; 109; 101; 110; 116; 115]; [101; 110; 118; 105; 114; 111; 110; 109; 101; 110; 116; 115]; [101; 110; 118]]   (* cell_env | cell_environments | cell environments | environments | env *);
   [[99; 101; 108; 108; 95; 118; 111; 108; 117; 109; 101]; [99; 101; 108; 108; 95; 118; 111; 108]]   (* cell_volume | cell_vol *);
   [[98; 111; 117; 110; 100; 97; 114; 121; 95; 99; 111; 110; 100; 105; 116; 105; 111; 110; 115]]   (* boundary_conditions *);
   [[117; 110; 105; 116; 115]; [117; 110; 105; 116; 115; 95; 115; 121; 115; 116; 101; 109]; [117; 110; 105; 116; 115; 32; 115; 121; 115; 116; 101; 109]; [117]]   (* units | units_system | units system | u *)].

Definition schema_node : schema :=
  [[[118; 111; 108; 117; 109; 101]; [118; 111; 108]]   (* volume | vol *);
   [[101; 110; 118; 105; 114; 111; 110; 109; 101; 110; 116]; [101; 110; 118]]   (* environment | env *);
   [[117; 110; 105; 116; 115]; [117; 110; 105; 116; 115; 95; 115; 121; 115; 116; 101; 109]; [117; 110; 105; 116; 115; 32; 115; 121; 115; 116; 101; 109]; [117]]   (* units | units_system | units system | u *)].

Definition schema_edge : schema :=
  [[[110; 111; 100; 101; 115]]   (* nodes *);
   [[115; 117; 114; 102; 97; 99; 101]]   (* surface *);
   [[100; 105; 115; 116; 97; 110; 99; 101]]   (* distance *);
   [[117; 110; 105; 116; 115]; [117; 110; 105; 116; 115; 95; 115; 121; 115; 116; 101; 109]; [117; 110; 105; 116; 115; 32; 115; 121; 115; 116; 101; 109]; [117]]   (* units | units_system | units system | u *)].

Definition schema_graph : schema :=
  [[[116; 121; 112; 101]]   (* type *);
   [[110; 111; 100; 101; 115]]   (* nodes *);
   [[101; 100; 103; 101; 115]]   (* edges *);
   [[117; 110; 105; 116; 115]; [117; 110; 105; 116; 115; 95; 115; 121; 115; 116; 101; 109]; [117; 110; 105; 116; 115; 32; 115; 121; 115; 116; 101; 109]; [117]]   (* units | units_system | units system | u *)].

Definition schema_system : schema :=
  [[[110; 101; 116; 119; 111; 114; 107]; [114; 100; 110; 101; 116; 119; 111; 114; 107]]   (* network | rdnetwork *);
   [[115; 112; 97; 99; 101]; [114; 100; 115; 112; 97; 99; 101]]   (* space | rdspace *);
   [[115; 116; 97; 116; 101]]   (* state *);
   [[99; 104; 101; 109; 111; 115; 116; 97; 116; 115]]   (* chemostats *);
   [[117; 110; 105; 116; 115]; [117; 110; 105; 116; 115; 95; 115; 121; 115; 116; 101; 109]; [117; 110; 105; 116; 115; 32; 115; 121; 115; 116; 101; 109]; [117]]   (* units | units_system | units system | u *)].

Definition schema_script : schema :=
  [[[115; 121; 115; 116; 101; 109]]   (* system *);
   [[116; 95; 115; 97; 109; 112; 108; 101]]   (* t_sample *);
   [[116; 105; 109; 101; 95; 115; 116; 101; 112]; [116; 105; 109; 101; 32; 115; 116; 101; 112]; [100; 116]]   (* time_step | time step | dt *);
   [[116; 95; 109; 97; 120]; [116; 109; 97; 120]]   (* t_max | tmax *);
   [[115; 97; 109; 112; 108; 105; 110; 103; 95; 112; 111; 108; 105; 99; 121]; [115; 97; 109; 112; 108; 105; 110; 103; 32; 112; 111; 108; 105; 99; 121]]   (* sampling_policy | sampling policy *);
   [[115; 97; 109; 112; 108; 105; 110; 103; 95; 105; 110; 116; 101; 114; 118; 97; 108]; [115; 97; 109; 112; 108; 105; 110; 103; 32; 105; 110; 116; 101; 114; 118; 97; 108]]   (* sampling_interval | sampling interval *);
   [[114; 110; 103; 95; 115; 101; 101; 100]; [114; 110; 103; 32; 115; 101; 101; 100]; [115; 101; 101; 100]]   (* rng_seed | rng seed | seed *);
   [[105; 110; 105; 116; 95; 115; 116; 97; 116; 101; 95; 112; 114; 111; 99; 101; 115; 115; 105; 110; 103]; [105; 110; 105; 116; 32; 115; 116; 97; 116; 101; 32; 112; 114; 111; 99; 101; 115; 115; 105; 110; 103]]   (* init_state_processing | init state processing *);
   [[117; 110; 105; 116; 115]; [117; 110; 105; 116; 115; 95; 115; 121; 115; 116; 101; 109]; [117; 110; 105; 116; 115; 32; 115; 121; 115; 116; 101; 109]; [117]]   (* units | units_system | units system | u *)].

Definition schema_unitssystem : schema :=
  [[[115; 112; 97; 99; 101]]   (* space *);
   [[116; 105; 109; 101]]   (* time *);
   [[113; 117; 97; 110; 116; 105; 116; 121]]   (* quantity *)].

Definition schema_unitsdimensions : schema :=
  [[[115; 112; 97; 99; 101]]   (* space *);
   [[116; 105; 109; 101]]   (* time *);
   [[113; 117; 97; 110; 116; 105; 116; 121]]   (* quantity *)].

Definition schema_unitarray : schema :=
  [[[118; 97; 108; 117; 101]]   (* value *);
   [[117; 110; 105; 116; 115]]   (* units *)].

Definition schema_trajectory : schema :=
  [[[99; 103; 109; 97; 112]]   (* cgmap *);
   [[100; 97; 116; 97]]   (* data *);
   [[101; 110; 103; 105; 110; 101; 95; 100; 101; 115; 99; 114; 105; 112; 116; 105; 111; 110]]   (* engine_description *);
   [[101; 110; 103; 105; 110; 101; 95; 111; 112; 116; 105; 111; 110]]   (* engine_option *);
   [[115; 99; 114; 105; 112; 116]]   (* script *);
   [[115; 121; 115; 116; 101; 109]]   (* system *);
   [[116; 95; 115; 97; 109; 112; 108; 101]]   (* t_sample *)].

Definition writer_species : list str := [[108; 97; 98; 101; 108]; [68]; [100; 101; 110; 115; 105; 116; 121]; [99; 104; 115; 116; 116]; [117; 110; 105; 116; 115]].   (* label D density chstt units *)

Definition writer_reaction : list str := [[108; 97; 98; 101; 108]; [115; 116; 111; 105; 99; 104; 105; 111; 109; 101; 116; 114; 121]; [107; 43]; [107; 45]; [117; 110; 105; 116; 115]].   (* label stoichiometry k+ k- units *)

Definition writer_network : list str := [[117; 110; 105; 116; 115]; [115; 112; 101; 99; 105; 101; 115]; [114; 101; 97; 99; 116; 105; 111; 110; 115]; [101; 110; 118; 105; 114; 111; 110; 109; 101; 110; 116; 115]].   (* units species reactions environments *)

Definition writer_grid : list str := [[116; 121; 112; 101]; [117; 110; 105; 116; 115]; [119]; [104]; [100]; [99; 101; 108; 108; 95; 101; 110; 118]; [99; 101; 108; 108; 95; 118; 111; 108; 117; 109; 101]; [98; 111; 117; 110; 100; 97; 114; 121; 95; 99; 111; 110; 100; 105; 116; 105; 111; 110; 115]].   (* type units w h d cell_env cell_volume boundary_conditions *)

Definition writer_node : list str := [[118; 111; 108; 117; 109; 101]; [101; 110; 118; 105; 114; 111; 110; 109; 101; 110; 116]; [117; 110; 105; 116; 115]].   (* volume environment units *)

Definition writer_edge : list str := [[110; 111; 100; 101; 115]; [115; 117; 114; 102; 97; 99; 101]; [100; 105; 115; 116; 97; 110; 99; 101]; [117; 110; 105; 116; 115]].   (* nodes surface distance units *)

Definition writer_graph : list str := [[116; 121; 112; 101]; [110; 111; 100; 101; 115]; [101; 100; 103; 101; 115]; [117; 110; 105; 116; 115]].   (* type nodes edges units *)

Definition writer_system : list str := [[117; 110; 105; 116; 115]; [110; 101; 116; 119; 111; 114; 107]; [115; 112; 97; 99; 101]; [115; 116; 97; 116; 101]; [99; 104; 101; 109; 111; 115; 116; 97; 116; 115]].   (* units network space state chemostats *)

Definition writer_script : list str := [[115; 121; 115; 116; 101; 109]; [116; 95; 115; 97; 109; 112; 108; 101]; [116; 105; 109; 101; 95; 115; 116; 101; 112]; [116; 95; 109; 97; 120]; [115; 97; 109; 112; 108; 105; 110; 103; 95; 112; 111; 108; 105; 99; 121]; [115; 97; 109; 112; 108; 105; 110; 103; 95; 105; 110; 116; 101; 114; 118; 97; 108]; [114; 110; 103; 95; 115; 101; 101; 100]; [105; 110; 105; 116; 95; 115; 116; 97; 116; 101; 95; 112; 114; 111; 99; 101; 115; 115; 105; 110; 103]; [117; 110; 105; 116; 115]].   (* system t_sample time_step t_max sampling_policy sampling_interval rng_seed init_state_processing units *)

Definition writer_unitssystem : list str := [[115; 112; 97; 99; 101]; [116; 105; 109; 101]; [113; 117; 97; 110; 116; 105; 116; 121]].   (* space time quantity *)

Definition writer_unitsdimensions : list str := [[115; 112; 97; 99; 101]; [116; 105; 109; 101]; [113; 117; 97; 110; 116; 105; 116; 121]].   (* space time quantity *)

Definition writer_unitarray : list str := [[118; 97; 108; 117; 101]; [117; 110; 105; 116; 115]].   (* value units *)

Definition writer_trajectory : list str := [[115; 99; 114; 105; 112; 116]; [115; 121; 115; 116; 101; 109]; [100; 97; 116; 97]; [116; 95; 115; 97; 109; 112; 108; 101]; [101; 110; 103; 105; 110; 101; 95; 100; 101; 115; 99; 114; 105; 112; 116; 105; 111; 110]; [101; 110; 103; 105; 110; 101; 95; 111; 112; 116; 105; 111; 110]; [99; 103; 109; 97; 112]].   (* script system data t_sample engine_description engine_option cgmap *)

Definition uses_species : list str := [[108; 97; 98; 101; 108]; [68]; [100; 101; 110; 115; 105; 116; 121]; [99; 104; 115; 116; 116]; [117; 110; 105; 116; 115]].   (* label D density chstt units *)

Definition uses_reaction : list str := [[115; 116; 111; 105; 99; 104; 105; 111; 109; 101; 116; 114; 121]; [108; 97; 98; 101; 108]; [107; 43]; [107; 45]; [117; 110; 105; 116; 115]].   (* stoichiometry label k+ k- units *)

Definition uses_network : list str := [[101; 110; 118; 105; 114; 111; 110; 109; 101; 110; 116; 115]; [117; 110; 105; 116; 115]; [115; 112; 101; 99; 105; 101; 115]; [114; 101; 97; 99; 116; 105; 111; 110; 115]].   (* environments units species reactions *)

Definition uses_grid : list str := [[119]; [104]; [100]; [99; 101; 108; 108; 95; 101; 110; 118]; [99; 101; 108; 108; 95; 118; 111; 108; 117; 109; 101]; [98; 111; 117; 110; 100; 97; 114; 121; 95; 99; 111; 110; 100; 105; 116; 105; 111; 110; 115]; [117; 110; 105; 116; 115]].   (* w h d cell_env cell_volume boundary_conditions units *)

Definition uses_node : list str := [[117; 110; 105; 116; 115]; [118; 111; 108; 117; 109; 101]; [101; 110; 118; 105; 114; 111; 110; 109; 101; 110; 116]].   (* units volume environment *)

Definition uses_edge : list str := [[117; 110; 105; 116; 115]; [115; 117; 114; 102; 97; 99; 101]; [100; 105; 115; 116; 97; 110; 99; 101]; [110; 111; 100; 101; 115]].   (* units surface distance nodes *)

Definition uses_graph : list str := [[117; 110; 105; 116; 115]; [110; 111; 100; 101; 115]; [101; 100; 103; 101; 115]].   (* units nodes edges *)

Definition uses_system : list str := [[117; 110; 105; 116; 115]; [110; 101; 116; 119; 111; 114; 107]; [115; 112; 97; 99; 101]; [115; 116; 97; 116; 101]; [99; 104; 101; 109; 111; 115; 116; 97; 116; 115]].   (* units network space state chemostats *)

Definition uses_script : list str := [[117; 110; 105; 116; 115]; [115; 121; 115; 116; 101; 109]; [116; 95; 115; 97; 109; 112; 108; 101]; [116; 105; 109; 101; 95; 115; 116; 101; 112]; [116; 95; 109; 97; 120]; [115; 97; 109; 112; 108; 105; 110; 103; 95; 112; 111; 108; 105; 99; 121]; [115; 97; 109; 112; 108; 105; 110; 103; 95; 105; 110; 116; 101; 114; 118; 97; 108]; [114; 110; 103; 95; 115; 101; 101; 100]; [105; 110; 105; 116; 95; 115; 116; 97; 116; 101; 95; 112; 114; 111; 99; 101; 115; 115; 105; 110; 103]].   (* units system t_sample time_step t_max sampling_policy sampling_interval rng_seed init_state_processing *)

Definition uses_unitssystem : list str := [[115; 112; 97; 99; 101]; [116; 105; 109; 101]; [113; 117; 97; 110; 116; 105; 116; 121]].   (* space time quantity *)

Definition uses_unitsdimensions : list str := [[115; 112; 97; 99; 101]; [116; 105; 109; 101]; [113; 117; 97; 110; 116; 105; 116; 121]].   (* space time quantity *)

Definition uses_unitarray : list str := [[118; 97; 108; 117; 101]; [117; 110; 105; 116; 115]].   (* value units *)

Definition uses_trajectory : list str := [[99; 103; 109; 97; 112]; [100; 97; 116; 97]; [101; 110; 103; 105; 110; 101; 95; 100; 101; 115; 99; 114; 105; 112; 116; 105; 111; 110]; [101; 110; 103; 105; 110; 101; 95; 111; 112; 116; 105; 111; 110]; [115; 99; 114; 105; 112; 116]; [115; 121; 115; 116; 101; 109]; [116; 95; 115; 97; 109; 112; 108; 101]].   (* cgmap data engine_description engine_option script system t_sample *)

Definition dispatch_keys : list str := [[116; 121; 112; 101]].   (* read by rdspace_from_dict before a space reader is entered: type *)

Definition all_schemas : list schema := [schema_species; schema_reaction; schema_network; schema_grid; schema_node; schema_edge; schema_graph; schema_system; schema_script; schema_unitssystem; schema_unitsdimensions; schema_unitarray; schema_trajectory].

Definition writers_and_readers : list (list str * schema) := [(writer_species, schema_species); (writer_reaction, schema_reaction); (writer_network, schema_network); (writer_grid, schema_grid); (writer_node, schema_node); (writer_edge, schema_edge); (writer_graph, schema_graph); (writer_system, schema_system); (writer_script, schema_script); (writer_unitssystem, schema_unitssystem); (writer_unitsdimensions, schema_unitsdimensions); (writer_unitarray, schema_unitarray); (writer_trajectory, schema_trajectory)].

Definition uses_and_readers : list (list str * schema) := [(uses_species, schema_species); (uses_reaction, schema_reaction); (uses_network, schema_network); (uses_grid, schema_grid); (uses_node, schema_node); (uses_edge, schema_edge); (uses_graph, schema_graph); (uses_system, schema_system); (uses_script, schema_script); (uses_unitssystem, schema_unitssystem); (uses_unitsdimensions, schema_unitsdimensions); (uses_unitarray, schema_unitarray); (uses_trajectory, schema_trajectory)].
