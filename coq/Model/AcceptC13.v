(* Correspondence verdict for C13: default state / chemostat map and a sequence of accessor calls. *)
From Verif Require Import Num Units Grid System Decode AcceptC06 AcceptC05.
Open Scope Qc_scope.

Inductive c13_op :=
| OpGetState (r : species_ref) (p : position)
| OpSetState (r : species_ref) (p : position) (a : amount_arg)
| OpGetChs (r : species_ref) (p : position)
| OpSetChs (r : species_ref) (p : position) (b : bool)
(* edit species number s (density and flag), then regenerate the default state and chemostat map *)
| OpRegenerate (s : nat) (dens : envval quantity) (chs : envval bool).

Inductive c13_res := RRaise | RQty (v : Qc) (u : usys) (d : dim) | RFlag (b : bool) | RUnit.

Record c13_obs := {
  o_state0 : list Qc; o_units0 : usys; o_chs0 : list bool;
  o_results : list c13_res;
  o_state1 : list Qc; o_units1 : usys; o_chs1 : list bool
}.

Record c13_case := { c_sys : system; c_ops : list c13_op }.

Definition edit_species (sys : system) (k : nat) (dens : envval quantity) (chs : envval bool) : system :=
  let net := sy_net sys in
  let ss := n_species net in
  let s := nth k ss {| sp_label := 0%nat; sp_D := Scalar zero_density; sp_dens := Scalar zero_density; sp_chs := Scalar false |} in
  {| sy_net := {| n_species := set_nth k {| sp_label := sp_label s; sp_D := sp_D s; sp_dens := dens; sp_chs := chs |} ss;
                  n_reactions := n_reactions net; n_envs := n_envs net; n_units := n_units net |};
     sy_space := sy_space sys; sy_units := sy_units sys |}.

Definition qty_close (m : quantity) (r : c13_res) : bool :=
  match r with RQty v u d => usys_eqb (qu m) u && dim_eqb (qd m) d && close9 (qv m) v | _ => false end.

(* run the calls on the model, checking each observed result *)
Fixpoint run_ops (sys : system) (st : sstate) (ch : list bool) (ops : list c13_op) (rs : list c13_res)
  : bool * (system * sstate * list bool) :=
  match ops, rs with
  | [], [] => (true, (sys, st, ch))
  | op :: ops', r :: rs' =>
      match op with
      | OpGetState sr p =>
          match get_state sys st sr p with
          | Ok q => if qty_close q r then run_ops sys st ch ops' rs' else (false, (sys, st, ch))
          | Err => match r with RRaise => run_ops sys st ch ops' rs' | _ => (false, (sys, st, ch)) end
          end
      | OpSetState sr p a =>
          match set_state sys st sr p a, r with
          | Ok st', RUnit => run_ops sys st' ch ops' rs'
          | Err, RRaise => run_ops sys st ch ops' rs'
          | _, _ => (false, (sys, st, ch))
          end
      | OpGetChs sr p =>
          match get_chemostat sys ch sr p, r with
          | Ok b, RFlag b' => if Bool.eqb b b' then run_ops sys st ch ops' rs' else (false, (sys, st, ch))
          | Err, RRaise => run_ops sys st ch ops' rs'
          | _, _ => (false, (sys, st, ch))
          end
      | OpSetChs sr p b =>
          match set_chemostat sys ch sr p b, r with
          | Ok ch', RUnit => run_ops sys st ch' ops' rs'
          | Err, RRaise => run_ops sys st ch ops' rs'
          | _, _ => (false, (sys, st, ch))
          end
      | OpRegenerate k dens chs =>
          let sys' := edit_species sys k dens chs in
          match r with
          | RUnit => run_ops sys' {| st_v := default_state sys'; st_u := n_units (sy_net sys') |} (default_chstt sys') ops' rs'
          | _ => (false, (sys, st, ch))
          end
      end
  | _, _ => (false, (sys, st, ch))
  end.

Definition accept_C13 (c : c13_case) (o : c13_obs) : verdict :=
  let sys := c_sys c in
  let st0 := {| st_v := default_state sys; st_u := n_units (sy_net sys) |} in
  let ch0 := default_chstt sys in
  let ok0 := forall2b close9 (st_v st0) (o_state0 o) && usys_eqb (st_u st0) (o_units0 o)
             && forall2b Bool.eqb ch0 (o_chs0 o) in
  let '(okr, (_, st1, ch1)) := run_ops sys st0 ch0 (c_ops c) (o_results o) in
  let ok1 := forall2b close9 (st_v st1) (o_state1 o) && usys_eqb (st_u st1) (o_units1 o)
             && forall2b Bool.eqb ch1 (o_chs1 o) in
  (ok0 && okr && ok1, (1 + (if ok0 then 0 else 1) + (if okr then 0 else 2) + (if ok1 then 0 else 4))%nat).
