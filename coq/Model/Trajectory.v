(* Model of RDTrajectory accessors (rdoutput.py): one flat data array of N*S*C values read by the
   point / state / trajectory accessors, and the three sample-index look-ups. *)
From Verif Require Import Num Units.
Open Scope Qc_scope.

Record traj := { tN : nat; tS : nat; tC : nat; tdata : list Qc; tunits : usys }.

(* get_trajectory_point: data.get_at(sample*S*C + species*C + cell) *)
Definition point (T : traj) (s n c : nat) : Qc := nth (n * tS T * tC T + s * tC T + c) (tdata T) 0.

(* row-major reshape((N,S,C))[n, s, :] is a contiguous block *)
Definition block (l : list Qc) (start len : nat) : list Qc := firstn len (skipn start l).
Definition state_of (T : traj) (s n : nat) : list Qc := block (tdata T) ((n * tS T + s) * tC T) (tC T).
(* reshape((N, S*C))[n, :] *)
Definition whole_state (T : traj) (n : nat) : list Qc := block (tdata T) (n * (tS T * tC T)) (tS T * tC T).
(* reshape((N,S,C))[:, s, c] is strided *)
Definition trajectory_of (T : traj) (s c : nat) : list Qc :=
  tabulate (tN T) (fun n => nth ((n * tS T + s) * tC T + c) (tdata T) 0).
Definition merged_trajectory (T : traj) (s : nat) : list Qc :=
  tabulate (tN T) (fun n => sumQ (state_of T s n)).

(* ---- look-ups on the (non-decreasing) list of sample times ---- *)
Fixpoint prefix_count (p : Qc -> bool) (ts : list Qc) : nat :=
  match ts with
  | [] => 0
  | x :: r => if p x then S (prefix_count p r) else 0
  end.

(* last sample not after t *)
Definition infeq (ts : list Qc) (t : Qc) : option nat :=
  let k := prefix_count (fun x => Qcleb x t) ts in
  if Nat.eqb k 0 then None else Some (k - 1)%nat.

(* first sample not before t *)
Definition supeq (ts : list Qc) (t : Qc) : option nat :=
  let k := prefix_count (fun x => Qcltb x t) ts in
  if Nat.eqb k (length ts) then None else Some k.

(* closest sample, ties to the earlier *)
Definition closest (ts : list Qc) (t : Qc) : option nat :=
  let n := length ts in
  let k := prefix_count (fun x => Qcleb x t) ts in
  if Nat.eqb n 0 then None
  else if Nat.eqb k 0 then Some 0%nat
  else if Nat.eqb k n then Some (n - 1)%nat
  else if Qcleb (t - nth (k - 1) ts 0) (nth k ts 0 - t) then Some (k - 1)%nat else Some k.
