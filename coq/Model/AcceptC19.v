(* Correspondence verdicts for C19. *)
From Coq Require Import NArith.
From Verif Require Import Num Units System EngineBuild ReactionText Decode AcceptC06 AcceptC05.
Open Scope Z_scope.

Definition side_eqb (a b : side) : bool :=
  forall2b (fun (p q : str * Z) => str_eqb (fst p) (fst q) && Z.eqb (snd p) (snd q)) a b.

(* Reaction(string): raised, or the substrate and product dictionaries in insertion order *)
Definition accept_C19_parse (s : str) (obs : option (side * side)) : verdict :=
  match parse_eq s, obs with
  | None, None => (true, 1%nat)
  | Some (a, b), Some (a', b') => (side_eqb a a' && side_eqb b b', 2%nat)
  | _, _ => (false, 3%nat)
  end.

(* Reaction([subs, prods]): to_string, the re-parsed reaction, ssto / psto / dsto over a label list, order, rorder *)
Record c19_obs := { o19_text : str; o19_reparsed : option (side * side);
                    o19_ssto : list Z; o19_psto : list Z; o19_dsto : list Z; o19_order : Z; o19_rorder : Z }.

Definition stoich_equiv (labels : list str) (r r' : side * side) : bool :=
  forall2b Z.eqb (ssto r labels) (ssto r' labels) && forall2b Z.eqb (psto r labels) (psto r' labels).

Definition accept_C19_print (c : (side * side) * list str) (o : c19_obs) : verdict :=
  let (r, labels) := c in
  let ok_text := str_eqb (print_eq r) (o19_text o) in
  let ok_rt := match o19_reparsed o with Some r' => stoich_equiv labels r r' | None => false end in
  let ok_model_rt := match parse_eq (print_eq r) with Some r' => stoich_equiv labels r r' | None => false end in
  let ok_sto := forall2b Z.eqb (ssto r labels) (o19_ssto o) && forall2b Z.eqb (psto r labels) (o19_psto o)
                && forall2b Z.eqb (dsto r labels) (o19_dsto o) in
  let ok_ord := Z.eqb (side_order (fst r)) (o19_order o) && Z.eqb (side_order (snd r)) (o19_rorder o) in
  (ok_text && ok_rt && ok_model_rt && ok_sto && ok_ord,
   (1 + (if ok_text then 0 else 1) + (if ok_rt then 0 else 2) + (if ok_model_rt then 0 else 4) + (if ok_sto then 0 else 8)
    + (if ok_ord then 0 else 16))%nat).

(* ---- rate constants: Reaction(..., kf, kr, units_system): accepted iff the dimensions are those of the orders ---- *)
Open Scope Qc_scope.
Definition si_close (a b : quantity) : bool := close9 (SI a) (SI b).
Definition dim_sub (a b : dim) : dim := dim_add a (dim_opp b).

Definition accept_C19_k (c : Z * Z * usys * (quantity * dim * bool) * (quantity * dim * bool))
                        (o : option (quantity * quantity * list quantity * option quantity * bool)) : verdict :=
  let '(n, m, u, (kf, dkf, bare_f), (kr, dkr, bare_r)) := c in
  let valid := dim_eqb dkf (kdim n) && dim_eqb dkr (kdim m) in
  match o with
  | None => (negb valid, 1%nat)
  | Some (okf, okr, sp, K, flags) =>
      let ok_k := si_close kf okf && si_close kr okr && dim_eqb (qd okf) (kdim n) && dim_eqb (qd okr) (kdim m)
                  && (if bare_f then usys_eqb (qu okf) u else true) && (if bare_r then usys_eqb (qu okr) u else true) in
      let ok_split := match sp with
                      | [a; b; c'; d] => si_close kf a && Qceqb (qv b) 0 && si_close kr c' && Qceqb (qv d) 0
                                         && dim_eqb (qd a) (kdim n) && dim_eqb (qd c') (kdim m)
                      | _ => false end in
      let ok_K := if Qceqb (qv kr) 0 then match K with None => true | Some _ => false end
                  else match K with
                       | Some q => close9 (SI kf / SI kr) (SI q) && dim_eqb (qd q) (dim_sub (kdim n) (kdim m))
                       | None => false end in
      (valid && ok_k && ok_split && ok_K && flags,
       (2 + (if ok_k then 0 else 1) + (if ok_split then 0 else 2) + (if ok_K then 0 else 4) + (if flags then 0 else 8))%nat)
  end.

(* ---- RDNetwork validity: the harness states whether the three rules hold, the implementation whether it accepted ---- *)
Definition accept_C19_net (valid accepted : bool) : verdict := (Bool.eqb valid accepted, if valid then 1%nat else 2%nat).
