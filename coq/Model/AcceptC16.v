(* Correspondence verdict for C16. *)
From Verif Require Import Num Grid Coarse Decode AcceptC05.
Open Scope Qc_scope.

Record c16_case := {
  c16_grid : grid; c16_h : Qc; c16_env : list Z; c16_map : imap; c16_ns : nat;
  c16_state : list Qc; c16_flags : list bool;          (* species-major over the grid's cells *)
  c16_cgsample : list Qc                               (* one coarse-grained sample to spread back (species-major over the groups) *)
}.

Record c16_obs := {
  o16_accepted : bool;
  o16_volumes : list Qc; o16_envs : list Z;
  o16_edges : list (Z * Z * Qc * Qc);                  (* i, j, surface, distance *)
  o16_state : list Qc; o16_flags : list bool;
  o16_uncg : list Qc
}.

Definition close6 (a b : Qc) : bool := Qcleb (Qcabs (a - b)) (p10 (-9) * (Qcabs a + Qcabs b)).

Definition accept_C16 (c : c16_case) (o : c16_obs) : verdict :=
  let g := c16_grid c in let im := c16_map c in let h := c16_h c in
  let n := Z.to_nat (gsize g) in
  let valid := valid_map im n (c16_env c) in
  if negb valid then (negb (o16_accepted o), 1%nat)
  else if negb (o16_accepted o) then (false, 2%nat)
  else
    let G := ngroups im in
    let ok_nodes := forall2b close6 (map (node_volume im n h) (seq 0 G)) (o16_volumes o)
                    && forall2b Z.eqb (map (node_env im n (c16_env c)) (seq 0 G)) (o16_envs o) in
    let ok_edges := forall2b (fun (m : ekey * Qc) (e : Z * Z * Qc * Qc) =>
                        let '(i, j, sf, ds) := e in
                        Z.eqb (fst (fst m)) i && Z.eqb (snd (fst m)) j && close6 (snd m) sf
                        && close6 (dist2 (centroid g im n h (Z.to_nat i)) (centroid g im n h (Z.to_nat j))) (ds * ds))
                      (cg_edges g im h) (o16_edges o) in
    let ok_state := forall2b close6 (cg_state im n (c16_ns c) (c16_state c)) (o16_state o)
                    && forall2b Bool.eqb (cg_flags im n (c16_ns c) (c16_flags c)) (o16_flags o) in
    let ok_uncg := forall2b close6 (uncg_sample im n (c16_ns c) (c16_cgsample c)) (o16_uncg o) in
    (ok_nodes && ok_edges && ok_state && ok_uncg,
     (3 + (if ok_nodes then 0 else 1) + (if ok_edges then 0 else 2) + (if ok_state then 0 else 4) + (if ok_uncg then 0 else 8))%nat).
