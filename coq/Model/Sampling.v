(* The sampling and completion state machine shared by the six simulation algorithms
   (SimulationAlgorithm3DBase.hpp / SimulationAlgorithmGraphBase.hpp: Init, SamplingStep,
   SampleOnTSample, SampleOnInterval, Sample, CheckTMax; Euler*/TauLeap*/Gillespie*::Iterate) and
   the loop entry points of engine.cpp (iterate, iterate_n, run, sample).
   The clock is exact (Qc). The chemical state is abstracted to the number of the step that produced
   it: a record is (time, step number).  sample_pos is represented by the list of requested times
   not yet consumed (= t_samples[sample_pos ..]); the read of t_samples[sample_pos] is guarded by the
   bound test here - the order of the two tests in the C++ is C11's subject. *)
From Verif Require Import Num.
Open Scope Qc_scope.

Inductive policy := OnTSample | OnIteration | OnInterval | NoSampling.

Record sim := {
  s_t : Qc;                       (* t *)
  s_tmax : Qc;                    (* t_max (negative: no limit) *)
  s_pol : policy;
  s_rest : list Qc;               (* t_samples[sample_pos ..] *)
  s_int : Qc;                     (* sampling_interval *)
  s_last : Z;                     (* last_tsi_ratio *)
  s_done : bool;                  (* sampling_done_this_iteration *)
  s_complete : bool;
  s_step : nat;                   (* number of steps performed: identifies the current chemical state *)
  s_recs : list (Qc * nat)        (* sampled_t / sampled_mesh_x, oldest first *)
}.

Definition set_recs (s : sim) (done : bool) (recs : list (Qc * nat)) : sim :=
  {| s_t := s_t s; s_tmax := s_tmax s; s_pol := s_pol s; s_rest := s_rest s; s_int := s_int s; s_last := s_last s;
     s_done := done; s_complete := s_complete s; s_step := s_step s; s_recs := recs |}.

(* Sample(): at most one record per iteration *)
Definition sample (s : sim) : sim :=
  if s_done s then s else set_recs s true (s_recs s ++ [(s_t s, s_step s)]).

(* while (sample_pos < n_samples && t >= t_samples[sample_pos]) { Sample(); sample_pos++; } *)
Fixpoint consume (t : Qc) (l : list Qc) : bool * list Qc :=
  match l with
  | [] => (false, [])
  | tau :: l' => if Qcleb tau t then (true, snd (consume t l')) else (false, l)
  end.

Definition set_rest (s : sim) (l : list Qc) : sim :=
  {| s_t := s_t s; s_tmax := s_tmax s; s_pol := s_pol s; s_rest := l; s_int := s_int s; s_last := s_last s;
     s_done := s_done s; s_complete := s_complete s; s_step := s_step s; s_recs := s_recs s |}.
Definition set_last (s : sim) (z : Z) : sim :=
  {| s_t := s_t s; s_tmax := s_tmax s; s_pol := s_pol s; s_rest := s_rest s; s_int := s_int s; s_last := z;
     s_done := s_done s; s_complete := s_complete s; s_step := s_step s; s_recs := s_recs s |}.

Definition sample_on_tsample (s : sim) : sim :=
  let (hit, rest) := consume (s_t s) (s_rest s) in
  set_rest (if hit then sample s else s) rest.

Definition sample_on_interval (s : sim) : sim :=
  let r := Qcfloor (s_t s / s_int s) in
  if Z.ltb (s_last s) r then set_last (sample s) r else s.

Definition sampling_step (s : sim) : sim :=
  match s_pol s with
  | OnTSample => sample_on_tsample s
  | OnIteration => sample s
  | OnInterval => sample_on_interval s
  | NoSampling => s
  end.

Definition check_tmax (s : sim) : sim :=
  if Qcleb 0 (s_tmax s) && Qcltb (s_tmax s) (s_t s)
  then {| s_t := s_t s; s_tmax := s_tmax s; s_pol := s_pol s; s_rest := s_rest s; s_int := s_int s; s_last := s_last s;
          s_done := s_done s; s_complete := true; s_step := s_step s; s_recs := s_recs s |}
  else s.

(* Init: t = 0, sample_pos = 0, last_tsi_ratio = -1, then SamplingStep() for the t = 0 record *)
Definition sim_init (pol : policy) (ts : list Qc) (interval tmax : Qc) : sim :=
  sampling_step {| s_t := 0; s_tmax := tmax; s_pol := pol; s_rest := ts; s_int := interval; s_last := (-1)%Z;
                   s_done := false; s_complete := false; s_step := 0%nat; s_recs := [] |}.

Definition reset_done (s : sim) : sim := set_recs s false (s_recs s).

(* Iterate(): `step` is what the algorithm does to the clock: Some dt (Euler, tau-leap: the fixed
   step; Gillespie: the waiting time of the event just applied) or None (Gillespie with a total
   propensity of zero: nothing can happen any more, the simulation is flagged complete) *)
Definition iterate (step : option Qc) (s : sim) : sim :=
  let s := reset_done s in
  if s_complete s then s else
  match step with
  | None => {| s_t := s_t s; s_tmax := s_tmax s; s_pol := s_pol s; s_rest := s_rest s; s_int := s_int s; s_last := s_last s;
               s_done := s_done s; s_complete := true; s_step := s_step s; s_recs := s_recs s |}
  | Some dt =>
      check_tmax (sampling_step
        {| s_t := s_t s + dt; s_tmax := s_tmax s; s_pol := s_pol s; s_rest := s_rest s; s_int := s_int s; s_last := s_last s;
           s_done := s_done s; s_complete := s_complete s; s_step := S (s_step s); s_recs := s_recs s |})
  end.

Definition run_steps (steps : list (option Qc)) (s : sim) : sim := fold_left (fun s st => iterate st s) steps s.

(* fixed-step engines *)
Definition run_fixed (dt : Qc) (n : nat) (s : sim) : sim := run_steps (repeat (Some dt) n) s.

(* the calls a user can make between setup and get_output *)
Inductive call := CIterate | CIterateN (k : nat) | CSample.

(* iterate_n: up to k iterations, stopping after the one that reports completion *)
Fixpoint iterate_n (dt : Qc) (k : nat) (s : sim) : sim :=
  match k with
  | O => s
  | S k' => let s' := iterate (Some dt) s in if s_complete s' then s' else iterate_n dt k' s'
  end.

Definition do_call (dt : Qc) (s : sim) (c : call) : sim :=
  match c with
  | CIterate => iterate (Some dt) s
  | CIterateN k => iterate_n dt k s
  | CSample => sample s
  end.

Definition do_calls (dt : Qc) (cs : list call) (s : sim) : sim := fold_left (do_call dt) cs s.

(* GetProgress *)
Definition progress (s : sim) : Qc := if Qcltb 0 (s_tmax s) then QcZ 100 * s_t s / s_tmax s else 0.

(* a run described by its step times T 0 = 0 < T 1 < T 2 < ... (fixed step: T k = k * dt; Gillespie: the event times) *)
Fixpoint run_T (T : nat -> Qc) (n : nat) (s0 : sim) : sim :=
  match n with
  | O => s0
  | S k => iterate (Some (T (S k) - T k)) (run_T T k s0)
  end.

(* step k is the first step at or after tau *)
Definition covers (T : nat -> Qc) (k : nat) (tau : Qc) : bool :=
  Qcleb tau (T k) && match k with O => true | S k' => Qcltb (T k') tau end.

(* step k is the first step at or after some multiple of the interval *)
Definition crosses (T : nat -> Qc) (I : Qc) (k : nat) : bool :=
  match k with O => true | S k' => Z.ltb (Qcfloor (T k' / I)) (Qcfloor (T k / I)) end.
