(* GENERATED on every run by harness/translate_units.py from /repo/src/strengths/units.py and constants.py (ast): the code's own
   unit tables, number literals taken with the decimal meaning of their source text.  Do not edit. *)
From Coq Require Import NArith ZArith QArith Qcanon List.
From Verif Require Import Num ReactionText.
Import ListNotations.

Definition mkq (n : Z) (d : positive) : Qc := Q2Qc (n # d).

Definition code_space : list (list N * Qc) :=
  [([107; 109]%N, (mkq (1000) 1))   (* km *);
 ([109]%N, (mkq (1) 1))   (* m *);
 ([100; 109]%N, (mkq (1) 10))   (* dm *);
 ([99; 109]%N, (mkq (1) 100))   (* cm *);
 ([109; 109]%N, (mkq (1) 1000))   (* mm *);
 ([100; 109; 109]%N, (mkq (1) 10000))   (* dmm *);
 ([99; 109; 109]%N, (mkq (1) 100000))   (* cmm *);
 ([181; 109]%N, (mkq (1) 1000000))   (* µm *);
 ([110; 109]%N, (mkq (1) 1000000000))   (* nm *);
 ([112; 109]%N, (mkq (1) 1000000000000))   (* pm *);
 ([102; 109]%N, (mkq (1) 1000000000000000))   (* fm *)].

Definition code_time : list (list N * Qc) :=
  [([104]%N, (mkq (3600) 1))   (* h *);
 ([109; 105; 110]%N, (mkq (60) 1))   (* min *);
 ([115]%N, (mkq (1) 1))   (* s *);
 ([100; 115]%N, (mkq (1) 10))   (* ds *);
 ([99; 115]%N, (mkq (1) 100))   (* cs *);
 ([109; 115]%N, (mkq (1) 1000))   (* ms *);
 ([181; 115]%N, (mkq (1) 1000000))   (* µs *);
 ([110; 115]%N, (mkq (1) 1000000000))   (* ns *);
 ([112; 115]%N, (mkq (1) 1000000000000))   (* ps *);
 ([102; 115]%N, (mkq (1) 1000000000000000))   (* fs *)].

Definition code_quantity : list (list N * Qc) :=
  [([107; 109; 111; 108]%N, (mkq (602214076000000000000000000) 1))   (* kmol *);
 ([109; 111; 108]%N, (mkq (602214076000000000000000) 1))   (* mol *);
 ([100; 109; 111; 108]%N, (mkq (60221407600000000000000) 1))   (* dmol *);
 ([99; 109; 111; 108]%N, (mkq (6022140760000000000000) 1))   (* cmol *);
 ([109; 109; 111; 108]%N, (mkq (602214076000000000000) 1))   (* mmol *);
 ([181; 109; 111; 108]%N, (mkq (602214076000000000) 1))   (* µmol *);
 ([110; 109; 111; 108]%N, (mkq (602214076000000) 1))   (* nmol *);
 ([112; 109; 111; 108]%N, (mkq (602214076000) 1))   (* pmol *);
 ([102; 109; 111; 108]%N, (mkq (602214076) 1))   (* fmol *);
 ([109; 111; 108; 101; 99; 117; 108; 101]%N, (mkq (1) 1))   (* molecule *)].

Definition code_labels_space : list (list N) := [[107; 109]; [109]; [100; 109]; [99; 109]; [109; 109]; [100; 109; 109]; [99; 109; 109]; [181; 109]; [110; 109]; [112; 109]; [102; 109]]%N.   (* km m dm cm mm dmm cmm µm nm pm fm *)

Definition code_labels_time : list (list N) := [[104]; [109; 105; 110]; [115]; [100; 115]; [99; 115]; [109; 115]; [181; 115]; [110; 115]; [112; 115]; [102; 115]]%N.   (* h min s ds cs ms µs ns ps fs *)

Definition code_labels_quantity : list (list N) := [[107; 109; 111; 108]; [109; 111; 108]; [100; 109; 111; 108]; [99; 109; 111; 108]; [109; 109; 111; 108]; [181; 109; 111; 108]; [110; 109; 111; 108]; [112; 109; 111; 108]; [102; 109; 111; 108]; [109; 111; 108; 101; 99; 117; 108; 101]]%N.   (* kmol mol dmol cmol mmol µmol nmol pmol fmol molecule *)

Definition code_labels_density : list (list N) := [[107; 77]; [77]; [100; 77]; [99; 77]; [109; 77]; [181; 77]; [110; 77]; [112; 77]; [102; 77]; [109; 77]]%N.   (* kM M dM cM mM µM nM pM fM mM *)

Definition code_labels_volume : list (list N) := [[107; 76]; [76]; [109; 76]; [181; 76]; [110; 76]; [112; 76]; [102; 76]]%N.   (* kL L mL µL nL pL fL *)

(* parse_units: get_volume_fundamental_unit (litre symbol -> space symbol, cubed) *)
Definition code_volume_chain : list (list N * list N) := [([107; 76], [109]); ([76], [100; 109]); ([109; 76], [99; 109]); ([181; 76], [109; 109]); ([110; 76], [100; 109; 109]); ([112; 76], [99; 109; 109]); ([102; 76], [181; 109])]%N.

(* parse_units: get_concentration_fundamental_units (molar symbol -> amount symbol, space symbol cubed) *)
Definition code_molar_chain : list (list N * (list N * list N)) := [([107; 77], ([107; 109; 111; 108], [100; 109])); ([77], ([109; 111; 108], [100; 109])); ([100; 77], ([100; 109; 111; 108], [100; 109])); ([99; 77], ([99; 109; 111; 108], [100; 109])); ([109; 77], ([109; 109; 111; 108], [100; 109])); ([181; 77], ([181; 109; 111; 108], [100; 109])); ([110; 77], ([110; 109; 111; 108], [100; 109])); ([112; 77], ([112; 109; 111; 108], [100; 109])); ([102; 77], ([102; 109; 111; 108], [100; 109]))]%N.
