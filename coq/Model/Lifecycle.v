(* Engine lifecycle: the nine calls a user can make on engine objects.
   spec_*  : what the property asks for - every engine object owns its simulation.
   impl_*  : how librdengine.py + engine.cpp do it - ONE process-global simulation pointer with a
             "freed" flag (engine.cpp: global_grid_algo / global_graph_algo / global_algo_freed) and
             a Python-side `_simulation_unfinished` flag per engine object.  Undefined behaviour
             (call through a dangling or never-assigned pointer, double delete) is a value here.
   The simulation itself is the sampling/completion state machine of Model/Sampling.v (fixed step). *)
From Verif Require Import Num Sampling.
Open Scope Qc_scope.

Record script := { sc_pol : policy; sc_ts : list Qc; sc_int : Qc; sc_tmax : Qc; sc_dt : Qc; sc_size : nat }.

Definition start (sc : script) : sim := sim_init (sc_pol sc) (sc_ts sc) (sc_int sc) (sc_tmax sc).

Inductive obj := A | B.
Definition obj_eqb (x y : obj) : bool := match x, y with A, A | B, B => true | _, _ => false end.

Inductive lcall :=
| LSetup (e : obj) (sc : script) | LIterate (e : obj) | LIterateN (e : obj) (k : nat) | LRun (e : obj)   (* run(0): one iteration *)
| LSample (e : obj) | LProgress (e : obj) | LIsComplete (e : obj) | LGetOutput (e : obj) | LFinalize (e : obj).

Definition target (c : lcall) : obj :=
  match c with
  | LSetup e _ | LIterate e | LIterateN e _ | LRun e | LSample e | LProgress e | LIsComplete e | LGetOutput e | LFinalize e => e
  end.

Inductive outcome :=
| OUnit | OBool (b : bool) | ONum (q : Qc) | OOut (times : list Qc) (ndata : nat)
| OIllegal            (* spec: the call is outside the lifecycle (no live simulation on that object) *)
| OUB.                (* impl: undefined behaviour *)

(* ------------------------------------------------------------------ spec: one simulation per object *)
Record eobj := { e_sim : option (sim * script) }.
Definition world := (eobj * eobj)%type.
Definition get (w : world) (e : obj) : eobj := match e with A => fst w | B => snd w end.
Definition put (w : world) (e : obj) (x : eobj) : world := match e with A => (x, snd w) | B => (fst w, x) end.
Definition world0 : world := ({| e_sim := None |}, {| e_sim := None |}).

Definition on_sim (w : world) (e : obj) (f : sim -> script -> sim * outcome) : world * outcome :=
  match e_sim (get w e) with
  | None => (w, OIllegal)
  | Some (s, sc) => let (s', o) := f s sc in (put w e {| e_sim := Some (s', sc) |}, o)
  end.

Definition spec_step (w : world) (c : lcall) : world * outcome :=
  match c with
  | LSetup e sc => (put w e {| e_sim := Some (start sc, sc) |}, OUnit)
  | LIterate e | LRun e => on_sim w e (fun s sc => let s' := iterate (Some (sc_dt sc)) s in (s', OBool (negb (s_complete s'))))
  | LIterateN e k => on_sim w e (fun s sc => let s' := iterate_n (sc_dt sc) k s in (s', OBool (negb (s_complete s'))))
  | LSample e => on_sim w e (fun s _ => (sample s, OUnit))
  | LProgress e => on_sim w e (fun s _ => (s, ONum (progress s)))
  | LIsComplete e => on_sim w e (fun s _ => (s, OBool (s_complete s)))
  | LGetOutput e => on_sim w e (fun s sc => (s, OOut (map fst (s_recs s)) (length (s_recs s) * sc_size sc)))
  | LFinalize e => (put w e {| e_sim := None |}, OUnit)
  end.

Fixpoint spec_run (w : world) (h : list lcall) : list outcome :=
  match h with [] => [] | c :: h' => let (w', o) := spec_step w c in o :: spec_run w' h' end.
Fixpoint spec_world (w : world) (h : list lcall) : world :=
  match h with [] => w | c :: h' => spec_world (fst (spec_step w c)) h' end.

(* lifecycle-respecting: loop / query / output calls on an object only while it has a live simulation *)
Fixpoint respects (live_a live_b : bool) (h : list lcall) : bool :=
  match h with
  | [] => true
  | c :: h' =>
      let live e := match e with A => live_a | B => live_b end in
      match c with
      | LSetup A _ => respects true live_b h'
      | LSetup B _ => respects live_a true h'
      | LFinalize A => respects false live_b h'
      | LFinalize B => respects live_a false h'
      | _ => live (target c) && respects live_a live_b h'
      end
  end.

(* ------------------------------------------------------------------ impl: one process-global simulation *)
Record gworld := {
  g_algo : option (sim * script); (* what global_*_algo points to, with the script it was set up from (None: never assigned) *)
  g_freed : bool;                 (* global_algo_freed *)
  g_deleted : bool;               (* the pointee has been deleted (the C++ cannot see this; the model can) *)
  py_unfinished : obj -> bool;    (* LibRDEngine._simulation_unfinished *)
  py_script : obj -> option script
}.

Definition gworld0 : gworld :=
  {| g_algo := None; g_freed := true; g_deleted := false; py_unfinished := fun _ => true; py_script := fun _ => None |}.

Definition upd {X} (f : obj -> X) (e : obj) (x : X) : obj -> X := fun e' => if obj_eqb e e' then x else f e'.

Definition with_algo (g : gworld) (s : sim * script) : gworld :=
  {| g_algo := Some s; g_freed := g_freed g; g_deleted := g_deleted g; py_unfinished := py_unfinished g; py_script := py_script g |}.
Definition with_flag (g : gworld) (e : obj) (b : bool) : gworld :=
  {| g_algo := g_algo g; g_freed := g_freed g; g_deleted := g_deleted g; py_unfinished := upd (py_unfinished g) e b; py_script := py_script g |}.

(* a call that goes through the global pointer *)
Definition through (g : gworld) (f : sim -> script -> gworld * outcome) : gworld * outcome :=
  match g_algo g with
  | None => (g, OUB)                                              (* uninitialised pointer *)
  | Some (s, sc) => if g_deleted g then (g, OUB) else f s sc      (* dangling pointer *)
  end.

Definition impl_step (g : gworld) (c : lcall) : gworld * outcome :=
  match c with
  | LSetup e sc =>
      (* new ...; global_algo_freed = false; Init(...).  LibRDEngine.setup resets _simulation_unfinished *)
      ({| g_algo := Some (start sc, sc); g_freed := false; g_deleted := false;
          py_unfinished := upd (py_unfinished g) e true; py_script := upd (py_script g) e (Some sc) |}, OUnit)
  | LIterate e | LRun e =>
      (* the step is the one of the simulation the pointer designates, whoever calls *)
      through g (fun s sc => let s' := iterate (Some (sc_dt sc)) s in
                             (with_flag (with_algo g (s', sc)) e (negb (s_complete s')), OBool (negb (s_complete s'))))
  | LIterateN e k =>
      match k with
      | O => (g, OBool (py_unfinished g e))        (* no iteration: the status is left as it is *)
      | _ => through g (fun s sc => let s' := iterate_n (sc_dt sc) k s in
                          (with_flag (with_algo g (s', sc)) e (negb (s_complete s')), OBool (negb (s_complete s'))))
      end
  | LSample e => through g (fun s sc => (with_algo g (sample s, sc), OUnit))
  | LProgress e => through g (fun s _ => (g, ONum (progress s)))
  | LIsComplete e => (g, OBool (negb (py_unfinished g e)))
  | LGetOutput e =>
      match py_script g e with None => (g, OIllegal) | Some sc =>
        through g (fun s _ => (g, OOut (map fst (s_recs s)) (length (s_recs s) * sc_size sc))) end
  | LFinalize e =>
      if g_freed g then (g, OUnit)
      else match g_algo g with
           | None => (g, OUB)
           | Some s => if g_deleted g then (g, OUB)     (* double delete *)
                       else ({| g_algo := g_algo g; g_freed := true; g_deleted := true;
                                py_unfinished := py_unfinished g; py_script := py_script g |}, OUnit)
           end
  end.

Fixpoint impl_run (g : gworld) (h : list lcall) : list outcome :=
  match h with [] => [] | c :: h' => let (g', o) := impl_step g c in o :: impl_run g' h' end.

Definition only_on (e : obj) (h : list lcall) : bool := forallb (fun c => obj_eqb (target c) e) h.
