(* Bounds-checked reading of the engine's arrays: every vector access the C++ makes is an nth_error
   here and an access outside the vector is the value Fault.  The loop of SampleOnTSample is modelled
   as the code evaluates it: first the bound test, then the read (`sample_pos<n_samples && t>=t_samples[sample_pos]`). *)
From Verif Require Import Num Grid Sampling.
Open Scope Qc_scope.

Inductive chk (A : Type) : Type := Safe (a : A) | Fault.
Arguments Safe {A} a.
Arguments Fault {A}.

Definition read {A} (l : list A) (i : nat) : chk A := match nth_error l i with Some a => Safe a | None => Fault end.

(* while (sample_pos < n_samples && t >= t_samples[sample_pos]) { Sample(); sample_pos++; }
   returns (a sample was requested, new sample_pos); fuel = n_samples + 1 suffices *)
Fixpoint tsample_loop (fuel : nat) (ts : list Qc) (pos : nat) (t : Qc) : chk (bool * nat) :=
  match fuel with
  | O => Safe (false, pos)
  | S f =>
      if Nat.ltb pos (length ts) then
        match read ts pos with
        | Fault => Fault
        | Safe tau =>
            if Qcleb tau t then
              match tsample_loop f ts (S pos) t with Safe (_, p) => Safe (true, p) | Fault => Fault end
            else Safe (false, pos)
        end
      else Safe (false, pos)
  end.

(* Poisson(lambda): the library sampler is only entered with a positive mean *)
Definition poisson_enters_library (lambda : Qc) : bool := Qcltb 0 lambda.
Definition poisson_precondition (lambda : Qc) : bool := Qcltb 0 lambda.    (* std::poisson_distribution: mean > 0 *)
