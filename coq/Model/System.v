(* Networks, spaces and systems (rdnetwork.py, rdgridspace.py, rdgraphspace.py, rdsystem.py):
   per-environment values with the 'default' fall-back, default state and chemostat map in
   species-major layout, per-entry getters and setters. *)
From Verif Require Import Num Units Grid.
Open Scope Qc_scope.

(* labels are transported as numbers (the harness numbers the distinct strings it uses) *)
Definition label := nat.

(* a value that is either the same everywhere or a dictionary keyed by environment label;
   key None is the reserved 'default' entry *)
Inductive envval (A : Type) := Scalar (a : A) | PerEnv (m : list (option label * A)).
Arguments Scalar {A} a.
Arguments PerEnv {A} m.

Definition key_eqb (a b : option label) : bool :=
  match a, b with Some x, Some y => Nat.eqb x y | None, None => true | _, _ => false end.

Fixpoint lookup {A} (k : option label) (m : list (option label * A)) : option A :=
  match m with
  | [] => None
  | (k', a) :: m' => if key_eqb k k' then Some a else lookup k m'
  end.

(* value_processing.get_value_in_env *)
Definition in_env {A} (v : envval A) (e : label) (dflt : A) : A :=
  match v with
  | Scalar a => a
  | PerEnv m => match lookup (Some e) m with
                | Some a => a
                | None => match lookup None m with Some a => a | None => dflt end
                end
  end.

Record species := { sp_label : label; sp_D : envval quantity; sp_dens : envval quantity; sp_chs : envval bool }.
Record reaction := { r_sub : list (label * Z); r_prod : list (label * Z); r_kf : envval quantity; r_kr : envval quantity }.
Record network := { n_species : list species; n_reactions : list reaction; n_envs : list label; n_units : usys }.

Inductive space :=
| SGrid (g : grid) (env : list Z) (vol : quantity) (u : usys)
| SGraph (nodes : list (quantity * Z)) (edges : list (Z * Z * quantity * quantity)) (u : usys).

Record system := { sy_net : network; sy_space : space; sy_units : usys }.

Definition dim_density : dim := {| dS := -3; dT := 0; dQ := 1 |}.
Definition dim_volume  : dim := {| dS := 3; dT := 0; dQ := 0 |}.
Definition dim_amount  : dim := {| dS := 0; dT := 0; dQ := 1 |}.
Definition dim_time    : dim := {| dS := 0; dT := 1; dQ := 0 |}.
Definition dim_diff    : dim := {| dS := 2; dT := -1; dQ := 0 |}.
Definition dim_surface : dim := {| dS := 2; dT := 0; dQ := 0 |}.
Definition dim_length  : dim := {| dS := 1; dT := 0; dQ := 0 |}.
Definition dim_rate    : dim := {| dS := 0; dT := -1; dQ := 1 |}.

Definition space_units (sp : space) : usys := match sp with SGrid _ _ _ u => u | SGraph _ _ u => u end.

Definition ncells (sp : space) : nat :=
  match sp with SGrid g _ _ _ => Z.to_nat (gsize g) | SGraph nodes _ _ => length nodes end.

(* get_cell_env_array / get_cell_vol_array (volumes expressed in the space's units system) *)
Definition cell_envs (sp : space) : list Z :=
  match sp with SGrid _ env _ _ => env | SGraph nodes _ _ => map snd nodes end.
Definition cell_vols (sp : space) : list quantity :=
  match sp with
  | SGrid g _ vol u => map (fun _ => convert vol u) (seq 0 (Z.to_nat (gsize g)))
  | SGraph nodes _ u => map (fun n => convert (fst n) u) nodes
  end.

(* UnitValue * UnitValue: right operand converted into the left one's system, exponents added *)
Definition qmul (a b : quantity) : quantity :=
  {| qv := qv a * (qv b * factor (qu b) (qu a) (qd b)); qu := qu a; qd := dim_add (qd a) (qd b) |}.

Definition zero_density : quantity := {| qv := 0; qu := default_usys; qd := dim_density |}.

(* environment label of a cell: network.environments[cell_env[i]] (valid indices only) *)
Definition env_label (net : network) (e : Z) : label := nth (Z.to_nat e) (n_envs net) 0%nat.

(* generate_species_state: one entry *)
Definition default_entry (net : network) (s : species) (e : Z) (vol : quantity) : quantity :=
  convert (qmul (in_env (sp_dens s) (env_label net e) zero_density) vol) (n_units net).

Definition species_state (net : network) (sp : space) (s : species) : list Qc :=
  map (fun ev => qv (default_entry net s (fst ev) (snd ev))) (combine (cell_envs sp) (cell_vols sp)).

(* generate_system_state: the per-species arrays concatenated in species order *)
Definition default_state (sys : system) : list Qc :=
  flat_map (species_state (sy_net sys) (sy_space sys)) (n_species (sy_net sys)).

Definition species_chstt (net : network) (sp : space) (s : species) : list bool :=
  map (fun e => in_env (sp_chs s) (env_label net e) false) (cell_envs sp).
Definition default_chstt (sys : system) : list bool :=
  flat_map (species_chstt (sy_net sys) (sy_space sys)) (n_species (sy_net sys)).

(* ---- addressing ---- *)
Inductive species_ref := SByIndex (i : Z) | SByLabel (l : label).   (* a Species object is looked up by its label *)

Fixpoint find_label (l : label) (ss : list species) (i : nat) : option nat :=
  match ss with
  | [] => None
  | s :: ss' => if Nat.eqb (sp_label s) l then Some i else find_label l ss' (S i)
  end.

Definition get_species_index (net : network) (r : species_ref) : res nat :=
  match r with
  | SByIndex i => if (0 <=? i)%Z && (i <? Z.of_nat (length (n_species net)))%Z then Ok (Z.to_nat i) else Err
  | SByLabel l => match find_label l (n_species net) 0 with Some i => Ok i | None => Err end
  end.

Definition cell_index (sp : space) (p : position) : res nat :=
  match sp with
  | SGrid g _ _ _ => match get_cell_index g p with Ok i => Ok (Z.to_nat i) | Err => Err end
  | SGraph nodes _ _ =>
      match p with
      | PIndex i => if (0 <=? i)%Z && (i <? Z.of_nat (length nodes))%Z then Ok (Z.to_nat i) else Err
      | PCoord _ => Err
      end
  end.

(* get_state_index = species_index * size + cell_index *)
Definition state_index (sys : system) (r : species_ref) (p : position) : res nat :=
  match get_species_index (sy_net sys) r, cell_index (sy_space sys) p with
  | Ok s, Ok c => Ok (s * ncells (sy_space sys) + c)%nat
  | _, _ => Err
  end.

Fixpoint set_nth {A} (i : nat) (a : A) (l : list A) : list A :=
  match l, i with
  | [], _ => []
  | _ :: l', O => a :: l'
  | x :: l', S i' => x :: set_nth i' a l'
  end.

(* the state array with its units system (always an amount) *)
Record sstate := { st_v : list Qc; st_u : usys }.

Inductive amount_arg := ABare (x : Qc) | AQuantity (q : quantity).

(* get_state / set_state / get_chemostat / set_chemostat *)
Definition get_state (sys : system) (st : sstate) (r : species_ref) (p : position) : res quantity :=
  match state_index sys r p with
  | Ok i => Ok {| qv := nth i (st_v st) 0; qu := st_u st; qd := dim_amount |}
  | Err => Err
  end.

Definition set_state (sys : system) (st : sstate) (r : species_ref) (p : position) (a : amount_arg) : res sstate :=
  match state_index sys r p with
  | Ok i =>
      let q := match a with
               | ABare x => {| qv := x; qu := sy_units sys; qd := dim_amount |}    (* read in the system's units *)
               | AQuantity q => q
               end in
      match convert_to_units q (st_u st) dim_amount with
      | Ok q' => Ok {| st_v := set_nth i (qv q') (st_v st); st_u := st_u st |}
      | Err => Err
      end
  | Err => Err
  end.

Definition get_chemostat (sys : system) (ch : list bool) (r : species_ref) (p : position) : res bool :=
  match state_index sys r p with Ok i => Ok (nth i ch false) | Err => Err end.
Definition set_chemostat (sys : system) (ch : list bool) (r : species_ref) (p : position) (b : bool) : res (list bool) :=
  match state_index sys r p with Ok i => Ok (set_nth i b ch) | Err => Err end.
