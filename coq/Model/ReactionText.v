(* Reaction equations as text (rdnetwork.py: Reaction._fromstring / to_string), over code points.
   Python semantics modelled: str.split(sep) for '->' and '+', str.split() / strip() with the
   str.isspace() whitespace class, int() on ASCII digits with optional sign and single underscores,
   dict insertion order. *)
From Coq Require Import NArith DecimalZ.
From Verif Require Import Num.
Open Scope N_scope.

Definition str := list N.

Definition is_space (c : N) : bool :=
  ((9 <=? c) && (c <=? 13)) || ((28 <=? c) && (c <=? 32)) || (c =? 133) || (c =? 160) || (c =? 5760)
  || ((8192 <=? c) && (c <=? 8202)) || (c =? 8232) || (c =? 8233) || (c =? 8239) || (c =? 8287) || (c =? 12288).

Definition c_plus : N := 43.  Definition c_minus : N := 45.  Definition c_gt : N := 62.  Definition c_sp : N := 32.
Definition c_us : N := 95.

(* str.split(c) on a single character *)
Fixpoint split_char (sep : N) (s : str) (cur : str) : list str :=
  match s with
  | [] => [rev cur]
  | c :: rest => if c =? sep then rev cur :: split_char sep rest [] else split_char sep rest (c :: cur)
  end.

(* str.split('->') *)
Fixpoint split_arrow (s : str) (cur : str) : list str :=
  match s with
  | [] => [rev cur]
  | c :: rest =>
      match rest with
      | d :: rest' => if (c =? c_minus) && (d =? c_gt) then rev cur :: split_arrow rest' [] else split_arrow rest (c :: cur)
      | [] => [rev (c :: cur)]
      end
  end.

(* str.split(): maximal runs of non-whitespace *)
Fixpoint split_ws (s : str) (cur : str) : list str :=
  match s with
  | [] => match cur with [] => [] | _ => [rev cur] end
  | c :: rest => if is_space c then (match cur with [] => split_ws rest [] | _ => rev cur :: split_ws rest [] end)
                 else split_ws rest (c :: cur)
  end.

(* int(): [+-]? digit ( _? digit )* *)
Definition digit_of (c : N) : option N := if (48 <=? c) && (c <=? 57) then Some (c - 48) else None.
Fixpoint parse_digits (s : str) (acc : N) (prev_digit : bool) : option N :=
  match s with
  | [] => if prev_digit then Some acc else None
  | c :: rest =>
      match digit_of c with
      | Some d => parse_digits rest (acc * 10 + d) true
      | None => if (c =? c_us) && prev_digit then
                  match rest with [] => None | _ => parse_digits rest acc false end
                else None
      end
  end.
Definition parse_int (s : str) : option Z :=
  match s with
  | [] => None
  | c :: rest =>
      if c =? c_minus then option_map (fun n => Z.opp (Z.of_N n)) (parse_digits rest 0 false)
      else if c =? c_plus then option_map Z.of_N (parse_digits rest 0 false)
      else option_map Z.of_N (parse_digits s 0 false)
  end.

Definition str_eqb (a b : str) : bool := forall2b N.eqb a b.

(* a side: label -> coefficient, in order of first appearance *)
Definition side := list (str * Z).
Fixpoint add_coef (l : str) (z : Z) (d : side) : side :=
  match d with
  | [] => [(l, z)]
  | (l', z') :: d' => if str_eqb l l' then (l', (z' + z)%Z) :: d' else (l', z') :: add_coef l z d'
  end.

Fixpoint parse_tokens (toks : list str) (d : side) : option side :=
  match toks with
  | [] => Some d
  | t :: rest =>
      match split_ws t [] with
      | [l] => parse_tokens rest (add_coef l 1%Z d)
      | [c; l] => match parse_int c with Some z => parse_tokens rest (add_coef l z d) | None => None end
      | _ => None
      end
  end.

Definition parse_side (s : str) : option side :=
  let toks := split_char c_plus s [] in
  match toks with
  | [t] => match split_ws t [] with [] => Some [] | _ => parse_tokens toks [] end
  | _ => parse_tokens toks []
  end.

Definition parse_eq (s : str) : option (side * side) :=
  match split_arrow s [] with
  | [a; b] => match parse_side a, parse_side b with Some x, Some y => Some (x, y) | _, _ => None end
  | _ => None
  end.

(* ---- printing: str(int) ---- *)
Definition digit_char (d : N) : N := 48 + d.
Fixpoint uint_chars (u : Decimal.uint) : str :=
  match u with
  | Decimal.Nil => []
  | Decimal.D0 u' => digit_char 0 :: uint_chars u' | Decimal.D1 u' => digit_char 1 :: uint_chars u'
  | Decimal.D2 u' => digit_char 2 :: uint_chars u' | Decimal.D3 u' => digit_char 3 :: uint_chars u'
  | Decimal.D4 u' => digit_char 4 :: uint_chars u' | Decimal.D5 u' => digit_char 5 :: uint_chars u'
  | Decimal.D6 u' => digit_char 6 :: uint_chars u' | Decimal.D7 u' => digit_char 7 :: uint_chars u'
  | Decimal.D8 u' => digit_char 8 :: uint_chars u' | Decimal.D9 u' => digit_char 9 :: uint_chars u'
  end.
Definition print_int (z : Z) : str :=
  match Z.to_int z with
  | Decimal.Pos u => uint_chars u
  | Decimal.Neg u => c_minus :: uint_chars u
  end.

(* encode_side: zero coefficients are skipped, a coefficient of 1 is not written *)
Fixpoint print_side (d : side) (first : bool) : str :=
  match d with
  | [] => []
  | (l, z) :: d' =>
      if Z.eqb z 0 then print_side d' first
      else (if first then [] else [c_plus; c_sp])
           ++ (if Z.eqb z 1 then [] else print_int z ++ [c_sp]) ++ l ++ [c_sp] ++ print_side d' false
  end.
Definition print_eq (r : side * side) : str := print_side (fst r) true ++ [c_minus; c_gt; c_sp] ++ print_side (snd r) true.

(* ---- stoichiometry ---- *)
Fixpoint coef_of (l : str) (d : side) : Z :=
  match d with [] => 0%Z | (l', z) :: d' => if str_eqb l l' then z else coef_of l d' end.
Definition ssto (r : side * side) (labels : list str) : list Z := map (fun l => coef_of l (fst r)) labels.
Definition psto (r : side * side) (labels : list str) : list Z := map (fun l => coef_of l (snd r)) labels.
Definition dsto (r : side * side) (labels : list str) : list Z := map (fun l => (coef_of l (snd r) - coef_of l (fst r))%Z) labels.
Definition side_order (d : side) : Z := fold_right Z.add 0%Z (map snd d).

(* the label rule (as repaired): non-empty, no whitespace, no '+', no "->" *)
Fixpoint has_arrow (s : str) : bool :=
  match s with
  | c :: rest => match rest with d :: _ => ((c =? c_minus) && (d =? c_gt)) || has_arrow rest | [] => false end
  | [] => false
  end.
Definition valid_label (l : str) : bool :=
  negb (existsb is_space l) && negb (existsb (N.eqb c_plus) l) && negb (has_arrow l) && negb (match l with [] => true | _ => false end).
