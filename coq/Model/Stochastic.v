(* The state changes applied by the stochastic engines (Gillespie3D/Graph: ApplyReaction,
   ApplyDiffusion; TauLeap3D/Graph: Apply_nevt), as sequences of events with multiplicities. *)
From Verif Require Import Num Grid System Engine.
Open Scope Qc_scope.

(* a reaction channel firing in cell i, or molecules of species s moving from cell i to cell j *)
Inductive event := EReact (i r : nat) | EMove (i s j : nat).

Definition upd (T : etab) (x : list Qc) (i s : nat) (delta : Qc) : list Qc :=
  set_nth (i * nS T + s) (X T x i s + delta) x.

(* n firings of reaction r in cell i: every non-chemostated species of that cell changes by n * sto *)
Definition apply_react (T : etab) (x : list Qc) (i r : nat) (n : Qc) : list Qc :=
  fold_left (fun x s => if Chs T i s then x else upd T x i s (QcZ (Sto T s r) * n)) (species_idx T) x.

(* n molecules of s leave i (unless flagged there) and enter j (unless flagged there) *)
Definition apply_move (T : etab) (x : list Qc) (i s j : nat) (n : Qc) : list Qc :=
  let x1 := if Chs T i s then x else upd T x i s (- n) in
  if Chs T j s then x1 else upd T x1 j s n.

Definition apply_event (T : etab) (x : list Qc) (en : event * Qc) : list Qc :=
  match en with
  | (EReact i r, n) => apply_react T x i r n
  | (EMove i s j, n) => apply_move T x i s j n
  end.

Definition apply_events (T : etab) (evs : list (event * Qc)) (x : list Qc) : list Qc :=
  fold_left (apply_event T) evs x.

Definition event_in_range (T : etab) (e : event) : Prop :=
  match e with
  | EReact i r => (i < nC T)%nat /\ (r < nR T)%nat
  | EMove i s j => (i < nC T)%nat /\ (s < nS T)%nat /\ (j < nC T)%nat
  end.
