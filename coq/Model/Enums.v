(* GENERATED on every run by harness/translate_enums.py from /repo's rdscript.py, rdgridspace.py, rdoutput.py, engine_collection.py,
   engine.cpp and the two SimulationAlgorithm*Base.hpp: the string enumerations of the three layers.  Do not edit. *)
From Coq Require Import NArith List Bool.
Import ListNotations.
Open Scope N_scope.

Definition code_script_policies : list (list N) := [[111; 110; 95; 116; 95; 115; 97; 109; 112; 108; 101]; [111; 110; 95; 105; 116; 101; 114; 97; 116; 105; 111; 110]; [111; 110; 95; 105; 110; 116; 101; 114; 118; 97; 108]; [110; 111; 95; 115; 97; 109; 112; 108; 105; 110; 103]].   (* RDScript.sampling_policy: on_t_sample on_iteration on_interval no_sampling *)

Definition code_script_modes : list (list N) := [[97; 117; 116; 111]; [110; 111; 110; 101]; [80; 111; 105; 115; 115; 111; 110]; [114; 101; 100; 105; 115; 116]].   (* RDScript.init_state_processing: auto none Poisson redist *)

Definition code_grid_axes : list (list N) := [[120]; [121]; [122]].   (* set_boundary_conditions: x y z *)

Definition code_grid_conditions : list (list N) := [[114; 101; 102; 108; 101; 99; 116; 105; 110; 103]; [112; 101; 114; 105; 111; 100; 105; 99; 97; 108]].   (* reflecting periodical *)

Definition code_lookup_policies : list (list N) := [[99; 108; 111; 115; 101; 115; 116]; [115; 117; 112; 101; 113]; [105; 110; 102; 101; 113]].   (* get_sample_index: closest supeq infeq *)

Definition code_engines : list (list N * bool) := [([103; 105; 108; 108; 101; 115; 112; 105; 101], true); ([116; 97; 117; 108; 101; 97; 112], true); ([101; 117; 108; 101; 114], false)].   (* engine_collection.py: option, requires_molecules *)

Definition code_grid_policy : list (list N * N) := [([111; 110; 95; 116; 95; 115; 97; 109; 112; 108; 101], 0); ([111; 110; 95; 105; 116; 101; 114; 97; 116; 105; 111; 110], 1); ([111; 110; 95; 105; 110; 116; 101; 114; 118; 97; 108], 2); ([110; 111; 95; 115; 97; 109; 112; 108; 105; 110; 103], 3)].   (* engine.cpp initialize_grid: sampling policy -> code *)

Definition code_grid_options : list (list N * list N) := [([103; 105; 108; 108; 101; 115; 112; 105; 101], [71; 105; 108; 108; 101; 115; 112; 105; 101; 51; 68]); ([116; 97; 117; 108; 101; 97; 112], [84; 97; 117; 76; 101; 97; 112; 51; 68]); ([101; 117; 108; 101; 114], [69; 117; 108; 101; 114; 51; 68])].   (* option -> algorithm class: gillespie=Gillespie3D tauleap=TauLeap3D euler=Euler3D *)

Definition code_grid_stochastic : list (list N) := [[116; 97; 117; 108; 101; 97; 112]; [103; 105; 108; 108; 101; 115; 112; 105; 101]].   (* is_stochastic *)

Definition code_grid_modes : list (list (list N * N) * N * bool) := [([([80; 111; 105; 115; 115; 111; 110], 0)], 1, true); ([([102; 108; 111; 111; 114], 0)], 2, true); ([([114; 101; 100; 105; 115; 116], 0); ([97; 117; 116; 111], 1)], 3, true); ([([110; 111; 110; 101], 0); ([97; 117; 116; 111], 2)], 0, true)].   (* init_state_processing branches: selectors (string, guard 0 always / 1 stochastic / 2 deterministic), action 0 keep / 1 Poisson / 2 floor / 3 redistribute, transposed *)

Definition code_grid_switch : list (N * list N) := [(0, [83; 97; 109; 112; 108; 101; 79; 110; 84; 83; 97; 109; 112; 108; 101]); (1, [83; 97; 109; 112; 108; 101]); (2, [83; 97; 109; 112; 108; 101; 79; 110; 73; 110; 116; 101; 114; 118; 97; 108]); (3, [])].   (* SamplingStep: 0=SampleOnTSample 1=Sample 2=SampleOnInterval 3=- *)

Definition code_graph_policy : list (list N * N) := [([111; 110; 95; 116; 95; 115; 97; 109; 112; 108; 101], 0); ([111; 110; 95; 105; 116; 101; 114; 97; 116; 105; 111; 110], 1); ([111; 110; 95; 105; 110; 116; 101; 114; 118; 97; 108], 2); ([110; 111; 95; 115; 97; 109; 112; 108; 105; 110; 103], 3)].   (* engine.cpp initialize_graph: sampling policy -> code *)

Definition code_graph_options : list (list N * list N) := [([103; 105; 108; 108; 101; 115; 112; 105; 101], [71; 105; 108; 108; 101; 115; 112; 105; 101; 71; 114; 97; 112; 104]); ([116; 97; 117; 108; 101; 97; 112], [84; 97; 117; 76; 101; 97; 112; 71; 114; 97; 112; 104]); ([101; 117; 108; 101; 114], [69; 117; 108; 101; 114; 71; 114; 97; 112; 104])].   (* option -> algorithm class: gillespie=GillespieGraph tauleap=TauLeapGraph euler=EulerGraph *)

Definition code_graph_stochastic : list (list N) := [[116; 97; 117; 108; 101; 97; 112]; [103; 105; 108; 108; 101; 115; 112; 105; 101]].   (* is_stochastic *)

Definition code_graph_modes : list (list (list N * N) * N * bool) := [([([80; 111; 105; 115; 115; 111; 110], 0)], 1, true); ([([102; 108; 111; 111; 114], 0)], 2, true); ([([114; 101; 100; 105; 115; 116], 0); ([97; 117; 116; 111], 1)], 3, true); ([([110; 111; 110; 101], 0); ([97; 117; 116; 111], 2)], 0, true)].   (* init_state_processing branches: selectors (string, guard 0 always / 1 stochastic / 2 deterministic), action 0 keep / 1 Poisson / 2 floor / 3 redistribute, transposed *)

Definition code_graph_switch : list (N * list N) := [(0, [83; 97; 109; 112; 108; 101; 79; 110; 84; 83; 97; 109; 112; 108; 101]); (1, [83; 97; 109; 112; 108; 101]); (2, [83; 97; 109; 112; 108; 101; 79; 110; 73; 110; 116; 101; 114; 118; 97; 108]); (3, [])].   (* SamplingStep: 0=SampleOnTSample 1=Sample 2=SampleOnInterval 3=- *)

Definition code_boundary : list (list N * list N * N * N) := [([120], [114; 101; 102; 108; 101; 99; 116; 105; 110; 103], 0, 0); ([120], [112; 101; 114; 105; 111; 100; 105; 99; 97; 108], 0, 1); ([121], [114; 101; 102; 108; 101; 99; 116; 105; 110; 103], 1, 0); ([121], [112; 101; 114; 105; 111; 100; 105; 99; 97; 108], 1, 1); ([122], [114; 101; 102; 108; 101; 99; 116; 105; 110; 103], 2, 0); ([122], [112; 101; 114; 105; 111; 100; 105; 99; 97; 108], 2, 1)].   (* engine.cpp initialize_grid: axis letter, string, index, value *)
