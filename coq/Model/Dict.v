(* process_input_dict_keys and field look-up, generic in the schema. *)
From Coq Require Import NArith.
From Verif Require Import Num ReactionText Schemas.

Section Dict.
  Variable A : Type.
  Definition dict := list (str * A).

  Definition in_syn (k : str) (syn : list str) : bool := existsb (str_eqb k) syn.
  Definition known (sc : schema) (k : str) : bool := existsb (in_syn k) sc.
  Definition count_in (syn : list str) (d : dict) : nat := length (filter (fun kv : str * A => in_syn (fst kv) syn) d).

  (* step 1: every key is a synonym of some field; step 2: no field is given by two of its synonyms *)
  Definition keys_ok (sc : schema) (d : dict) : bool :=
    forallb (fun kv : str * A => known sc (fst kv)) d && forallb (fun syn => Nat.leb (count_in syn d) 1) sc.

  (* step 3 + the readers' `if "key" in d`: the value given under any synonym of the field *)
  Definition field (syn : list str) (d : dict) : option A :=
    option_map snd (find (fun kv : str * A => in_syn (fst kv) syn) d).

  Definition read_fields (sc : schema) (d : dict) : res (list (option A)) :=
    if keys_ok sc d then Ok (map (fun syn => field syn d) sc) else Err.

  (* what a writer does: every present field under the primary key of its synonym list *)
  Definition entry_of (sv : list str * option A) : dict :=
    match fst sv, snd sv with p :: _, Some a => [(p, a)] | _, _ => [] end.
  Definition write_fields (sc : schema) (vals : list (option A)) : dict := flat_map entry_of (combine sc vals).

  Definition rename (k k' : str) (d : dict) : dict := map (fun kv : str * A => if str_eqb (fst kv) k then (k', snd kv) else kv) d.
End Dict.

(* synonym lists of a schema do not overlap, and no list repeats a key *)
Fixpoint nodupb (l : list str) : bool := match l with [] => true | a :: r => negb (existsb (str_eqb a) r) && nodupb r end.
Definition wf_schema (sc : schema) : bool := nodupb (concat sc).
(* every key a writer emits is the primary key of a field its reader knows *)
Definition writer_read (w : list str) (sc : schema) : bool :=
  forallb (fun k => existsb (fun syn => match syn with p :: _ => str_eqb k p | [] => false end) sc) w.

(* primary key of every field *)
Definition primaries (sc : schema) : list str := flat_map (fun syn => match syn with p :: _ => [p] | [] => [] end) sc.
Definition mem_str (k : str) (l : list str) : bool := existsb (str_eqb k) l.
(* every key a reader looks up in the processed dictionary is the primary key of one of its fields (else the look-up never finds
   what an alias - or the writer - provided) *)
Definition reads_primary (uses : list str) (sc : schema) : bool := forallb (fun k => mem_str k (primaries sc)) uses.
(* every field a reader accepts is looked up (by the reader itself, or before it is entered: `dispatch`): no accepted key is ignored *)
Definition fields_read (dispatch uses : list str) (sc : schema) : bool := forallb (fun k => mem_str k uses || mem_str k dispatch) (primaries sc).
(* every field of the reader is written by the writer: nothing the reader can take is dropped on the way out *)
Definition fields_written (w : list str) (sc : schema) : bool := forallb (fun k => mem_str k w) (primaries sc).
