(* Correspondence verdict for C01 (and the deterministic parts of C03): engine tables, the
   kinetics functions, the exported ODE right-hand side and Euler samples versus the rate law. *)
From Verif Require Import Num Units Grid System Engine EngineBuild Decode AcceptC06 AcceptC05.
Open Scope Qc_scope.

Record c01_case := {
  c_sys : system; c_ue : usys; c_edges : list quantity;
  c_state : sstate; c_chs : list bool;           (* species-major *)
  c_dt : Qc; c_steps : nat
}.

Record c01_obs := {
  o_k : list Qc; o_sub : list Z; o_sto : list Z; o_D : list Qc;
  o_dstate : option (list Qc * usys * dim);      (* compute_dstatedt, apply_chemostats = False *)
  o_dstate_chs : option (list Qc);               (* compute_dstatedt, apply_chemostats = True *)
  o_dxdtf : option (list Qc);                    (* make_dxdtf()(0, x), single-cell systems *)
  o_euler : list (list Qc)                       (* Euler engine samples 0..steps, species-major *)
}.

(* magnitude of the terms summed by the rate law (for the rounding tolerance) *)
Definition rate_mag (T : etab) (G : geom) (x : list Qc) (i s : nat) : Qc :=
  sumQ (map (fun r => Qcabs (QcZ (Sto T s r) * mass_action T G x i r)) (reaction_idx T))
  + sumQ (map (fun sl : slot =>
                 let j := fst (fst sl) in
                 Qcabs (Dint (edge_of G i) (edge_of G j) (Dc T s (Env T i)) (Dc T s (Env T j)) * snd (fst sl) / snd sl)
                 * (Qcabs (X T x j s / vol_of G j) + Qcabs (X T x i s / vol_of G i)))
              (neighbours G i)).

Definition close_mag (eps mag model obs : Qc) : bool := Qcleb (Qcabs (obs - model)) (eps * mag).

Definition eps8 : Qc := p10 (-8).

(* species-major enumeration of (s, i) *)
Definition sm_tabulate {A} (ns nc : nat) (f : nat -> nat -> A) : list A :=
  flat_map (fun s => map (fun i => f i s) (seq 0 nc)) (seq 0 ns).

Definition reaction_only (T : etab) (G : geom) (x : list Qc) (i s : nat) : Qc :=
  sumQ (map (fun r => QcZ (Sto T s r) * mass_action T G x i r) (reaction_idx T)).

(* samples of the Euler engine: x_0 (after import/export), x_1 = x_0 + dt f(x_0), ...; the tolerance
   of sample k is relative to |x_(k-1)| + |dt| * (magnitude of the terms of f) *)
Fixpoint check_euler (T : etab) (G : geom) (dt : Qc) (x tol : list Qc) (samples : list (list Qc)) : bool :=
  match samples with
  | [] => true
  | obs :: rest =>
      let ns := nS T in let nc := nC T in
      Nat.eqb (length obs) (ns * nc)
      && forallb (fun b => b) (sm_tabulate ns nc (fun i s =>
           close_mag eps8 (X T tol i s) (X T x i s) (nth (s * nc + i) obs 0)))
      && match rest with
         | [] => true          (* no further sample: do not compute a further step *)
         | _ => check_euler T G dt (euler_step T G dt x)
                  (cm_tabulate T (fun i s => Qcabs (X T x i s) + Qcabs dt * rate_mag T G x i s)) rest
         end
  end.

Definition accept_C01 (c : c01_case) (o : c01_obs) : verdict :=
  let sys := c_sys c in let ue := c_ue c in
  let T := build_tables sys ue (c_chs c) in
  let G := build_geom (sy_space sys) (c_edges c) ue in
  let ns := nS T in let nc := nC T in
  let x0 := import_state ns nc (c_state c) ue in
  (* the law and the magnitude of its terms, once per entry (cell-major) *)
  let R := cm_tabulate T (rate_law T G x0) in
  let M := cm_tabulate T (rate_mag T G x0) in
  let ok_geo := edges_consistent (sy_space sys) (c_edges c) in
  let ok_tab := forall2b close9 (tk T) (o_k o) && forall2b Z.eqb (tsub T) (o_sub o)
                && forall2b Z.eqb (tsto T) (o_sto o) && forall2b close9 (tD T) (o_D o) in
  let ok_ds := match o_dstate o with
               | None => false
               | Some (vs, u, d) =>
                   usys_eqb u ue && dim_eqb d dim_rate && Nat.eqb (length vs) (ns * nc)
                   && forallb (fun b => b) (sm_tabulate ns nc (fun i s =>
                        close_mag eps9 (X T M i s) (X T R i s) (nth (s * nc + i) vs 0)))
               end in
  let ok_dsc := match o_dstate_chs o with
                | None => true
                | Some vs =>
                    Nat.eqb (length vs) (ns * nc)
                    && forallb (fun b => b) (sm_tabulate ns nc (fun i s =>
                         close_mag eps9 (X T M i s) (if Chs T i s then 0 else X T R i s) (nth (s * nc + i) vs 0)))
                end in
  let ok_f := match o_dxdtf o with
              | None => true
              | Some vs =>
                  Nat.eqb (length vs) ns
                  && forallb (fun b => b) (map (fun s =>
                       close_mag eps9 (X T M 0 s) (if Chs T 0 s then 0 else reaction_only T G x0 0 s) (nth s vs 0))
                       (seq 0 ns))
              end in
  let ok_eu := check_euler T G (c_dt c) x0 (map Qcabs x0) (o_euler o) in
  (ok_geo && ok_tab && ok_ds && ok_dsc && ok_f && ok_eu,
   (1 + (if ok_geo then 0 else 1) + (if ok_tab then 0 else 2) + (if ok_ds then 0 else 4) + (if ok_dsc then 0 else 8)
    + (if ok_f then 0 else 16) + (if ok_eu then 0 else 32))%nat).
