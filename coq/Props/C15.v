(* C15 - Grid geometry is consistent everywhere (index/coordinates bijection, rejection of
   outside positions, one neighbour relation shared by get_neighbors / are_neighbors /
   kinetics / the native engine, with multiplicities), for every w,h,d >= 1 and all 8 boundary mixes.
   Statements only; proofs are in Proofs/GridFacts.v. *)
From Coq Require Import ZArith List Bool.
From Coq Require Import Qcanon.
From Verif Require Import Num Grid GridFacts GridGraphFacts Engine EngineFacts GridGraphRate.
From Verif Require Import Enums EnumFacts.
Open Scope Z_scope.

Theorem C15_index_formula : forall g x y z, index g (x, y, z) = z * (gw g * gh g) + y * gw g + x.
Proof. intros; reflexivity. Qed.
Print Assumptions C15_index_formula.

Theorem C15_index_of_coords : forall g i, wf_grid g -> index g (coords g i) = i.
Proof. exact index_coords. Qed.
Print Assumptions C15_index_of_coords.

Theorem C15_coords_of_index : forall g p, wf_grid g -> in_grid g p = true -> coords g (index g p) = p.
Proof. exact coords_index. Qed.
Print Assumptions C15_coords_of_index.

Theorem C15_coords_in_grid : forall g i, wf_grid g -> 0 <= i < gsize g -> in_grid g (coords g i) = true.
Proof. exact coords_in_grid. Qed.
Print Assumptions C15_coords_in_grid.

Theorem C15_index_in_range : forall g p, wf_grid g -> in_grid g p = true -> 0 <= index g p < gsize g.
Proof. exact index_range. Qed.
Print Assumptions C15_index_in_range.

(* positions outside the grid are rejected, in every form *)
Theorem C15_reject_outside_index : forall g i, ~ (0 <= i < gsize g) -> get_cell_index g (PIndex i) = Err.
Proof. exact get_cell_index_outside_index. Qed.
Print Assumptions C15_reject_outside_index.

Theorem C15_reject_outside_coord : forall g p, in_grid g p = false -> get_cell_index g (PCoord p) = Err.
Proof. exact get_cell_index_outside_coord. Qed.
Print Assumptions C15_reject_outside_coord.

Theorem C15_reject_outside_coordinates_query : forall g i, ~ (0 <= i < gsize g) -> get_cell_coordinates g i = Err.
Proof. exact get_cell_coordinates_outside. Qed.
Print Assumptions C15_reject_outside_coordinates_query.

(* the neighbour relation is symmetric *)
Theorem C15_neighbour_sym : forall g a b, are_neighbors g a b = are_neighbors g b a.
Proof. exact are_neighbors_sym. Qed.
Print Assumptions C15_neighbour_sym.

Theorem C15_multiplicity_sym : forall g p q, wf_grid g -> in_grid g p = true -> in_grid g q = true -> p <> q ->
  mult3 g p q = mult3 g q p.
Proof. exact mult3_sym. Qed.
Print Assumptions C15_multiplicity_sym.

(* the four relations agree, including the multiplicity with which a distinct cell b occurs among the
   neighbours of a (2 on a periodic axis of length 2, else 0 or 1): get_neighbors, the kinetics
   candidates, the engine's neighbour table; and the pairwise test is true exactly when that
   multiplicity is positive.  mult3 follows the per-axis reflecting/periodic setting (axis_mult). *)
Theorem C15_four_relations_agree : forall g a b,
  wf_grid g -> 0 <= a < gsize g -> 0 <= b < gsize g -> a <> b ->
  countZ b (py_get_neighbors g a) = mult3 g (coords g a) (coords g b) /\
  countZ b (kin_neighbors g a) = mult3 g (coords g a) (coords g b) /\
  countZ b (eng_neighbors g a) = mult3 g (coords g a) (coords g b) /\
  (are_neighbors g a b = Ok true <-> (0 < mult3 g (coords g a) (coords g b))%nat).
Proof. exact neighbour_multiplicities. Qed.
Print Assumptions C15_four_relations_agree.

(* per-axis meaning of the relation: adjacent, cyclically so on a periodic axis *)
Theorem C15_axis_rule : forall n per x x', 0 < n -> 0 <= x < n -> 0 <= x' < n -> x <> x' ->
  (axis_dist n per x x' = 1 <-> (0 < axis_mult n per x x')%nat).
Proof. exact axis_dist_mult. Qed.
Print Assumptions C15_axis_rule.

(* engine neighbour table: following direction dir and then the opposite direction returns to
   the start (every size, periodic axes of length 1 and 2 included) - the basis of C02's flux
   antisymmetry *)
Theorem C15_engine_nbr_involution : forall g i dir j,
  wf_grid g -> 0 <= i < gsize g -> (dir < 6)%nat ->
  engine_nbr g i dir = Some j -> 0 <= j < gsize g /\ engine_nbr g j (opp_dir dir) = Some i.
Proof. exact engine_nbr_involution. Qed.
Print Assumptions C15_engine_nbr_involution.

(* grid_to_graph: the number of graph edges joining two distinct cells (either orientation) is the
   multiplicity of one among the grid neighbours of the other - the same mult3 as the four relations
   above, so 2 on a periodic axis of length 2 and never an edge between cells that are not adjacent *)
Theorem C15_grid_to_graph_adjacency : forall g a b,
  wf_grid g -> 0 <= a < gsize g -> 0 <= b < gsize g -> a <> b ->
  edge_mult (g2g_edges g) a b = mult3 g (coords g a) (coords g b).
Proof. exact g2g_edge_multiplicity. Qed.
Print Assumptions C15_grid_to_graph_adjacency.

Theorem C15_grid_to_graph_edges_in_range : forall g e, wf_grid g -> In e (g2g_edges g) ->
  0 <= fst e < gsize g /\ 0 <= snd e < gsize g.
Proof. exact g2g_edges_in_range. Qed.
Print Assumptions C15_grid_to_graph_edges_in_range.

(* ... so that, with every node of edge h and every graph edge of surface h^2 and distance h
   (graph_of_grid), the rate law of every entry, the engine's derivative and every Euler trajectory
   on the graph equal those on the grid: any network tables T, any state, any number of steps *)
Theorem C15_graph_rate_law : forall T g h, wf_grid g -> Z.of_nat (nC T) = gsize g -> forall x i s, (i < nC T)%nat ->
  rate_law T (graph_of_grid g h) x i s = rate_law T (GGrid g h) x i s.
Proof. exact grid_graph_rate_law. Qed.
Print Assumptions C15_graph_rate_law.

Theorem C15_graph_trajectories : forall T g h, wf_grid g -> Z.of_nat (nC T) = gsize g -> h <> 0%Qc ->
  forall dt n x, euler_steps T (graph_of_grid g h) dt n x = euler_steps T (GGrid g h) dt n x.
Proof. exact grid_graph_euler_steps. Qed.
Print Assumptions C15_graph_trajectories.

(* string enumerations (Model/Enums.v, re-read from /repo's Python and C++ source on every run by harness/translate_enums.py) *)
(* the two boundary-condition strings of the grid are the ones the engine compares against, per axis and index:
   "reflecting" -> 0, "periodical" -> 1 for x, y, z -> 0, 1, 2 *)
Theorem C15_boundary_strings : boundary_ok = true.
Proof. exact boundary_strings_agree. Qed.
Print Assumptions C15_boundary_strings.

(* non-vacuity: a 3x2x2 grid, periodic in x only *)
Definition ex_grid := {| gw := 3; gh := 2; gd := 2; px := true; py := false; pz := false |}.
Example C15_example :
  wf_grid ex_grid /\ coords ex_grid 7 = (1, 0, 1) /\ py_get_neighbors ex_grid 0 = [1; 3; 6; 2]
  /\ eng_neighbors ex_grid 0 = [1; 2; 3; 6] /\ are_neighbors ex_grid 0 2 = Ok true
  /\ get_cell_index ex_grid (PIndex 12) = Err.
Proof. repeat split; try (vm_compute; reflexivity). Qed.
