(* C09 - Sampling contract: which states are recorded, when, and in what shape.
   The model is the state machine of SimulationAlgorithm{3D,Graph}Base (Model/Sampling.v); a run is
   described by its step times T 0 = 0 < T 1 < ... (fixed step: T k = k dt; Gillespie: event times).
   A record is (time, number of the step whose state it holds).  `live T tmax n` says that t_max has
   not been passed before step n, i.e. the n steps are really performed. *)
From Coq Require Import ZArith QArith Qcanon List Lia Sorting.Sorted.
From Verif Require Import Num NumFacts Sampling SamplingFacts Engine EngineFacts.
From Verif Require Import Enums EnumFacts.
Open Scope Qc_scope.

(* shape: the export loop writes sample n, species s, cell i at n*S*C + s*C + i (the transposition lemma of C01) *)
Theorem C09_export_layout : forall (d : Qc) ns nc (x : list Qc) i s, (i < nc)%nat -> (s < ns)%nat ->
  nth (s * nc + i) (to_species_major d ns nc x) d = nth (i * ns + s) x d.
Proof. exact (@to_species_major_nth Qc). Qed.
Print Assumptions C09_export_layout.

(* per-iteration sampling records every step, the t = 0 state included *)
Theorem C09_on_iteration : forall ts I tmax T n, increasing T -> live T tmax n ->
  s_recs (run_T T n (sim_init OnIteration ts I tmax)) = map (fun k => (T k, k)) (seq 0 (S n)).
Proof. exact on_iteration_recs. Qed.
Print Assumptions C09_on_iteration.

(* time-point sampling, sorted requests (duplicates and clusters allowed): step k is recorded exactly when it is
   the first step at or after some requested time - one record per such step - and the requests still pending
   are those beyond the current time *)
Theorem C09_on_t_sample : forall ts I tmax T n, increasing T -> StronglySorted Qcle ts -> live T tmax n ->
  let s := run_T T n (sim_init OnTSample ts I tmax) in
  s_rest s = pending ts (T n) /\
  s_recs s = map (fun k => (T k, k)) (filter (fun k => existsb (covers T k) ts) (seq 0 (S n))).
Proof. exact on_tsample_run. Qed.
Print Assumptions C09_on_t_sample.

(* interval sampling: t = 0, then every step at which floor(t / interval) increases, i.e. the first step at or
   after each multiple of the interval *)
Theorem C09_on_interval : forall ts I tmax T n, increasing T -> 0 < I -> live T tmax n ->
  let s := run_T T n (sim_init OnInterval ts I tmax) in
  s_last s = Qcfloor (T n / I) /\
  s_recs s = map (fun k => (T k, k)) (filter (crosses T I) (seq 0 (S n))).
Proof. exact on_interval_run. Qed.
Print Assumptions C09_on_interval.

Theorem C09_no_sampling : forall ts I tmax T n, increasing T -> live T tmax n ->
  s_recs (run_T T n (sim_init NoSampling ts I tmax)) = [].
Proof. exact no_sampling_recs. Qed.
Print Assumptions C09_no_sampling.

(* records made by a policy have strictly increasing times (any sublist of the steps, T increasing) *)
Theorem C09_times_strict : forall (T : nat -> Qc) P, (forall k, T k < T (S k)) ->
  forall n a, StronglySorted Qclt (map T (filter P (seq a n))).
Proof. exact sorted_map_filter_seq. Qed.
Print Assumptions C09_times_strict.

(* with explicit sample calls mixed in (any policy, any sequence of iterate / iterate_n / sample): times never
   decrease, and a second sample call in the same iteration records nothing *)
Theorem C09_times_never_decrease : forall pol ts I tmax dt cs, 0 < dt ->
  times_ok (do_calls dt cs (sim_init pol ts I tmax)).
Proof. intros. apply calls_times_ok; [assumption|apply init_times_ok]. Qed.
Print Assumptions C09_times_never_decrease.

Theorem C09_one_sample_per_iteration : forall s, sample (sample s) = sample s.
Proof. exact sample_twice. Qed.
Print Assumptions C09_one_sample_per_iteration.

(* a fixed-step run performs exactly the steps dt, 2 dt, ..., up to the first one beyond t_max, then is complete
   and stays as it is *)
Theorem C09_fixed_step_count : forall pol ts I tmax dt N, 0 < dt -> 0 <= tmax ->
  Tfix dt N <= tmax -> tmax < Tfix dt (S N) ->
  forall n, let s := run_fixed dt n (sim_init pol ts I tmax) in
  ((n <= N)%nat -> s_complete s = false /\ s_step s = n /\ s_t s = Tfix dt n) /\
  ((S N <= n)%nat -> s_complete s = true /\ s_step s = S N /\ s_t s = Tfix dt (S N) /\
                     s_recs s = s_recs (run_fixed dt (S N) (sim_init pol ts I tmax))).
Proof. exact fixed_step_count. Qed.
Print Assumptions C09_fixed_step_count.

(* string enumerations (Model/Enums.v, re-read from /repo's Python and C++ source on every run by harness/translate_enums.py) *)
(* every sampling policy the script accepts is dispatched by both engine initialisers (grid, graph) to a code whose case in
   SamplingStep calls the sampler that policy names: on_t_sample -> SampleOnTSample, on_iteration -> Sample, on_interval ->
   SampleOnInterval, no_sampling -> nothing; the engine knows no other policy string *)
Theorem C09_policy_dispatch : sampling_dispatch_ok = true.
Proof. exact sampling_dispatch_agrees. Qed.
Print Assumptions C09_policy_dispatch.

(* non-vacuity: dt = 1/4, requests [0; 0.3; 0.3; 0.35; 1] (duplicate, cluster inside one step), t_max = 1:
   5 steps are performed, records at steps 0, 2 and 4 *)
Example C09_example :
  let s := run_fixed (Qcfrac 1 4) 9 (sim_init OnTSample [0; Qcfrac 3 10; Qcfrac 3 10; Qcfrac 7 20; 1] 1 1) in
  map snd (s_recs s) = [0; 2; 4]%nat /\ s_step s = 5%nat /\ s_complete s = true.
Proof. vm_compute. repeat split. Qed.
