(* C08 - A trajectory is a pure function of script, engine kind and seed.
   Whole engine state = sampling machine x X, where X (amounts, generator state, propensity tables)
   is advanced by an arbitrary function chem_step : X -> X of X alone (Model/Schedule.v).  The loop can
   be driven by iterate, iterate_n(k) (stops at completion) and run(ms) (one iteration, then as many
   more as the wall clock allows: any j >= 0).  `obs` forgets only the per-iteration sampling flag. *)
From Coq Require Import ZArith QArith Qcanon List Lia Bool.
From Verif Require Import Num NumFacts Sampling SamplingFacts Schedule ScheduleFacts Lifecycle LifecycleFacts.
Open Scope Qc_scope.

(* however the iteration sequence is partitioned into iterate / iterate_n / run calls - whatever the slice lengths j the
   wall clock produces - the observable state is that of the plain loop with the same total number of iterations ... *)
Theorem C08_schedule_is_count : forall X (chem_step : X -> X) dt cs f,
  obs X (do_scheds X chem_step dt cs f) = obs X (fiter X chem_step dt (total_budget cs) f).
Proof. exact schedule_is_count. Qed.
Print Assumptions C08_schedule_is_count.

(* ... hence two schedules that both run to completion produce the same records, clock and chemical state *)
Theorem C08_schedules_agree : forall X (chem_step : X -> X) dt cs1 cs2 f n,
  s_complete (fst (fiter X chem_step dt n f)) = true -> (n <= total_budget cs1)%nat -> (n <= total_budget cs2)%nat ->
  obs X (do_scheds X chem_step dt cs1 f) = obs X (do_scheds X chem_step dt cs2 f).
Proof. exact schedules_agree. Qed.
Print Assumptions C08_schedules_agree.

(* iterations after completion change nothing observable *)
Theorem C08_complete_is_final : forall X (chem_step : X -> X) dt n f,
  s_complete (fst f) = true -> obs X (fiter X chem_step dt n f) = obs X f.
Proof. exact fiter_complete. Qed.
Print Assumptions C08_complete_is_final.

(* a set-up builds the simulation from the script alone, whatever was simulated before, on whichever object *)
Theorem C08_setup_fresh : forall w e sc, get (fst (spec_step w (LSetup e sc))) e = {| e_sim := Some (start sc, sc) |}.
Proof. exact setup_fresh. Qed.
Print Assumptions C08_setup_fresh.

(* non-vacuity: chem_step = successor on nat; [iterate_n 2; run(+3); iterate] and [run(+0) x 9] both complete a 4-step run *)
Example C08_example :
  let f0 := (sim_init OnIteration [] 1 (QcZ 3), 0%nat) in
  let a := do_scheds nat S 1 [SIterateN 2; SRun 3; SIterate] f0 in
  let b := do_scheds nat S 1 (repeat (SRun 0) 9) f0 in
  obs nat a = obs nat b /\ snd a = 4%nat /\ length (s_recs (fst a)) = 5%nat.
Proof. vm_compute. repeat split. Qed.
