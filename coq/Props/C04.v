(* C04 - Physical results do not depend on the units used to state or report them.
   Conversion factors are multiplicative in the dimension vector (C06); every term of the rate law is dimensionally
   homogeneous of dimension amount / time, so expressing constants, volumes, lengths, surfaces and amounts in another units
   system only multiplies the result by the conversion factor of amount / time; the default state depends on the SI values of
   density and volume only. *)
From Coq Require Import ZArith QArith Qcanon List Lia.
From Verif Require Import Num NumFacts Units UnitsFacts System SystemFacts Grid Engine EngineBuild UnitsInvariance.
Open Scope Qc_scope.

(* a bare number re-scaled together with the units declared around it denotes the same physical value; an explicit quantity
   carries its own units, so its SI value does not mention the surrounding system at all *)
Theorem C04_bare_number_rescaled : forall v S S' d,
  SI {| qv := v * factor S S' d; qu := S'; qd := d |} = SI {| qv := v; qu := S; qd := d |}.
Proof. exact bare_rescale. Qed.
Print Assumptions C04_bare_number_rescaled.

Theorem C04_conversion_keeps_SI : forall q dst, SI (convert q dst) = SI q.
Proof. exact SI_convert. Qed.
Print Assumptions C04_conversion_keeps_SI.

(* the default state: same SI density and volume (however they are written) give the same SI amount *)
Theorem C04_default_state : forall net s e vol net' s' e' vol',
  SI (in_env (sp_dens s) (env_label net e) zero_density) = SI (in_env (sp_dens s') (env_label net' e') zero_density) ->
  SI vol = SI vol' -> SI (default_entry net s e vol) = SI (default_entry net' s' e' vol').
Proof. exact default_state_units. Qed.
Print Assumptions C04_default_state.

(* mass action, any order, any number of reactant species, repeated reactants: k V prod (x/V)^n computed from numbers expressed
   in another units system is the same quantity times the factor of amount / time *)
Theorem C04_mass_action : forall (s t : usys) (k V : Qc) terms, V <> 0 ->
  ma (k * factor s t (kdim (total_order terms))) (V * factor s t dim_volume)
     (map (fun p : Qc * Z => (fst p * factor s t dim_amount, snd p)) terms)
  = ma k V terms * factor s t dim_rate.
Proof. exact mass_action_units. Qed.
Print Assumptions C04_mass_action.

(* Bernstein exchange through one interface: Dint(h_i, h_j, D_i, D_j) S / d (x_j/V_j - x_i/V_i), likewise *)
Theorem C04_exchange : forall (s t : usys) hi hj Di Dj sf ds xi xj Vi Vj,
  ds <> 0 -> Vi <> 0 -> Vj <> 0 -> hi / Di + hj / Dj <> 0 ->
  exch (hi * factor s t dim_length) (hj * factor s t dim_length) (Di * factor s t dim_diff) (Dj * factor s t dim_diff)
       (sf * factor s t dim_surface) (ds * factor s t dim_length)
       (xi * factor s t dim_amount) (xj * factor s t dim_amount) (Vi * factor s t dim_volume) (Vj * factor s t dim_volume)
  = exch hi hj Di Dj sf ds xi xj Vi Vj * factor s t dim_rate.
Proof. exact exchange_units. Qed.
Print Assumptions C04_exchange.

(* exponents multiply as powers: the factor of n times a dimension is the n-th power of the factor *)
Theorem C04_factor_power : forall s t n d, factor s t (dim_scal n d) = Qcpowz (factor s t d) n.
Proof. exact factor_scal. Qed.
Print Assumptions C04_factor_power.

(* non-vacuity (by computation): A + 2 B -> ..., k = 3 in (um, s, molecule), V = 8 um3, 4 and 6 molecules; the same in (nm, ms, mol) *)
Example C04_example :
  let s := default_usys in let t := {| us := Nm; ut := Ms; uq := Mol |} in
  let terms := [(QcZ 4, 1%Z); (QcZ 6, 2%Z)] in
  Qceqb (ma (QcZ 3 * factor s t (kdim 3)) (QcZ 8 * factor s t dim_volume) (map (fun p : Qc * Z => (fst p * factor s t dim_amount, snd p)) terms))
        (ma (QcZ 3) (QcZ 8) terms * factor s t dim_rate) = true
  /\ Qceqb (ma (QcZ 3) (QcZ 8) terms) 0 = false.
Proof. vm_compute. split; reflexivity. Qed.
