(* C04 - Physical results do not depend on the units used to state or report them.
   Conversion factors are multiplicative in the dimension vector (C06); every term of the rate law is dimensionally
   homogeneous of dimension amount / time, so expressing constants, volumes, lengths, surfaces and amounts in another units
   system only multiplies the result by the conversion factor of amount / time; the default state depends on the SI values of
   density and volume only. *)
From Coq Require Import ZArith QArith Qcanon List Lia.
From Verif Require Import Num NumFacts Units UnitsFacts System SystemFacts Grid Engine EngineFacts EngineBuild UnitsInvariance TrajectoryUnits.
Open Scope Qc_scope.

(* a bare number re-scaled together with the units declared around it denotes the same physical value; an explicit quantity
   carries its own units, so its SI value does not mention the surrounding system at all *)
Theorem C04_bare_number_rescaled : forall v S S' d,
  SI {| qv := v * factor S S' d; qu := S'; qd := d |} = SI {| qv := v; qu := S; qd := d |}.
Proof. exact bare_rescale. Qed.
Print Assumptions C04_bare_number_rescaled.

Theorem C04_conversion_keeps_SI : forall q dst, SI (convert q dst) = SI q.
Proof. exact SI_convert. Qed.
Print Assumptions C04_conversion_keeps_SI.

(* the default state: same SI density and volume (however they are written) give the same SI amount *)
Theorem C04_default_state : forall net s e vol net' s' e' vol',
  SI (in_env (sp_dens s) (env_label net e) zero_density) = SI (in_env (sp_dens s') (env_label net' e') zero_density) ->
  SI vol = SI vol' -> SI (default_entry net s e vol) = SI (default_entry net' s' e' vol').
Proof. exact default_state_units. Qed.
Print Assumptions C04_default_state.

(* mass action, any order, any number of reactant species, repeated reactants: k V prod (x/V)^n computed from numbers expressed
   in another units system is the same quantity times the factor of amount / time *)
Theorem C04_mass_action : forall (s t : usys) (k V : Qc) terms, V <> 0 ->
  ma (k * factor s t (kdim (total_order terms))) (V * factor s t dim_volume)
     (map (fun p : Qc * Z => (fst p * factor s t dim_amount, snd p)) terms)
  = ma k V terms * factor s t dim_rate.
Proof. exact mass_action_units. Qed.
Print Assumptions C04_mass_action.

(* Bernstein exchange through one interface: Dint(h_i, h_j, D_i, D_j) S / d (x_j/V_j - x_i/V_i), likewise *)
Theorem C04_exchange : forall (s t : usys) hi hj Di Dj sf ds xi xj Vi Vj,
  ds <> 0 -> Vi <> 0 -> Vj <> 0 -> hi / Di + hj / Dj <> 0 ->
  exch (hi * factor s t dim_length) (hj * factor s t dim_length) (Di * factor s t dim_diff) (Dj * factor s t dim_diff)
       (sf * factor s t dim_surface) (ds * factor s t dim_length)
       (xi * factor s t dim_amount) (xj * factor s t dim_amount) (Vi * factor s t dim_volume) (Vj * factor s t dim_volume)
  = exch hi hj Di Dj sf ds xi xj Vi Vj * factor s t dim_rate.
Proof. exact exchange_units. Qed.
Print Assumptions C04_exchange.

(* exponents multiply as powers: the factor of n times a dimension is the n-th power of the factor *)
Theorem C04_factor_power : forall s t n d, factor s t (dim_scal n d) = Qcpowz (factor s t d) n.
Proof. exact factor_scal. Qed.
Print Assumptions C04_factor_power.

(* the whole deterministic trajectory: the same system stated in units t instead of s - every rate constant, diffusion coefficient,
   cell edge, contact surface, distance, amount and the time step multiplied by the conversion factor of its dimension - has, for
   every entry, the rate law of the original times the factor of amount/time, and after any number of Euler steps the state of the
   original times the factor of amount: the trajectories are equal once expressed in common units (any network tables with
   non-negative diffusion coefficients, grid or graph with positive cell edges) *)
Theorem C04_rate_law_rescaled : forall (s t : usys) (T : etab), (forall sp e, 0 <= Dc T sp e) ->
  forall G x i sp, wf_geom T G -> nC T = geom_cells G -> (forall k, (k < nC T)%nat -> 0 < edge_of G k) ->
  (forall k, (k < nC T)%nat -> (Env T k < nE T)%nat) -> (i < nC T)%nat ->
  rate_law (rescale_tables s t T) (rescale_geom s t G) (rescale_state s t x) i sp = rate_law T G x i sp * factor s t dim_rate.
Proof. exact rate_law_rescaled. Qed.
Print Assumptions C04_rate_law_rescaled.

Theorem C04_trajectory_rescaled : forall (s t : usys) (T : etab), (forall sp e, 0 <= Dc T sp e) ->
  forall G dt n x, wf_geom T G -> nC T = geom_cells G -> (forall k, (k < nC T)%nat -> 0 < edge_of G k) ->
  (forall k, (k < nC T)%nat -> (Env T k < nE T)%nat) ->
  euler_steps (rescale_tables s t T) (rescale_geom s t G) (dt * factor s t dim_time) n (rescale_state s t x)
  = rescale_state s t (euler_steps T G dt n x).
Proof. exact euler_steps_rescaled. Qed.
Print Assumptions C04_trajectory_rescaled.

(* non-vacuity (by computation): A + 2 B -> ..., k = 3 in (um, s, molecule), V = 8 um3, 4 and 6 molecules; the same in (nm, ms, mol) *)
Example C04_example :
  let s := default_usys in let t := {| us := Nm; ut := Ms; uq := Mol |} in
  let terms := [(QcZ 4, 1%Z); (QcZ 6, 2%Z)] in
  Qceqb (ma (QcZ 3 * factor s t (kdim 3)) (QcZ 8 * factor s t dim_volume) (map (fun p : Qc * Z => (fst p * factor s t dim_amount, snd p)) terms))
        (ma (QcZ 3) (QcZ 8) terms * factor s t dim_rate) = true
  /\ Qceqb (ma (QcZ 3) (QcZ 8) terms) 0 = false.
Proof. vm_compute. split; reflexivity. Qed.

(* ... and a 2-cell grid with A -> B (k = 2), D = 1 for A, three Euler steps, stated in (um, s, molecule) and in (nm, ms, mol) *)
Definition ex4_T : etab := {| nS := 2; nR := 2; nE := 1; nC := 2; tk := [QcZ 2; 0]; tsub := [1; 0; 0; 1]%Z; tsto := [-1; 1; 1; -1]%Z;
                              tD := [1; 0]; tenv := [0; 0]%nat; tchs := [false; false; false; false] |}.
Definition ex4_G : geom := GGrid {| gw := 2; gh := 1; gd := 1; px := false; py := false; pz := false |} (QcZ 2).
Example C04_trajectory_example :
  let s := default_usys in let t := {| us := Nm; ut := Ms; uq := Mol |} in
  let x := [QcZ 30; 0; QcZ 50; QcZ 4] in let dt := Q2Qc (1 # 16) in
  forall2b Qceqb (euler_steps (rescale_tables s t ex4_T) (rescale_geom s t ex4_G) (dt * factor s t dim_time) 3 (rescale_state s t x))
                 (rescale_state s t (euler_steps ex4_T ex4_G dt 3 x)) = true
  /\ forall2b Qceqb (euler_steps ex4_T ex4_G dt 3 x) x = false.
Proof. vm_compute. split; reflexivity. Qed.
