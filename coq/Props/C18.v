(* C18 - Unit and quantity text: print-parse round-trip, SI meaning, rejection.
   Model/UnitText.v is a code-point-level model of parse_units (u-for-micro rewriting, strip, the tokeniser, exponent text
   -?[0-9]+, symbol tables, same-base consistency, defaults), Units.__str__ and parse_unitvalue.  float() / str(float) are not
   modelled: they are section parameters with Python's documented round-trip guarantee as hypotheses. *)
From Coq Require Import NArith ZArith List Lia Bool.
From Verif Require Import Num Units ReactionText ReactionTextFacts UnitText UnitTextFacts UnitTable UnitTableFacts.

(* printing any unit - any of the 1100 systems, any exponents in Z^3 - and parsing the text back gives the same exponents and
   the same base unit for every non-zero exponent (Units.__eq__) *)
Theorem C18_parse_print : forall u d, exists r, parse_units (print_units u d) = Some r /\ units_equiv (u, d) r = true.
Proof. exact parse_print_units. Qed.
Print Assumptions C18_parse_print.

(* a quantity printed as  value, blank, units  reads back with the identical value and an equivalent unit, for any value type
   whose printer/reader round-trips and prints no blank *)
Theorem C18_value_roundtrip : forall (F : Type) (parse_float : str -> option F) (print_float : F -> str) (zero : F),
  (forall x, parse_float (print_float x) = Some x) -> (forall x, existsb is_space (print_float x) = false) ->
  (forall x, print_float x <> []) ->
  forall x u d, exists r,
    parse_unitvalue F parse_float zero (print_unitvalue F print_float x u d) = Some (x, r) /\ units_equiv (u, d) r = true.
Proof. exact value_roundtrip. Qed.
Print Assumptions C18_value_roundtrip.

(* every one of the 47 symbols with any integer exponent (none written = 1) is read as the base unit(s) and exponents the symbol
   stands for: a litre-family symbol as its cubic length with 3e, a molar symbol as amount^e . dm^(-3e) *)
Theorem C18_symbol_meaning : forall k e, exists k', sym_of k' = sym_of k /\
  parse_units (sym_of k ++ exp_text e) = option_map finish (factor_acc k' e).
Proof. exact single_factor. Qed.
Print Assumptions C18_symbol_meaning.

(* a factor written after '/' contributes the opposite exponent: a/b is read as a.b-1 *)
Theorem C18_division : forall name t,
  block_exp {| b_sep := 47; b_name := name; b_exp := t |} = option_map Z.opp (block_exp {| b_sep := 46; b_name := name; b_exp := t |}).
Proof. exact division_is_negative_exponent. Qed.
Print Assumptions C18_division.

(* exponent text: what str(int) prints is accepted and read back exactly *)
Theorem C18_exponent_text : forall z, strict_exp_text (print_int z) = true /\ parse_int (print_int z) = Some z.
Proof. intro z. split; [apply print_int_strict|apply parse_print_int]. Qed.
Print Assumptions C18_exponent_text.

(* the code's own unit tables (Model/UnitTable.v: `_units_conversion_dict` and `_units_labels_dict` of units.py, re-read from the
   source on every run by harness/translate_units.py, number literals with their decimal meaning): every symbol of the code is a
   symbol of the model, of the same base kind, with exactly the code's factor; the label lists are the tables' keys, the molar and
   litre labels are molar and litre symbols of the model; the model has no symbol the code does not list; no spelling is listed
   under two bases *)
Theorem C18_code_tables_agree : code_tables_ok = true.
Proof. exact code_tables_agree. Qed.
Print Assumptions C18_code_tables_agree.

Theorem C18_model_has_no_other_symbol : model_symbols_listed = true.
Proof. exact model_has_no_other_symbol. Qed.
Print Assumptions C18_model_has_no_other_symbol.

Theorem C18_symbols_have_one_meaning : code_symbols_unambiguous = true.
Proof. exact code_symbols_one_meaning. Qed.
Print Assumptions C18_symbols_have_one_meaning.

(* the parser's two chains for the litre and molar families (re-read from the source on every run) give every listed symbol the
   base units whose combination is its SI meaning *)
Theorem C18_parse_chains_agree : code_chains_ok = true.
Proof. exact code_chains_agree. Qed.
Print Assumptions C18_parse_chains_agree.

(* text outside the grammar is rejected by the model: examples of every family of the statement (by computation) *)
Open Scope N_scope.
Example C18_rejects :
  (* "m..s"  "m."  "/s"  "m+2"  "m2.5"  "2m"  "m 2"  "m2 .s"  "m1_0"  "m.cm"  "xm"  "m-"  *)
  map parse_units [[109;46;46;115]; [109;46]; [47;115]; [109;43;50]; [109;50;46;53]; [50;109]; [109;32;50]; [109;50;32;46;115];
                   [109;49;95;48]; [109;46;99;109]; [120;109]; [109;45]]
  = [None; None; None; None; None; None; None; None; None; None; None; None].
Proof. vm_compute. reflexivity. Qed.

(* non-vacuity: "uM-1.s-1" is dm3.umol-1.s-1; "mol/L" = "mol.L-1" *)
Example C18_example :
  parse_units [117;77;45;49;46;115;45;49] = Some ({| us := Dm; ut := Se; uq := Umol |}, {| dS := 3; dT := -1; dQ := -1 |}) /\
  parse_units [109;111;108;47;76] = parse_units [109;111;108;46;76;45;49].
Proof. vm_compute. split; reflexivity. Qed.
