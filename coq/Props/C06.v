(* C06 - Unit conversion is exact SI scaling and composes.
   Only statements here; every proof is `exact <lemma>` or a closed computation over the finite
   symbol tables. *)
From Coq Require Import ZArith QArith Qcanon.
From Verif Require Import Num NumFacts Units UnitsFacts UnitTable UnitTableFacts.
Open Scope Qc_scope.

(* Conversion multiplies by prod_b (src_b / dst_b)^(dim_b) and keeps the dimension. *)
Theorem C06_factor : forall q dst,
  convert q dst =
  {| qv := qv q * (Qcpowz (si_space (us (qu q)) / si_space (us dst)) (dS (qd q))
                   * Qcpowz (si_time (ut (qu q)) / si_time (ut dst)) (dT (qd q))
                   * Qcpowz (si_amount (uq (qu q)) / si_amount (uq dst)) (dQ (qd q)));
     qu := dst; qd := qd q |}.
Proof. intros; reflexivity. Qed.
Print Assumptions C06_factor.

Theorem C06_SI_preserved : forall q dst, SI (convert q dst) = SI q.
Proof. exact SI_convert. Qed.
Print Assumptions C06_SI_preserved.

Theorem C06_dim_preserved : forall q dst, qd (convert q dst) = qd q.
Proof. intros; reflexivity. Qed.
Print Assumptions C06_dim_preserved.

Theorem C06_id : forall q, convert q (qu q) = q.
Proof. exact convert_id. Qed.
Print Assumptions C06_id.

Theorem C06_compose : forall q s1 s2, convert (convert q s1) s2 = convert q s2.
Proof. exact convert_compose. Qed.
Print Assumptions C06_compose.

Theorem C06_roundtrip : forall q s, convert (convert q s) (qu q) = q.
Proof. exact convert_roundtrip. Qed.
Print Assumptions C06_roundtrip.

Theorem C06_wrong_dim : forall q ts td, td <> qd q -> convert_to_units q ts td = Err.
Proof. exact convert_to_units_wrong_dim. Qed.
Print Assumptions C06_wrong_dim.

Theorem C06_right_dim : forall q ts, convert_to_units q ts (qd q) = Ok (convert q ts).
Proof. exact convert_to_units_ok. Qed.
Print Assumptions C06_right_dim.

Theorem C06_array_elementwise : forall a dst i,
  nth i (av (convert_arr a dst)) 0 = qv (convert {| qv := nth i (av a) 0; qu := au a; qd := ad a |} dst).
Proof. exact convert_arr_nth. Qed.
Print Assumptions C06_array_elementwise.

Theorem C06_array_compose : forall a s1 s2, convert_arr (convert_arr a s1) s2 = convert_arr a s2.
Proof. exact convert_arr_compose. Qed.
Print Assumptions C06_array_compose.

(* SI meaning of every supported symbol (finite tables: closed computations are proofs). *)
Theorem C06_si_space : forall u, si_space u = p10 (space_prefix u).
Proof. intros u; destruct u; apply Qc_is_canon; vm_compute; reflexivity. Qed.
Print Assumptions C06_si_space.

Theorem C06_si_time : forall u,
  si_time u = match time_prefix u with Some k => p10 k
              | None => match u with Ho => QcZ 60 * QcZ 60 | _ => QcZ 60 end end.
Proof. intros u; destruct u; apply Qc_is_canon; vm_compute; reflexivity. Qed.
Print Assumptions C06_si_time.

Theorem C06_si_amount : forall u,
  si_amount u = match amount_prefix u with
                | Some k => p10 k * (QcZ 602214076 * p10 15)   (* k-prefixed mole = 6.02214076e23 molecules *)
                | None => 1 end.
Proof. intros u; destruct u; apply Qc_is_canon; vm_compute; reflexivity. Qed.
Print Assumptions C06_si_amount.

(* litre family: 1 xL = 10^prefix * (1 dm)^3 *)
Theorem C06_si_litre : forall v,
  scale (fst (volume_units v 1)) (snd (volume_units v 1)) = p10 (volume_prefix v) * Qcpowz (si_space Dm) 3.
Proof. intros v; destruct v; apply Qc_is_canon; vm_compute; reflexivity. Qed.
Print Assumptions C06_si_litre.

(* molar family: 1 xM = 10^prefix mol / (1 dm)^3 *)
Theorem C06_si_molar : forall m,
  scale (fst (molar_units m 1)) (snd (molar_units m 1))
  = p10 (molar_prefix m) * si_amount Mol / Qcpowz (si_space Dm) 3.
Proof. intros m; destruct m; apply Qc_is_canon; vm_compute; reflexivity. Qed.
Print Assumptions C06_si_molar.

(* the code's own unit tables (Model/UnitTable.v: `_units_conversion_dict` and `_units_labels_dict` of units.py, re-read from the
   source on every run by harness/translate_units.py, number literals with their decimal meaning): every symbol of the code is a
   symbol of the model, of the same base kind, with exactly the code's factor; the label lists are the tables' keys, the molar and
   litre labels are molar and litre symbols of the model; the model has no symbol the code does not list; no spelling is listed
   under two bases *)
Theorem C06_code_tables_agree : code_tables_ok = true.
Proof. exact code_tables_agree. Qed.
Print Assumptions C06_code_tables_agree.

Theorem C06_model_has_no_other_symbol : model_symbols_listed = true.
Proof. exact model_has_no_other_symbol. Qed.
Print Assumptions C06_model_has_no_other_symbol.

Theorem C06_symbols_have_one_meaning : code_symbols_unambiguous = true.
Proof. exact code_symbols_one_meaning. Qed.
Print Assumptions C06_symbols_have_one_meaning.

(* the two if / elif chains nested in parse_units (re-read from the source on every run): every litre symbol of the label list has
   a row, every row's space unit cubed is 10^prefix litres (and is the model's base unit for that symbol); every molar symbol has a
   row whose amount unit per cubed space unit is 10^prefix mol per litre; no row for a symbol that is not listed *)
Theorem C06_parse_chains_agree : code_chains_ok = true.
Proof. exact code_chains_agree. Qed.
Print Assumptions C06_parse_chains_agree.

(* non-vacuity: a concrete conversion computes to the expected number:
   2 km2.h-1 -> m2.s-1  is  2 * 10^6 / 3600 *)
Example C06_example :
  qv (convert {| qv := QcZ 2; qu := {| us := Km; ut := Ho; uq := Mol |}; qd := {| dS := 2; dT := -1; dQ := 0 |} |}
              {| us := Me; ut := Se; uq := Molecule |}) = Qcfrac 5000 9.
Proof. apply Qc_is_canon; vm_compute; reflexivity. Qed.
