(* C20 - Invalid input is rejected, never silently accepted.
   The models return Err / None exactly on the invalid classes; the correspondence check (harness/c20.py) requires the package
   to raise exactly where `invalid` (Model/AcceptC20.v) says so, on random valid models with injected faults, and to leave the
   object untouched. *)
From Coq Require Import NArith ZArith QArith Qcanon List Lia Bool.
From Verif Require Import Num Units UnitsFacts Grid GridFacts System SystemFacts ReactionText UnitText Schemas Dict DictFacts Coarse.
From Verif Require Import Enums EnumFacts.

(* dictionary readers: an unknown key, or a field given under two of its synonyms, is rejected - any schema, any dictionary *)
Theorem C20_unknown_key : forall (A : Type) sc (d : dict A) k v, In (k, v) d -> known sc k = false -> read_fields A sc d = Err.
Proof. exact unknown_key_rejected. Qed.
Print Assumptions C20_unknown_key.

Theorem C20_double_alias : forall (A : Type) sc (d : dict A) syn, In syn sc -> (2 <= count_in A syn d)%nat -> read_fields A sc d = Err.
Proof. exact double_alias_rejected. Qed.
Print Assumptions C20_double_alias.

(* a quantity whose dimension is not that of the field is rejected: whatever the value and the units *)
Theorem C20_wrong_dimension : forall q ts td, td <> qd q -> convert_to_units q ts td = Err.
Proof. exact convert_to_units_wrong_dim. Qed.
Print Assumptions C20_wrong_dimension.

Theorem C20_state_wrong_dimension : forall sys st r p q, qd q <> dim_amount -> set_state sys st r p (AQuantity q) = Err.
Proof. exact set_state_wrong_dimension. Qed.
Print Assumptions C20_state_wrong_dimension.

(* positions outside the grid are rejected in every form, for every grid *)
Theorem C20_linear_index_outside : forall g i, ~ (0 <= i < gsize g)%Z -> get_cell_index g (PIndex i) = Err.
Proof. exact get_cell_index_outside_index. Qed.
Print Assumptions C20_linear_index_outside.

Theorem C20_coordinates_outside : forall g p, in_grid g p = false -> get_cell_index g (PCoord p) = Err.
Proof. exact get_cell_index_outside_coord. Qed.
Print Assumptions C20_coordinates_outside.

(* no aliasing: a set that is accepted touches exactly the addressed entry (distinct (species, cell) pairs are distinct entries,
   every other entry keeps its value) *)
Theorem C20_no_aliasing : forall sys st r p a st' r' p' i j,
  set_state sys st r p a = Ok st' -> state_index sys r p = Ok i -> state_index sys r' p' = Ok j -> i <> j ->
  get_state sys st' r' p' = get_state sys st r' p'.
Proof. exact get_set_other. Qed.
Print Assumptions C20_no_aliasing.

(* string enumerations (Model/Enums.v, re-read from /repo's Python and C++ source on every run by harness/translate_enums.py) *)
(* what the validators accept is what the documentation lists, no more and no less: sampling policies, processing modes, axes,
   boundary conditions, look-up policies *)
Theorem C20_validators_agree : validators_ok = true.
Proof. exact validators_agree. Qed.
Print Assumptions C20_validators_agree.

(* the classes decided by finite tables or by the rule itself (computation): unsupported symbols, text outside the unit grammar,
   the rules of coarse-graining maps *)
Open Scope N_scope.
Example C20_tables :
  classify [120; 109] = None /\ classify [115; 101; 99] = None /\                      (* "xm", "sec" *)
  parse_units [109; 46; 46; 115] = None /\ parse_units [109; 50; 32; 46; 115] = None /\ (* "m..s", "m2 .s" *)
  valid_map [0; 2; 2]%Z 3 [0; 0; 0]%Z = false /\ valid_map [0; 1; 1]%Z 3 [0; 0; 1]%Z = false /\   (* missing index 1; mixed environments *)
  valid_map [-1; 0; -1]%Z 3 [0; 1; 2]%Z = true.                                         (* dropped cells of several environments *)
Proof. vm_compute. repeat split. Qed.
