(* C19 - Reaction equations: stoichiometry, order and rate-constant dimensions.
   Model/ReactionText.v is a code-point-level model of Reaction._fromstring / to_string (Python's split on '->' and '+',
   split() on str.isspace() whitespace, int(), dict insertion order). *)
From Coq Require Import NArith ZArith List Lia Bool.
From Verif Require Import Num Units System EngineBuild ReactionText ReactionTextFacts.
Open Scope Z_scope.

(* whatever the tokens between the '+' signs denote - (label, coefficient), a missing coefficient being 1 - the dictionary that
   parsing builds gives every label the SUM of the coefficients written for it (repeats summed, absent labels 0) *)
Theorem C19_repeats_summed : forall toks d d', parse_tokens toks d = Some d' ->
  exists terms, map token_term toks = map Some terms /\ forall l, coef_of l d' = coef_of l d + written l terms.
Proof. exact parse_tokens_sums. Qed.
Print Assumptions C19_repeats_summed.

(* net change = products - reactants, entry by entry; the reverse reaction has the opposite net change *)
Theorem C19_net_change : forall r labels i, nth i (dsto r labels) 0 = nth i (psto r labels) 0 - nth i (ssto r labels) 0.
Proof. exact dsto_is_difference. Qed.
Print Assumptions C19_net_change.
Theorem C19_reverse_net_change : forall r labels, dsto (snd r, fst r) labels = map Z.opp (dsto r labels).
Proof. exact dsto_reverse. Qed.
Print Assumptions C19_reverse_net_change.

(* printing a reaction and parsing the text back gives the same coefficient for EVERY label - for all reactions whose labels
   obey the label rule (non-empty, no whitespace, no '+', no "->") and are not repeated within a side; any number of terms, any
   integer coefficients (zero coefficients are not printed and read back as absent, i.e. 0; 1 is not written) *)
Theorem C19_parse_print : forall r,
  (forall p, In p (fst r) -> valid_label (fst p) = true) -> (forall p, In p (snd r) -> valid_label (fst p) = true) ->
  NoDup (map fst (fst r)) -> NoDup (map fst (snd r)) ->
  exists r', parse_eq (print_eq r) = Some r' /\
    forall l, coef_of l (fst r') = coef_of l (fst r) /\ coef_of l (snd r') = coef_of l (snd r).
Proof.
  intros r H1 H2. apply parse_print_eq; intros p Hp; apply valid_label_ok; [apply H1|apply H2]; exact Hp.
Qed.
Print Assumptions C19_parse_print.

Theorem C19_coefficient_text : forall z, parse_int (print_int z) = Some z.
Proof. exact parse_print_int. Qed.
Print Assumptions C19_coefficient_text.

(* a constant of order n has dimension length^(3n-3) time^-1 amount^(1-n), which is what makes k V (x/V)^n an amount per time *)
Theorem C19_constant_dimension : forall n,
  dS (kdim n) = 3 * n - 3 /\ dT (kdim n) = -1 /\ dQ (kdim n) = 1 - n /\
  dim_add (dim_add (kdim n) dim_volume) (dim_scal n (dim_add dim_amount (dim_opp dim_volume))) = dim_rate.
Proof. intro n. repeat split. apply mass_action_dimension. Qed.
Print Assumptions C19_constant_dimension.

(* non-vacuity: "2 A + A+ 3 B -> " (repeat, missing coefficient, empty side) *)
Example C19_example :
  parse_eq [50; 32; 65; 32; 43; 32; 65; 43; 32; 51; 32; 66; 32; 45; 62; 32]%N = Some ([([65%N], 3); ([66%N], 3)], []) /\
  print_eq ([([65%N], 3); ([66%N], 0); ([67%N], 1)], [([68%N], -2)])
  = [51; 32; 65; 32; 43; 32; 67; 32; 45; 62; 32; 45; 50; 32; 68; 32]%N.
Proof. vm_compute. split; reflexivity. Qed.
