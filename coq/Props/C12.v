(* C12 - Dictionary, JSON and file round-trips preserve the model.
   Three layers: (1) the key level, generic over every schema (Model/Dict.v) and over the thirteen key tables translated from the
   source on every run (Model/Schemas.v); (2) the text round trips every dictionary value goes through (quantities: C18;
   equations: C19); (3) the object level (Model/ObjDict.v): writers and readers of units systems, species, reactions, networks, grid
   and graph spaces, systems, scripts and trajectories, each with a round-trip theorem, each compared with the code's writer and
   reader dictionary for dictionary on every run (harness/c12.py); (4) files (Model/Files.v): the path helpers of filepath.py over a
   model of the pathlib calls they make, the two file names of a saved trajectory, text arrays - compared with the code on random
   paths, texts and real save / load runs (harness/files.py).  The content of .npy files and seeds drawn when none is given are
   outside the model and decided by the correspondence alone - see the manifest. *)
From Coq Require Import NArith ZArith List Lia Bool.
From Verif Require Import Num Units ReactionText ReactionTextFacts UnitText UnitTextFacts Schemas Dict DictFacts DictRoundTrip ObjDict ObjRoundTrip Files FilesFacts.

(* all key aliases a reader accepts are interchangeable: renaming a key into a synonym of the same field changes neither whether
   the dictionary is accepted nor the value read for any field (any schema, any dictionary) *)
Theorem C12_aliases_interchangeable : forall (A : Type) sc (d : dict A) k k',
  (forall syn, In syn sc -> in_syn k syn = in_syn k' syn) -> read_fields A sc (rename A k k' d) = read_fields A sc d.
Proof. exact alias_interchangeable. Qed.
Print Assumptions C12_aliases_interchangeable.

(* the thirteen key tables are well formed (no key is a synonym of two fields), so the hypothesis above holds for any two synonyms
   of one field; and every key a writer emits is the primary key of a field its reader knows *)
Theorem C12_schemas_wellformed : forallb wf_schema all_schemas = true.
Proof. exact schemas_wellformed. Qed.
Print Assumptions C12_schemas_wellformed.

Theorem C12_written_keys_are_read : forallb (fun p : list str * schema => writer_read (fst p) (snd p)) writers_and_readers = true.
Proof. exact writers_are_read. Qed.
Print Assumptions C12_written_keys_are_read.

(* the tables above are regenerated from /repo's source on every run (harness/translate_schemas.py); over them also: every key a
   reader looks up in the processed dictionary is a primary key (so what an alias or the writer provides is found), every field a
   reader accepts is looked up (nothing accepted is ignored; `type` is read by the dispatching rdspace_from_dict), and every field
   of a reader is emitted by its writer (nothing is dropped on the way out) - for all thirteen reader / writer pairs (the twelve *_from_dict / *_to_dict pairs and load_rdtrajectory / save_rdtrajectory) *)
Theorem C12_lookups_are_primary_keys : forallb (fun p : list str * schema => reads_primary (fst p) (snd p)) uses_and_readers = true.
Proof. exact readers_read_primaries. Qed.
Print Assumptions C12_lookups_are_primary_keys.

Theorem C12_every_field_is_read : forallb (fun p : list str * schema => fields_read dispatch_keys (fst p) (snd p)) uses_and_readers = true.
Proof. exact readers_read_every_field. Qed.
Print Assumptions C12_every_field_is_read.

Theorem C12_every_field_is_written : forallb (fun p : list str * schema => fields_written (fst p) (snd p)) writers_and_readers = true.
Proof. exact writers_write_every_field. Qed.
Print Assumptions C12_every_field_is_written.

(* key-level round trip, for every well-formed schema (hence, by the two computations, each of the thirteen): a dictionary giving every
   present field under its primary key - what the writers emit - passes the key processing and every field reads back exactly the
   value written, absent fields as absent *)
Theorem C12_key_round_trip : forall (A : Type) sc (vals : list (option A)),
  wf_schema sc = true -> length vals = length sc -> (forall syn, In syn sc -> syn <> nil) ->
  read_fields A sc (write_fields A sc vals) = Ok vals.
Proof. exact write_then_read. Qed.
Print Assumptions C12_key_round_trip.

Theorem C12_schemas_have_no_empty_field : forallb (fun sc : schema => forallb (fun syn => match syn with nil => false | _ => true end) sc) all_schemas = true.
Proof. exact schemas_nonempty. Qed.
Print Assumptions C12_schemas_have_no_empty_field.

(* object level, two kinds of objects modelled in full (Model/ObjDict.v, tied to species_to_dict / species_from_dict /
   unitssystem_to_dict / unitssystem_from_dict by the correspondence): a units system reads back as itself; a species reads back
   with the same label, chemostat flags and units system and with every diffusion coefficient and density - single or per
   environment - bit-identical in value and equivalent in unit, whatever units system the parent has (float text as in C18) *)
Theorem C12_units_system_roundtrip : forall u, read_usys (write_usys wr u) = Ok u.
Proof. exact usys_roundtrip. Qed.
Print Assumptions C12_units_system_roundtrip.

Theorem C12_species_roundtrip : forall (F : Type) (parse_float : str -> option F) (print_float : F -> str) (zero : F),
  (forall x, parse_float (print_float x) = Some x) -> (forall x, existsb is_space (print_float x) = false) ->
  (forall x, print_float x <> nil) ->
  forall parent (s : species_obj F), wf_species F s ->
  exists s', read_species F parse_float zero parent (write_species F print_float wr s) = Ok s' /\ species_equiv F s s'.
Proof. exact species_roundtrip. Qed.
Print Assumptions C12_species_roundtrip.

(* ... and a reaction: its equation travels as Reaction.to_string() and reads back with the same coefficient for every species and
   the same orders (so the constants' dimension check passes), its label, constants and units system as for a species *)
Theorem C12_reaction_roundtrip : forall (F : Type) (parse_float : str -> option F) (print_float : F -> str) (zero : F),
  (forall x, parse_float (print_float x) = Some x) -> (forall x, existsb is_space (print_float x) = false) ->
  (forall x, print_float x <> nil) ->
  forall parent (r : reaction_obj F), wf_reaction F r ->
  exists r', read_reaction F parse_float zero parent (write_reaction F print_float wr r) = Ok r' /\ reaction_equiv F r r'.
Proof. exact reaction_roundtrip. Qed.
Print Assumptions C12_reaction_roundtrip.

(* ... and a whole network: species and reactions as above (read under the network's units as parent), the environment list and
   the units system unchanged, and the network the reader builds passes RDNetwork's own validation again (no duplicate species or
   reaction label, no reaction naming an undeclared species, a non-empty environment list without the reserved name) *)
Theorem C12_network_roundtrip : forall (F : Type) (parse_float : str -> option F) (print_float : F -> str) (zero : F),
  (forall x, parse_float (print_float x) = Some x) -> (forall x, existsb is_space (print_float x) = false) ->
  (forall x, print_float x <> nil) ->
  forall parent (n : network_obj F), wf_network F n ->
  exists n', read_network F parse_float zero parent (write_network F print_float wr n) = Ok n' /\ network_equiv F n n'.
Proof. exact network_roundtrip. Qed.
Print Assumptions C12_network_roundtrip.

(* ... and a grid space: sizes, the environment of every cell, boundary conditions and units system unchanged, the cell volume
   bit-identical in value and equivalent in unit *)
Theorem C12_grid_roundtrip : forall (F : Type) (parse_float : str -> option F) (print_float : F -> str) (zero one : F),
  (forall x, parse_float (print_float x) = Some x) -> (forall x, existsb is_space (print_float x) = false) ->
  (forall x, print_float x <> nil) ->
  forall parent (g : grid_obj F), wf_grid_obj F g ->
  exists g', read_grid F parse_float zero one parent (write_grid F print_float wr g) = Ok g' /\ grid_equiv F g g'.
Proof. intros F pf prf zero one H1 H2 H3. exact (grid_roundtrip F pf prf zero H1 H2 H3 one). Qed.
Print Assumptions C12_grid_roundtrip.

(* ... and a graph space: every node (volume, environment) and edge (end nodes, contact surface, distance) with its own units
   system, which the writers state only when it differs from the graph's and the readers otherwise inherit *)
Theorem C12_graph_roundtrip : forall (F : Type) (parse_float : str -> option F) (print_float : F -> str) (zero one : F),
  (forall x, parse_float (print_float x) = Some x) -> (forall x, existsb is_space (print_float x) = false) ->
  (forall x, print_float x <> nil) ->
  forall parent (g : graph_obj F), wf_graph_obj F g ->
  exists g', read_graph F parse_float zero one parent (write_graph F print_float wr g) = Ok g' /\ graph_equiv F g g'.
Proof. intros F pf prf zero one H1 H2 H3. exact (graph_roundtrip F pf prf zero H1 H2 H3 one). Qed.
Print Assumptions C12_graph_roundtrip.

(* ... and a system: its network and its space (a grid or a graph, told apart by the `type` entry) as above, the state with
   bit-identical values and an equivalent unit, the chemostat map and the units system unchanged, and the environment of every
   cell still an environment of the network *)
Theorem C12_system_roundtrip : forall (F : Type) (parse_float : str -> option F) (print_float : F -> str) (zero one : F),
  (forall x, parse_float (print_float x) = Some x) -> (forall x, existsb is_space (print_float x) = false) ->
  (forall x, print_float x <> nil) ->
  forall parent (s : system_obj F), wf_system F s ->
  exists s', read_system F parse_float zero one parent (write_system F print_float wr s) = Ok s' /\ system_equiv F s s'.
Proof. intros F pf prf zero one H1 H2 H3. exact (system_roundtrip F pf prf zero H1 H2 H3 one). Qed.
Print Assumptions C12_system_roundtrip.

(* ... and a script: its system as above, the requested times (bit-identical, equivalent unit), time step, sampling interval and
   effective t_max (the given one, else the last requested time in the requested times' own unit - what the writer states),
   sampling policy, seed, initial-state processing mode and units system *)
Theorem C12_script_roundtrip : forall (F : Type) (parse_float : str -> option F) (print_float : F -> str) (zero one milli : F),
  (forall x, parse_float (print_float x) = Some x) -> (forall x, existsb is_space (print_float x) = false) ->
  (forall x, print_float x <> nil) ->
  forall (s : script_obj F), wf_script F s ->
  exists s', read_script F parse_float zero one milli (write_script F print_float zero wr s) = Ok s' /\ script_equiv F zero s s'.
Proof. intros F pf prf zero one milli H1 H2 H3. exact (script_roundtrip F pf prf zero H1 H2 H3 one milli). Qed.
Print Assumptions C12_script_roundtrip.

(* ... and a trajectory (the dictionary save_rdtrajectory builds with the data in line, read by load_rdtrajectory): its script, its
   own system, sampled data and times (bit-identical, equivalent units), engine description and option, coarse-graining map *)
Theorem C12_trajectory_roundtrip : forall (F : Type) (parse_float : str -> option F) (print_float : F -> str) (zero one milli : F),
  (forall x, parse_float (print_float x) = Some x) -> (forall x, existsb is_space (print_float x) = false) ->
  (forall x, print_float x <> nil) ->
  forall (t : trajectory_obj F), wf_trajectory F t ->
  exists t', read_trajectory F parse_float zero one milli (write_trajectory F print_float zero wr t) = Ok t' /\ trajectory_equiv F zero t t'.
Proof. intros F pf prf zero one milli H1 H2 H3. exact (trajectory_roundtrip F pf prf zero H1 H2 H3 one milli). Qed.
Print Assumptions C12_trajectory_roundtrip.

(* what the writers put into the dictionaries reads back: every quantity is written as str(UnitValue) (C18) ... *)
Theorem C12_quantity_text : forall (F : Type) (parse_float : str -> option F) (print_float : F -> str) (zero : F),
  (forall x, parse_float (print_float x) = Some x) -> (forall x, existsb is_space (print_float x) = false) ->
  (forall x, print_float x <> []) ->
  forall x u d, exists r,
    parse_unitvalue F parse_float zero (print_unitvalue F print_float x u d) = Some (x, r) /\ units_equiv (u, d) r = true.
Proof. exact value_roundtrip. Qed.
Print Assumptions C12_quantity_text.

(* ... and every stoichiometry as Reaction.to_string() (C19) *)
Theorem C12_equation_text : forall r,
  (forall p, In p (fst r) -> valid_label (fst p) = true) -> (forall p, In p (snd r) -> valid_label (fst p) = true) ->
  NoDup (map fst (fst r)) -> NoDup (map fst (snd r)) ->
  exists r', parse_eq (print_eq r) = Some r' /\
    forall l, coef_of l (fst r') = coef_of l (fst r) /\ coef_of l (snd r') = coef_of l (snd r).
Proof.
  intros r H1 H2. apply parse_print_eq; intros p Hp; apply valid_label_ok; [apply H1|apply H2]; exact Hp.
Qed.
Print Assumptions C12_equation_text.

(* ---- files ---- *)
(* save_rdtrajectory(path, separate_data=True) writes two files; load_rdtrajectory of the JSON file opens, for the data, exactly the
   file that was written - for every path (any extension or none, directories, '.', '..', runs of slashes, empty) and every
   absolute working directory.  Paths are compared in pathlib's normal form. *)
Theorem C12_trajectory_data_found : forall cwd p, starts_slash cwd = true -> data_loaded_from cwd p = data_saved_to cwd p.
Proof. exact trajectory_data_found. Qed.
Print Assumptions C12_trajectory_data_found.

(* the reference the JSON file holds is a bare file name (so the pair of files can be moved together) *)
Theorem C12_data_reference_is_a_name : forall p,
  existsb (N.eqb c_slash) (data_reference p) = false /\ keep_part (data_reference p) = true.
Proof. exact data_reference_is_a_name. Qed.
Print Assumptions C12_data_reference_is_a_name.

(* both names are one stem with two endings: a path given with or without '.json' names the same pair of files *)
Theorem C12_trajectory_names : forall p, exists q, json_path p = q ++ ext_json /\ data_path p = q ++ suffix_data.
Proof. exact trajectory_names_stem. Qed.
Print Assumptions C12_trajectory_names.

Theorem C12_extension_test : forall p e, have_extension p e = true <-> exists q, p = q ++ e.
Proof. exact have_extension_iff. Qed.
Print Assumptions C12_extension_test.

(* file references: an absolute one is used as it is, any one is used as it is when there is no base *)
Theorem C12_reference_resolution : forall p, get_path_with_base p None = p /\ forall b, starts_slash p = true -> get_path_with_base p (Some b) = p.
Proof. intro p. split; [apply no_base_kept | intros b H; apply absolute_reference_kept, H]. Qed.
Print Assumptions C12_reference_resolution.

(* text arrays (chemostat and environment files): integers written by save_1D_array_txt load as the same integers *)
Theorem C12_text_array_roundtrip : forall l, load_array (save_array l) = Some l.
Proof. exact load_save_array. Qed.
Print Assumptions C12_text_array_roundtrip.

Example C12_files_nonvacuous :
  data_loaded_from [47; 119] [100; 47; 47; 114; 46; 106; 115; 111; 110] = [47; 119; 47; 100; 47; 114; 95; 100; 97; 116; 97; 46; 110; 112; 121]
  /\ load_array [49; 44; 32; 45; 50; 10; 51] = Some [1; -2; 3]%Z.
Proof. split; vm_compute; reflexivity. Qed.
