(* C11 - The native engine is memory-safe on every valid script.
   What a model can carry: every vector access as a bounds-checked read (Model/Safety.v), library
   preconditions as booleans, delete / dangling pointers as transitions of the lifecycle machine
   (Model/Lifecycle.v).  Allocator behaviour, uninitialised padding and undefined behaviour inside
   libstdc++ / libm are observed by the sanitizers on the sampled scripts only (partial). *)
From Coq Require Import ZArith QArith Qcanon List Lia.
From Verif Require Import Num NumFacts Grid GridFacts Sampling SamplingFacts Lifecycle LifecycleFacts Safety SafetyFacts.
Open Scope Qc_scope.

(* the time-point sampling loop never reads outside t_samples - empty list, all requests consumed, any clock value - and
   consumes exactly what the sampling contract (C09) says *)
Theorem C11_tsample_loop_safe : forall ts pos t, tsample_loop (S (length ts)) ts pos t <> Fault.
Proof. exact tsample_loop_never_faults. Qed.
Print Assumptions C11_tsample_loop_safe.

Theorem C11_tsample_loop_is_consume : forall fuel ts pos t, (pos <= length ts)%nat -> (length ts - pos < fuel)%nat ->
  tsample_loop fuel ts pos t = Safe (fst (consume t (skipn pos ts)), (length ts - length (snd (consume t (skipn pos ts))))%nat).
Proof. exact tsample_loop_safe. Qed.
Print Assumptions C11_tsample_loop_is_consume.

(* no use after free, no double free, no call through an unassigned pointer on lifecycle-respecting histories *)
Theorem C11_no_use_after_free : forall h, only_on A h = true -> respects false false h = true ->
  ~ In OUB (impl_run gworld0 h).
Proof. exact impl_no_ub. Qed.
Print Assumptions C11_no_use_after_free.

(* index arithmetic of the flat arrays: state and flags (cell-major inside the engine, species-major at the interface),
   exported trajectory, neighbour table, rate-constant tables *)
Theorem C11_offsets : forall i s n e r dir N nS nC nE nR,
  (i < nC)%nat -> (s < nS)%nat -> (n < N)%nat -> (e < nE)%nat -> (r < nR)%nat -> (dir < 6)%nat ->
  (i * nS + s < nC * nS)%nat /\ (s * nC + i < nS * nC)%nat /\ (n * nC * nS + s * nC + i < N * nC * nS)%nat /\
  (i * 6 + dir < nC * 6)%nat /\ (e * nR + r < nE * nR)%nat /\ (s * nR + r < nS * nR)%nat /\ (s * nE + e < nS * nE)%nat.
Proof. intros. repeat split; try (apply offset_lt; assumption). apply export_offset; assumption. Qed.
Print Assumptions C11_offsets.

(* every entry of the neighbour table is "no neighbour" or a cell of the grid: degenerate grids, periodic axes of length 1 and 2 included *)
Theorem C11_neighbour_entries : forall g i dir j, wf_grid g -> (0 <= i < gsize g)%Z -> (dir < 6)%nat ->
  engine_nbr g i dir = Some j -> (0 <= j < gsize g)%Z.
Proof. exact neighbour_entry_in_range. Qed.
Print Assumptions C11_neighbour_entries.

Theorem C11_poisson_precondition : forall lambda, poisson_enters_library lambda = true -> poisson_precondition lambda = true.
Proof. exact poisson_library_precondition. Qed.
Print Assumptions C11_poisson_precondition.

Example C11_example : tsample_loop 4 [0; 1; 1] 0 1 = Safe (true, 3%nat) /\ tsample_loop 1 [] 0 0 = Safe (false, 0%nat).
Proof. vm_compute. split; reflexivity. Qed.
