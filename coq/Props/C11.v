(* C11 - The native engine is memory-safe on every valid script.
   What a model can carry: every vector access as a bounds-checked read (Model/Safety.v), library
   preconditions as booleans, delete / dangling pointers as transitions of the lifecycle machine
   (Model/Lifecycle.v).  Allocator behaviour, uninitialised padding and undefined behaviour inside
   libstdc++ / libm are observed by the sanitizers on the sampled scripts only (partial). *)
From Coq Require Import ZArith QArith Qcanon List Lia.
From Verif Require Import Num NumFacts Grid GridFacts Sampling SamplingFacts Lifecycle LifecycleFacts Safety SafetyFacts Engine GraphLayout.
Open Scope Qc_scope.

(* the time-point sampling loop never reads outside t_samples - empty list, all requests consumed, any clock value - and
   consumes exactly what the sampling contract (C09) says *)
Theorem C11_tsample_loop_safe : forall ts pos t, tsample_loop (S (length ts)) ts pos t <> Fault.
Proof. exact tsample_loop_never_faults. Qed.
Print Assumptions C11_tsample_loop_safe.

Theorem C11_tsample_loop_is_consume : forall fuel ts pos t, (pos <= length ts)%nat -> (length ts - pos < fuel)%nat ->
  tsample_loop fuel ts pos t = Safe (fst (consume t (skipn pos ts)), (length ts - length (snd (consume t (skipn pos ts))))%nat).
Proof. exact tsample_loop_safe. Qed.
Print Assumptions C11_tsample_loop_is_consume.

(* no use after free, no double free, no call through an unassigned pointer on lifecycle-respecting histories *)
Theorem C11_no_use_after_free : forall h, only_on A h = true -> respects false false h = true ->
  ~ In OUB (impl_run gworld0 h).
Proof. exact impl_no_ub. Qed.
Print Assumptions C11_no_use_after_free.

(* index arithmetic of the flat arrays: state and flags (cell-major inside the engine, species-major at the interface),
   exported trajectory, neighbour table, rate-constant tables *)
Theorem C11_offsets : forall i s n e r dir N nS nC nE nR,
  (i < nC)%nat -> (s < nS)%nat -> (n < N)%nat -> (e < nE)%nat -> (r < nR)%nat -> (dir < 6)%nat ->
  (i * nS + s < nC * nS)%nat /\ (s * nC + i < nS * nC)%nat /\ (n * nC * nS + s * nC + i < N * nC * nS)%nat /\
  (i * 6 + dir < nC * 6)%nat /\ (e * nR + r < nE * nR)%nat /\ (s * nR + r < nS * nR)%nat /\ (s * nE + e < nS * nE)%nat.
Proof. intros. repeat split; try (apply offset_lt; assumption). apply export_offset; assumption. Qed.
Print Assumptions C11_offsets.

(* every entry of the neighbour table is "no neighbour" or a cell of the grid: degenerate grids, periodic axes of length 1 and 2 included *)
Theorem C11_neighbour_entries : forall g i dir j, wf_grid g -> (0 <= i < gsize g)%Z -> (dir < 6)%nat ->
  engine_nbr g i dir = Some j -> (0 <= j < gsize g)%Z.
Proof. exact neighbour_entry_in_range. Qed.
Print Assumptions C11_neighbour_entries.

Theorem C11_poisson_precondition : forall lambda, poisson_enters_library lambda = true -> poisson_precondition lambda = true.
Proof. exact poisson_library_precondition. Qed.
Print Assumptions C11_poisson_precondition.

(* graph engines: every slot built by SetNeighbors names a node of the graph (edges with both ends inside), a node has as many
   slots as edge ends (mesh_neighbor_n), the species-major tables mesh_kd_out[i] / mesh_kd_in[i] have n_species x n_slots entries,
   entry s * n_slots + n is inside and is the entry of that very (species, slot), and GillespieGraph's flat channel index decodes
   back to the pair it was built from (the cell-first decode does not) *)
Theorem C11_graph_slots_in_range : forall (edges : list gedge) n i j sf ds,
  (forall e, In e edges -> let '(a, b, _, _) := e in (a < n)%nat /\ (b < n)%nat) ->
  In (j, sf, ds) (slots_of edges i) -> (i < n)%nat /\ (j < n)%nat.
Proof. exact slots_in_range. Qed.
Print Assumptions C11_graph_slots_in_range.

Theorem C11_graph_slot_count : forall edges i, length (slots_of edges i) = edge_ends edges i.
Proof. exact slots_count. Qed.
Print Assumptions C11_graph_slot_count.

Theorem C11_graph_table_layout : forall f nS sl s n d, (s < nS)%nat -> (n < length sl)%nat ->
  length (slot_table f nS sl) = (nS * length sl)%nat /\ (s * length sl + n < nS * length sl)%nat /\
  nth (s * length sl + n) (slot_table f nS sl) 0 = f s (nth n sl d).
Proof.
  intros f nS sl s n d Hs Hn. split; [apply slot_table_length|]. split; [apply slot_index_in_range; assumption|].
  apply slot_table_nth; assumption.
Qed.
Print Assumptions C11_graph_table_layout.

Theorem C11_graph_channel_decode : forall nn s n, (n < nn)%nat ->
  ((s * nn + n) / nn = s /\ (s * nn + n) mod nn = n)%nat.
Proof. exact channel_decode. Qed.
Print Assumptions C11_graph_channel_decode.

Example C11_example : tsample_loop 4 [0; 1; 1] 0 1 = Safe (true, 3%nat) /\ tsample_loop 1 [] 0 0 = Safe (false, 0%nat).
Proof. vm_compute. split; reflexivity. Qed.
