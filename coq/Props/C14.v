(* C14 - Initial-state processing yields a valid molecular state with the right totals.
   Model/InitState.v mirrors engine.cpp: the input is transposed to cell-major, then mode none passes it on, mode
   Poisson draws every entry with the real-valued amount as mean, mode redist (auto for the stochastic engines) draws them
   and corrects each species' total to the floor of its real-valued total by removing molecules that are present /
   adding molecules to cells drawn with the real-valued amounts as weights.  Uniform draws are an arbitrary list of
   numbers in [0,1). *)
From Coq Require Import ZArith QArith Qcanon List Lia.
From Verif Require Import Num NumFacts Engine EngineFacts Prng InitState InitStateFacts.
From Verif Require Import Enums EnumFacts.
Open Scope Qc_scope.

(* redistribution, one species: whatever the uniforms, the correction returns after exactly |drawn total - floor(total)|
   draws (it terminates), with non-negative integers whose sum is the floor of the real-valued total, and with nothing in a
   cell whose real-valued amount is zero - sub-molecule totals (floor 0) included *)
Theorem C14_redistribution : forall x sto us, (forall a, In a x -> 0 <= a) -> length sto = length x -> all_nonneg sto ->
  (forall j, nth j x 0 = 0 -> nth j sto 0%Z = 0%Z) -> unit_interval us ->
  (Z.abs_nat (sumZ sto - Qcfloor (sumQ x)) <= length us)%nat ->
  exists sto' us', correct_species x sto us = Some (sto', us') /\
    sumZ sto' = Qcfloor (sumQ x) /\ all_nonneg sto' /\ length sto' = length x /\
    (forall j, nth j x 0 = 0 -> nth j sto' 0%Z = 0%Z) /\
    length us' = (length us - Z.abs_nat (sumZ sto - Qcfloor (sumQ x)))%nat.
Proof. exact correct_species_spec. Qed.
Print Assumptions C14_redistribution.

(* the Poisson stage (both stochastic modes): one count per entry, at the same position, non-negative; an empty entry stays
   empty and draws nothing *)
Theorem C14_poisson_stage : forall xs us l us', poisson_all xs us = Some (l, us') ->
  length l = length xs /\ all_nonneg l /\ (forall j, nth j xs 0 = 0 -> nth j l 0%Z = 0%Z).
Proof. exact poisson_all_spec. Qed.
Print Assumptions C14_poisson_stage.

(* every entry is drawn with the amount of that very (species, cell) as mean: the input is transposed first *)
Theorem C14_same_entry : forall ns nc (sm : list Qc) i s, (i < nc)%nat -> (s < ns)%nat ->
  nth (i * ns + s) (to_cell_major 0 ns nc sm) 0 = nth (s * nc + i) sm 0.
Proof. exact (@to_cell_major_nth Qc 0). Qed.
Print Assumptions C14_same_entry.

(* mode none: the state is passed through (transposed to the engine's layout and back by the export, C01) *)
Theorem C14_none : forall ns nc sm us, init_state MNone ns nc sm us = Some (to_cell_major 0 ns nc sm).
Proof. exact init_none. Qed.
Print Assumptions C14_none.

(* reproducible: init_state is a function of (mode, shape, state, uniform stream), and the stream a function of the seed *)
Theorem C14_reproducible : forall m ns nc sm seed blocks,
  init_state m ns nc sm (uniforms (mt_outputs seed blocks)) = init_state m ns nc sm (uniforms (mt_outputs seed blocks)).
Proof. reflexivity. Qed.

(* string enumerations (Model/Enums.v, re-read from /repo's Python and C++ source on every run by harness/translate_enums.py) *)
(* every processing mode the script accepts is resolved by both initialisers to the documented action - none: keep, Poisson: draw,
   redist: redistribute, auto: redistribute for a stochastic engine and keep for a deterministic one - and every branch transposes
   the amounts to cell-major order *)
Theorem C14_mode_dispatch : processing_dispatch_ok = true.
Proof. exact processing_dispatch_agrees. Qed.
Print Assumptions C14_mode_dispatch.

(* the engines of engine_collection.py carry the options both initialisers dispatch, and `requires_molecules` on the Python side is
   exactly `is_stochastic` on the C++ side (what `auto` is resolved against) *)
Theorem C14_engine_options : engine_options_ok = true.
Proof. exact engine_options_agree. Qed.
Print Assumptions C14_engine_options.

(* non-vacuity: amounts [0.2; 0; 0.3] (total below one molecule) with Poisson counts [0; 0; 1]: the surplus molecule, which is
   not in the first non-empty cell, is removed by one draw *)
Example C14_example :
  correct_species [Qcfrac 1 5; 0; Qcfrac 3 10] [0; 0; 1]%Z [Qcfrac 1 2] = Some ([0; 0; 0]%Z, []).
Proof. vm_compute. reflexivity. Qed.
