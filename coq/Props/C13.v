(* C13 - Default state and chemostat map: density x volume, species-major layout; getters/setters. *)
From Coq Require Import ZArith QArith Qcanon List.
From Verif Require Import Num Units UnitsFacts Grid System SystemFacts.
Open Scope Qc_scope.

(* layout: entry (s, c) of the default state is at s * ncells + c, and holds ... *)
Theorem C13_default_state_layout : forall sys s c, wf_space (sy_space sys) ->
  (s < length (n_species (sy_net sys)))%nat -> (c < ncells (sy_space sys))%nat ->
  nth (s * ncells (sy_space sys) + c) (default_state sys) 0 =
  qv (default_entry (sy_net sys) (nth s (n_species (sy_net sys)) dummy_species)
        (nth c (cell_envs (sy_space sys)) 0%Z) (nth c (cell_vols (sy_space sys)) zero_density)).
Proof. exact default_state_entry. Qed.
Print Assumptions C13_default_state_layout.

(* ... the species' density in the cell's environment times the cell's volume (physically: SI values) ... *)
Theorem C13_default_state_value : forall net s e vol,
  SI (default_entry net s e vol) = SI (in_env (sp_dens s) (env_label net e) zero_density) * SI vol.
Proof. exact default_entry_SI. Qed.
Print Assumptions C13_default_state_value.

(* ... as an amount, in the network's units system *)
Theorem C13_default_state_units : forall net s e vol,
  qd (in_env (sp_dens s) (env_label net e) zero_density) = dim_density -> qd vol = dim_volume ->
  qu (default_entry net s e vol) = n_units net /\ qd (default_entry net s e vol) = dim_amount.
Proof. exact default_entry_units. Qed.
Print Assumptions C13_default_state_units.

Theorem C13_cell_volume_grid : forall g env vol u c, (c < Z.to_nat (gsize g))%nat ->
  SI (nth c (cell_vols (SGrid g env vol u)) zero_density) = SI vol.
Proof. exact cell_vols_SI_grid. Qed.
Print Assumptions C13_cell_volume_grid.

Theorem C13_cell_volume_graph : forall nodes edges u c, (c < length nodes)%nat ->
  SI (nth c (cell_vols (SGraph nodes edges u)) zero_density) = SI (fst (nth c nodes (zero_density, 0%Z))).
Proof. exact cell_vols_SI_graph. Qed.
Print Assumptions C13_cell_volume_graph.

(* the environment entry, else the 'default' entry, else zero *)
Theorem C13_env_entry : forall (m : list (option label * quantity)) e a d,
  lookup (Some e) m = Some a -> in_env (PerEnv m) e d = a.
Proof. exact (@in_env_found quantity). Qed.
Print Assumptions C13_env_entry.
Theorem C13_env_default : forall (m : list (option label * quantity)) e a d,
  lookup (Some e) m = None -> lookup None m = Some a -> in_env (PerEnv m) e d = a.
Proof. exact (@in_env_default quantity). Qed.
Print Assumptions C13_env_default.
Theorem C13_env_zero : forall (m : list (option label * quantity)) e d,
  lookup (Some e) m = None -> lookup None m = None -> in_env (PerEnv m) e d = d.
Proof. exact (@in_env_absent quantity). Qed.
Print Assumptions C13_env_zero.

Theorem C13_default_chstt_layout : forall sys s c, wf_space (sy_space sys) ->
  (s < length (n_species (sy_net sys)))%nat -> (c < ncells (sy_space sys))%nat ->
  nth (s * ncells (sy_space sys) + c) (default_chstt sys) false =
  in_env (sp_chs (nth s (n_species (sy_net sys)) dummy_species))
         (env_label (sy_net sys) (nth c (cell_envs (sy_space sys)) 0%Z)) false.
Proof. exact default_chstt_entry. Qed.
Print Assumptions C13_default_chstt_layout.

Theorem C13_lengths : forall sys, wf_space (sy_space sys) ->
  length (default_state sys) = (length (n_species (sy_net sys)) * ncells (sy_space sys))%nat /\
  length (default_chstt sys) = (length (n_species (sy_net sys)) * ncells (sy_space sys))%nat.
Proof. intros sys H. split; [apply default_state_length | apply default_chstt_length]; exact H. Qed.
Print Assumptions C13_lengths.

(* per-entry accessors read and write exactly the addressed entry, converting units *)
Theorem C13_get_after_set : forall sys st r p a st',
  set_state sys st r p a = Ok st' ->
  exists i, state_index sys r p = Ok i /\
    ((i < length (st_v st))%nat ->
     get_state sys st' r p =
       Ok (convert (match a with ABare x => {| qv := x; qu := sy_units sys; qd := dim_amount |} | AQuantity q => q end) (st_u st))).
Proof. exact get_set_same. Qed.
Print Assumptions C13_get_after_set.

Theorem C13_set_leaves_others : forall sys st r p a st' r' p' i j,
  set_state sys st r p a = Ok st' -> state_index sys r p = Ok i -> state_index sys r' p' = Ok j -> i <> j ->
  get_state sys st' r' p' = get_state sys st r' p'.
Proof. exact get_set_other. Qed.
Print Assumptions C13_set_leaves_others.

Theorem C13_entries_distinct : forall sys s c s' c',
  (c < ncells (sy_space sys))%nat -> (c' < ncells (sy_space sys))%nat ->
  (s * ncells (sy_space sys) + c = s' * ncells (sy_space sys) + c')%nat -> s = s' /\ c = c'.
Proof. exact state_index_inj. Qed.
Print Assumptions C13_entries_distinct.

Theorem C13_set_wrong_dimension : forall sys st r p q, qd q <> dim_amount -> set_state sys st r p (AQuantity q) = Err.
Proof. exact set_state_wrong_dimension. Qed.
Print Assumptions C13_set_wrong_dimension.

Theorem C13_chemostat_get_after_set : forall sys ch r p b ch' i,
  set_chemostat sys ch r p b = Ok ch' -> state_index sys r p = Ok i -> (i < length ch)%nat ->
  get_chemostat sys ch' r p = Ok b.
Proof. exact chemostat_get_set_same. Qed.
Print Assumptions C13_chemostat_get_after_set.

Theorem C13_chemostat_set_leaves_others : forall sys ch r p b ch' r' p' i j,
  set_chemostat sys ch r p b = Ok ch' -> state_index sys r p = Ok i -> state_index sys r' p' = Ok j -> i <> j ->
  get_chemostat sys ch' r' p' = get_chemostat sys ch r' p'.
Proof. exact chemostat_get_set_other. Qed.
Print Assumptions C13_chemostat_set_leaves_others.

Theorem C13_species_by_label_or_index : forall net l i,
  get_species_index net (SByLabel l) = Ok i ->
  get_species_index net (SByIndex (Z.of_nat i)) = Ok i /\ sp_label (nth i (n_species net) dummy_species) = l.
Proof. exact resolve_species_agree. Qed.
Print Assumptions C13_species_by_label_or_index.

(* non-vacuity: two species, a 2x1x1 grid with two environments *)
Definition ex_dens (v : Z) : quantity := {| qv := QcZ v; qu := default_usys; qd := dim_density |}.
Definition ex_sys : system :=
  {| sy_net := {| n_species := [ {| sp_label := 100%nat; sp_D := Scalar zero_density; sp_dens := Scalar (ex_dens 3); sp_chs := Scalar false |};
                                 {| sp_label := 101%nat; sp_D := Scalar zero_density;
                                    sp_dens := PerEnv [(Some 1%nat, ex_dens 5); (None, ex_dens 7)];
                                    sp_chs := PerEnv [(Some 0%nat, true)] |} ];
                  n_reactions := []; n_envs := [0%nat; 1%nat]; n_units := default_usys |};
     sy_space := SGrid {| gw := 2; gh := 1; gd := 1; px := false; py := false; pz := false |} [0%Z; 1%Z]
                       {| qv := QcZ 2; qu := default_usys; qd := dim_volume |} default_usys;
     sy_units := default_usys |}.
Example C13_example :
  map (fun x => this x) (default_state ex_sys) = [(6 # 1); (6 # 1); (14 # 1); (10 # 1)]%Q
  /\ default_chstt ex_sys = [false; false; true; false].
Proof. split; vm_compute; reflexivity. Qed.
