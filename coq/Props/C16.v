(* C16 - Coarse-graining conserves matter and geometry; un-coarse-graining inverts it.
   Model/Coarse.v: an index map assigns to every grid cell a group (>= 0) or -1 (dropped); group g's members are the cells
   mapped to g; every aggregated quantity of coarsegrain.py is a sum over members. *)
From Coq Require Import ZArith QArith Qcanon List Lia Bool.
From Verif Require Import Num NumFacts Grid Coarse CoarseFacts.
Open Scope Qc_scope.

(* whatever is summed over the members of every group - volumes, a species' amounts - adds up to the sum over the retained cells:
   nothing is lost or counted twice, for any index map (non-contiguous groups, single-cell groups, any dropped cells) *)
Theorem C16_group_sums_partition : forall im n (f : nat -> Qc),
  sumQ (map (fun g => sumQ (map f (members im n g))) (seq 0 (ngroups im)))
  = sumQ (map (fun c => if retained im c then f c else 0) (cells n)).
Proof. exact group_sums_partition. Qed.
Print Assumptions C16_group_sums_partition.

Theorem C16_total_volume : forall im n h,
  sumQ (map (node_volume im n h) (seq 0 (ngroups im))) = sumQ (map (fun c => if retained im c then h * h * h else 0) (cells n)).
Proof. exact total_volume. Qed.
Print Assumptions C16_total_volume.

(* a group is chemostated for a species iff some member is (the code sums the 0/1 flags and caps the sum at 1) *)
Theorem C16_flags_or : forall (fl : nat -> bool) l,
  Z.ltb 0 (Z.min (fold_right Z.add 0%Z (map (fun c => if fl c then 1%Z else 0%Z) l)) 1) = existsb fl l.
Proof. exact flag_sum_or. Qed.
Print Assumptions C16_flags_or.

(* the coarse-grained graph has no duplicate edge and no self-loop (keys are unordered group pairs, lower index first) *)
Theorem C16_edges_wellformed : forall g im h, NoDup (map fst (cg_edges g im h)) /\ ordered_keys (cg_edges g im h).
Proof. exact cg_edges_wellformed. Qed.
Print Assumptions C16_edges_wellformed.

(* un-coarse-graining gives every member value / (number of members): the group total is preserved *)
Theorem C16_uncg_total : forall (v : Qc) (ms : list nat), ms <> [] -> sumQ (map (fun _ => v / QcZ (Z.of_nat (length ms))) ms) = v.
Proof. exact uncg_group_total. Qed.
Print Assumptions C16_uncg_total.

(* non-vacuity: a 3x2 grid, two environments, non-contiguous group 0 = {0, 5}, cells 2 and 3 (different environments) dropped *)
Example C16_example :
  let g := {| gw := 3; gh := 2; gd := 1; px := false; py := false; pz := false |} in
  let im := [0; 1; -1; -1; 1; 0]%Z in
  valid_map im 6 [0; 1; 0; 1; 1; 0]%Z = true /\ ngroups im = 2%nat /\
  map fst (cg_edges g im 1) = [(0, 1)%Z] /\ map snd (cg_edges g im 1) = [Q2Qc 2].
Proof. vm_compute. repeat split. Qed.
