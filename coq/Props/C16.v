(* C16 - Coarse-graining conserves matter and geometry; un-coarse-graining inverts it.
   Model/Coarse.v: an index map assigns to every grid cell a group (>= 0) or -1 (dropped); group g's members are the cells
   mapped to g; every aggregated quantity of coarsegrain.py is a sum over members. *)
From Coq Require Import ZArith QArith Qcanon List Lia Bool.
From Verif Require Import Num NumFacts Grid GridFacts Coarse CoarseFacts CoarseEdges Engine EngineFacts CoarseIdentity.
Open Scope Qc_scope.

(* whatever is summed over the members of every group - volumes, a species' amounts - adds up to the sum over the retained cells:
   nothing is lost or counted twice, for any index map (non-contiguous groups, single-cell groups, any dropped cells) *)
Theorem C16_group_sums_partition : forall im n (f : nat -> Qc),
  sumQ (map (fun g => sumQ (map f (members im n g))) (seq 0 (ngroups im)))
  = sumQ (map (fun c => if retained im c then f c else 0) (cells n)).
Proof. exact group_sums_partition. Qed.
Print Assumptions C16_group_sums_partition.

Theorem C16_total_volume : forall im n h,
  sumQ (map (node_volume im n h) (seq 0 (ngroups im))) = sumQ (map (fun c => if retained im c then h * h * h else 0) (cells n)).
Proof. exact total_volume. Qed.
Print Assumptions C16_total_volume.

(* a group is chemostated for a species iff some member is (the code sums the 0/1 flags and caps the sum at 1) *)
Theorem C16_flags_or : forall (fl : nat -> bool) l,
  Z.ltb 0 (Z.min (fold_right Z.add 0%Z (map (fun c => if fl c then 1%Z else 0%Z) l)) 1) = existsb fl l.
Proof. exact flag_sum_or. Qed.
Print Assumptions C16_flags_or.

(* the coarse-grained graph has no duplicate edge and no self-loop (keys are unordered group pairs, lower index first) *)
Theorem C16_edges_wellformed : forall g im h, NoDup (map fst (cg_edges g im h)) /\ ordered_keys (cg_edges g im h).
Proof. exact cg_edges_wellformed. Qed.
Print Assumptions C16_edges_wellformed.

(* un-coarse-graining gives every member value / (number of members): the group total is preserved *)
Theorem C16_uncg_total : forall (v : Qc) (ms : list nat), ms <> [] -> sumQ (map (fun _ => v / QcZ (Z.of_nat (length ms))) ms) = v.
Proof. exact uncg_group_total. Qed.
Print Assumptions C16_uncg_total.

(* two groups are connected exactly when some of their member cells share a face (a grid adjacency - grid_to_graph's edge list,
   whose multiplicities are the grid's by C15 - with one end in each group), and the contact surface is the number of shared
   faces x the face area; for every index map and every pair of groups i < j *)
Theorem C16_connected_iff_shared_face : forall g im h i j, (0 <= i < j)%Z ->
  (In (i, j) (map fst (cg_edges g im h)) <-> (0 < shared_faces g im i j)%nat).
Proof. exact cg_connected_iff. Qed.
Print Assumptions C16_connected_iff_shared_face.

Theorem C16_contact_surface : forall g im h i j, (0 <= i < j)%Z ->
  surf (i, j) (cg_edges g im h) = QcZ (Z.of_nat (shared_faces g im i j)) * (h * h).
Proof. exact cg_contact_surface. Qed.
Print Assumptions C16_contact_surface.

(* the identity map: one node per cell with the cell's volume and position, grid_to_graph's edges with one face each, centroids
   one cell edge apart ... *)
Theorem C16_identity_edges : forall g h, wf_grid g -> reflecting g ->
  cg_edges g (identity_map (Z.to_nat (gsize g))) h = map (fun e => (e, h * h)) (g2g_edges g).
Proof. exact cg_identity_edges. Qed.
Print Assumptions C16_identity_edges.

Theorem C16_identity_nodes : forall g n h k, (k < n)%nat ->
  node_volume (identity_map n) n h k = h * h * h /\ centroid g (identity_map n) n h k = cell_pos g h k.
Proof. intros g n h k Hk. split; [exact (cg_identity_volume n h k Hk) | exact (cg_identity_centroid g n h k Hk)]. Qed.
Print Assumptions C16_identity_nodes.

Theorem C16_identity_distance : forall g h e, wf_grid g -> reflecting g -> In e (g2g_edges g) ->
  dist2 (cell_pos g h (Z.to_nat (fst e))) (cell_pos g h (Z.to_nat (snd e))) = h * h.
Proof. exact cg_identity_distance. Qed.
Print Assumptions C16_identity_distance.

(* ... so that simulating with the identity map reproduces the plain simulation: every Euler trajectory, any network tables,
   any step and length, any start *)
Theorem C16_identity_reproduces : forall T g h, wf_grid g -> reflecting g -> Z.of_nat (nC T) = gsize g -> h <> 0 ->
  forall dt n x,
  euler_steps T (cg_geom (repeat h (Z.to_nat (gsize g))) (cg_edges g (identity_map (Z.to_nat (gsize g))) h) (fun _ => h)) dt n x
  = euler_steps T (GGrid g h) dt n x.
Proof. exact cg_identity_trajectories. Qed.
Print Assumptions C16_identity_reproduces.

(* non-vacuity: a 3x2 grid, two environments, non-contiguous group 0 = {0, 5}, cells 2 and 3 (different environments) dropped *)
Example C16_example :
  let g := {| gw := 3; gh := 2; gd := 1; px := false; py := false; pz := false |} in
  let im := [0; 1; -1; -1; 1; 0]%Z in
  valid_map im 6 [0; 1; 0; 1; 1; 0]%Z = true /\ ngroups im = 2%nat /\
  map fst (cg_edges g im 1) = [(0, 1)%Z] /\ map snd (cg_edges g im 1) = [Q2Qc 2] /\ shared_faces g im 0 1 = 2%nat.
Proof. vm_compute. repeat split. Qed.
