(* C02 - Every engine conserves every conservation law of the network.
   This file: the deterministic (Euler) engine, exactly over Qc, for grid and graph geometry,
   every number of species / reactions / cells, every boundary mix. The stochastic engines are
   in the second part (event application), see below. *)
From Coq Require Import ZArith QArith Qcanon List Lia.
From Verif Require Import Num Grid GridFacts Engine EngineFacts EngineConserve.
Open Scope Qc_scope.

(* diffusion alone creates or destroys nothing: summed over all cells the exchange terms cancel
   (grid: the neighbour table is an involution under direction reversal, every w,h,d >= 1, periodic
   axes of length 1 and 2 included; graph: the two slots of every edge cancel, whatever the
   volumes, surfaces, distances, self-loops or parallel edges) *)
Theorem C02_diffusion_sums_to_zero : forall T G x s,
  wf_geom T G -> (match G with GGraph hs _ => nC T = length hs | _ => True end) ->
  sumQ (map (fun i => diffusion_out T G x i s) (cell_idx T)) = 0.
Proof. exact diffusion_total_zero. Qed.
Print Assumptions C02_diffusion_sums_to_zero.

(* any integer combination c of species annihilated by every reaction and involving no chemostated
   species has the same system-wide total after an Euler step ... *)
Theorem C02_euler_step : forall T G dt x c,
  wf_geom T G -> (match G with GGraph hs _ => nC T = length hs | _ => True end) ->
  conserved T c -> unchemostated T c ->
  total T c (euler_step T G dt x) = total T c x.
Proof. exact euler_step_conserves. Qed.
Print Assumptions C02_euler_step.

(* ... hence in every sample of every trajectory *)
Theorem C02_euler_trajectory : forall T G dt n x c,
  wf_geom T G -> (match G with GGraph hs _ => nC T = length hs | _ => True end) ->
  conserved T c -> unchemostated T c ->
  total T c (euler_steps T G dt n x) = total T c x.
Proof. exact euler_steps_conserve. Qed.
Print Assumptions C02_euler_trajectory.

Theorem C02_diffusion_only : forall T G dt x k,
  wf_geom T G -> (match G with GGraph hs _ => nC T = length hs | _ => True end) ->
  nR T = 0%nat -> (forall i, (i < nC T)%nat -> Chs T i k = false) ->
  total T (unit_vec (nS T) k) (euler_step T G dt x) = total T (unit_vec (nS T) k) x.
Proof. exact diffusion_only_conserves_species. Qed.
Print Assumptions C02_diffusion_only.

(* ---- stochastic engines: whatever event is drawn and whatever counts the Poisson sampler
   returns, applying them keeps every conservation law exactly ---- *)
From Verif Require Import Stochastic StochasticFacts.

(* Gillespie: one firing of one reaction channel, or one molecule moving between two cells *)
Theorem C02_event : forall T c x en, wf_state T x -> event_in_range T (fst en) ->
  conserved T c -> unchemostated T c ->
  total T c (apply_event T x en) = total T c x.
Proof. exact event_conserves. Qed.
Print Assumptions C02_event.

(* tau-leap: any list of (channel, count) applied in any order; and any Gillespie trajectory *)
Theorem C02_events : forall T c evs x, wf_state T x -> (forall en, In en evs -> event_in_range T (fst en)) ->
  conserved T c -> unchemostated T c ->
  total T c (apply_events T evs x) = total T c x.
Proof. exact events_conserve. Qed.
Print Assumptions C02_events.

(* non-vacuity: A + B <-> C conserves A + C and B + C; [1;0;1] satisfies the hypotheses on a concrete table *)
Definition ex_T2 : etab := {| nS := 3; nR := 2; nE := 1; nC := 2; tk := [1; 1]; tsub := [1; 0; 1; 0; 0; 1]%Z;
                              tsto := [-1; 1; -1; 1; 1; -1]%Z; tD := [1; 1; 1]; tenv := [0; 0]%nat;
                              tchs := [false; true; false; false; false; false] |}.
Example C02_example : conserved ex_T2 [1; 0; 1]%Z /\ unchemostated ex_T2 [1; 0; 1]%Z
  /\ this (total ex_T2 [1; 0; 1]%Z (apply_event ex_T2 (map QcZ [5; 4; 3; 2; 1; 0]%Z) (EReact 0 0, 1))) = (10 # 1)%Q.
Proof.
  split; [|split].
  - intros r Hr. do 2 (destruct r as [|r]; [vm_compute; reflexivity|]). cbn in Hr. lia.
  - intros s i Hs Hi Hne. cbn in Hs, Hi.
    do 3 (destruct s as [|s]; [do 2 (destruct i as [|i]; [try reflexivity; try (exfalso; apply Hne; reflexivity)|]); lia|]). lia.
  - vm_compute. reflexivity.
Qed.
