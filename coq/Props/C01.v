(* C01 - Deterministic rate law: the derivative the native engine computes from its flat tables is
   the mass-action + Bernstein-diffusion law, for every number of species / reactions /
   environments / cells, every order, every grid (w,h,d >= 1, all boundary mixes) and every graph;
   one Euler step is x + dt * law; the engine's import/export transpositions are mutually inverse.
   Numbers are in engine units; the passage from a system description in arbitrary units to these
   tables (librdengine.py) and the Python kinetics functions are tied by correspondence (and C04). *)
From Coq Require Import ZArith QArith Qcanon List.
From Verif Require Import Num Grid GridFacts Engine EngineFacts EngineBuild GridGraphRate KineticsGrid KineticsGraph.
Open Scope Qc_scope.

(* k[env,r] * V^(1-order) * prod x^sub  =  k * V * prod (x/V)^sub *)
Theorem C01_mass_action : forall T G x i r, vol_of G i <> 0 ->
  reaction_rate T G x i r = mass_action T G x i r.
Proof. exact reaction_rate_is_mass_action. Qed.
Print Assumptions C01_mass_action.

(* grid: out - in through the six-direction table = - sum over neighbours of the exchange term,
   with contact surface h^2, distance h, volume h^3 and the harmonic-mean diffusivity *)
Theorem C01_diffusion_grid : forall T g h x i s, wf_geom T (GGrid g h) -> (i < nC T)%nat ->
  diffusion_out T (GGrid g h) x i s
  = - sumQ (map (fun sl : slot => exchange T (GGrid g h) x s i (fst (fst sl)) (snd (fst sl)) (snd sl))
                (neighbours (GGrid g h) i)).
Proof. exact diffusion_grid_form. Qed.
Print Assumptions C01_diffusion_grid.

Theorem C01_diffusion_graph : forall T hs edges x i s, wf_geom T (GGraph hs edges) ->
  diffusion_out T (GGraph hs edges) x i s
  = - sumQ (map (fun sl : slot => exchange T (GGraph hs edges) x s i (fst (fst sl)) (snd (fst sl)) (snd sl))
                (neighbours (GGraph hs edges) i)).
Proof. exact diffusion_graph_form. Qed.
Print Assumptions C01_diffusion_graph.

(* the engine's derivative of every unflagged entry is the rate law *)
Theorem C01_engine_is_rate_law : forall T G x i s, wf_geom T G -> vols_nonzero T G -> (i < nC T)%nat ->
  Chs T i s = false -> dxdt T G x i s = rate_law T G x i s.
Proof. exact dxdt_is_rate_law. Qed.
Print Assumptions C01_engine_is_rate_law.

(* one Euler step *)
Theorem C01_euler_step : forall T G dt x i s, wf_geom T G -> vols_nonzero T G ->
  (i < nC T)%nat -> (s < nS T)%nat -> Chs T i s = false ->
  X T (euler_step T G dt x) i s = X T x i s + rate_law T G x i s * dt.
Proof. exact euler_step_unflagged. Qed.
Print Assumptions C01_euler_step.

(* species-major -> cell-major -> species-major is the identity on every entry *)
Theorem C01_transposition : forall (d : Qc) ns nc x i s, (i < nc)%nat -> (s < ns)%nat ->
  nth (s * nc + i) (to_species_major d ns nc (to_cell_major d ns nc x)) d = nth (s * nc + i) x d.
Proof. exact (@transpose_roundtrip_entry Qc). Qed.
Print Assumptions C01_transposition.

Theorem C01_cell_major_layout : forall (d : Qc) ns nc x i s, (i < nc)%nat -> (s < ns)%nat ->
  nth (i * ns + s) (to_cell_major d ns nc x) d = nth (s * nc + i) x d.
Proof. exact (@to_cell_major_nth Qc). Qed.
Print Assumptions C01_cell_major_layout.

(* kinetics.py on a grid, modelled branch by branch (Proofs/KineticsGrid.v: unsplit reactions with forward minus reverse rate,
   six wrapped candidate neighbours with k = 2 / (h^2 (1/Di + 1/Dj)), the chemostat test last): what it returns is this rate law,
   for every table in which reaction q sits at 2q (forward) and 2q+1 (reverse) - which the tables built from any system are *)
Theorem C01_kinetics_grid : forall T g h, wf_grid g -> Z.of_nat (nC T) = gsize g -> h <> 0 -> (forall s e, 0 <= Dc T s e) ->
  forall x b i s Q, paired T Q -> (i < nC T)%nat ->
  kin_dxdt T g h x b i s Q = if b && Chs T i s then 0 else rate_law T (GGrid g h) x i s.
Proof. exact kinetics_grid_is_rate_law. Qed.
Print Assumptions C01_kinetics_grid.

(* ... and kinetics.py's graph path (every node joined to the cell by get_edge counted once, with the first such edge's surface
   and distance): the same law on every simple graph - no self-loop, at most one edge per pair of nodes; with parallel edges the
   Python functions and the engines differ (parallel_edges_differ), which is why C15 compares them on such graphs only *)
Theorem C01_kinetics_graph : forall T hs es x b i s Q,
  wf_geom T (GGraph hs es) -> simple_graph (length hs) es -> paired T Q -> (i < length hs)%nat ->
  kin_graph_dxdt T hs es x b i s Q = if b && Chs T i s then 0 else rate_law T (GGraph hs es) x i s.
Proof. exact kinetics_graph_is_rate_law. Qed.
Print Assumptions C01_kinetics_graph.

Theorem C01_tables_are_paired : forall sys ue chs, paired (build_tables sys ue chs) (length (System.n_reactions (System.sy_net sys))).
Proof. exact build_tables_paired. Qed.
Print Assumptions C01_tables_are_paired.

(* non-vacuity: A -> B (k = 2) in a 2x1x1 reflecting grid, D = 1, h = 1: the law gives -2 x_A + (x_A' - x_A) *)
Definition ex_T : etab := {| nS := 2; nR := 2; nE := 1; nC := 2; tk := [QcZ 2; 0]; tsub := [1; 0; 0; 1]%Z; tsto := [-1; 1; 1; -1]%Z;
                             tD := [1; 0]; tenv := [0; 0]%nat; tchs := [false; false; false; false] |}.
Definition ex_G : geom := GGrid {| gw := 2; gh := 1; gd := 1; px := false; py := false; pz := false |} 1.
Example C01_example :
  this (dxdt ex_T ex_G [QcZ 3; 0; QcZ 5; 0] 0 0) = (-4 # 1)%Q /\ this (rate_law ex_T ex_G [QcZ 3; 0; QcZ 5; 0] 0 0) = (-4 # 1)%Q
  /\ this (kin_dxdt ex_T {| gw := 2; gh := 1; gd := 1; px := false; py := false; pz := false |} 1 [QcZ 3; 0; QcZ 5; 0] true 0 0 1) = (-4 # 1)%Q.
Proof. repeat split; vm_compute; reflexivity. Qed.
