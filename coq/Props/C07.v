(* C07 - Stochastic engines take only legal steps, at the rates of the master equation.
   Model/StochStep.v: propensities, the channel table in the engine's scanning order, Gillespie's draw,
   tau-leap's counts; Model/Stochastic.v: how events change the state. *)
From Coq Require Import ZArith QArith Qcanon List Lia.
From Verif Require Import Num NumFacts Grid GridFacts System Engine EngineFacts EngineConserve Stochastic StochasticFacts
  Prng StochStep StochStepFacts.
Open Scope Qc_scope.

(* every event the Gillespie draw can select - whatever the uniform - is possible in the state it is drawn in: a reaction
   direction with a non-zero constant in that cell's environment and enough reactant molecules, or a molecule that is there
   moving through an interface with a non-zero constant *)
Theorem C07_draw_is_legal : forall T G x u1 e, nonneg_sub T -> nonneg_tables T G -> nonneg_state T x -> integral_state T x ->
  0 <= u1 -> gillespie_draw T G x u1 = DEvent e -> legal T G x e.
Proof. exact draw_legal. Qed.
Print Assumptions C07_draw_is_legal.

(* and a possible event leaves a vector of non-negative integers (by induction: every reachable state is one) *)
Theorem C07_state_stays_nonneg_integral : forall T G x e, wf_state T x -> sto_bounded T ->
  (forall i s j k, In (j, k) (moves_of T G i s) -> (j < nC T)%nat) ->
  nonneg_state T x -> integral_state T x -> legal T G x e ->
  nonneg_state T (apply_event T x (e, 1)) /\ integral_state T (apply_event T x (e, 1)).
Proof. exact legal_event_preserves. Qed.
Print Assumptions C07_state_stays_nonneg_integral.

(* event choice: the values of r = u1 a0 that select a channel form exactly the interval [cumulative before, + its
   propensity): its probability under a uniform u1 is propensity / a0 *)
Theorem C07_selection_interval : forall pre e a post r, (forall p, In p pre -> 0 <= snd p) ->
  sumQ (map snd pre) <= r -> r < sumQ (map snd pre) + a -> select r (pre ++ (e, a) :: post) = Some e.
Proof. exact select_interval. Qed.
Print Assumptions C07_selection_interval.

Theorem C07_selected_has_positive_propensity : forall r chs e, (forall p, In p chs -> 0 <= snd p) -> 0 <= r ->
  select r chs = Some e -> exists a, In (e, a) chs /\ 0 < a.
Proof. exact select_some_pos. Qed.
Print Assumptions C07_selected_has_positive_propensity.

(* propensities of the master equation: volume-scaled constant x combinatorial reactant count, positive exactly when the
   reaction can fire; the combinatorial factor is x (x-1) ... (x-n+1) = x!/(x-n)! = n! C(x,n), and 0 when x < n *)
Theorem C07_reaction_propensity_positive_iff : forall T G x i r, nonneg_sub T -> 0 < mesh_kr T G i r ->
  (0 < reaction_prop T G x i r <-> forall s, (s < nS T)%nat -> QcZ (Sub T s r) <= X T x i s).
Proof. exact reaction_prop_pos. Qed.
Print Assumptions C07_reaction_propensity_positive_iff.

Theorem C07_combinatorial_factor : forall n x,
  ffall (QcZ (Z.of_nat x)) n = QcZ (Z.of_nat (falling x n)) /\
  ((n <= x)%nat -> (falling x n * fact (x - n) = fact x)%nat) /\ ((x < n)%nat -> falling x n = 0%nat).
Proof. intros n x. split; [apply ffall_nat|split; [apply falling_fact|apply falling_zero]]. Qed.
Print Assumptions C07_combinatorial_factor.

(* the volume-scaled constant and the first-order diffusion constants are those of the rate law of C01 (same mesh_kr, kd) *)
Theorem C07_rate_constants_are_those_of_the_rate_law : forall T G x i r, vol_of G i <> 0 ->
  reaction_rate T G x i r = mass_action T G x i r.
Proof. exact reaction_rate_is_mass_action. Qed.
Print Assumptions C07_rate_constants_are_those_of_the_rate_law.

(* chemostated entries are exempt from the change (C03) but the propensity reads them like any other entry: the flag does
   not occur in reaction_prop, moves_of or channels *)
Theorem C07_chemostat_exempt_from_change : forall T x en i0 s0, wf_state T x -> event_in_range T (fst en) ->
  (i0 < nC T)%nat -> (s0 < nS T)%nat -> Chs T i0 s0 = true -> X T (apply_event T x en) i0 s0 = X T x i0 s0.
Proof. exact event_frozen. Qed.
Print Assumptions C07_chemostat_exempt_from_change.

(* waiting times: dt = ln(1/u2)/a0 is positive (time strictly increases) and exceeds tau exactly when u2 < exp(-a0 tau) *)
From Coq Require Import Reals.
From Verif Require Import WaitingTime.
Theorem C07_waiting_time : forall u a0 tau : R, (0 < u < 1)%R -> (0 < a0)%R ->
  (0 < ln (/ u) / a0)%R /\ ((tau < ln (/ u) / a0)%R <-> (u < exp (- a0 * tau))%R).
Proof. intros u a0 tau Hu Ha. split; [apply waiting_time_positive; assumption|apply waiting_time_survival; assumption]. Qed.
Print Assumptions C07_waiting_time.
