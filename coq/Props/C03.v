(* C03 - Chemostated entries never change; everything else ignores the flag.
   This file: the deterministic engine (flag consulted at index cell * nspecies + species after the
   transposition, i.e. the flag of that very species in that very cell). *)
From Coq Require Import ZArith QArith Qcanon List.
From Verif Require Import Num Grid GridFacts Engine EngineFacts.
Open Scope Qc_scope.

Theorem C03_zero_derivative : forall T G x i s, Chs T i s = true -> dxdt T G x i s = 0.
Proof. exact dxdt_chemostat. Qed.
Print Assumptions C03_zero_derivative.

Theorem C03_euler_frozen : forall T G dt x i s, (i < nC T)%nat -> (s < nS T)%nat -> Chs T i s = true ->
  X T (euler_step T G dt x) i s = X T x i s.
Proof. exact euler_step_frozen. Qed.
Print Assumptions C03_euler_frozen.

Theorem C03_euler_frozen_trajectory : forall T G dt n x i s, (i < nC T)%nat -> (s < nS T)%nat -> Chs T i s = true ->
  X T (euler_steps T G dt n x) i s = X T x i s.
Proof. exact euler_steps_frozen. Qed.
Print Assumptions C03_euler_frozen_trajectory.

(* unflagged entries evolve as the rate law prescribes; the law reads the frozen entries like any
   other (the flag occurs nowhere in rate_law: a frozen species still reacts and diffuses) *)
Theorem C03_unflagged_follow_law : forall T G dt x i s, wf_geom T G -> vols_nonzero T G ->
  (i < nC T)%nat -> (s < nS T)%nat -> Chs T i s = false ->
  X T (euler_step T G dt x) i s = X T x i s + rate_law T G x i s * dt.
Proof. exact euler_step_unflagged. Qed.
Print Assumptions C03_unflagged_follow_law.

(* the flag array is transposed together with the state: species-major index s*ncells + c
   becomes cell-major index c*nspecies + s *)
Theorem C03_flag_index : forall ns nc (ch : list bool) i s, (i < nc)%nat -> (s < ns)%nat ->
  nth (i * ns + s) (to_cell_major false ns nc ch) false = nth (s * nc + i) ch false.
Proof. exact (@to_cell_major_nth bool false). Qed.
Print Assumptions C03_flag_index.

(* ---- stochastic engines and RDSystem.apply_reaction ---- *)
From Verif Require Import Stochastic StochasticFacts.

(* no event (reaction firing or molecule move, with any multiplicity) changes a flagged entry *)
Theorem C03_event_frozen : forall T x en i0 s0, wf_state T x -> event_in_range T (fst en) ->
  (i0 < nC T)%nat -> (s0 < nS T)%nat -> Chs T i0 s0 = true ->
  X T (apply_event T x en) i0 s0 = X T x i0 s0.
Proof. exact event_frozen. Qed.
Print Assumptions C03_event_frozen.

Theorem C03_events_frozen : forall T evs x i0 s0, wf_state T x -> (forall en, In en evs -> event_in_range T (fst en)) ->
  (i0 < nC T)%nat -> (s0 < nS T)%nat -> Chs T i0 s0 = true ->
  X T (apply_events T evs x) i0 s0 = X T x i0 s0.
Proof. exact events_frozen. Qed.
Print Assumptions C03_events_frozen.

(* a reaction firing changes exactly the unflagged entries of its own cell, by n * (products - substrates) *)
Theorem C03_reaction_effect : forall T x i r n i' s', wf_state T x -> (i < nC T)%nat -> (i' < nC T)%nat -> (s' < nS T)%nat ->
  X T (apply_react T x i r n) i' s' =
  if Nat.eqb i i' && negb (Chs T i s') then X T x i' s' + QcZ (Sto T s' r) * n else X T x i' s'.
Proof. exact X_apply_react. Qed.
Print Assumptions C03_reaction_effect.

(* a move takes n from the source unless it is flagged and gives n to the destination unless it is flagged *)
Theorem C03_move_effect : forall T x i s j n i' s', wf_state T x -> (i < nC T)%nat -> (s < nS T)%nat -> (j < nC T)%nat ->
  (i' < nC T)%nat -> (s' < nS T)%nat ->
  X T (apply_move T x i s j n) i' s' =
  X T x i' s'
  + (if Nat.eqb i i' && Nat.eqb s s' && negb (Chs T i s) then - n else 0)
  + (if Nat.eqb j i' && Nat.eqb s s' && negb (Chs T j s) then n else 0).
Proof. exact X_apply_move. Qed.
Print Assumptions C03_move_effect.
