(* C03 - Chemostated entries never change; everything else ignores the flag.
   This file: the deterministic engine (flag consulted at index cell * nspecies + species after the
   transposition, i.e. the flag of that very species in that very cell). *)
From Coq Require Import ZArith QArith Qcanon List.
From Verif Require Import Num Grid GridFacts Engine EngineFacts.
Open Scope Qc_scope.

Theorem C03_zero_derivative : forall T G x i s, Chs T i s = true -> dxdt T G x i s = 0.
Proof. exact dxdt_chemostat. Qed.
Print Assumptions C03_zero_derivative.

Theorem C03_euler_frozen : forall T G dt x i s, (i < nC T)%nat -> (s < nS T)%nat -> Chs T i s = true ->
  X T (euler_step T G dt x) i s = X T x i s.
Proof. exact euler_step_frozen. Qed.
Print Assumptions C03_euler_frozen.

Theorem C03_euler_frozen_trajectory : forall T G dt n x i s, (i < nC T)%nat -> (s < nS T)%nat -> Chs T i s = true ->
  X T (euler_steps T G dt n x) i s = X T x i s.
Proof. exact euler_steps_frozen. Qed.
Print Assumptions C03_euler_frozen_trajectory.

(* unflagged entries evolve as the rate law prescribes; the law reads the frozen entries like any
   other (the flag occurs nowhere in rate_law: a frozen species still reacts and diffuses) *)
Theorem C03_unflagged_follow_law : forall T G dt x i s, wf_geom T G -> vols_nonzero T G ->
  (i < nC T)%nat -> (s < nS T)%nat -> Chs T i s = false ->
  X T (euler_step T G dt x) i s = X T x i s + rate_law T G x i s * dt.
Proof. exact euler_step_unflagged. Qed.
Print Assumptions C03_unflagged_follow_law.

(* the flag array is transposed together with the state: species-major index s*ncells + c
   becomes cell-major index c*nspecies + s *)
Theorem C03_flag_index : forall ns nc (ch : list bool) i s, (i < nc)%nat -> (s < ns)%nat ->
  nth (i * ns + s) (to_cell_major false ns nc ch) false = nth (s * nc + i) ch false.
Proof. exact (@to_cell_major_nth bool false). Qed.
Print Assumptions C03_flag_index.
