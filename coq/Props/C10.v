(* C10 - Simulations terminate, and the engine lifecycle is crash-free and isolated.
   spec_* : every engine object owns its simulation (what the property asks for).
   impl_* : librdengine.py + engine.cpp as they are organised: one process-global simulation pointer
            with a freed flag, a Python-side status flag per object; undefined behaviour is a value. *)
From Coq Require Import ZArith QArith Qcanon List Lia Bool.
From Verif Require Import Num NumFacts Sampling SamplingFacts Lifecycle LifecycleFacts Simulate SimulateFacts.
Open Scope Qc_scope.

(* on every lifecycle-respecting history over one engine object the implementation returns exactly what the
   specification returns ... *)
Theorem C10_refinement : forall h, only_on A h = true -> respects false false h = true ->
  impl_run gworld0 h = spec_run world0 h.
Proof. exact refinement. Qed.
Print Assumptions C10_refinement.

(* ... in particular no call goes through a dangling or unassigned pointer and nothing is deleted twice, wherever
   and however often finalize occurs *)
Theorem C10_no_undefined_behaviour : forall h, only_on A h = true -> respects false false h = true ->
  ~ In OUB (impl_run gworld0 h).
Proof. exact impl_no_ub. Qed.
Print Assumptions C10_no_undefined_behaviour.

(* engine objects are independent: what an object returns is what it would return if the other one did not exist *)
Theorem C10_independent : forall e h w1 w2, get w1 e = get w2 e ->
  sel e h (spec_run w1 h) = spec_run w2 (filter (fun c => obj_eqb (target c) e) h).
Proof. exact spec_independent. Qed.
Print Assumptions C10_independent.

(* a fixed-step simulation with N dt <= t_max < (N+1) dt completes after exactly N+1 iterations (ceil(t_max/dt), give
   or take one), not before; afterwards clock, step count and records stay as they are *)
Theorem C10_fixed_step_terminates : forall pol ts I tmax dt N, 0 < dt -> 0 <= tmax ->
  Tfix dt N <= tmax -> tmax < Tfix dt (S N) ->
  forall n, let s := run_fixed dt n (sim_init pol ts I tmax) in
  ((n <= N)%nat -> s_complete s = false /\ s_step s = n /\ s_t s = Tfix dt n) /\
  ((S N <= n)%nat -> s_complete s = true /\ s_step s = S N /\ s_t s = Tfix dt (S N) /\
                     s_recs s = s_recs (run_fixed dt (S N) (sim_init pol ts I tmax))).
Proof. exact fixed_step_count. Qed.
Print Assumptions C10_fixed_step_terminates.

Theorem C10_complete_sticky : forall st s, s_complete s = true -> iterate st s = reset_done s.
Proof. exact iterate_complete. Qed.
Print Assumptions C10_complete_sticky.

(* the status reported after a set-up refers to that set-up; a set-up does not depend on what happened before *)
Theorem C10_status_current : forall w e sc, snd (spec_step (fst (spec_step w (LSetup e sc))) (LIsComplete e)) = OBool false.
Proof. exact status_current. Qed.
Print Assumptions C10_status_current.

Theorem C10_setup_fresh : forall w e sc, get (fst (spec_step w (LSetup e sc))) e = {| e_sim := Some (start sc, sc) |}.
Proof. exact setup_fresh. Qed.
Print Assumptions C10_setup_fresh.

(* fetching the output changes nothing (so it can be fetched repeatedly with the same result) *)
Theorem C10_output_pure : forall w e, fst (spec_step w (LGetOutput e)) = w.
Proof. exact output_pure. Qed.
Print Assumptions C10_output_pure.

Theorem C10_finalize_idempotent : forall w e,
  spec_step (fst (spec_step w (LFinalize e))) (LFinalize e) = (fst (spec_step w (LFinalize e)), OUnit).
Proof. exact finalize_twice. Qed.
Print Assumptions C10_finalize_idempotent.

(* two (or more, in turn) engine objects: as long as at most one of them holds a live simulation at a time - set-up, use,
   finalize, then the next - the single global simulation returns exactly what one simulation per object would return, and never
   runs into undefined behaviour.  (F13 below is what happens without that discipline.) *)
Theorem C10_exclusive_sessions : forall h, exclusive None h = true -> impl_run gworld0 h = spec_run world0 h.
Proof. exact refinement_sessions. Qed.
Print Assumptions C10_exclusive_sessions.

(* simulate_script (simulate.py) keeps that discipline: set-up, run until completion (with or without progress queries), fetch the
   output, finalize.  Any sequence of simulate calls on any engine objects, whatever the clock made of each run: no undefined
   behaviour, the specification's outcomes, and every call returns what it would return alone in a fresh process *)
Theorem C10_simulate_sequence : forall invs,
  impl_run gworld0 (flat_map invocation_history invs) = spec_run world0 (flat_map invocation_history invs)
  /\ ~ In OUB (impl_run gworld0 (flat_map invocation_history invs)).
Proof. intro invs. split; [apply simulate_sequence_refines | apply simulate_sequence_no_ub]. Qed.
Print Assumptions C10_simulate_sequence.

Theorem C10_simulate_isolated : forall before i after, exists pre post,
  impl_run gworld0 (flat_map invocation_history (before ++ i :: after)) = pre ++ spec_run world0 (invocation_history i) ++ post
  /\ length pre = length (flat_map invocation_history before).
Proof. exact simulate_call_isolated. Qed.
Print Assumptions C10_simulate_isolated.

(* Known finding F13: with TWO engine objects the implementation does not refine the specification, because both
   drive the single process-global simulation: A.setup; B.setup; A.iterate advances B's simulation. *)
Definition sc_ex (tmax : Qc) : script :=
  {| sc_pol := OnIteration; sc_ts := [0]; sc_int := 1; sc_tmax := tmax; sc_dt := 1; sc_size := 2 |}.
Example C10_two_objects_refuted :
  let h := [LSetup A (sc_ex 0); LSetup B (sc_ex (QcZ 5)); LIterate A; LGetOutput B] in
  impl_run gworld0 h <> spec_run world0 h.
Proof. vm_compute. intro H. discriminate H. Qed.

(* non-vacuity: a respecting single-object history with finalize twice, set-up again, and continued iteration *)
Example C10_example :
  let h := [LSetup A (sc_ex 1); LIterate A; LIterate A; LIterate A; LIsComplete A; LGetOutput A; LFinalize A; LFinalize A;
            LSetup A (sc_ex 0); LIsComplete A; LIterateN A 0; LIterateN A 3; LGetOutput A; LGetOutput A] in
  only_on A h = true /\ respects false false h = true /\
  nth 4 (spec_run world0 h) OUB = OBool true /\ nth 9 (spec_run world0 h) OUB = OBool false.
Proof. vm_compute. repeat split. Qed.
