(* C17 - Trajectory accessors all read the same array consistently; sample-index look-ups. *)
From Coq Require Import ZArith QArith Qcanon List.
From Verif Require Import Num Units Trajectory TrajectoryFacts.
From Verif Require Import ReactionText Enums EnumFacts.
Open Scope Qc_scope.

Theorem C17_point_is_direct_index : forall T s n c,
  point T s n c = nth (n * tS T * tC T + s * tC T + c) (tdata T) 0.
Proof. intros; reflexivity. Qed.
Print Assumptions C17_point_is_direct_index.

Theorem C17_state_agrees : forall T s n c, (c < tC T)%nat -> nth c (state_of T s n) 0 = point T s n c.
Proof. exact state_point. Qed.
Print Assumptions C17_state_agrees.

Theorem C17_trajectory_agrees : forall T s n c, (n < tN T)%nat -> nth n (trajectory_of T s c) 0 = point T s n c.
Proof. exact trajectory_point. Qed.
Print Assumptions C17_trajectory_agrees.

Theorem C17_whole_state_block : forall T n,
  whole_state T n = firstn (tS T * tC T) (skipn (n * (tS T * tC T)) (tdata T)).
Proof. exact whole_state_is_block. Qed.
Print Assumptions C17_whole_state_block.

Theorem C17_whole_state_agrees : forall T s n c, (s < tS T)%nat -> (c < tC T)%nat ->
  nth (s * tC T + c) (whole_state T n) 0 = point T s n c.
Proof. exact whole_state_point. Qed.
Print Assumptions C17_whole_state_agrees.

Theorem C17_merged_is_sum_over_cells : forall T s n,
  (n < tN T)%nat -> ((n * tS T + s) * tC T + tC T <= length (tdata T))%nat ->
  nth n (merged_trajectory T s) 0 = sumQ (tabulate (tC T) (fun c => point T s n c)).
Proof. exact merged_point. Qed.
Print Assumptions C17_merged_is_sum_over_cells.

(* look-ups on non-decreasing sample times *)
Theorem C17_infeq : forall ts t i, sorted ts -> infeq ts t = Some i ->
  (i < length ts)%nat /\ nth i ts 0 <= t /\ (forall j, (i < j)%nat -> (j < length ts)%nat -> t < nth j ts 0).
Proof. exact infeq_some. Qed.
Print Assumptions C17_infeq.

Theorem C17_infeq_none : forall ts t, infeq ts t = None -> ts = [] \/ t < nth 0 ts 0.
Proof. exact infeq_none. Qed.
Print Assumptions C17_infeq_none.

Theorem C17_supeq : forall ts t i, supeq ts t = Some i ->
  (i < length ts)%nat /\ t <= nth i ts 0 /\ (forall j, (j < i)%nat -> nth j ts 0 < t).
Proof. exact supeq_some. Qed.
Print Assumptions C17_supeq.

Theorem C17_supeq_none : forall ts t, sorted ts -> supeq ts t = None -> ts = [] \/ nth (length ts - 1) ts 0 < t.
Proof. exact supeq_none. Qed.
Print Assumptions C17_supeq_none.

Theorem C17_closest : forall ts t i, sorted ts -> closest ts t = Some i ->
  (i < length ts)%nat /\
  ((t < nth 0 ts 0 /\ i = 0%nat) \/
   (nth (length ts - 1) ts 0 <= t /\ i = (length ts - 1)%nat) \/
   (exists k, (S k < length ts)%nat /\ nth k ts 0 <= t /\ t < nth (S k) ts 0 /\
      ((t - nth k ts 0 <= nth (S k) ts 0 - t /\ i = k) \/ (nth (S k) ts 0 - t < t - nth k ts 0 /\ i = S k)))).
Proof. exact closest_spec. Qed.
Print Assumptions C17_closest.

Theorem C17_closest_none : forall ts t, closest ts t = None -> ts = [].
Proof. exact closest_none. Qed.
Print Assumptions C17_closest_none.

(* string enumerations (Model/Enums.v, re-read from /repo's Python and C++ source on every run by harness/translate_enums.py) *)
(* the look-up policies get_sample_index accepts are exactly closest, supeq and infeq *)
Theorem C17_lookup_policies : same_set code_lookup_policies spec_lookup = true.
Proof. vm_compute. reflexivity. Qed.
Print Assumptions C17_lookup_policies.

(* non-vacuity *)
Definition ex_T : traj := {| tN := 2; tS := 2; tC := 3; tdata := map QcZ [0;1;2;3;4;5;6;7;8;9;10;11]%Z; tunits := default_usys |}.
Example C17_example :
  map (fun x => this x) (state_of ex_T 1 1) = [(9#1); (10#1); (11#1)]%Q
  /\ map (fun x => this x) (trajectory_of ex_T 1 2) = [(5#1); (11#1)]%Q
  /\ infeq (map QcZ [0; 1; 1; 3]%Z) (QcZ 1) = Some 2%nat /\ supeq (map QcZ [0; 1; 1]%Z) (QcZ 1) = Some 1%nat
  /\ closest (map QcZ [0; 2; 4]%Z) (QcZ 1) = Some 0%nat.
Proof. repeat split; vm_compute; reflexivity. Qed.
