(* C05 - Arithmetic on quantities is arithmetic on their SI values, or an error.
   `eval` is the model of the operator suite as the code computes it (stored values, explicit
   conversion factors, Python's reflected dispatch); `sem` is arithmetic on SI values and
   dimension vectors.  Division and modulo by zero are outside the property's quantifier
   (finite non-zero magnitudes): the model totalises them (x/0 = 0) and does not predict the
   code's behaviour there; the generators never produce them. *)
From Coq Require Import ZArith QArith Qcanon List.
From Verif Require Import Num NumFacts Units UnitsFacts UnitsOps UnitsOpsFacts.
Open Scope Qc_scope.

(* the SI image of what the code computes is what SI arithmetic gives, for every expression tree;
   in particular both fail on exactly the same trees *)
Theorem C05_SI_homomorphism : forall e, map_res SIop (eval e) = sem e.
Proof. exact eval_sem. Qed.
Print Assumptions C05_SI_homomorphism.

Theorem C05_error_iff : forall e, eval e = Err <-> sem e = Err.
Proof. exact eval_err_iff. Qed.
Print Assumptions C05_error_iff.

Theorem C05_comparisons : forall c a b, eval_cmp c a b = sem_cmp c a b.
Proof. exact eval_cmp_sem. Qed.
Print Assumptions C05_comparisons.

(* one operator at a time, for all nine operand pairings (number / quantity / array on either side) *)
Theorem C05_binary_operator : forall op a b, map_res SIop (bin_impl op a b) = bin_sem op (SIop a) (SIop b).
Proof. exact bin_hom. Qed.
Print Assumptions C05_binary_operator.

(* the result does not depend on the systems the operand quantities are stored in (plain numbers
   added to / subtracted from / taken modulo a quantity are read in its stored units by definition,
   so such mixed nodes are excluded) *)
Theorem C05_storage_independent : forall e e', restored e e' -> unmixedb e = true -> phys_rel (sem e) (sem e').
Proof. exact storage_independent. Qed.
Print Assumptions C05_storage_independent.

Theorem C05_operand_order : forall op a b s1 d1 s2 d2,
  (op = Add \/ op = Mul) -> s_un a = Some (s1, d1) -> s_un b = Some (s2, d2) ->
  phys_rel (bin_sem op a b) (bin_sem op b a).
Proof. exact add_mul_commute. Qed.
Print Assumptions C05_operand_order.

(* dimensionally meaningless operations are errors *)
Theorem C05_additive_mismatch : forall op a b s1 d1 s2 d2,
  (op = Add \/ op = Sub \/ op = Mod) -> un a = Some (s1, d1) -> un b = Some (s2, d2) -> d1 <> d2 ->
  bin_impl op a b = Err.
Proof. exact additive_dim_mismatch. Qed.
Print Assumptions C05_additive_mismatch.

Theorem C05_ordering_mismatch : forall c x y s1 d1 s2 d2,
  (c = CLt \/ c = CLe \/ c = CGt \/ c = CGe) -> d1 <> d2 ->
  cmp_impl c {| sh := Sc x; un := Some (s1, d1) |} {| sh := Sc y; un := Some (s2, d2) |} = Err.
Proof. exact ordering_dim_mismatch. Qed.
Print Assumptions C05_ordering_mismatch.

Theorem C05_array_length_mismatch : forall op xs ys ua ub,
  length xs <> length ys ->
  bin_impl op {| sh := Ve xs; un := Some ua |} {| sh := Ve ys; un := Some ub |} = Err.
Proof. exact array_length_mismatch. Qed.
Print Assumptions C05_array_length_mismatch.

Theorem C05_nonintegral_exponent : forall d p q,
  ((p * dS d) mod Zpos q <> 0 \/ (p * dT d) mod Zpos q <> 0 \/ (p * dQ d) mod Zpos q <> 0)%Z ->
  raiseto d p q = Err.
Proof. exact raiseto_nonintegral. Qed.
Print Assumptions C05_nonintegral_exponent.

(* non-vacuity: (2 km + 500 m) * 3 s-1 = 7500 m.s-1 in SI, stored in km.h-1... as the left operand's system *)
Definition ex_q1 := {| qv := QcZ 2; qu := {| us := Km; ut := Ho; uq := Mol |}; qd := {| dS := 1; dT := 0; dQ := 0 |} |}.
Definition ex_q2 := {| qv := QcZ 500; qu := {| us := Me; ut := Se; uq := Molecule |}; qd := {| dS := 1; dT := 0; dQ := 0 |} |}.
Definition ex_q3 := {| qv := QcZ 3; qu := {| us := Me; ut := Se; uq := Molecule |}; qd := {| dS := 0; dT := -1; dQ := 0 |} |}.
Definition ex_si (r : res sval) : Q := match r with Ok {| s_sh := Sc x |} => this x | _ => 0%Q end.
Example C05_example :
  ex_si (sem (Bin Mul (Bin Add (Leaf (OVal ex_q1)) (Leaf (OVal ex_q2))) (Leaf (OVal ex_q3)))) = (7500 # 1)%Q.
Proof. vm_compute. reflexivity. Qed.
