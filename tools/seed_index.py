#!/usr/bin/env python3
"""regenerates seeded/INDEX.md from the meta.json and check_*.log files of every kept seed"""
import glob, json, os, re
rows = []
for d in sorted(glob.glob('/verif/seeded/*/')):
    n = os.path.basename(d.rstrip('/'))
    m = json.load(open(d + 'meta.json')) if os.path.exists(d + 'meta.json') else {}
    logs = {}
    for f in sorted(glob.glob(d + 'check_*.log')):
        mm = re.search(r"(\d+) violations", open(f).read())
        logs[os.path.basename(f)[6:-4]] = int(mm.group(1)) if mm else None
    rows.append((n, m.get('property', n[:3]), ', '.join(m.get('files', []))[:80], logs))
out = ["# Seeded changes kept in this directory", "",
       "Each `<name>/` holds `patch.diff` (against /repo's HEAD at the time), `demo.py` (exits 0 on the clean tree, 1 with the change), `meta.json`",
       "(the author's description and my confirmation) and `check_<id>.log` (the VIOLATION lines and summary of the *last* run of that check with",
       "the change applied). The table in DESIGN.md section 0.5 says which were missed at first and what was added.", "",
       "| seed | property | files touched | violations reported by the check(s), last run |", "|---|---|---|---|"]
for n, p, files, logs in rows:
    out.append("| %s | %s | %s | %s |" % (n, p, files, ', '.join("%s: %s" % kv for kv in logs.items())))
open('/verif/seeded/INDEX.md', 'w').write('\n'.join(out) + '\n')
print(len(rows), "seeds")
