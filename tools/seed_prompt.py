import sys
pid, name = sys.argv[1], sys.argv[2]
hint = sys.argv[3] if len(sys.argv) > 3 else ""
WT="/tmp/wt_%s" % name; OUT="/tmp/seed_%s" % name
print(f"""You are helping test a verification effort by acting as a "realistic bug author". You work ONLY inside the scratch git worktree {WT} (a checkout of the Python/C++ package `strengths`: reaction-diffusion simulation, units algebra, JSON I/O, C++ engine). Do NOT read or touch /repo, /verif or any other directory outside {WT} and {OUT}. Do not use the network.

The semantic property you must break is described in {OUT}/property.txt (read it first). Read the code it is anchored in.

Your task: produce ONE small change to the package source (under {WT}/src) that makes the property FALSE for some inputs, while
 (1) the package still builds/imports, and
 (2) the existing test suite still passes exactly as before. Baseline on the unmodified tree is "118 passed, 4 failed" (the 4 failures are pre-existing and unrelated). Build the engine once at the start (the compiled engine is not checked in, the tests need it), and again after ANY change to a C++ file under src/strengths/engines/strengths_engine/src. IMPORTANT: setup.py does not track header dependencies, so always rebuild from scratch:
       cd {WT} && rm -rf build src/strengths/engines/strengths_engine/*.so && /venv/bin/python setup.py build_ext --inplace --force >/dev/null 2>&1
     Run the tests like this:
       cd {WT} && PYTHONPATH={WT}/src timeout 900 /venv/bin/python -m pytest -q -p no:cacheprovider --timeout=900 --continue-on-collection-errors 2>&1 | tail -5
     Always use PYTHONPATH={WT}/src so the worktree's package is the one imported.
 (3) the bug is SUBTLE: it must need something specific to manifest — an unusual but valid input, a multi-step sequence of operations, a particular interleaving of calls, or two cooperating code sites that each look fine alone. It must NOT be something that ordinary basic use (one species, one or two cells, default units, the simplest call sequence) would expose at once. Make it look like a plausible refactoring slip or "optimisation", not sabotage. Prefer a change of 1-10 lines. {hint}

Deliverables, written to {OUT}/ :
  - patch.diff : output of `git -C {WT} diff -- src` (source change only; no test changes, no build artefacts).
  - demo.py : a small standalone script (run as `PYTHONPATH=<tree>/src /venv/bin/python demo.py`) that exits 0 and prints PASS when the property holds on its inputs, and exits 1 printing FAIL with details when the bug is present. It must PASS on the unmodified tree and FAIL on your modified tree. Verify both yourself: save your change with `git -C {WT} diff -- src > {OUT}/patch.diff`, remove it with `git -C {WT} apply -R {OUT}/patch.diff`, re-apply it with `git -C {WT} apply {OUT}/patch.diff` (do NOT use `git stash`: the stash is shared with other worktrees of this repository and other workers use it concurrently); rebuild the engine from scratch each time if C++ changed. The demo imports the compiled engine from the tree given by PYTHONPATH.
  - meta.json : {{"property": "{pid}", "summary": "...what was changed...", "needs": "...what specific input/sequence is needed for it to manifest...", "files": [...], "tests_after_change": "118 passed, 4 failed"}}.

When done, leave the worktree WITH your change applied (and the engine rebuilt), and reply with a short summary: what you changed, what it needs to manifest, and confirmation of the three verifications (tests unchanged, demo passes on clean tree, demo fails with change).""")
