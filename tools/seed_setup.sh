#!/bin/bash
# tools/seed_setup.sh PID NAME ["hint"]: scratch worktree /tmp/wt_NAME of /repo + /tmp/seed_NAME/{property.txt,TASK.md} for a bug-author sub-agent
set -e
PID=$1; NAME=$2; HINT=${3:-}
rm -rf /tmp/seed_$NAME; mkdir -p /tmp/seed_$NAME
git -C /repo worktree remove --force /tmp/wt_$NAME 2>/dev/null || true
git -C /repo worktree add --detach /tmp/wt_$NAME HEAD >/dev/null 2>&1
python3 - "$PID" > /tmp/seed_$NAME/property.txt <<'PY'
import json, sys
for l in open('/verif/properties.jsonl'):
    p = json.loads(l)
    if p["id"] == sys.argv[1]:
        print("%s: %s\n\nStatement: %s\n\nQuantified over: %s\n\nWhy tests can't settle it: %s\n\nCode anchors: %s" % (
            p["id"], p.get("title", ""), p.get("statement", ""), p["quantifier"]["text"], p["why_tests_cant"], json.dumps(p["anchors"]["files"])))
PY
python3 /verif/tools/seed_prompt.py $PID $NAME "$HINT" > /tmp/seed_$NAME/TASK.md
echo "/tmp/seed_$NAME/TASK.md"
