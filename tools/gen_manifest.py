#!/venv/bin/python
"""Regenerates /verif/MANIFEST.json from the table below (single place to keep it current)."""
import json
from pathlib import Path

VERIF = Path(__file__).resolve().parent.parent

BASELINE_OFF = ("cd /repo && env -u STRENGTHS_VERIF /venv/bin/python -m pytest -ra -q -p no:cacheprovider "
                "--timeout=900 --continue-on-collection-errors")

# pid -> (technique, level text, level note, design ref)
CLAIMED = {
    "C01": (
        "Coq proof that the engine's derivative (flat tables, neighbour table / edge slots) equals the mass-action + Bernstein law, for all sizes; correspondence on random systems incl. the freshly compiled Euler engine",
        "Theorems (Props/C01.v, closed under the global context; any number of species, reactions, environments, cells; any orders; "
        "every grid w,h,d >= 1 with all boundary mixes; every graph): k[env,r]*V^(1-order)*prod x^sub = k*V*prod (x/V)^sub; the "
        "six-direction grid form and the per-edge-slot graph form of out-minus-in diffusion equal minus the sum over neighbours of "
        "Dint*surface/distance*(x_j/V_j - x_i/V_i) with Dint the size-weighted harmonic mean (zero if either coefficient is zero) - "
        "this uses the neighbour-table involution of C15; hence the engine's Compute_dxdt is the rate law on every unflagged entry "
        "and one Euler step is x + dt*law; the import/export transpositions are mutually inverse; kinetics.py's grid path modelled branch by "
        "branch (unsplit reactions, six wrapped candidates, k = 2/(h^2(1/Di+1/Dj)), chemostat test last) returns the same law for every "
        "table pairing forward and reverse halves, which the tables built from any system do; its graph path (each node joined by get_edge "
        "counted once) returns it on every simple graph, and provably not with parallel edges. The model of engine.cpp / "
        "SimulationAlgorithm*Base.hpp / Euler*.hpp and of librdengine.py's table builders and unit conversions is tied to the code on "
        "every run: random systems (orders 0..4, empty sides, repeated species, per-environment constants with 'default' and zeros, "
        "grids with periodic axes of length 1 and 2, graphs with heterogeneous cubic volumes and per-node/edge units, random engine "
        "units) through the four public build_*_matrix functions, kinetics.compute_dstatedt (value, units, dimension amount/time), "
        "make_dxdtf, and samples 0 and 1 of the Euler engine recompiled from the working tree; verdict in Coq with a tolerance "
        "relative to the magnitude of the summed terms.",
        "Trusted: Coq kernel + VM; the hand-written engine and table-builder models (tied by sampled correspondence: 220 systems quick, "
        "4000 thorough); the Python kinetics functions are modelled over SI values (their unit-carrying "
        "intermediate algebra is the object of C05/C04 theorems, not re-proved here); cube roots are designed out (cell edges are "
        "generated, volumes are their exact cubes, consistency re-checked in Coq); binary64 vs exact rationals at 1e-9 x magnitude; "
        "g++ -O2 build of the engine; the Python harness.",
        "DESIGN.md section 6 / C01"),
    "C02": (
        "Coq proof of exact conservation (Euler: flux antisymmetry + neighbour involution, graph edge-slot pairing; stochastic: every event with any multiplicity) + trajectory correspondence on all three engines",
        "Theorems (Props/C02.v, closed under the global context; any numbers of species/reactions/cells, every grid w,h,d >= 1 with all "
        "boundary mixes, every graph incl. self-loops and parallel edges, heterogeneous volumes): the diffusion terms of the engine's "
        "derivative sum to zero over the cells; any integer combination annihilated by every column of sto and free of chemostated species "
        "has exactly the same total after one Euler step and hence after any number of steps (exact in Qc; the binary64 engine is compared "
        "at 1e-9 x magnitude); with no reaction each unflagged species' total is invariant; for the stochastic engines, applying any "
        "reaction firing or molecule move with any multiplicity (so whatever the Poisson sampler returns, whatever channel is drawn), and "
        "any sequence of them, keeps every such total exactly. Tied to the code on every run: trajectories of the freshly compiled Euler, "
        "tau-leap and Gillespie engines on random grids and graphs (four sampling policies, chemostat maps, time step tuned so that "
        "channels fire), laws = a basis of the integer left null space computed by the harness and re-validated in Coq against the "
        "model's sto table; totals compared in whole molecules (exactly) for the stochastic engines. Two fifths of the Euler runs take coarse explicit steps (amounts overshoot below zero), half of the tau-leap runs coarse leaps at low copy numbers.",
        "Trusted: Coq kernel + VM; the hand-written models of Compute_dxdt / Apply_dxdt / ApplyReaction / ApplyDiffusion / Apply_nevt "
        "(events as (channel, count) lists; which events the engine draws is C07's subject) tied by sampled correspondence: 1500 "
        "trajectories quick (all screened by the property oracle in Python, 150 plus every objection judged in Coq), 30000 thorough; runs "
        "that hang or overflow (tau-leap overshoot to negative counts, see F8) are discarded and counted; binary64 rounding for Euler; "
        "g++ -O2; the Python harness.",
        "DESIGN.md section 6 / C02"),
    "C03": (
        "Coq proof that flagged entries are fixed points of the Euler step and of every stochastic event, that unflagged entries follow the rate law, and of the flag's transposed index + correspondence on kinetics, dxdtf, apply_reaction and all engines",
        "Theorems (Props/C03.v, closed under the global context): a flagged (cell, species) entry has zero derivative, is unchanged by an "
        "Euler step and by any number of them, by any reaction firing or molecule move with any multiplicity and any sequence of them; an "
        "unflagged entry moves by dt x rate_law, where rate_law does not mention the flag (a frozen species still reacts and diffuses); a "
        "firing changes exactly the unflagged entries of its own cell by n x (products - substrates), a move takes n from an unflagged "
        "source and gives n to an unflagged destination; the species-major flag index s*ncells+c becomes c*nspecies+s after the engine's "
        "transposition. Tied to the code on every run: compute_dstatedt with and without chemostats, make_dxdtf, 1-2 Euler steps (verdict "
        "accept_C01 under chemostat maps drawn as subsets / whole species / whole cells / only species of index >= 1), every sample of "
        "trajectories of the three engines on grid and graph (flagged entries bitwise constant), RDSystem.apply_reaction by index / label / "
        "object on the system state, an explicit state and map, and with update. A third of the chemostat maps carry integer flags other than 1 (2, 3, 5 - any non-zero entry is a chemostat; finding F22 came from these); the reservoir runs have somewhere to leak to and in most of them diffusion sets the pace.",
        "Trusted: Coq kernel + VM; hand-written models tied by sampled correspondence (110 + 900 + 150 cases quick; trajectories all "
        "screened by the property oracle, 150 plus objections judged in Coq); which events the stochastic engines draw is C07's subject; "
        "binary64 vs exact at 1e-9 x magnitude; g++ -O2; the Python harness.",
        "DESIGN.md section 6 / C03"),
    "C04": (
        "Coq proof of dimensional homogeneity: the mass-action term of any order and the Bernstein exchange term scale by exactly the factor of amount/time under any change of units system, bare-number re-scaling and conversion preserve SI, the default state depends on SI density and volume only + metamorphic correspondence on dictionary re-descriptions",
        "Theorems (Props/C04.v, closed under the global context; any two of the 1100 units systems): a bare number multiplied by the "
        "conversion factor and declared in the other system has the same SI value, conversion keeps SI; the factor of n x dimension is the "
        "n-th power of the factor; k V prod (x_s/V)^(n_s) computed from constant, volume and amounts expressed in another system - any "
        "order, any number of reactant species, repeated reactants - equals the original times the factor of amount/time (uses that the "
        "constant's dimension is length^(3n-3) time^-1 amount^(1-n), C19); the same for Dint(h_i,h_j,D_i,D_j) S/d (x_j/V_j - x_i/V_i) incl. "
        "zero diffusivities; equal SI density and volume give equal SI default amounts; and at the level of whole systems (engine tables, "
        "grid or graph geometry, state, time step all re-expressed in another system): the rate law of every entry scales by the factor "
        "of amount/time and the state after any number of Euler steps by the factor of amount - the trajectories are equal in common "
        "units (non-negative diffusion coefficients, positive cell edges). Tied to the code on every run: random systems described "
        "as dictionaries with a units declaration at every level (script, system, network, space, species, reaction, node, edge), five "
        "re-descriptions each (bare numbers re-scaled to new systems at every level; all bare numbers incl. time step, t_max, interval and "
        "requested times made explicit and all declarations scrambled; one system declared at the top and inherited; script/output units "
        "changed), loaded with rdscript_from_dict; state, chemostats, compute_dstatedt and a 2-6 step Euler trajectory compared in SI. For every re-description the state both stochastic engines start from (recorded at set-up, no processing) is compared too.",
        "Trusted: Coq kernel + VM; the tie between these algebraic theorems and the code is the C01 model (engine tables in engine units, "
        "tied there) plus this metamorphic correspondence (120 systems x 5 re-descriptions quick, 2500 thorough); comparison at relative "
        "1e-6 plus an absolute floor of 1e-9 x (largest amount)/(time step) for cancelling sums; requested times and t_max are placed half a "
        "step away from step times so that re-scaling rounding cannot flip a comparison; systems with astronomically large or small rates "
        "are regenerated.",
        "DESIGN.md section 6 / C04"),
    "C05": (
        "Coq proof that the operator model is a homomorphism into SI arithmetic (induction over expression trees) + dispatch-path correspondence",
        "Theorems (Props/C05.v, closed under the global context): for every expression tree over numbers, quantities and arrays with "
        "+ - * / % ** neg abs, the SI image of what the operator model computes equals arithmetic on SI values and dimension vectors "
        "(C05_SI_homomorphism), both fail on exactly the same trees (C05_error_iff), comparisons likewise (C05_comparisons); the SI result "
        "is independent of the systems the operand quantities are stored in (C05_storage_independent) and of operand order for + and *; "
        "different dimensions in + - % and ordering comparisons, arrays of different length and non-integral resulting exponents are "
        "errors. The operator model mirrors units.py branch by branch (which operand is converted, where the result is stored, Python's "
        "reflected dispatch) and is tied to it on every run by enumerating every dispatch path (69 paths: operand kinds x operators, "
        "direct and reflected, unary, powers, comparisons) with operands from all 1100 systems, plus random trees of depth <= 4; the "
        "verdict (system and dimension exactly, values at relative 1e-9) is computed in Coq. A block of comparisons and operations keeps to three units systems in every dimension (whatever is remembered per pair of systems meets that pair again).",
        "Trusted: Coq kernel + VM; the hand-written operator model (tied by correspondence, sampled operands on an exhaustive list of "
        "dispatch paths); division/modulo by zero and non-finite results are outside the property's quantifier, the model totalises "
        "them (x/0 = 0) and the generator never produces them; cases within 1e-6 of a discontinuity of % or a comparison, or with "
        "cancellation below 1/10, are discarded (counted in the evidence); == between different dimensions returns False (documented "
        "behaviour) rather than raising; the Python harness.",
        "DESIGN.md section 6 / C05"),
    "C06": (
        "Coq proof over exact-rational unit model + exhaustive table correspondence (vm_compute verdict)",
        "Theorems (Props/C06.v, all closed under the global context): conversion multiplies by the product of "
        "(source/destination)^exponent and keeps the dimension, preserves the SI value, is the identity on the same "
        "system, composes and round-trips exactly, rejects a different dimension; the SI meaning of all 31 base and "
        "16 derived symbols is proved by closed computation over the finite tables, and four obligations compare the model's tables with "
        "the code's own (`_units_conversion_dict`, `_units_labels_dict`, avogadro_number() and the two if / elif chains nested in parse_units that give litre and molar symbols their base units, re-read from the source with ast on every "
        "run by harness/translate_units.py: same symbols, same kinds, exactly the code's factors in their decimal meaning; every chain row builds 10^prefix litres / 10^prefix mol per litre). The model is tied to units.py on "
        "every run by an exhaustive sweep of every same-kind symbol pair x exponents -3..3, all derived symbols and all "
        "target forms through the public API, plus sampled (source, via, destination) triples; each comparison is "
        "evaluated inside Coq at relative 1e-12. Composite unit texts - several factors of one base written separately (the same symbol twice, a litre symbol beside its base length, a molar symbol beside the litre) - are converted too and must read as the sum of the exponents.",
        "Trusted: Coq kernel + VM; the hand-written model of compute_conversion_factor/convert_unitvalue/UnitArray.convert/"
        "parse_units' derived-symbol tables (tied by correspondence, exhaustive on the symbol tables, sampled on triples); "
        "binary64 rounding bounded by the property's own 1e-12; the translator harness/translate_units.py (fail-closed: number literals, "
        "products, quotients, integer powers and avogadro_number() only; chains of `param == literal: return literal(s)` ending in a raise only); the Python harness.",
        "DESIGN.md section 6 / C06"),
    "C07": (
        "Coq proof that every event Gillespie's draw can select is legal and keeps the state a vector of non-negative integers, of the selection intervals, propensity positivity and combinatorial factor, and of the waiting-time survival function (Reals) + exact replay of engine runs from the seed (mt19937, generate_canonical, small-mean Poisson modelled in Gallina)",
        "Theorems (Props/C07.v; closed under the global context except C07_waiting_time, which uses the standard library's real-number "
        "axioms): for every table, geometry, non-negative integral state and every uniform u1, the event selected by r = u1 a0 against the "
        "cumulative propensities in scanning order is possible in that state (non-zero constant in the cell's environment and enough "
        "reactant molecules / a molecule present and a non-zero interface constant), and applying it yields again non-negative integers; "
        "the values of r selecting a channel are exactly an interval of length its propensity (so its probability is a_j/a0); a selected "
        "channel has positive propensity; the reaction propensity (volume-scaled constant of C01 x product of x(x-1)...(x-n+1) = "
        "x!/(x-n)!, 0 if x < n) is positive exactly when enough molecules are present; flagged entries are exempt from the change while "
        "propensities read them; dt = ln(1/u2)/a0 is positive and exceeds tau iff u2 < exp(-a0 tau). Tied to the code on every run by "
        "EXACT REPLAY: the engine (compiled from the working tree) records every state and time of Gillespie and tau-leap runs on random "
        "systems; Coq derives the uniforms from the seed, predicts every event, every waiting time (enclosure of exp around u2) and every "
        "tau-leap firing count (libstdc++ small-mean Poisson) and compares the resulting states exactly. A fifth of the replayed runs have a well stocked chemostated cell or species as the only source (exempt from the change, not from the propensity). In a third of the runs the chemostat flags are integers other than 1.",
        "Trusted: Coq kernel + VM; the hand-written models of ReactionProp / DiffusionProp / ComputePropensities / DrawAndApplyEvent / "
        "Compute_nevt / Apply_nevt and of mt19937, libstdc++ 12's generate_canonical and poisson_distribution (mean < 12), all tied by the "
        "replay itself (140 runs / ~1800 steps quick; 3000 runs thorough); the fixed-point enclosure of exp(-y) (evaluator, checked "
        "against 50-digit decimal arithmetic when written, not proved); NOT proved: that libstdc++'s samplers have the distributions the "
        "C++ standard specifies (tau-leap counts are Poisson(a dt) by the library's contract; what is checked is that the engine hands it "
        "exactly a dt and applies exactly what it returns); means >= 12 and draws within 1e-9 a0 of a channel boundary stop a replay "
        "(counted in the evidence); trajectories of 1e4-1e7 events are not replayed (cost), the theorems cover every step.",
        "DESIGN.md section 6 / C07"),
    "C08": (
        "Coq proof that every partition of the loop into iterate / iterate_n / run slices is observably the plain loop with the same iteration count (any chemical step function, any slice lengths), completion is final, set-up is fresh + bit-exact re-execution correspondence in one process and across processes",
        "Theorems (Props/C08.v, closed under the global context; for an arbitrary state type X and an arbitrary function chem_step : X -> X "
        "standing for what one iteration does to amounts, generator state and tables): any schedule of iterate, iterate_n(k) (stops at "
        "completion) and run (one iteration plus any number j >= 0 of further ones, j chosen by the wall clock) leaves the observable state "
        "(records, clock, completion, X) of the plain loop with the same total iteration budget; two schedules that both reach completion "
        "end in the same observable state; iterations after completion change nothing; a set-up installs the initial simulation of its "
        "script whatever was simulated before on whichever object. Tied to the code on every run: random scripts on the three engines "
        "(grid/graph, four policies, four init_state_processing modes) executed in one child process as reference, again, on another "
        "object, after unrelated simulations, under random partitions incl. iterate_n(0) and run(0/1/3 ms), from the script stored in the "
        "trajectory, from rng_seed=None and then its stored script, with another seed (Euler identical, Gillespie different), and in a "
        "fresh process; times and data compared bit for bit in Coq. The same run is also asked for through simulate() with every script property as a keyword argument. A geometric sibling (the same cells and edges, other surfaces, distances and volumes) is the first set-up of a fresh engine object on which the script then runs. Seeds range up to about 2^63, and the script is also run after a trip through its dictionary.",
        "Trusted: Coq kernel + VM; the modelling assumption that an iteration is a function of the simulation object alone (no static, "
        "clock or uninitialised memory) is exactly what the correspondence tests, by sampling (60 scripts x 11 runs quick, 1500 thorough); "
        "PARTIAL: real wall-clock slicing of run(ms) is sampled (0, 1, 3 ms), the theorem covers all slicings of the model; 'a different "
        "seed changes stochastic results' is judged only where it must hold with probability 1 (Gillespie with recorded events).",
        "DESIGN.md section 6 / C08"),
    "C09": (
        "Coq proof by induction over the steps of the sampling/completion state machine (characterisation of the recorded steps per policy, strict/never-decreasing times, fixed-step count, sticky completion) + call-sequence correspondence on all engines",
        "Theorems (Props/C09.v, closed under the global context; any strictly increasing step-time sequence T with T 0 = 0, so fixed-step "
        "and event-driven engines alike; any number of steps performed before t_max is passed): per-iteration sampling records every step "
        "incl. t = 0; with sorted requested times (duplicates, clusters) step k is recorded exactly when it is the first step at or after "
        "some requested time, one record per such step, the pending requests being those beyond the clock; interval sampling records t = 0 "
        "and every step at which floor(t/interval) increases; no_sampling records nothing; policy records have strictly increasing times; "
        "under any sequence of iterate / iterate_n / sample calls times never decrease and a second sample in one iteration records nothing; "
        "a fixed-step run with N dt <= t_max < (N+1) dt performs exactly N+1 steps, is then complete and further iterations change neither "
        "clock, step nor records; the export loop writes sample n, species s, cell i at n*S*C + s*C + i. Tied to the code on every run: "
        "random scripts x three engines x grid/graph x four policies, call sequences mixing iterate, iterate_n, run(0), sample and "
        "continuing after completion; trajectory.t, len(data), is_complete and get_progress after each call, the engine clock and the "
        "content of each record are compared with the model (exactly; the Gillespie model is driven by the observed clock increments). String enumerations re-read from the source on every run (harness/translate_enums.py, fail-closed; Model/Enums.v, obligations in Proofs/EnumFacts.v by closed computation): every sampling policy the script accepts is dispatched by both engine initialisers (grid, graph) to the same code, whose case in SamplingStep of the respective base class calls the sampler the policy names, and the engine knows no other policy string (C09_policy_dispatch). In a third of the runs the output is also fetched along the way (a pure read).",
        "Trusted: Coq kernel + VM; the hand-written model of Init / SamplingStep / SampleOnTSample / SampleOnInterval / Sample / CheckTMax / "
        "Iterate / iterate_n (the chemical state is abstracted to its step number; the order of the two tests in SampleOnTSample's loop "
        "condition is C11's subject) tied by sampled correspondence (400 scripts quick, 8000 thorough); clocks are dyadic so that binary64 "
        "time arithmetic is exact; time quantities are handed over in s/min/h only where conversion is exact (others discarded, counted); "
        "iterate_n(0) and wall-clock run slices are C10/C08's subject; record content is compared by the harness (flag passed to Coq).",
        "DESIGN.md section 6 / C09"),
    "C10": (
        "Coq proof that the implementation's single global simulation refines a per-object specification on every lifecycle-respecting one-object history (no undefined behaviour), independence / freshness / idempotence of the specification, fixed-step termination count + exhaustive small-history and random-history correspondence in child processes",
        "Theorems (Props/C10.v, closed under the global context): for EVERY history of the nine lifecycle calls over one engine object that "
        "respects the lifecycle (loop / query / output calls only between a set-up and the next finalize; finalize anywhere, any number of "
        "times) the model of librdengine.py + engine.cpp (one process-global simulation pointer, freed flag, per-object Python status flag; "
        "dangling / unassigned pointer use and double delete are values of the model) returns exactly what the per-object specification "
        "returns and never reaches undefined behaviour; in the specification an object's results are those it would return if the other "
        "object did not exist, a set-up yields the initial simulation of its script whatever happened before and reports 'not complete', "
        "get_output changes nothing, a second finalize changes nothing; a fixed-step run with N dt <= t_max < (N+1) dt completes after "
        "exactly N+1 iterations and then stays as it is. Two objects: the implementation does NOT refine the specification "
        "(C10_two_objects_refuted, known finding F13). Tied to the code on every run: all respecting one-object histories up to 4 (5) "
        "calls, random histories up to 14 calls over one and two objects, each in a child process with a time limit (crash and hang are "
        "observations), every return value compared in Coq; whole runs of random scripts (three engines, four init_state_processing modes, "
        "amounts below one molecule) must return and complete after floor(t_max/dt)+1 iterations. Two or more engine objects used in turn (at most one live simulation at a time) refine the specification too (C10_exclusive_sessions), and simulate_script (Model/Simulate.v: set-up, run until completion with optional progress queries, fetch the output, finalize) keeps that discipline: for every sequence of simulate calls on any engine objects the implementation model returns the specification's outcomes, reaches no undefined behaviour, and every call returns what it would return alone in a fresh process (C10_simulate_sequence, C10_simulate_isolated); the calls simulate_script really makes, recorded by a proxy engine over sequences of 1-4 calls on one or two engines, are compared with the modelled history and the specification's outcomes. An event-driven run that reports 'unfinished' while its clock no longer moves is a run that does not terminate.",
        "Trusted: Coq kernel + VM; the hand-written lifecycle models (the simulation inside is the sampling machine of C09 with the "
        "chemical state abstracted) tied by exhaustive-to-length-4 + sampled correspondence; run(ms) is exercised with ms = 0 only (one "
        "iteration; wall-clock slicing is C08's subject); non-termination is observed as 'no return within 12-15 s'; Gillespie runs are only "
        "required to return from every call (their number of events is not bounded by the model). Known findings: F13 (shared global "
        "simulation: two-object disagreements that the shared-global model reproduces exactly), F20 (tau-leap on autocatalytic networks: "
        "Poisson sampler called with an astronomically large mean does not return).",
        "DESIGN.md section 6 / C10"),
    "C11": (
        "Coq proof of index safety of the bounds-checked model (sampling loop, flat-array offsets, neighbour-table entries), of the Poisson precondition guard and of freedom from use-after-free / double free on lifecycle-respecting histories + sanitizer-build correspondence (partial: allocator- and library-internal behaviour is observed, not proved)",
        "Theorems (Props/C11.v, closed under the global context): the time-point sampling loop, modelled with bounds-checked reads in the "
        "order the code evaluates them, never reads outside t_samples (empty list, all requests consumed, any clock) and computes what the "
        "sampling contract says; every offset i*nS+s, s*nC+i, n*nC*nS+s*nC+i, i*6+dir, e*nR+r, s*nR+r, s*nE+e is inside its array; every "
        "neighbour-table entry is 'none' or a cell of the grid for all w,h,d >= 1 and boundary mixes; the library Poisson sampler is "
        "entered with a positive mean only; on every lifecycle-respecting one-object history nothing is used after deletion, deleted "
        "twice or called through an unassigned pointer (C10's refinement). PARTIAL by nature: allocator behaviour, uninitialised padding "
        "and undefined behaviour inside libstdc++/libm cannot be exhibited by the model; they are observed only. Tied to the code on "
        "every run: the ASan + UBSan + _GLIBCXX_ASSERTIONS build of the engine from the working tree executes the lifecycle histories of "
        "C10 and whole runs of random valid scripts (three engines, grid/graph, four policies incl. empty tails, four "
        "init_state_processing modes, sub-molecule and > 100 amounts, periodic axes of length 1 and 2, isolated nodes) in child "
        "processes; any report, death by signal or hang where the model predicts 'safe' is a violation. One run in eight has a network of 9 to 40 reactions.",
        "Trusted: Coq kernel + VM; the hand-written models (the per-array index formulas are those of C01/C09/C15's models, tied to the "
        "code there); the sanitizers and g++ -O1; sampled scripts (300 runs + ~400 histories quick, 6000 + ~6000 thorough); two-object "
        "histories on which the lifecycle model predicts undefined behaviour are not judged (F13, see C10); hangs matching F20 are "
        "discarded (see C10).",
        "DESIGN.md section 6 / C11"),
    "C12": (
        "Coq proofs at four levels - keys (generic in the schema; thirteen key tables translated from the source on every run with five obligations), value text (quantities, equations), objects (writer / reader models of all nine kinds of objects with round-trip theorems), files (path helpers over a model of pathlib, the two files of a saved trajectory, text arrays) - + correspondence: modelled writers and readers against the code's dictionary for dictionary, and physical content through dict / JSON text / files / multi-file layouts / aliases / omitted defaults",
        "Theorems (Props/C12.v, closed under the global context): for any schema (list of synonym lists) and any dictionary, renaming a key "
        "into another key that is a synonym of exactly the same fields changes neither acceptance nor the value read for any field; the "
        "key tables of the thirteen readers (twelve *_from_dict and load_rdtrajectory) are pairwise disjoint, every key emitted by a writer is the primary key of a field of its "
        "reader, every key a reader looks up is a primary key, every accepted field is looked up and every field is written "
        "(computation over tables that harness/translate_schemas.py re-extracts from /repo's source with ast on every run, fail-closed: "
        "a change of a synonym table, of a reader's look-ups or of a writer's keys re-opens these obligations); for every well-formed schema a "
        "dictionary giving each present field under its primary key is accepted and every field reads back exactly what was written "
        "(key-level round trip, generic); every quantity string and every equation string a writer produces reads back to "
        "the same value / unit / stoichiometry (C18, C19). Object level: units systems, species, reactions, whole networks, grid spaces, graph spaces (nodes and edges with conditional units) systems (network, space told by its type, state array, chemostat map, environment check) scripts (system, requested times, time step, effective t_max, interval, policy, seed, mode) and trajectories (the dictionary with the data in line: script, own system, data, times, engine description and option, coarse-graining map) are modelled in full (Model/ObjDict.v: "
        "the *_to_dict writers with format_unitvar_for_save and Reaction.to_string, the *_from_dict readers with process_unitvar_input, "
        "retrive_units_system_from_dict, the equation parser and RDNetwork's validation) with round-trip theorems (same labels, flags, "
        "environments and units systems; every coefficient, density and rate constant bit-identical in value and equivalent in unit; every "
        "stoichiometric coefficient and both orders; the rebuilt network valid again), and the modelled writers and readers are compared "
        "dictionary for dictionary with the code's (written form, alias variants at both levels, omitted defaults, inherit / default "
        "units). Rejected dictionaries (a map of the wrong length, a zero size) are rejected by the modelled reader too. Files (Model/Files.v, Props/C12.v): filepath.py (extension test with Python's slicing, append / remove, get_base_path, get_path_with_base, get_last_element over a model of the pathlib calls they make - posixpath.splitroot, parsing into parts, str, name, parent, absolute, join), the two names save_rdtrajectory derives and text_array_rw.py are modelled; theorems: for every path and absolute working directory load_rdtrajectory opens for the data exactly the file save_rdtrajectory(separate_data=True) wrote, the reference in the JSON file is a bare file name, both names are one stem with two endings, have_extension is 'is a suffix', references without base / absolute references are used as they are, integers saved as a text array load as the same integers; compared with the code on random paths (runs of slashes, '.', '..', blanks, non-ASCII, empty, extensions longer than the path), random texts and real save / load runs under random names in scratch directories (files that appear, reference written, data loaded from another working directory). Outside the model (decided by the correspondence below only): the content of .npy files, which reference is resolved against which file in multi-file and nested layouts, seeds drawn when none is given, the list form of an equation, bare numbers for quantities: that the objects rebuilt by their readers carry the original's physical content is established by the "
        "correspondence: random networks, spaces (grid; graph with per-node and per-edge units), systems, scripts and Euler trajectories "
        "with independent units at every level go through to_dict -> from_dict, JSON text, save/load in a scratch directory, to_dict twice "
        "(stability), up to 6 of the alias substitution sites per object (~5000 sites per quick run), a multi-file system layout "
        "(sub-directory, .npy state, text chemostats, relative and absolute paths), a nested script layout (script -> system file in another directory -> its own network / space / state / chemostats files -> the grid's environments file) and a dictionary with every documented default "
        "omitted; the physical content (all quantities in SI, labels, stoichiometry, geometry, flags, unit systems, sampling parameters, "
        "processing mode, seed, times, data) of each result is compared with the original's in Coq. Environments that share a value are handed to the constructors under one grouped key ('e0, e1'), with and without blanks around the comma, in every check that draws systems.",
        "Trusted: Coq kernel + VM; harness/fingerprint.py (which fields constitute the physical content: bases of a unit with a zero "
        "exponent are not compared, following Units.__eq__); sampled correspondence (150 objects quick, 3000 thorough); the translator "
        "harness/translate_schemas.py (Python ast -> Model/Schemas.v; it reads the literal synonym table passed to process_input_dict_keys, "
        "string-literal look-ups on the processed dictionary and the writers' dictionary literals, and fails on anything else); diverged (non-finite) trajectories are discarded; coarse-grained trajectories (own system differing from the script's) are generated for reflecting grids only.",
        "DESIGN.md section 6 / C12"),
    "C13": (
        "Coq proof of layout (species-major index), value (SI of density x volume), units and get/set array laws + random-system correspondence",
        "Theorems (Props/C13.v, closed under the global context, any number of species/cells/environments, grid or graph): entry "
        "s*ncells+c of the default state is the species' density in the cell's environment (entry, else 'default', else zero) times "
        "the cell's volume - equal SI values, dimension amount, expressed in the network's units - and the default chemostat map holds "
        "the species' flag for the cell's environment at the same index; both have length nspecies*ncells; get after set returns the "
        "written quantity converted to the array's units, a set leaves every other (species, cell) entry unchanged, distinct pairs "
        "are distinct entries, a bare number is read in the system's units, a wrong dimension is rejected, label and index address "
        "the same species. Tied to rdsystem.py / value_processing.py / rdgraphspace.py on every run by random systems with "
        "independent unit systems at every level and random accessor sequences (species by index/label/object, cell by "
        "index/tuple/object, invalid addresses) incl. species edits followed by regeneration; verdict computed in Coq. A third of the spaces (and a fifth of the species / reactions of every random system, in every check that draws systems) are built in one units system and given another before use. Cells are addressed by index, tuple, list, x/y/z object, numpy rows of int8 / int64 / float32 and points inside the cell.",
        "Trusted: Coq kernel + VM; the hand-written model of generate_system_state / generate_system_chemostats / get_value_in_env / "
        "get_state_index / set_state (tied by sampled correspondence: 300 systems quick, 5000 thorough); environment indices are "
        "generated valid (invalid ones belong to C20); binary64 compared at relative 1e-9; the translator harness/translate_enums.py (Python ast for the validators' membership tests and engine_collection.py; regular expressions over comment-free engine.cpp / *Base.hpp for the CompareStr chains and the SamplingStep switch; any other shape is an error); the Python harness.",
        "DESIGN.md section 6 / C13"),
    "C14": (
        "Coq proof that the redistribution returns (after exactly |surplus| draws, whatever the uniforms) non-negative integers with the floored total and nothing where the real amount is zero, that the Poisson stage is position-wise / non-negative / zero-preserving, that 'none' is the identity + exact replay of the processing from the seed",
        "Theorems (Props/C14.v, closed under the global context; any number of cells, any real-valued non-negative amounts incl. totals below "
        "one molecule, any list of uniforms in [0,1)): the per-species correction returns - it performs exactly |drawn total - floor(total)| "
        "draws, each of which succeeds - with non-negative integer counts whose sum is the floor of the real-valued total and with zero in "
        "every cell whose real-valued amount is zero; the Poisson stage yields one non-negative count per entry at the same position, an "
        "empty entry stays empty and consumes no random number; entry (cell, species) of the transposed input is entry (species, cell) of "
        "the given state, so each draw uses the amount of that very entry; mode none passes the state through. Tied to the code on every "
        "run: sample 0 of trajectories for four init_state_processing values x three engines x grid/graph on random real-valued states "
        "(sub-molecule, fractional, integral, around the thresholds 12 and 100, above 100, empty cells, seeds 0 / 1 / 2^31-1): replayed "
        "EXACTLY from the seed in Coq where all amounts are below 12 (mt19937, generate_canonical, small-mean Poisson, correction loop), "
        "checked against the stated invariants otherwise; two set-ups with the same seed must agree. String enumerations re-read from the source on every run (harness/translate_enums.py, fail-closed; Model/Enums.v, obligations in Proofs/EnumFacts.v by closed computation): every processing mode the script accepts is resolved by both initialisers to the documented action (none: keep, Poisson: draw, redist: redistribute, auto: by the engine's stochasticity), every branch transposes the amounts to cell-major order, and requires_molecules of engine_collection.py is is_stochastic of engine.cpp (C14_mode_dispatch, C14_engine_options). In a fifth of the cases a species' amounts add up exactly to an integer, or to 2^-33 below or above one (dyadic, so the sums are exact): the number of molecules is the floor of the total. A few cases hold 2^31 to 6e9 molecules in one entry (beyond a 32-bit integer); with init_state_processing = Poisson such a set-up does not return - known finding F23.",
        "Trusted: Coq kernel + VM; the hand-written model of GenerateStochasticDistribution / PoissonSample / the mode dispatch tied by "
        "replay (about 3/4 of 400 cases quick, 10000 thorough) and by invariants for amounts >= 12 (libstdc++'s large-mean Poisson and "
        "normal_distribution are not modelled); that the draws are Poisson-distributed is the library's contract; the exp enclosure "
        "evaluator (see C07).",
        "DESIGN.md section 6 / C14"),
    "C15": (
        "Coq proof over Z (index/coordinate bijection, per-axis neighbour multiplicities lifted to 3-D, engine neighbour involution) + exhaustive small-grid correspondence",
        "Theorems (Props/C15.v, closed under the global context, every w,h,d >= 1 and all 8 boundary mixes): index = z*w*h+y*w+x "
        "and coordinates are mutually inverse on the grid; positions outside are rejected in every form; get_neighbors, the kinetics "
        "candidate list, the engine's neighbour table and are_neighbors define the same symmetric relation between distinct cells "
        "with the same multiplicity (2 on a periodic axis of length 2), following the per-axis reflecting/periodic rule; the engine's "
        "neighbour table is an involution under direction reversal. Tied to the code on every run by an exhaustive sweep of all grids "
        "with w*h*d <= 24 (quick) / 64 (thorough) through the public API, and, up to 8 / 12 cells, of the kinetics functions and one "
        "step of the freshly compiled Euler engine on the grid and on grid_to_graph(grid) (pure-diffusion probe x_c = 8^c, exact). "
        "grid_to_graph's node and edge lists are compared with the model's edge multiset (adjacency, surface h^2, distance h). String enumerations re-read from the source on every run (harness/translate_enums.py, fail-closed; Model/Enums.v, obligations in Proofs/EnumFacts.v by closed computation): the grid's two boundary-condition strings are the ones engine.cpp compares against, per axis and index (C15_boundary_strings). get_cell_index takes its coordinates in every form (tuple, list, numpy rows of int8 / uint8 / int16 / int64, floats inside the cell), also on two grids above 255 cells (16x17x1, 7x6x7; static relations only).",
        "Trusted: Coq kernel + VM; the hand-written Gallina transcription of rdgridspace.py / kinetics.py candidates / GetNeighborIndex / "
        "grid_to_graph (tied by the exhaustive sweep on the stated bound, not beyond); the statement that grid_to_graph preserves the "
        "edge multiset and that graph dynamics equal grid dynamics is established by correspondence only (exhaustive on the bound), "
        "not yet by a theorem; the Python harness; g++ for the engine build.",
        "DESIGN.md section 6 / C15"),
    "C16": (
        "Coq proof that sums over the members of all groups equal sums over the retained cells (volume, amounts), flags are OR-ed, edges have distinct ordered keys, un-coarse-graining preserves group totals + random-map correspondence incl. invalid maps and the identity-map simulation",
        "Theorems (Props/C16.v, closed under the global context; any grid size, any index map - non-contiguous groups, single-cell groups, "
        "any set of dropped cells): for any per-cell quantity, the sum over groups of the sums over their members equals the sum over the "
        "retained cells, so total volume is (#retained) x h^3 and every species' total amount over the groups is its total over the "
        "retained cells; the code's 'sum of 0/1 flags capped at 1' is the OR over the members; the coarse-grained edge list has no "
        "duplicate key and every key has its lower index first (no self-loop); spreading value / (number of members) over a non-empty "
        "group preserves its total. Tied to the code on every run: random reflecting 1-D/2-D/3-D grids with maps built by partitioning "
        "each environment's cells into random groups and dropping a random fraction (dropped cells of several environments), identity "
        "maps and six kinds of invalid maps; accepted / raised against the documented validity rules, node volumes and environments, the "
        "edge list in order with surfaces and squared centroid distances, aggregated state and flags, uncoarsegrain_trajectory_data, and "
        "simulate(cgmap=identity) against the plain Euler simulation. The coarse trajectory that is un-coarse-grained states its amounts in a unit of its own, and every result is compared as an amount (converted), never as a bare number. Un-coarse-graining is asked twice and must leave its trajectory as it was.",
        "Trusted: Coq kernel + VM; the hand-written model of coarsegrain.py tied by sampled correspondence (400 maps quick, 6000 thorough); "
        "surface = shared faces x area and distance = centroid distance are established by correspondence against the model's definitions "
        "(merge of the grid's adjacency list by group pair; mean of member positions), not restated as separate theorems; the identity-map "
        "equivalence is established by correspondence (Euler; stochastic engines consume their random stream in another channel order on "
        "a graph, so for them nothing beyond C02/C07 is claimed); square roots avoided by comparing squares; cubic cells.",
        "DESIGN.md section 6 / C16"),
    "C17": (
        "Coq proof of accessor agreement (row-major block/stride index lemmas) and look-up characterisations + exhaustive small-shape correspondence",
        "Theorems (Props/C17.v, closed under the global context, all N,S,C): the per-sample state accessor, the per-cell trajectory "
        "accessor, the whole-state accessor and direct indexing at n*S*C+s*C+c return the same element; the whole state is the "
        "sample's contiguous block; the merged trajectory is the sum over cells; on non-decreasing sample times infeq returns the last "
        "sample not after t (None iff empty or t before the first), supeq the first sample not before t (None iff empty or t after the "
        "last), closest the nearer of the bracketing pair with ties to the earlier and the end samples outside the range. Tied to "
        "rdoutput.py on every run: exhaustive over shapes N,S,C <= 4 (5 thorough) x grid/graph, every triple through every accessor "
        "with species by index/label/object and cells by index/tuple/object, sample times with and without duplicates, queries "
        "before/after/on/between samples in several time units; verdict in Coq (exact equality for reads). String enumerations re-read from the source on every run (harness/translate_enums.py, fail-closed; Model/Enums.v, obligations in Proofs/EnumFacts.v by closed computation): the look-up policies get_sample_index accepts are exactly closest, supeq, infeq (C17_lookup_policies). Grids take every factorisation of the cell count, plus 16x17x1 and 7x6x7; cells are referred to by index, tuple, list, x/y/z object, numpy rows of uint8 / int16 / int64 / float64, numpy integers and points inside the cell. A third of the trajectories carry the script of another system than the one their data are laid out on (coarse-grained runs); an accessor that raises on a valid reference is an observation. The last sample is also read through index -1; a block of the wrong shape is an observation.",
        "Trusted: Coq kernel + VM; the hand-written model of the numpy reshape-based accessors (row-major) and of the three look-up "
        "loops, tied by the exhaustive sweep on the stated bound; closest is claimed on strictly increasing times only (with duplicate "
        "times 'ties to the earlier' is not meaningful); negative / out-of-range sample indices are not part of the statement; queries "
        "in other time units are generated only where conversion rounding cannot flip the answer; the translator harness/translate_enums.py (Python ast for the validators' membership tests and engine_collection.py; regular expressions over comment-free engine.cpp / *Base.hpp for the CompareStr chains and the SamplingStep switch; any other shape is an error); the translator harness/translate_enums.py (Python ast for the validators' membership tests and engine_collection.py; regular expressions over comment-free engine.cpp / *Base.hpp for the CompareStr chains and the SamplingStep switch; any other shape is an error); the translator harness/translate_enums.py (Python ast for the validators' membership tests and engine_collection.py; regular expressions over comment-free engine.cpp / *Base.hpp for the CompareStr chains and the SamplingStep switch; any other shape is an error); the Python harness.",
        "DESIGN.md section 6 / C17"),
    "C18": (
        "Coq proof over code points: print-then-parse of any unit (1100 systems x Z^3 exponents) is the identity up to Units.__eq__, value round trip under the float print/read hypothesis, meaning of each of the 47 symbols with any exponent, a/b = a.b-1, exponent text + exhaustive symbol/pair sweep, malformed stream, bit-exact double round trip",
        "Theorems (Props/C18.v, closed under the global context): for every units system and every exponent vector in Z^3, parse_units "
        "(print_units u d) succeeds with the same exponents and the same base unit wherever the exponent is not zero (proved through the "
        "u-for-micro rewriting, strip, the tokeniser, the exponent reader, the symbol tables and the same-base accumulation); a quantity "
        "printed as value, blank, units reads back with the identical value and an equivalent unit for any value type whose printer / "
        "reader round-trip and print no blank (hypotheses of the theorem, not axioms: Python's float repr guarantee); each of the 47 "
        "symbols with any integer exponent is read as the base units and exponents it stands for (litre family: cubic length with 3e; "
        "molar family: amount^e . dm^-3e; their SI scales are C06's table theorem); a factor after '/' contributes the opposite exponent; "
        "str(int) text is accepted and read back exactly; twelve families of out-of-grammar text are rejected by the model (computation). "
        "Tied to the code on every run: every symbol and u-spelling alone and with exponents -9..9, symbol pairs x both separators (all "
        "47^2 in thorough), random 1-3 factor strings, a malformed stream of 16 mutation families (parse_units raised or system + "
        "dimension, compared with the model); Units(system, dims) -> str -> parse -> ==; quantity texts (glued, blank inside the units, "
        "malformed values); 3000 finite doubles incl. subnormal / 1e-05-style / random bit patterns through str -> UnitValue bit for bit.",
        "Trusted: Coq kernel + VM; the hand-written model of parse_units / Units.__str__ / parse_unitvalue and of Python's str.replace / "
        "strip / split / int on the generated inputs; float() and str(float) are outside the model (judged by Python itself in the "
        "correspondence); 'rejection' is a theorem only for the example families - for arbitrary text it is the agreement of the code with "
        "the model (which returns None exactly when a block's name is not a symbol, its exponent text is not -?[0-9]+, or two units of one "
        "base kind differ) on the malformed stream.",
        "DESIGN.md section 6 / C18"),
    "C19": (
        "Coq proof over code points: parsing sums the written coefficients per label, print-then-parse returns the same coefficient for every label (all label-rule-conforming reactions), int text round trip, net change / reverse, dimension of rate constants + correspondence on equation strings (incl. malformed), printed reactions, constants, split, K and network validity",
        "Theorems (Props/C19.v, closed under the global context): for any token list the dictionary built by parsing gives every label the "
        "sum of the coefficients written for it (missing coefficient = 1, repeats summed); for EVERY reaction whose labels obey the label "
        "rule (non-empty, no whitespace in Python's str.isspace sense, no '+', no '->') and are distinct within a side - any number of "
        "terms, any integer coefficients, zero coefficients, empty sides - parse_eq (print_eq r) succeeds and returns the same coefficient "
        "for every label on both sides (proved through the separator-splitting functions: no '->' or '+' arises inside or between printed "
        "terms); parse_int (print_int z) = z for all z; net change = products - reactants and the reverse reaction has the opposite one; a "
        "constant of order n has dimension length^(3n-3) time^-1 amount^(1-n), which makes k V (x/V)^n an amount per time. Tied to the "
        "code on every run: 2500 equation strings (well-formed with arbitrary spacing incl. tabs / no-break / em spaces / control "
        "separators, signed, underscored and malformed coefficients, missing / doubled '->' and '+') through Reaction(text) vs parse_eq "
        "(raise-or-dictionaries in insertion order); 1500 reactions through to_string / re-parse / ssto / psto / dsto / order / rorder, "
        "labels filtered by the package's own label rule; 600 constants of orders 0..8 (bare numbers, quantities in random systems, wrong "
        "dimensions) incl. split() and K; 300 networks with duplicate / undeclared species and duplicate reaction labels. Network validity: duplicate species, duplicate reaction labels, an undeclared species on either side of a reaction or on both.",
        "Trusted: Coq kernel + VM; the hand-written model of Python's str.split / strip / isspace / int on the inputs generated (non-ASCII "
        "digits, which int() accepts, are not generated); empty labels are excluded (the label rule accepts them vacuously, a reaction "
        "using one prints as blanks); per-environment constant dictionaries are exercised in C01/C13, not here; unit-conversion overflow "
        "of binary64 for exponents up to 21 between extreme prefixes is discarded and counted.",
        "DESIGN.md section 6 / C19"),
    "C20": (
        "Coq proof that the models reject each invalid class (unknown / doubly-aliased keys for any schema, wrong dimension, positions outside any grid, no aliasing of accepted writes) + fault-injection correspondence in which the Coq models decide which inputs are invalid",
        "Theorems (Props/C20.v, closed under the global context): for any schema and dictionary an unknown key or a field given under two "
        "synonyms makes the reader fail; a quantity whose dimension differs from the field's is rejected whatever its value and units (also "
        "for state writes); a linear index outside [0, size) and a coordinate triple outside the box are rejected for every grid; an accepted "
        "write leaves every entry other than the addressed (species, cell) unchanged and distinct pairs are distinct entries; unsupported "
        "symbols, out-of-grammar unit text and the coarse-graining map rules by computation on examples. Tied to the code on every run: "
        "1500 (40000) random valid models with a fault of one of 14 classes injected at a random place (30 % controls without fault): "
        "unknown key / second alias / missing mandatory key at any nesting level of a script dictionary; wrong dimension in every "
        "dimensioned field; unsupported base symbol; malformed unit text; non-positive grid size; environment map of the wrong length or "
        "naming an environment outside [0, nenv); unknown boundary condition / axis / sampling policy / processing mode; empty environment "
        "list and 'default'; positions outside grids and graphs through six accessors; unknown species; invalid coarse-graining maps. "
        "Which inputs are invalid is computed by `invalid` (Model/AcceptC20.v) from the models of C05/C06/C12/C15/C16/C18; the package must "
        "raise exactly on those and leave state and chemostat map untouched. String enumerations re-read from the source on every run (harness/translate_enums.py, fail-closed; Model/Enums.v, obligations in Proofs/EnumFacts.v by closed computation): what the validators accept - sampling policies, processing modes, axes, boundary conditions, look-up policies - is what the documentation lists, no more and no less (C20_validators_agree); the correspondence draws look-up policies too (finding F21). Wrong dimensions are also given as quantity objects: one entry of a per-environment dictionary (species D and density, reaction constants; constructor and setter), script times, node volumes, edge surfaces and distances. A species that was known - looked up by label, then removed from the network's species list - must be unknown afterwards. Environment collections come as lists, tuples and arrays, through constructor and setter.",
        "Trusted: Coq kernel + VM; `invalid` for the classes that are plain range / membership tests (sizes, environment maps and names, "
        "choices, graph positions, species references) is the specification itself, read off the statement; sampled injection sites; "
        "get_species_index returning None (documented) counts as a rejection; the translator harness/translate_enums.py (Python ast for the validators' membership tests and engine_collection.py; regular expressions over comment-free engine.cpp / *Base.hpp for the CompareStr chains and the SamplingStep switch; any other shape is an error); the Python harness.",
        "DESIGN.md section 6 / C20"),
}

NOT_YET = "check not built yet in this round (work in progress; see DESIGN.md section 9 for the order of work)"

ALL = ["C%02d" % i for i in range(1, 21)]


def main():
    checks = []
    for pid in ALL:
        if pid not in CLAIMED:
            continue
        tech, text, note, ref = CLAIMED[pid]
        checks.append({
            "property_id": pid,
            "quick_cmd": "./check %s --tier quick" % pid,
            "thorough_cmd": "./check %s --tier thorough" % pid,
            "evidence_file": "evidence/%s.json" % pid,
            "replay_cmd_template": "./check %s --replay {path}" % pid,
            "engine": "coq+correspondence",
            "level_claimed": {"category": "proof", "text": text, "design_ref": ref},
            "level_note": note,
            "technique": tech,
        })
    man = {
        "version": 1,
        "setup_cmd": "./check --setup",
        "hooks": {
            "guard": "STRENGTHS_VERIF",
            "enable": "none needed: every observation goes through the public Python API, the exported C symbols "
                      "(via LibRDEngine) or sanitizer reports; no hook commit exists",
            "baseline_off_cmd": BASELINE_OFF,
            "source_commits": [],
            "add_only": True,
        },
        "engines": [
            {"name": "coq", "path": "coq/", "serves_properties": sorted(CLAIMED),
             "kind_free_text": "Coq 8.16.1 development: Model/ (executable Gallina), Proofs/ (lemmas), Props/ (property theorems + Print Assumptions)"},
            {"name": "correspondence-harness", "path": "harness/", "serves_properties": sorted(CLAIMED),
             "kind_free_text": "Python: generators, drivers of the real implementation from /repo's working tree, emission of cases as Gallina literals, vm_compute evaluation of accept_Cxx, verdict/replay/evidence"},
        ],
        "checks": checks,
        "not_applicable": [{"property_id": p, "reason": NOT_YET} for p in ALL if p not in CLAIMED],
        "notes": "All claimed properties are decided by machine-checked proof in Coq over hand-written models plus a "
                 "correspondence check against /repo's current working tree (DESIGN.md).",
    }
    (VERIF / "MANIFEST.json").write_text(json.dumps(man, indent=1))


if __name__ == "__main__":
    main()
