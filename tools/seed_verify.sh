#!/bin/bash
# usage: tools/seed_verify.sh <PID> <seed-name> [check ids...]
# Confirms a seeded change produced by a sub-agent in /tmp/wt_<seed-name> (+ /tmp/seed_<seed-name>): the test suite is unchanged,
# the demonstration fails with the change and passes without it; then runs the given checks (default: PID) on /repo with the
# patch applied, undoes it, stores everything under /verif/seeded/<seed-name>/ and removes the worktree.
set -u
PID=$1; NAME=$2; shift 2; CHECKS=${@:-$PID}
V=${VERIF_DIR:-/verif}    # a scratch copy of /verif (VERIF_DIR) lets seeds be checked while /verif itself is running checks
WT=/tmp/wt_$NAME; OUT=/tmp/seed_$NAME; DST=/verif/seeded/$NAME
mkdir -p $DST
cd $WT || exit 2
git -C $WT diff -- src > $DST/patch.diff
cp $OUT/demo.py $DST/demo.py
cpp=$(grep -c "strengths_engine/src" $DST/patch.diff)
build() { (cd $WT && /venv/bin/python setup.py build_ext --inplace --force >/dev/null 2>&1); }
build
tests_with=$(cd $WT && PYTHONPATH=$WT/src timeout 900 /venv/bin/python -m pytest -q -p no:cacheprovider --timeout=900 --continue-on-collection-errors 2>&1 | tail -1)
(cd $WT && PYTHONPATH=$WT/src timeout 300 /venv/bin/python $DST/demo.py > $DST/demo_with_change.log 2>&1); rc_with=$?
git -C $WT apply -R $DST/patch.diff      # (not git stash: the stash is shared by all worktrees of the repository)
[ "$cpp" != "0" ] && build
(cd $WT && PYTHONPATH=$WT/src timeout 300 /venv/bin/python $DST/demo.py > $DST/demo_clean.log 2>&1); rc_clean=$?
git -C $WT apply $DST/patch.diff
echo "tests with change: $tests_with"
echo "demo with change rc=$rc_with ; clean rc=$rc_clean"
results=""
run_checks() {   # $1 = repository tree the checks run against
  for c in $CHECKS; do
    out=$(cd $V && VERIF_REPO=$1 timeout 1500 ./check $c --tier quick 2>&1 | tail -40)
    nviol=$(echo "$out" | grep -c "^VIOLATION")
    echo "check $c: violations=$nviol :: $(echo "$out" | tail -1)"
    echo "$out" | grep "^VIOLATION" | head -3 > $DST/check_$c.log
    echo "$out" | tail -1 >> $DST/check_$c.log
    results="$results $c:$nviol"
  done
}
if [ -n "${VIA_WT:-}" ]; then
  # /repo is in use by a long run: the checks are pointed at the scratch worktree (which holds the change) instead
  run_checks $WT
elif git -C /repo apply --check $DST/patch.diff; then
  git -C /repo apply $DST/patch.diff
  run_checks /repo
  git -C /repo checkout -- .
else
  echo "patch does not apply to /repo"
fi
[ "$V" = /verif ] && git -C /verif checkout -- evidence coq/Model/Schemas.v coq/Model/UnitTable.v coq/Model/Enums.v 2>/dev/null
rm -f $V/replays/*.json
python3 - <<PY
import json
m = json.load(open("$OUT/meta.json")) if __import__("os").path.exists("$OUT/meta.json") else {}
m.update({"property": "$PID", "confirmed": {"tests_with_change": "$tests_with", "demo_rc_with_change": $rc_with, "demo_rc_clean": $rc_clean},
          "checks_run": "$results".split(), "ran": "tools/seed_verify.sh $PID $NAME $CHECKS"})
json.dump(m, open("$DST/meta.json", "w"), indent=1)
PY
cd /; git -C /repo worktree remove --force $WT; rm -rf $OUT
