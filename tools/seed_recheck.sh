#!/bin/bash
# usage: tools/seed_recheck.sh <seed-name> <check ids...>: re-run checks against /repo with seeded/<seed-name>/patch.diff applied, then undo
NAME=$1; shift
DST=/verif/seeded/$NAME
git -C /repo apply $DST/patch.diff || exit 2
for c in "$@"; do
  out=$(cd /verif && timeout 2400 ./check $c --tier ${TIER:-quick} 2>&1 | tail -40)
  nviol=$(echo "$out" | grep -c "^VIOLATION")
  echo "check $c: violations=$nviol :: $(echo "$out" | tail -1)"
  echo "$out" | grep "^VIOLATION" | head -3 > $DST/check_$c.log
  echo "$out" | tail -1 >> $DST/check_$c.log
done
git -C /repo checkout -- .
rm -f /verif/replays/*.json
git -C /verif checkout -- evidence
