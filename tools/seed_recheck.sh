#!/bin/bash
# usage: [VIA_COPY=1] [TIER=thorough] tools/seed_recheck.sh <seed-name> <check ids...>
# re-runs checks with seeded/<seed-name>/patch.diff applied: to /repo itself (undone afterwards), or with VIA_COPY=1 to a scratch
# copy of /repo's tree under /tmp that the checks are pointed at (when /repo is in use by a long run)
NAME=$1; shift
DST=/verif/seeded/$NAME
if [ -n "${VIA_COPY:-}" ]; then
  TREE=/tmp/recheck_$NAME; rm -rf $TREE; mkdir -p $TREE
  (cd /repo && git archive HEAD) | tar -x -C $TREE
  (cd $TREE && patch -p1 --binary -s < $DST/patch.diff) || exit 2
else
  TREE=/repo
  git -C /repo apply --whitespace=nowarn $DST/patch.diff || exit 2
fi
for c in "$@"; do
  out=$(cd /verif && VERIF_REPO=$TREE timeout 2400 ./check $c --tier ${TIER:-quick} 2>&1 | tail -40)
  nviol=$(echo "$out" | grep -c "^VIOLATION")
  echo "check $c: violations=$nviol :: $(echo "$out" | tail -1)"
  echo "$out" | grep "^VIOLATION" | head -3 > $DST/check_$c.log
  echo "$out" | tail -1 >> $DST/check_$c.log
done
if [ -n "${VIA_COPY:-}" ]; then rm -rf $TREE; else git -C /repo checkout -- .; fi
rm -f /verif/replays/*.json
git -C /verif checkout -- evidence coq/Model/Schemas.v coq/Model/UnitTable.v coq/Model/Enums.v 2>/dev/null
