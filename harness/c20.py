"""C20 - invalid input is rejected, never silently accepted: fault injection into otherwise valid random models."""
import copy
import random

from . import core, si, sysgen, trajgen, dictgen, c12, c18
from .core import g_list, g_nat, g_z, g_bool

IMPORTS = "Units Grid ReactionText UnitText Schemas Dict Coarse AcceptC06 AcceptC20"


def g_str(s):
    return "[" + "; ".join("%d%%N" % ord(c) for c in s) + "]"


def g_strs(l):
    return g_list([g_str(s) for s in l])


def locate(kind, d, want):
    """all sub-dictionaries of a nested description with their kinds"""
    found = []

    def walk(kind, d):
        if kind == "space":
            kind = d.get("type", "grid")
        found.append((kind, d))
        for key, ck in c12.CHILDREN.get(kind, {}).items():
            if key in d and isinstance(d[key], (dict, list)):
                if ck.endswith("*"):
                    for x in d[key]:
                        if isinstance(x, dict):
                            walk(ck[:-1], x)
                elif isinstance(d[key], dict):
                    walk(ck, d[key])
    walk(kind, d)
    return [(k, x) for k, x in found if want is None or k in want]


MANDATORY = {"species": ["label"], "reaction": ["stoichiometry"], "network": ["species"], "system": ["network"], "script": ["system", "t_sample"]}
WRONG_DIM_FIELDS = {"species": [("D", "D"), ("density", "dens")], "reaction": [("k+", None), ("k-", None)], "grid": [("cell_volume", "vol")],
                    "node": [("volume", "vol")], "edge": [("surface", "surface"), ("distance", "distance")],
                    "script": [("time_step", "time"), ("t_max", "time"), ("sampling_interval", "time")]}


def base_script(rng):
    c = trajgen.make_sim_case(rng, kind="euler", max_cells=5, max_steps=4)
    desc = c["desc"]
    sc = {"desc": desc, "units": c["units"], "dt": {"bare": c["dt"]}, "t_sample": {"bare": list(c["t_sample"])}, "t_max": {"bare": c["t_max"]},
          "interval": {"bare": c["interval"]}, "policy": c["policy"], "seed": 1}
    return c, dictgen.script_dict(sc, "explicit")


def make_case(rng):
    cls = rng.choice(["unknown_key", "double_alias", "missing", "wrong_dim", "unit_symbol", "unit_text", "grid_size", "env_map", "choice",
                      "env_names", "grid_pos", "graph_pos", "species_ref", "cg_map", "wrong_dim_item", "wrong_dim_item"])
    faulty = rng.random() < 0.7
    c, d = base_script(rng)
    case = {"cls": cls, "faulty": faulty, "dict": d, "sim": c}
    if cls in ("unknown_key", "double_alias", "missing", "wrong_dim"):
        want = {"unknown_key": None, "double_alias": None, "missing": list(MANDATORY), "wrong_dim": list(WRONG_DIM_FIELDS)}[cls]
        subs = locate("script", d, want)
        kind, sub = rng.choice(subs)
        case["kind"] = kind
        if cls == "unknown_key":
            if faulty:
                sub[rng.choice(["bogus", "Label", "unit", "densities", "k", " env", "W"])] = 1
        elif cls == "double_alias":
            cands = [(k, a) for syn in c12.ALIASES[kind] for k in syn if k in sub for a in syn if a != k]
            if cands and faulty:
                k, a = rng.choice(cands)
                syn = [sy for sy in c12.ALIASES[kind] if k in sy][0]
                others = [x for x in syn if x not in (k, a)]
                if others and rng.random() < 0.5:
                    # two aliases of the field, the key it was given under not among them
                    val = sub.pop(k)
                    sub[a] = val
                    sub[rng.choice(others)] = copy.deepcopy(val)
                else:
                    sub[a] = copy.deepcopy(sub[k])
            else:
                case["faulty"] = False
        elif cls == "missing":
            case["mandatory"] = MANDATORY[kind]
            if faulty:
                del sub[rng.choice([k for k in MANDATORY[kind] if k in sub])]
        elif cls == "wrong_dim":
            key, dimname = rng.choice(WRONG_DIM_FIELDS[kind])
            if kind == "reaction":
                side = 0 if key == "k+" else 1
                order = sum(sub["stoichiometry"][side].values())
                good = sysgen.kdim(order)
            else:
                good = sysgen.DIMS[dimname]
            dim = list(good)
            if faulty:
                while tuple(dim) == tuple(good) or not any(dim):
                    dim = list(good)
                    dim[rng.randrange(3)] += rng.choice([-2, -1, 1, 2])
            usys = sysgen.rand_sys(rng)
            if key not in sub and not faulty:
                pass
            sub[key] = "%r %s" % (rng.choice([0.5, 2.0, 3.0]), si.units_str(usys, dim)) if any(dim) else 2.0
            case["given"], case["expected"] = dim, list(good)
            case["faulty"] = tuple(dim) != tuple(good)
        case["keys"] = list(sub.keys())
    elif cls == "unit_symbol":
        kind, sub = rng.choice([x for x in locate("script", d, None) if "units" in x[1] and isinstance(x[1]["units"], dict)])
        field = rng.choice(["space", "time", "quantity"])
        sym = rng.choice(["xm", "sec", "moles", "M", "L", "", "um", "Mol", "hr", "µ"]) if faulty else rng.choice({"space": si.SPACE, "time": si.TIME, "quantity": si.AMOUNT}[field])
        sub["units"][field] = sym
        case["field"], case["sym"] = field, sym
    elif cls == "unit_text":
        subs = locate("script", d, ["species"])
        kind, sub = rng.choice(subs)
        us = c18.rand_unit_string(rng)
        if faulty:
            us = rng.choice(c18.MALFORM)(rng, us)
        case["text"] = us
        case["mode"] = "parse"
    elif cls == "grid_size":
        w, h, dd = (rng.choice([0, -1, -3, 1, 2]) for _ in range(3)) if faulty else (rng.randint(1, 3) for _ in range(3))
        case["size"] = [w, h, dd]
    elif cls == "env_map":
        n = sysgen.ncells(c["desc"])
        nenv = len(c["desc"]["envs"])
        env = [rng.randrange(nenv) for _ in range(n)]
        if faulty:
            r = rng.random()
            if r < 0.3:        # wrong length: one more, twice as many, a single entry (broadcastable), none
                env = rng.choice([env + [0], env + env, env[:1] if n > 1 else env + [0], env[:1] if n > 1 else [], []])
            elif r < 0.5 and n > 1:
                env = env[:-1]
            elif r < 0.75:
                env[rng.randrange(n)] = nenv + rng.randint(0, 2)
            else:
                env[rng.randrange(n)] = -rng.randint(1, 2)
        case["env"], case["ncells"], case["nenv"] = env, n, nenv
    elif cls == "choice":
        what = rng.choice(["boundary", "axis", "policy", "mode", "lookup"])
        # lookup: the policy of RDTrajectory.get_sample_index, whose documentation names exactly three values
        allowed = {"boundary": ["reflecting", "periodical"], "axis": ["x", "y", "z"], "policy": ["on_t_sample", "on_iteration", "on_interval", "no_sampling"],
                   "mode": ["auto", "none", "Poisson", "redist"], "lookup": ["closest", "supeq", "infeq"]}[what]
        wrong = {"boundary": ["periodic", "Reflecting", "", "None", "reflecting ", "periodical,reflecting", "reflect"],
                 "axis": ["w", "X", "", "xy", "yz", "xyz", "xz", "x ", "0", "xx"],
                 "policy": ["on_sample", "never", "", "None", "on_t_sample ", "on_iteration,on_interval", "on", "sampling"],
                 "mode": ["floor", "poisson", "", "None", "Auto", "redist ", "no", "non"],
                 "lookup": ["sup", "inf", "nearest", "", "closest ", "Supeq", "eq", "supeq,infeq"]}[what]
        val = rng.choice(wrong) if faulty else rng.choice(allowed)
        case.update({"what": what, "allowed": allowed, "value": val})
    elif cls == "env_names":
        names = rng.choice([[], ["default"], ["a", "default"], ["default", "b"]]) if faulty else rng.choice([["a"], ["", "b"], ["x", "y", "z"], ["Default"]])
        case["names"] = names
        # the collection comes as a list, a tuple or an array of strings, through the constructor or through the setter
        case["container"] = rng.choice(["list", "tuple", "tuple", "array"])
        case["via_setter"] = rng.random() < 0.5
    elif cls == "grid_pos":
        w, h, dd = rng.randint(1, 3), rng.randint(1, 3), rng.randint(1, 2)
        size = w * h * dd
        if rng.random() < 0.5:
            pos = rng.randint(-2 * size, 3 * size - 1) if faulty else rng.randrange(size)
        else:
            pos = [rng.randint(-1, w), rng.randint(-1, h), rng.randint(-1, dd)] if faulty else [rng.randrange(w), rng.randrange(h), rng.randrange(dd)]
        case.update({"size": [w, h, dd], "pos": pos, "op": rng.choice(["get_cell_index", "get_state", "set_state", "get_chemostat", "set_chemostat", "get_cell_env"])})
    elif cls == "graph_pos":
        n = rng.randint(1, 5)
        pos = rng.choice([-1, -2, n, n + 1, 2 * n]) if faulty else rng.randrange(n)
        case.update({"n": n, "pos": pos, "op": rng.choice(["get_cell_index", "get_state", "set_state", "get_chemostat"])})
    elif cls == "species_ref":
        labels = ["A", "B", "C"][:rng.randint(1, 3)]
        if rng.random() < 0.5:
            ref = rng.choice([-1, len(labels), len(labels) + 2]) if faulty else rng.randrange(len(labels))
        else:
            ref = rng.choice(["Z", "a", "", "AB"]) if faulty else rng.choice(labels)
        case.update({"labels": labels, "ref": ref, "op": rng.choice(["get_species_index", "get_state", "set_state"])})
        if faulty and rng.random() < 0.3:
            # a species that WAS known: every label is looked up once, then the network's species list is replaced by one without it
            full = ["A", "B", "C", "E"]
            gone = rng.choice(full[:-1])
            case.update({"labels": [l for l in full if l != gone], "ref": gone, "removed_from": full})
    elif cls == "cg_map":
        from . import c16
        cc = c16.make_case(rng, "quick")
        case["cg"] = cc
    elif cls == "wrong_dim_item":
        # an array-valued field given element by element, one element being a quantity of its own
        # ... or a per-environment quantity given as a dictionary of quantity objects, one of them of another dimension; or a single
        # quantity object handed to a field of another dimension (script times, node volume, edge surface and distance)
        field = rng.choice(["t_sample", "state", "unitarray", "species_D", "species_density", "reaction_kf", "reaction_kr",
                            "time_step", "t_max", "sampling_interval", "node_volume", "edge_surface", "edge_distance"])
        good = {"t_sample": [0, 1, 0], "state": [0, 0, 1], "unitarray": [rng.randint(-2, 2) for _ in range(3)],
                "species_D": [2, -1, 0], "species_density": [-3, 0, 1], "reaction_kf": [0, -1, 0], "reaction_kr": [0, -1, 0],
                "time_step": [0, 1, 0], "t_max": [0, 1, 0], "sampling_interval": [0, 1, 0], "node_volume": [3, 0, 0],
                "edge_surface": [2, 0, 0], "edge_distance": [1, 0, 0]}[field]
        case["via_setter"] = rng.random() < 0.5
        dim = list(good)
        if faulty:
            while tuple(dim) == tuple(good) or not any(dim):
                dim = list(good)
                dim[rng.randrange(3)] += rng.choice([-2, -1, 1, 2, 3])
        usys = sysgen.rand_sys(rng)
        same_system = rng.random() < 0.6          # the element is written in the very units system of the array
        case.update({"field": field, "given": dim, "expected": good, "array_units": usys, "item_units": usys if same_system else sysgen.rand_sys(rng),
                     "position": rng.randrange(3), "faulty": tuple(dim) != tuple(good)})
        if not any(dim):
            case["given"] = case["expected"] = good = [0, 1, 0]
            case["field"] = "t_sample"
            case["faulty"] = False
    return case


def observe(case):
    import strengths
    import numpy as np
    U = strengths.units
    cls = case["cls"]

    def run(f, snapshot=None):
        before = snapshot() if snapshot else None
        try:
            f()
            raised = False
        except Exception as e:
            raised = True
        after = snapshot() if snapshot else None
        return {"raised": raised, "untouched": before == after}
    if cls in ("unknown_key", "double_alias", "missing", "wrong_dim", "unit_symbol"):
        return run(lambda: strengths.rdscript_from_dict(copy.deepcopy(case["dict"])))
    if cls == "unit_text":
        return run(lambda: U.UnitValue("1 " + case["text"]) if case["text"].strip() else U.parse_units(case["text"]))
    if cls == "grid_size":
        w, h, d = case["size"]
        return run(lambda: strengths.RDGridSpace(w=w, h=h, d=d))
    if cls == "env_map":
        def f():
            desc = copy.deepcopy(case["sim"]["desc"])
            sp = desc["space"]
            if sp["type"] == "grid":
                sp["env"] = list(case["env"])
            else:
                if len(case["env"]) != len(sp["nodes"]):
                    raise ValueError("graph: one environment per node by construction")
                for nd, e in zip(sp["nodes"], case["env"]):
                    nd["env"] = e
            sysgen.build_system(strengths, desc)
        return run(f)
    if cls == "choice":
        what, val = case["what"], case["value"]
        if what == "boundary":
            return run(lambda: strengths.RDGridSpace(w=2, boundary_conditions={"x": val, "y": "reflecting", "z": "reflecting"}))
        if what == "axis":
            return run(lambda: strengths.RDGridSpace(w=2, boundary_conditions={val: "periodical"}))
        system = strengths.RDSystem(network=strengths.RDNetwork(species=[strengths.Species("A")], reactions=[]))
        if what == "policy":
            return run(lambda: strengths.RDScript(system=system, t_sample=[0, 1], sampling_policy=val))
        if what == "lookup":
            import strengths.rdoutput as ro
            U = strengths.units
            script = strengths.RDScript(system=system, t_sample=[0, 1])
            tr = ro.RDTrajectory(data=U.UnitArray([1.0, 2.0, 3.0], "molecule"), t_sample=U.UnitArray([0.0, 1.0, 2.0], "s"), system=system, script=script,
                                 engine_description="", engine_option="euler")
            return run(lambda: tr.get_sample_index("1 s", val))
        return run(lambda: strengths.RDScript(system=system, t_sample=[0, 1], init_state_processing=val))
    if cls == "env_names":
        names = list(case["names"])
        coll = {"list": names, "tuple": tuple(names), "array": (np.array(names, dtype=object) if names else tuple(names))}[case.get("container", "list")]
        if case.get("via_setter"):
            net = strengths.RDNetwork(species=[strengths.Species("A")], reactions=[])

            def f():
                net.environments = coll
            return run(f)
        return run(lambda: strengths.RDNetwork(species=[strengths.Species("A")], reactions=[], environments=coll))
    if cls in ("grid_pos", "graph_pos", "species_ref"):
        if cls == "graph_pos":
            from strengths.rdspace import RDGraphSpaceNode
            space = strengths.RDGraphSpace(nodes=[RDGraphSpaceNode(volume=1.0, environment=0) for _ in range(case["n"])], edges=[])
            labels = ["A", "B"]
        elif cls == "grid_pos":
            w, h, d = case["size"]
            space = strengths.RDGridSpace(w=w, h=h, d=d)
            labels = ["A", "B"]
        else:
            space = strengths.RDGridSpace(w=2, h=2)
            labels = case.get("removed_from") or case["labels"]
        net = strengths.RDNetwork(species=[strengths.Species(l) for l in labels], reactions=[])
        n = space.size()
        state = U.UnitArray([float(10 + k) for k in range(n * len(labels))], "molecule")
        system = strengths.RDSystem(network=net, space=space, state=state, chemostats=[k % 2 for k in range(n * len(labels))])
        snap = lambda: ([float(v) for v in system.state.value], [int(v) for v in system.chemostats])
        if case.get("removed_from"):
            for l in labels:
                system.get_state(l, 0)
                system.network.get_species_index(l)
                net.get_species_index(l)
            keep = [sp_ for sp_ in system.network.species if sp_.label in case["labels"]]
            system.network.species = keep
            net.species = [sp_ for sp_ in net.species if sp_.label in case["labels"]]
        pos = tuple(case["pos"]) if isinstance(case.get("pos"), list) else case.get("pos", 0)
        sp_ref = case.get("ref", "A")
        op = case["op"]
        if op == "get_cell_index":
            return run(lambda: space.get_cell_index(pos), snap)
        if op == "get_cell_env":
            return run(lambda: space.get_cell_env(pos), snap)
        if op == "get_species_index":
            def f():
                if net.get_species_index(sp_ref) is None:
                    raise ValueError("no such species")       # the documented behaviour is to return None: counted as a rejection
            return run(f, snap)
        if op == "get_state":
            return run(lambda: system.get_state(sp_ref, pos), snap)
        if op == "set_state":
            return run(lambda: system.set_state(sp_ref, pos, 99.0), snap)
        if op == "get_chemostat":
            return run(lambda: system.get_chemostat(sp_ref, pos), snap)
        return run(lambda: system.set_chemostat(sp_ref, pos, 1), snap)
    if cls == "wrong_dim_item":
        mk = lambda sy, dim: U.Units(sysgen.py_sys(U, sy), U.UnitsDimensions(space=dim[0], time=dim[1], quantity=dim[2]))
        item = U.UnitValue(2.0, mk(case["item_units"], case["given"]))
        if case["field"] == "unitarray":
            vals = [1.0, 2.0, 3.0]
            vals[case["position"]] = item
            return run(lambda: U.UnitArray(vals, mk(case["array_units"], case["expected"])))
        field = case["field"]
        if field in ("species_D", "species_density", "reaction_kf", "reaction_kr"):
            envs = ["a", "b", "default"]
            vals = {e: U.UnitValue(1.0, mk(case["item_units"], case["expected"])) for e in envs}
            vals[envs[case["position"]]] = item
            us = sysgen.py_sys(U, case["array_units"])
            attr = {"species_D": "D", "species_density": "density", "reaction_kf": "kf", "reaction_kr": "kr"}[field]
            if field.startswith("species"):
                if case.get("via_setter"):
                    sp = strengths.Species("A", units_system=us)
                    return run(lambda: setattr(sp, attr, vals))
                return run(lambda: strengths.Species("A", units_system=us, **{attr: vals}))
            if case.get("via_setter"):
                re_ = strengths.Reaction("A -> B", units_system=us)
                return run(lambda: setattr(re_, attr, vals))
            return run(lambda: strengths.Reaction("A -> B", units_system=us, **{attr: vals}))
        if field in ("time_step", "t_max", "sampling_interval"):
            sysm = strengths.RDSystem(network=strengths.RDNetwork(species=[strengths.Species("A")], reactions=[]), space=strengths.RDGridSpace(w=2))
            if case.get("via_setter"):
                sc = strengths.RDScript(system=sysm, t_sample=[0.0, 1.0])
                return run(lambda: setattr(sc, field, item))
            return run(lambda: strengths.RDScript(system=sysm, t_sample=[0.0, 1.0], **{field: item}))
        if field == "node_volume":
            from strengths.rdspace import RDGraphSpaceNode
            return run(lambda: RDGraphSpaceNode(volume=item, environment=0))
        if field in ("edge_surface", "edge_distance"):
            from strengths.rdspace import RDGraphSpaceEdge
            kw = {"surface": 1.0, "distance": 1.0}
            kw[field.split("_")[1]] = item
            return run(lambda: RDGraphSpaceEdge(i=0, j=1, **kw))
        system = strengths.RDSystem(network=strengths.RDNetwork(species=[strengths.Species("A")], reactions=[]), space=strengths.RDGridSpace(w=3),
                                    units_system=sysgen.py_sys(U, case["array_units"]))
        if case["field"] == "state":
            vals = [1.0, 2.0, 3.0]
            vals[case["position"]] = item
            snap = lambda: [float(v) for v in system.state.value]

            def f():
                system.state = vals
            return run(f, snap)
        vals = [0.0, 1.0, 2.0]
        vals[case["position"]] = item
        return run(lambda: strengths.RDScript(system=system, t_sample=vals, units_system=sysgen.py_sys(U, case["array_units"])))
    if cls == "cg_map":
        from . import c16
        o = c16.observe(case["cg"])
        return {"raised": not o["accepted"], "untouched": True}
    raise RuntimeError("unknown class")


def emit(case, o):
    cls = case["cls"]
    if cls in ("unknown_key", "double_alias"):
        gc = "(KKeys schema_%s %s)" % (case["kind"], g_strs(case["keys"]))
    elif cls == "missing":
        gc = "(KMissing %s %s)" % (g_strs(case["mandatory"]), g_strs(case["keys"]))
    elif cls in ("wrong_dim", "wrong_dim_item"):
        gc = "(KDim %s %s)" % (si.g_dim(case["given"]), si.g_dim(case["expected"]))
    elif cls == "unit_symbol":
        gc = "(%s %s)" % ({"space": "KSpaceSym", "time": "KTimeSym", "quantity": "KAmountSym"}[case["field"]], g_str(case["sym"]))
    elif cls == "unit_text":
        gc = "(KUnitText %s)" % g_str(case["text"])
    elif cls == "grid_size":
        gc = "(KSize %s %s %s)" % tuple(g_z(v) for v in case["size"])
    elif cls == "env_map":
        gc = "(KEnvMap %s %s %s)" % (g_nat(case["ncells"]), g_nat(case["nenv"]), g_list([g_z(v) for v in case["env"]]))
    elif cls == "choice":
        gc = "(KChoice %s %s)" % (g_strs(case["allowed"]), g_str(case["value"]))
    elif cls == "env_names":
        gc = "(KEnvNames %s)" % g_strs(case["names"])
    elif cls == "grid_pos":
        w, h, d = case["size"]
        g = "{| gw := %d; gh := %d; gd := %d; px := false; py := false; pz := false |}" % (w, h, d)
        p = case["pos"]
        gp = "(PIndex %s)" % g_z(p) if isinstance(p, int) else "(PCoord (%s, %s, %s))" % tuple(g_z(v) for v in p)
        gc = "(KGridPos %s %s)" % (g, gp)
    elif cls == "graph_pos":
        gc = "(KGraphPos %s %s)" % (g_nat(case["n"]), g_z(case["pos"]))
    elif cls == "species_ref":
        r = case["ref"]
        gc = "(KSpecies %s %s %s %s)" % (g_nat(len(case["labels"])), g_strs(case["labels"]),
                                         "(Some %s)" % g_z(r) if isinstance(r, int) else "None", g_str(r if isinstance(r, str) else ""))
    else:
        cc = case["cg"]
        im = [v if type(v) is int else -5 for v in cc["im"]]
        gc = "(KMap %s %s %s)" % (g_nat(cc["w"] * cc["h"] * cc["d"]), g_list([g_z(v) for v in cc["env"]]), g_list([g_z(v) for v in im]))
    return gc, "(%s, %s)" % (g_bool(o["raised"]), g_bool(o["untouched"]))


def oracle(it):
    c, o = it["case"], it["obs"]
    name = "invalid input raises at the point of use and leaves the object untouched; valid input is accepted"
    if c["faulty"] and not o["raised"]:
        return False, name + " [class %s: accepted]" % c["cls"]
    if not o["untouched"] and o["raised"]:
        return False, name + " [class %s: the object changed although the call raised]" % c["cls"]
    if not c["faulty"] and o["raised"]:
        return None, name + " [a control of class %s was rejected]" % c["cls"]
    return True, name


def build_items(cases, run=None):
    core.use_repo()
    items = []
    for c in cases:
        try:
            o = observe(c)
        except Exception as e:
            o = {"raised": True, "untouched": True, "harness_error": "%s: %s" % (type(e).__name__, str(e)[:100])}
            if run:
                run.count("harness_error")
        try:
            gc, go = emit(c, o)
        except Exception as e:
            if run:
                run.count("emit_error:" + c["cls"])
            continue
        items.append({"case": {k: v for k, v in c.items() if k not in ("sim",)} if c["cls"] != "env_map" else c, "obs": o, "gcase": gc, "gobs": go,
                      "nontrivial": c["faulty"]})
    return items


def check(run):
    rng = random.Random(run.seed)
    sysgen.POOLS["space"] = ["cm", "mm", "dmm", "cmm", "µm", "nm", "dm"]
    n = 1500 if run.tier == "quick" else 40000
    cases = [make_case(rng) for _ in range(n)]
    items = build_items(cases, run)
    for it in items:
        c = it["case"]
        run.count("class:%s:%s" % (c["cls"], "invalid" if c["faulty"] else "control"))
    run.rule = ("for each class of the statement a valid random model is built and a fault injected at a random place (70 %) or not (controls): "
                "unknown key / second alias of a present key / missing mandatory key at any nesting level of a script dictionary (script, system, "
                "network, species, reaction, grid, graph, node, edge); a quantity of the wrong dimension in D, density, k+ / k- (orders 0..4), cell "
                "and node volume, edge surface and distance, time step, t_max, sampling interval; an unsupported base symbol in a units "
                "declaration; malformed unit text in a quantity; non-positive grid sizes; environment maps of the wrong length or naming an "
                "environment outside [0, nenv) (negative included); unknown boundary condition, axis, sampling policy, processing mode; empty "
                "environment list and the reserved name; positions outside the space (every linear index in [-2 size, 3 size), coordinate triples "
                "one step outside) through get_cell_index / get_cell_env / get_state / set_state / get_chemostat / set_chemostat on grids and "
                "graphs; unknown species by index and label; invalid coarse-graining maps. Which inputs are invalid is computed by the Coq models; "
                "the call must raise exactly on those and the state and chemostat map must be unchanged. non-trivial = an injected fault")
    core.decide(run, items, IMPORTS, "accept_C20", oracle, shard=500)


def replay(run, payload):
    c = payload["case"]
    c.setdefault("sim", {})
    core.decide(run, build_items([c]), IMPORTS, "accept_C20", oracle)
