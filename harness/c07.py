"""C07 - stochastic engines take only legal steps at master-equation rates: exact replay of engine runs from the seed."""
import math
import random
from fractions import Fraction as Fr

from . import core, si, sysgen, trajgen, engine_build, child
from .core import g_float, g_list, g_nat, g_bool, g_z

IMPORTS = "Units Grid System Engine EngineBuild Stochastic Prng StochStep AcceptC06 AcceptC05 AcceptC01 AcceptC07"


def make_case(rng, tier):
    kind = rng.choice(["gillespie", "tauleap"])
    big = tier != "quick"
    c = trajgen.make_sim_case(rng, kind=kind, max_cells=(4 if kind == "tauleap" else 6), max_steps=10)
    if rng.random() < 0.4:
        trajgen.add_multi_edges(rng, c["desc"])     # self-loops and parallel edges (the engines alone are driven here)
    c["units"][2] = "molecule"                      # the samples are then the engine's own integers
    c["policy"] = "on_iteration"
    c["init"] = "none"
    c["nsteps"] = rng.randint(3, (60 if kind == "gillespie" else 12) * (2 if big else 1))
    c["t_max"] = c["dt"] * 10 ** 6 if kind == "gillespie" else c["dt"] * (c["nsteps"] - 0.5)
    c["t_sample"] = [0.0]
    # reactions of order 0..3 with repeated reactants so that the combinatorial factors matter
    labels = [s["label"] for s in c["desc"]["species"]]
    for r in c["desc"]["reactions"]:
        if rng.random() < 0.5:
            a = rng.choice(labels)
            r["sub"] = {a: rng.choice([2, 2, 3])}
            if rng.random() < 0.5 and len(labels) > 1:
                b = rng.choice([l for l in labels if l != a])
                r["sub"][b] = 1
                if sum(r["sub"].values()) > 3:
                    r["sub"][a] = 2
    trajgen.tune_time_step(c, target=0.08)
    if kind == "tauleap":
        c["t_max"] = c["dt"] * (c["nsteps"] - 0.5)
    else:
        c["t_max"] = c["dt"] * 10 ** 6
    c["t_sample"] = [0.0]
    if rng.random() < 0.3:
        c["chs"] = [rng.choice([1, 2, 3, 5]) if b else 0 for b in c["chs"]]      # any non-zero flag is a chemostat
    return c


def observe(c):
    import strengths
    script = trajgen.build_script(strengths, c)
    eng = engine_build.engine(c["engine"])
    eng.setup(script)
    it = 0
    while it < c["nsteps"]:
        it += 1
        if not eng.iterate():
            break
    out = eng.get_output()
    eng.finalize()
    size = len(c["state"])
    data = [float(v) for v in out.data.value]
    return {"states": [data[k * size:(k + 1) * size] for k in range(len(data) // size)], "t": [float(v) for v in out.t.value],
            "iterations": it, "data_units": si.sys_of(out.data.units.sys)}


def channels_bound(desc):
    n, ns = sysgen.ncells(desc), len(desc["species"])
    sp = desc["space"]
    deg = 6 if sp["type"] == "grid" else max([0] + [sum(1 for e in sp["edges"] if i in (e["i"], e["j"])) for i in range(n)])
    return n * (2 * len(desc["reactions"]) + ns * deg)


def emit(c, o):
    desc = c["desc"]
    edges = g_list([sysgen.g_qty(q, u, sysgen.DIMS["distance"]) for q, u in sysgen.edge_list(desc)])
    steps = max(1, len(o["states"]))
    if c["engine"] == "gillespie":
        blocks = (4 * steps) // 624 + 2
    else:
        blocks = min(80, (steps * channels_bound(desc) * 6) // 624 + 2)
    gc = ("{| c7_sys := %s; c7_ue := %s; c7_edges := %s; c7_chs := %s; c7_dt := %s; c7_gillespie := %s; c7_seed := %s; c7_blocks := %s |}" % (
        sysgen.g_system(desc), si.g_usys(c["units"]), edges, g_list([g_bool(b) for b in c["chs"]]), g_float(c["dt"]),
        g_bool(c["engine"] == "gillespie"), g_z(c["seed"]), g_nat(blocks)))
    go = g_list(["(%s, %s)" % (g_list([g_float(v) for v in x]), g_float(t)) for x, t in zip(o["states"], o["t"])])
    return "(%s)" % gc, go


# ------------------------------------------------------------------------------ oracle: legality, from the statement alone
def oracle(it):
    c, o = it["case"], it["obs"]
    name = ("every Gillespie step changes the state by exactly one possible event (one firing of a reaction direction with enough reactants and a "
            "non-zero constant, or one molecule moving to a neighbouring cell), states stay non-negative integers, time strictly increases")
    if "error" in o:
        return False, name + " [raised: %s]" % o["error"]
    desc = c["desc"]
    n, ns = sysgen.ncells(desc), len(desc["species"])
    labels = [s["label"] for s in desc["species"]]
    for x in o["states"]:
        if any(v < 0 or v != int(v) for v in x):
            if c["engine"] == "gillespie":
                return False, name + " [a state is not a vector of non-negative integers: %s]" % x
    if c["engine"] != "gillespie":
        return None, name
    if any(b <= a for a, b in zip(o["t"], o["t"][1:])):
        return False, name + " [time does not strictly increase]"
    sp = desc["space"]
    if sp["type"] == "grid":
        dims = (sp["w"], sp["h"], sp["d"])

        def nbrs(i):
            ci = (i % dims[0], (i // dims[0]) % dims[1], i // (dims[0] * dims[1]))
            res = set()
            for ax in range(3):
                for step in (1, -1):
                    t = list(ci)
                    t[ax] += step
                    if sp["per"][ax]:
                        t[ax] %= dims[ax]
                    if 0 <= t[ax] < dims[ax]:
                        res.add(t[2] * dims[0] * dims[1] + t[1] * dims[0] + t[0])
            return res
    else:
        def nbrs(i):
            return set([e["j"] for e in sp["edges"] if e["i"] == i] + [e["i"] for e in sp["edges"] if e["j"] == i])
    for a, b in zip(o["states"], o["states"][1:]):
        diff = {k: b[k] - a[k] for k in range(len(a)) if b[k] != a[k]}
        cells = set(k % n for k in diff)
        ok = False
        if not diff:
            ok = True          # an event whose every affected entry is chemostated (or a self-loop move)
        elif len(cells) == 1:
            i = next(iter(cells))
            for r in desc["reactions"]:
                for sub, prod in ((r["sub"], r["prod"]), (r["prod"], r["sub"])):
                    exp = {}
                    for s, l in enumerate(labels):
                        d = prod.get(l, 0) - sub.get(l, 0)
                        if d and not c["chs"][s * n + i]:
                            exp[s * n + i] = d
                    if exp == diff and all(a[labels.index(l) * n + i] >= m for l, m in sub.items()):
                        ok = True
            if not ok and len(diff) == 1:       # a move whose other end is chemostated
                k = next(iter(diff))
                ok = abs(diff[k]) == 1 and any(c["chs"][(k // n) * n + j] for j in nbrs(i))
        elif len(cells) == 2 and len(diff) == 2:
            (k1, d1), (k2, d2) = sorted(diff.items(), key=lambda kv: kv[1])
            ok = (d1, d2) == (-1, 1) and k1 // n == k2 // n and (k2 % n) in nbrs(k1 % n) and a[k1] >= 1
        if not ok:
            return False, name + " [step %s -> %s is not one possible event]" % (a, b)
    return None, name


def build_items(cases, run=None):
    engine_build.build(False)
    obs = child.map_children("c07", "observe", cases, timeout=20)
    items = []
    for c, o in zip(cases, obs):
        if "timeout" in o or "crash" in o:
            if run:
                run.count("discarded_timeout_or_crash")
            continue
        if "error" in o:
            o = {"error": o["error"], "states": [[0.0] * len(c["state"])], "t": [0.0]}
        if tuple(o.get("data_units", c["units"])) != tuple(c["units"]):
            o = {"error": "samples not reported in the script's units", "states": [[0.0] * len(c["state"])], "t": [0.0]}
        try:
            gc, go = emit(c, o)
        except (ValueError, OverflowError):
            if run:
                run.count("discarded_nonfinite")
            continue
        items.append({"case": c, "obs": o, "gcase": gc, "gobs": go, "nontrivial": len(o["states"]) >= 3})
    return items


def summarise(run, res):
    """tag = verified steps + 1000 * code"""
    keys = [k for k in run.distribution if k.startswith("branch_")]
    for k in keys:
        del run.distribution[k]
    names = {0: "disagreement", 1: "replayed_to_the_end", 2: "stopped_at_ambiguous_draw", 3: "stopped_at_mean>=12_or_stream_end"}
    steps = 0
    for ok, tag in res:
        code, n = tag // 1000, tag % 1000
        steps += n
        run.count("replay:" + names.get(code, str(code)))
    run.extra["steps_replayed_exactly"] = run.extra.get("steps_replayed_exactly", 0) + steps


def check(run):
    rng = random.Random(run.seed)
    sysgen.POOLS["space"] = ["cm", "mm", "dmm", "cmm", "µm", "nm", "dm"]
    n = 100 if run.tier == "quick" else 1200
    cases = [make_case(rng, run.tier) for _ in range(n)]
    # a share of runs in which chemostated entries matter as sources ("exempt from the change but not from the propensity"):
    # a well stocked flagged cell or species next to nearly empty free ones, diffusion setting the pace
    from . import c03
    cases += [c03.make_reservoir_case(rng, run.tier, leaky=True) for _ in range(n // 4)]
    items = build_items(cases, run)
    for it in items:
        c = it["case"]
        run.count("engine:%s:%s" % (c["engine"], c["desc"]["space"]["type"]))
        run.count("reactions:%d" % len(c["desc"]["reactions"]))
        for r in c["desc"]["reactions"]:
            run.count("order:%d" % sum(r["sub"].values()))
    run.rule = ("random systems (orders 0..3 with repeated reactants, per-environment constants incl. zeros, grids with all boundary mixes incl. "
                "periodic axes of length 1 and 2, graphs, chemostat maps, integer molecule counts; a fifth of the runs with a well stocked chemostated cell or species as the only source), Gillespie (3-60 events) and tau-leap (3-12 "
                "leaps, time step tuned so that means stay below 12): the engine records every state and time (on_iteration); Coq derives "
                "the uniforms from the seed (mt19937, generate_canonical), predicts every Gillespie event from u1 * a0 against the cumulative "
                "propensities in scanning order, checks exp(-a0 (d +- delta)) around u2 for every waiting time d, predicts every tau-leap "
                "firing count from the small-mean Poisson sampler, applies them and compares with the next observed state, exactly. Draws "
                "within 1e-9 a0 of a channel boundary / within 2^-48 of the Poisson threshold stop the replay of that run (counted). "
                "non-trivial = >= 2 steps")
    # long Gillespie runs at low copy numbers (cells empty and refill: histories matter), screened by the legality oracle;
    # the Coq replay judges a fixed-size prefix above and every run the screen objects to
    nb = 350 if run.tier == "quick" else 6000
    bulk = []
    for _ in range(nb):
        c = make_case(rng, run.tier)
        c["engine"] = "gillespie"
        c["nsteps"] = rng.randint(100, 400)
        c["t_max"] = c["dt"] * 10 ** 6
        c["state"] = [float(rng.choice([0, 0, 1, 1, 2, 3])) for _ in c["state"]]
        bulk.append(c)
    bitems = build_items(bulk, None)
    flagged = [it for it in bitems if oracle(it)[0] is False][:8]
    run.extra["long_runs_screened_by_legality_oracle"] = len(bitems)
    run.extra["steps_screened"] = sum(len(it["obs"]["states"]) - 1 for it in bitems)
    run.extra["screen_objections"] = len(flagged)
    res = core.decide(run, items + flagged, IMPORTS, "accept_C07", oracle, shard=6)
    summarise(run, res)


def replay(run, payload):
    sysgen.POOLS["space"] = ["cm", "mm", "dmm", "cmm", "µm", "nm", "dm"]
    res = core.decide(run, build_items([payload["case"]]), IMPORTS, "accept_C07", oracle)
    summarise(run, res)
