"""C10 - termination and engine lifecycle: call histories over one or two engine objects, each executed in a child
process (a hang and a crash are observations), compared in Coq with the per-object specification."""
import itertools
import math
import random
from fractions import Fraction as Fr

from . import core, si, sysgen, trajgen, engine_build, child
from .core import g_float, g_list, g_nat, g_bool

IMPORTS = "Sampling Lifecycle Simulate AcceptC10"
POL = {"on_t_sample": "OnTSample", "on_iteration": "OnIteration", "on_interval": "OnInterval", "no_sampling": "NoSampling"}

# a small pool of scripts over the same two-cell, one-species system (same state size, so that two engine objects
# sharing the native simulation cannot overrun each other's output buffer inside the harness process)
SCRIPTS = [
    {"policy": "on_iteration", "ts": [0.0, 1.0], "tmax": None, "dt": 0.5, "interval": 1.0, "engine": "euler"},
    {"policy": "on_t_sample", "ts": [0.0, 0.25, 0.75], "tmax": None, "dt": 0.5, "interval": 1.0, "engine": "tauleap"},
    {"policy": "on_interval", "ts": [2.0], "tmax": 0.0, "dt": 0.25, "interval": 0.5, "engine": "euler"},
    {"policy": "no_sampling", "ts": [0.5], "tmax": 1.25, "dt": 0.5, "interval": 1.0, "engine": "tauleap"},
    {"policy": "on_iteration", "ts": [0.0], "tmax": 1.0, "dt": 0.5, "interval": 1.0, "engine": "tauleap", "space": "graph"},
]
SIZE = 2


def build_script(strengths, sc):
    U = strengths.units
    sp = strengths.Species(label="A", D=1.0, density=0.0)
    net = strengths.RDNetwork(species=[sp], reactions=[], environments=["e"])
    if sc.get("space") == "graph":
        from strengths.rdspace import RDGraphSpaceNode, RDGraphSpaceEdge
        space = strengths.RDGraphSpace(nodes=[RDGraphSpaceNode(volume=1.0, environment=0), RDGraphSpaceNode(volume=1.0, environment=0)],
                                       edges=[RDGraphSpaceEdge(i=0, j=1, surface=1.0, distance=1.0)])
    else:
        space = strengths.RDGridSpace(w=2, h=1, d=1, cell_env=[0, 0], cell_vol=1.0)
    system = strengths.RDSystem(network=net, space=space, state=U.UnitArray([3.0, 1.0], "molecule"))
    kw = {} if sc["tmax"] is None else {"t_max": sc["tmax"]}
    return strengths.RDScript(system=system, t_sample=list(sc["ts"]), time_step=sc["dt"], sampling_policy=sc["policy"],
                              sampling_interval=sc["interval"], rng_seed=7, init_state_processing="none", **kw)


def observe(c):
    """c = {"history": [[call, obj, arg], ...]}; returns the list of observed outcomes"""
    import strengths
    objs = {}
    out = []
    for call, o, arg in c["history"]:
        if call == "setup":
            sc = SCRIPTS[arg]
            if (o, sc["engine"]) not in objs:
                objs[(o, sc["engine"])] = engine_build.engine(sc["engine"], sanitize=c.get("sanitize", False))
            objs[o] = objs[(o, sc["engine"])]
        e = objs.get(o)
        if e is None and call == "finalize":
            # finalize before any set-up of that object: an engine object of some kind exists from the start in real use
            e = objs[o] = objs.setdefault((o, "euler"), engine_build.engine("euler", sanitize=c.get("sanitize", False)))
        try:
            if call == "setup":
                e.setup(build_script(strengths, SCRIPTS[arg]))
                out.append(["unit"])
            elif call == "iterate":
                out.append(["bool", bool(e.iterate())])
            elif call == "iterate_n":
                out.append(["bool", bool(e.iterate_n(arg))])
            elif call == "run":
                out.append(["bool", bool(e.run(0))])
            elif call == "sample":
                e.sample()
                out.append(["unit"])
            elif call == "progress":
                out.append(["num", float(e.get_progress())])
            elif call == "is_complete":
                out.append(["bool", bool(e.is_complete())])
            elif call == "get_output":
                tr = e.get_output()
                out.append(["out", [float(v) for v in tr.t.value], len(tr.data.value)])
            elif call == "finalize":
                e.finalize()
                out.append(["unit"])
        except Exception as ex:
            out.append(["raise", "%s: %s" % (type(ex).__name__, str(ex)[:80])])
    res = {"outcomes": out}
    if len(set(o for _, o, _ in c["history"])) > 1:
        res["_retire"] = True       # two objects share the native simulation (F13): dangling pointers may have been used - the
    return res                      # next case gets a fresh process (a heap corrupted here would crash a later, innocent case)


# ------------------------------------------------------------------------------ histories
CALLS1 = [("setup", 0), ("setup", 2), ("iterate", None), ("iterate_n", 0), ("iterate_n", 2), ("run", None), ("sample", None),
          ("progress", None), ("is_complete", None), ("get_output", None), ("finalize", None)]


def respecting(h):
    live = {"A": False, "B": False}
    for call, o, _ in h:
        if call == "setup":
            live[o] = True
        elif call == "finalize":
            live[o] = False
        elif not live[o]:
            return False
    return True


def enumerate_one(maxlen):
    """all lifecycle-respecting histories over object A that start with setup, up to maxlen calls"""
    res = []
    def rec(h, live):
        if h:
            res.append(list(h))
        if len(h) == maxlen:
            return
        for call, arg in CALLS1:
            if call not in ("setup", "finalize") and not live:
                continue
            if not h and call != "setup":
                continue
            h.append([call, "A", arg])
            rec(h, True if call == "setup" else False if call == "finalize" else live)
            h.pop()
    rec([], False)
    # only maximal-length ones and those ending in an observation are interesting; keep all of maximal length
    return [h for h in res if len(h) == maxlen or h[-1][0] in ("get_output", "is_complete", "finalize")]


def random_history(rng, two, length):
    objs = ["A", "B"] if two else ["A"]
    live = {"A": False, "B": False}
    h = []
    for _ in range(length):
        o = rng.choice(objs)
        if not live[o]:
            call, arg = rng.choice([("setup", rng.randrange(len(SCRIPTS))), ("setup", rng.randrange(len(SCRIPTS))), ("finalize", None)])
        else:
            call, arg = rng.choice([("setup", rng.randrange(len(SCRIPTS))), ("iterate", None), ("iterate", None), ("iterate_n", rng.randint(0, 4)),
                                    ("run", None), ("sample", None), ("progress", None), ("is_complete", None), ("get_output", None),
                                    ("get_output", None), ("finalize", None)])
        if call == "setup":
            live[o] = True
        elif call == "finalize":
            live[o] = False
        h.append([call, o, arg])
    return h


# ------------------------------------------------------------------------------ Gallina
def g_script(sc):
    tmax = sc["tmax"] if sc["tmax"] is not None else sc["ts"][-1]
    return "{| sc_pol := %s; sc_ts := %s; sc_int := %s; sc_tmax := %s; sc_dt := %s; sc_size := %s |}" % (
        POL[sc["policy"]], g_list([g_float(v) for v in sc["ts"]]), g_float(sc["interval"]), g_float(tmax), g_float(sc["dt"]), g_nat(SIZE))


def g_call(k):
    call, o, arg = k
    if call == "setup":
        return "(LSetup %s sc%d)" % (o, arg)
    if call == "iterate_n":
        return "(LIterateN %s %s)" % (o, g_nat(arg))
    return "(%s %s)" % ({"iterate": "LIterate", "run": "LRun", "sample": "LSample", "progress": "LProgress", "is_complete": "LIsComplete",
                         "get_output": "LGetOutput", "finalize": "LFinalize"}[call], o)


def _gf(v):
    # a non-finite number (read through a dangling pointer after undefined behaviour, or a real defect) is carried as a value no
    # model outcome equals: it is judged like any other wrong number, and matches only after the model's own `OUB`
    return g_float(v if math.isfinite(v) else 1.0e300)


def g_outcome(o):
    if o[0] == "unit":
        return "OUnit"
    if o[0] == "bool":
        return "(OBool %s)" % g_bool(o[1])
    if o[0] == "num":
        return "(ONum %s)" % _gf(o[1])
    if o[0] == "out":
        return "(OOut %s %s)" % (g_list([_gf(v) for v in o[1]]), g_nat(o[2]))
    return "OIllegal"        # a Python exception: never what the specification returns on a respecting history


def emit(c, o):
    lets = " ".join("let sc%d := %s in" % (i, g_script(sc)) for i, sc in enumerate(SCRIPTS))
    gc = "(%s %s)" % (lets, g_list([g_call(k) for k in c["history"]]))
    outs = o.get("outcomes")
    go = g_list([g_outcome(x) for x in outs]) if outs is not None else "[]"
    return gc, go


# ------------------------------------------------------------------------------ oracle: the statement, on the observed outcomes
def oracle(it):
    c, o = it["case"], it["obs"]
    name = ("every call returns; a completed simulation stays completed; the reported status refers to the current set-up; output can be "
            "fetched repeatedly with the same result; finalize is safe anywhere, any number of times; objects are independent")
    if "timeout" in o:
        return False, name + " [a call did not return within %ss]" % o["timeout"]
    if "crash" in o:
        return False, name + " [the process died: exit status %s; %s]" % (o["crash"], o.get("stderr", "")[-300:].replace("\n", " | "))
    h, outs = c["history"], o["outcomes"]
    if any(x[0] == "raise" for x in outs):
        return False, name + " [a lifecycle call raised: %s]" % [x for x in outs if x[0] == "raise"][0][1]
    objs = set(k[1] for k in h)
    for ob in objs:
        complete = None
        last_out = None
        for k, x in zip(h, outs):
            if k[1] != ob:
                if len(objs) > 1:
                    continue
            call = k[0]
            if call == "setup":
                complete, last_out = False, None
            elif call in ("iterate", "iterate_n", "run"):
                if complete and x[1] is True:
                    return False, name + " [%s reported 'unfinished' after completion had been reported]" % call
                if x[1] is False:
                    complete = True
                last_out = None
            elif call == "sample":
                last_out = None
            elif call == "is_complete":
                if complete is not None and x[1] != complete:
                    return False, name + " [is_complete() = %r although the last loop call of the current set-up said %r]" % (x[1], complete)
            elif call == "get_output":
                if last_out is not None and last_out != x:
                    return False, name + " [two consecutive get_output() differ]"
                last_out = x
            elif call == "finalize":
                complete, last_out = None, None
    return None, name


def known(it):
    if it.get("tag") == 64:
        return ("F13", "engine objects share the single process-global native simulation: a call on one object acts on the simulation "
                       "set up last by any object (observed outcomes are exactly those of the shared-global model)")
    return None


# ------------------------------------------------------------------------------ termination of whole runs
def make_term_case(rng):
    kind = rng.choice(["euler", "tauleap", "gillespie", "tauleap", "gillespie"])
    c = trajgen.make_sim_case(rng, kind=kind, max_cells=5, max_steps=30)
    n = len(c["state"])
    style = rng.choice(["sub", "sub", "mixed", "int", "big"])
    pool = {"sub": [0.0, 0.0, 0.1, 0.2, 0.3, 0.45, 0.05], "mixed": [0.0, 0.3, 0.7, 1.5, 2.25, 4.0], "int": [0.0, 1.0, 2.0, 5.0],
            "big": [0.0, 3.5, 40.0, 120.5, 250.0]}[style]
    c["state"] = [rng.choice(pool) for _ in range(n)]
    c["init"] = rng.choice(["auto", "auto", "redist", "Poisson", "none"])
    c["style"] = style
    c["policy"] = rng.choice(["on_t_sample", "on_iteration", "on_interval", "no_sampling"])
    return c


def observe_term(c):
    import strengths
    script = trajgen.build_script(strengths, c)
    eng = engine_build.engine(c["engine"], sanitize=c.get("sanitize", False))
    eng.setup(script)
    limit = 3000 if c["engine"] == "gillespie" else int(c["t_max"] / c["dt"]) + 6
    it = 0
    flags = []
    prog = []
    while it < limit:
        it += 1
        alive = eng.iterate()
        if c["engine"] == "gillespie":
            prog.append(float(eng.get_progress()))
        if not alive:
            break
    done = eng.is_complete()
    # an event-driven run advances its clock with every event: iterations that report 'unfinished' and leave the clock where it was
    # (nothing can fire any more) never end - that run does not terminate
    stalled = (not done) and len(prog) >= 3 and prog[-1] == prog[-2] == prog[-3]
    extra = [bool(eng.iterate()) for _ in range(2)]
    out = eng.get_output()
    n1 = len(out.data.value)
    n2 = len(eng.get_output().data.value)
    first = [float(v) for v in out.t.value] + [float(v) for v in out.data.value]
    eng.finalize()
    eng.finalize()
    # a new set-up afterwards starts from a clean slate: the same script on the same object gives the same output again
    eng.setup(script)
    it2 = 0
    while it2 < limit:
        it2 += 1
        if not eng.iterate():
            break
    for _ in range(2):
        eng.iterate()            # as the first time: a run cut at the iteration cap goes on by these two calls
    out2 = eng.get_output()
    second = [float(v) for v in out2.t.value] + [float(v) for v in out2.data.value]
    eng.finalize()
    same = it2 == it and len(first) == len(second) and all(a == b or (a != a and b != b) for a, b in zip(first, second))
    return {"iterations": it, "complete": bool(done), "extra": extra, "ndata": [n1, n2], "clean_slate": bool(same), "stalled": bool(stalled)}


def emit_term(c, o):
    fixed = c["engine"] != "gillespie"
    gc = "(%s, %s, %s)" % (g_float(c["dt"]), g_float(c["t_max"]), g_bool(fixed))
    if "iterations" in o:
        go = "(Some (%s, %s, %s))" % (g_nat(o["iterations"]), g_bool(o["complete"]), g_bool((o["complete"] and any(o["extra"])) or o["ndata"][0] != o["ndata"][1] or not o.get("clean_slate", True) or o.get("stalled", False)))
    else:
        go = "None"
    return gc, go


def oracle_term(it):
    c, o = it["case"], it["obs"]
    name = "set-up returns, every loop call returns, a fixed-step run completes after floor(t_max/dt)+1 iterations and stays complete"
    if "timeout" in o:
        return False, name + " [no return within %ss: engine %s, init_state_processing %s, initial amounts %s]" % (
            o["timeout"], c["engine"], c["init"], c["style"])
    if "crash" in o:
        return False, name + " [the process died: %s %s]" % (o["crash"], o.get("stderr", "")[-200:].replace("\n", " | "))
    if "error" in o:
        return False, name + " [raised: %s]" % o["error"]
    if c["engine"] != "gillespie":
        n = math.floor(c["t_max"] / c["dt"]) + 1
        if o["iterations"] != n or not o["complete"]:
            return False, name + " [%d iterations, complete=%r; expected %d]" % (o["iterations"], o["complete"], n)
    if o["complete"] and any(o["extra"]):
        return False, name + " [iterate() after completion reported 'unfinished']"
    if o.get("stalled"):
        return False, name + " [the event-driven run reports 'unfinished' while its clock no longer moves: it never ends]"
    if not o.get("clean_slate", True):
        return False, name + " [after finalize, a new set-up of the same script on the same object did not reproduce the run]"
    return True, name


def known_term(it):
    """F20: the hang is due to the size of the leap - the same script with a 65536 times smaller time step (and horizon) returns"""
    c, o = it["case"], it["obs"]
    if c["engine"] != "tauleap" or "timeout" not in o:
        return None
    c2 = dict(c)
    k = 1.0 / 65536
    c2.update({"dt": c["dt"] * k, "t_max": c["t_max"] * k, "t_sample": [t * k for t in c["t_sample"]], "interval": c["interval"] * k})
    o2 = child.map_children("c10", "observe_term", [c2], timeout=12, env=(engine_build.san_env() if c.get("sanitize") else None), confirm=True)[0]
    if "iterations" in o2 and o2.get("complete"):
        return ("F20", "tau-leap with a leap so large (or a population growing so fast) that the expected number of firings of a channel in one "
                       "step exceeds the range of int or is infinite: std::poisson_distribution<int> does not return from such a mean (the same "
                       "script with a 65536 times smaller step completes)")
    return None


def term_items(cases, run=None, sanitize=False):
    engine_build.build(sanitize)
    for c in cases:
        c["sanitize"] = sanitize
    env = engine_build.san_env() if sanitize else None
    obs = child.map_children("c10", "observe_term", cases, timeout=12, env=env, confirm=True)
    items = []
    for c, o in zip(cases, obs):
        gc, go = emit_term(c, o)
        items.append({"case": c, "obs": o, "gcase": gc, "gobs": go, "nontrivial": True})
        if run:
            run.count("run:%s:%s" % (c["engine"], c["init"]))
            run.count("run_amounts:" + c["style"])
            if "timeout" in o:
                run.count("run_observed:hang")
    return items


def build_items(hists, run=None, sanitize=False):
    engine_build.build(sanitize)
    cases = [{"history": h, "sanitize": sanitize} for h in hists]
    env = engine_build.san_env() if sanitize else None
    obs = child.map_children("c10", "observe", cases, timeout=15, env=env, confirm=True)
    items = []
    for c, o in zip(cases, obs):
        gc, go = emit(c, o)
        two = len(set(k[1] for k in c["history"])) > 1
        items.append({"case": c, "obs": o, "gcase": gc, "gobs": go, "nontrivial": len(c["history"]) >= 3})
        if run:
            run.count("objects:%d" % (2 if two else 1))
            run.count("length:%d" % min(len(c["history"]), 13))
            if "crash" in o:
                run.count("observed:crash")
            elif "timeout" in o:
                run.count("observed:hang")
    return items


# ------------------------------------------------------------------------------ simulate_script: the calls it makes
class _Recorder:
    """stands between simulate_script and a real engine: every call and what it returned is logged"""

    def __init__(self, eng, log):
        self._e, self._log = eng, log

    def setup(self, script):
        r = self._e.setup(script)
        self._log.append([0, ["unit"]])
        return r

    def run(self, breathe_dt):
        r = self._e.run(breathe_dt)
        self._log.append([2, ["bool", bool(r)]])
        return r

    def get_progress(self):
        v = self._e.get_progress()
        self._log.append([5, ["num", float(v)]])
        return v

    def get_output(self):
        tr = self._e.get_output()
        self._log.append([7, ["out", [float(v) for v in tr.t.value], len(tr.data.value)]])
        return tr

    def finalize(self):
        self._e.finalize()
        self._log.append([8, ["unit"]])

    def __getattr__(self, name):            # get_option, description ...: passed through, not part of the lifecycle
        return getattr(self._e, name)


def make_simulate_case(rng):
    n = rng.randint(1, 4)
    return {"invocations": [[rng.choice("AB"), rng.randrange(len(SCRIPTS)), rng.random() < 0.4] for _ in range(n)], "sanitize": False}


def observe_simulate(c):
    import contextlib
    import io
    import strengths
    import importlib
    sim = importlib.import_module("strengths.simulate")      # `strengths.simulate` the attribute is the function of that name
    objs, log, outs = {}, [], []
    for o, k, pr in c["invocations"]:
        sc = SCRIPTS[k]
        if (o, sc["engine"]) not in objs:
            objs[(o, sc["engine"])] = engine_build.engine(sc["engine"], sanitize=c.get("sanitize", False))
        n0 = len(log)
        with contextlib.redirect_stdout(io.StringIO()):
            tr = sim.simulate_script(build_script(strengths, sc), _Recorder(objs[(o, sc["engine"])], log), print_progress=pr)
        # what the caller gets is what get_output returned during the call
        fetched = [e[1] for e in log[n0:] if e[0] == 7]
        outs.append(bool(len(fetched) == 1 and fetched[0][1] == [float(v) for v in tr.t.value] and fetched[0][2] == len(tr.data.value)))
    res = {"log": log, "returned_fetched_output": outs}
    if len(set(o for o, _, _ in c["invocations"])) > 1:
        res["_retire"] = True
    return res


def emit_simulate(c, o):
    lets = " ".join("let sc%d := %s in" % (i, g_script(sc)) for i, sc in enumerate(SCRIPTS))
    gc = "(%s %s)" % (lets, g_list(["(%s, sc%d, %s)" % (ob, k, g_bool(pr)) for ob, k, pr in c["invocations"]]))
    go = g_list(["(%s, %s)" % (g_nat(t), g_outcome(x)) for t, x in o.get("log", [])])
    return gc, go


def oracle_simulate(it):
    c, o = it["case"], it["obs"]
    name = "a sequence of simulate calls on one or two engines: every call returns, and returns the output it fetched"
    if "timeout" in o or "crash" in o or "error" in o:
        return False, name + " [%s]" % ({k: o[k] for k in ("timeout", "crash", "error") if k in o},)
    if not all(o["returned_fetched_output"]):
        return False, name + " [a call returned something else than the output it fetched]"
    return None, name          # the outcomes themselves are judged against the lifecycle specification in Coq


def simulate_items(cases, sanitize=False):
    engine_build.build(sanitize)
    for c in cases:
        c["sanitize"] = sanitize
    obs = child.map_children("c10", "observe_simulate", cases, timeout=30, env=(engine_build.san_env() if sanitize else None), confirm=True)
    items = []
    for c, o in zip(cases, obs):
        gc, go = emit_simulate(c, o)
        items.append({"case": c, "obs": o, "gcase": gc, "gobs": go, "nontrivial": True})
    return items


def histories(rng, tier):
    L = 4 if tier == "quick" else 5
    hs = enumerate_one(L)
    n1, n2 = (250, 150) if tier == "quick" else (4000, 3000)
    hs += [random_history(rng, False, rng.randint(5, 14)) for _ in range(n1)]
    hs += [random_history(rng, True, rng.randint(3, 12)) for _ in range(n2)]
    return hs, L


def check(run):
    rng = random.Random(run.seed)
    hs, L = histories(rng, run.tier)
    items = build_items(hs, run)
    run.extra["exhaustive_single_object_length"] = L
    run.exhaustive = False
    run.rule = ("all lifecycle-respecting histories over one engine object that start with setup, up to %d calls, over the alphabet setup(script 0), "
                "setup(script 2), iterate, iterate_n(0), iterate_n(2), run(0), sample, get_progress, is_complete, get_output, finalize (kept: those of "
                "maximal length or ending in an observation); plus random histories of 5-14 calls over one object and 3-12 calls over two objects, "
                "five scripts (four policies, euler / tauleap, grid / graph, t_max 0 / default / explicit). Each history runs in a child process "
                "with a 15 s limit; every call's return value is compared in Coq with the per-object specification. non-trivial = >= 3 calls" % L)
    core.decide(run, items, IMPORTS, "accept_C10", oracle, known=known, shard=400)
    sysgen.POOLS["space"] = ["cm", "mm", "dmm", "cmm", "µm", "nm", "dm"]
    nt = 400 if run.tier == "quick" else 8000
    titems = term_items([make_term_case(rng) for _ in range(nt)], run)
    run.rule += ("; and %d whole runs of random scripts (three engines, four init_state_processing modes, initial amounts below one molecule / "
                 "fractional / integral / above 100) driven to completion: set-up and every iterate must return within 12 s, fixed-step runs "
                 "must complete after exactly floor(t_max/dt)+1 iterations and stay complete" % nt)
    core.decide(run, titems, IMPORTS, "accept_C10_run", oracle_term, known=known_term, shard=400)
    ns = 150 if run.tier == "quick" else 2500
    sitems = simulate_items([make_simulate_case(rng) for _ in range(ns)])
    for it in sitems:
        inv = it["case"]["invocations"]
        run.count("simulate:calls:%d:objects:%d" % (len(inv), len(set(o for o, _, _ in inv))))
        run.count("simulate:progress_printed", sum(1 for _, _, pr in inv if pr))
    run.rule += ("; and %d sequences of 1-4 simulate_script calls on one or two engine objects (five scripts, with and without progress "
                 "printing): the calls simulate_script makes on its engine and what each returned, recorded by a proxy, against the "
                 "specification run of the modelled history (Model/Simulate.v)" % ns)
    core.decide(run, sitems, IMPORTS, "accept_C10_simulate", oracle_simulate, shard=200)


def replay(run, payload):
    if payload["correspondence"] == "accept_C10_simulate":
        core.decide(run, simulate_items([payload["case"]]), IMPORTS, "accept_C10_simulate", oracle_simulate)
        return
    if payload["correspondence"] == "accept_C10_run":
        sysgen.POOLS["space"] = ["cm", "mm", "dmm", "cmm", "µm", "nm", "dm"]
        core.decide(run, term_items([payload["case"]]), IMPORTS, "accept_C10_run", oracle_term, known=known_term)
        return
    items = build_items([payload["case"]["history"]])
    core.decide(run, items, IMPORTS, "accept_C10", oracle, known=known)
