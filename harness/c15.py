"""C15 - grid geometry: exhaustive sweep of small grids through the public API, the kinetics
functions and the freshly compiled Euler engine (grid and grid_to_graph)."""
import itertools
import random

from . import core
from .core import g_float, g_list, g_z, g_bool, g_opt

IMPORTS = "Grid AcceptC15"
BC = {False: "reflecting", True: "periodical"}


class _Pos:
    def __init__(self, x, y, z):
        self.x, self.y, self.z = x, y, z


def shapes(max_cells):
    out = []
    for w in range(1, max_cells + 1):
        for h in range(1, max_cells // w + 1):
            for d in range(1, max_cells // (w * h) + 1):
                out.append((w, h, d))
    return out


def _res(f):
    try:
        return ["ok", f()]
    except Exception as e:
        return ["raise", type(e).__name__]


def _system(strengths, w, h, d, per, vol, env, state=None, graph=False):
    sd = {"network": {"species": [{"label": "A", "D": 1.0}], "reactions": [],
                      "environments": ["e0", "e1"]},
          "space": {"type": "grid", "w": w, "h": h, "d": d, "cell_vol": vol, "cell_env": list(env),
                    "boundary_conditions": {"x": BC[per[0]], "y": BC[per[1]], "z": BC[per[2]]}}}
    sys_ = strengths.rdsystem_from_dict(sd)
    if graph:
        from strengths.coarsegrain import grid_to_graph
        sys_ = strengths.RDSystem(network=sys_.network, space=grid_to_graph(sys_.space))
    if state is not None:
        sys_.state = strengths.UnitArray([float(v) for v in state], "molecule")
    return sys_


def _euler_rate(strengths, sys_, x):
    """(x1 - x0)/dt of one Euler engine step (dt = 2^-6): exact for the integer probe state."""
    from . import engine_build
    dt = 1.0 / 64
    tr = strengths.simulate(sys_, t_sample=[0.0, dt], engine=engine_build.engine("euler"), time_step=dt,
                            sampling_policy="on_iteration", t_max=dt / 2)
    n = len(x)
    data = [float(v) for v in tr.data.value]
    if len(data) < 2 * n:
        raise RuntimeError("engine recorded %d values" % len(data))
    return [(data[n + i] - data[i]) / dt for i in range(n)]


def observe(c, dynamic):
    import strengths
    import strengths.kinetics as kin
    from strengths.coarsegrain import grid_to_graph
    w, h, d = c["w"], c["h"], c["d"]
    per = c["per"]
    n = w * h * d
    target = {"x": BC[per[0]], "y": BC[per[1]], "z": BC[per[2]]}
    if c.get("history"):
        # the grid object has a past: built with the opposite setting of every axis, fully queried, then given the setting under test
        g = strengths.RDGridSpace(w=w, h=h, d=d, cell_env=list(c["env"]), cell_vol=c["h3"],
                                  boundary_conditions={"x": BC[not per[0]], "y": BC[not per[1]], "z": BC[not per[2]]})
        for i in range(n):
            g.get_neighbors(i)
            for j in range(n):
                g.are_neighbors(i, j)
        g.set_boundary_conditions(target)
    else:
        g = strengths.RDGridSpace(w=w, h=h, d=d, cell_env=list(c["env"]), cell_vol=c["h3"], boundary_conditions=target)
    o = {}
    probe = range(-2 * n, 3 * n)
    o["coords"] = [_res(lambda i=i: list(g.get_cell_coordinates(i))) for i in probe]
    o["index_lin"] = [_res(lambda i=i: int(g.get_cell_index(i))) for i in probe]
    tri = [(x - 1, y - 1, z - 1) for z in range(d + 2) for y in range(h + 2) for x in range(w + 2)]
    import numpy as np

    def form(k, p):
        # the same coordinates in every form the API takes: tuple, list, numpy rows of narrow and wide integer types, and - for points
        # of the grid - floats inside the cell (index and bounds test both truncate coordinate by coordinate)
        inside = all(v >= 0 for v in p)
        f = [lambda: p, lambda: list(p), lambda: np.array(p, dtype=np.int8), lambda: np.array(p, dtype=np.int64),
             lambda: np.array(p, dtype=np.uint8) if inside else p, lambda: [v + 0.25 for v in p] if inside else p,
             lambda: np.array([v + 0.5 for v in p], dtype=np.float32) if inside else list(p), lambda: np.array(p, dtype=np.int16)]
        return f[k % len(f)]()
    o["index_tri"] = [_res(lambda p=p, k=k: int(g.get_cell_index(form(k, p)))) for k, p in enumerate(tri)]
    o["index_obj"] = [_res(lambda p=p: int(g.get_cell_index(_Pos(*p)))) for p in tri]
    o["nbrs"] = [[int(v) for v in g.get_neighbors(i)] for i in range(n)]
    o["are"] = [[bool(g.are_neighbors(a, b)) for b in range(n)] for a in range(n)]
    try:
        gg = grid_to_graph(g)
        o["nodes"] = [[float(nd.volume.convert("µm3").value), int(nd.environment)] for nd in gg.nodes]
        o["edges"] = [[int(e.i), int(e.j), float(e.surface.convert("µm2").value), float(e.distance.convert("µm").value)]
                      for e in gg.edges]
    except Exception as e:           # a conversion that raises yields no graph: never accepted
        o["nodes"], o["edges"], o["grid_to_graph_raised"] = [], [], type(e).__name__
    o["kin"] = o["eng"] = o["kin_graph"] = o["eng_graph"] = None
    return o


PROBES = ("kin", "eng", "eng_graph", "kin_graph")


def wanted_probes(c):
    w, h, d, per = c["w"], c["h"], c["d"], c["per"]
    n = w * h * d
    out = []
    # a single cell has no neighbour at all: nothing to reveal (and kinetics.py has a separate defect there that belongs to C01, F12)
    if n > 1:
        out.append("kin")
    out += ["eng", "eng_graph"]
    # the Python kinetics functions see a single edge between two nodes: the property restricts the grid/graph comparison for
    # them to grids without a periodic axis of length 2
    if n > 1 and not any(p and k == 2 for p, k in zip(per, (w, h, d))):
        out.append("kin_graph")
    return out


def observe_static(c):
    return observe(c, False)


def observe_probe(c):
    """one dynamic observation (c["probe"]) in a process of its own: a crash of the engine on a malformed graph is an observation"""
    import strengths
    import strengths.kinetics as kin
    w, h, d, per = c["w"], c["h"], c["d"], c["per"]
    n = w * h * d
    x = [8 ** i for i in range(n)]
    which = c["probe"]
    try:
        sys_ = _system(strengths, w, h, d, per, 1.0, [0] * n, x, graph=which.endswith("_graph"))
        if which.startswith("kin"):
            return {"v": [float(v) for v in kin.compute_dstatedt(sys_, apply_chemostats=False).value]}
        return {"v": _euler_rate(strengths, sys_, x)}
    except Exception as e:      # a probe that raises is an observation, not a harness failure
        return {"v": "raise:" + type(e).__name__}


def _gres(r, f):
    return "(Ok %s)" % f(r[1]) if r[0] == "ok" else "Err"


def _gzlist(o):
    if o is None:
        return "None"
    if isinstance(o, str):
        return "(Some [])"
    if any(float(v) != int(v) for v in o):
        # non-integral probe output can only come from a wrong rate constant: transport a sentinel
        return "(Some [%s])" % "; ".join(g_z(-(10 ** 9) - i) for i, _ in enumerate(o))
    return "(Some %s)" % g_list([g_z(int(v)) for v in o])


def emit(c, o):
    gc = ("{| c_grid := {| gw := %d; gh := %d; gd := %d; px := %s; py := %s; pz := %s |}; c_env := %s; c_edge := %s |}"
          % (c["w"], c["h"], c["d"], g_bool(c["per"][0]), g_bool(c["per"][1]), g_bool(c["per"][2]),
             g_list([g_z(e) for e in c["env"]]), g_float(c["edge"])))
    go = "{| o_coords := %s; o_index_lin := %s; o_index_tri := %s; o_index_obj := %s; o_nbrs := %s; o_are := %s; " \
         "o_kin := %s; o_eng := %s; o_kin_graph := %s; o_eng_graph := %s; o_nodes := %s; o_edges := %s |}" % (
             g_list([_gres(r, lambda v: "(%d, %d, %d)" % tuple(v)) for r in o["coords"]]),
             g_list([_gres(r, g_z) for r in o["index_lin"]]),
             g_list([_gres(r, g_z) for r in o["index_tri"]]),
             g_list([_gres(r, g_z) for r in o["index_obj"]]),
             g_list([g_list([g_z(v) for v in row]) for row in o["nbrs"]]),
             g_list([g_list([g_bool(v) for v in row]) for row in o["are"]]),
             _gzlist(o["kin"]), _gzlist(o["eng"]), _gzlist(o["kin_graph"]), _gzlist(o["eng_graph"]),
             g_list(["(%s, %s)" % (g_float(v), g_z(e)) for v, e in o["nodes"]]),
             g_list(["(%s, %s, %s, %s)" % (g_z(i), g_z(j), g_float(s), g_float(dd)) for i, j, s, dd in o["edges"]]))
    return "(%s)" % gc, "(%s)" % go


# ------------------------------------------------------------------------------------------
# property oracle, written independently of the Coq model (brute force on coordinates)
# ------------------------------------------------------------------------------------------

def _adjacent(c, a, b):
    """number of ways b is reached from a by one step along one axis (cyclic on periodic axes)"""
    dims = (c["w"], c["h"], c["d"])
    ca = (a % dims[0], (a // dims[0]) % dims[1], a // (dims[0] * dims[1]))
    cb = (b % dims[0], (b // dims[0]) % dims[1], b // (dims[0] * dims[1]))
    diff = [k for k in range(3) if ca[k] != cb[k]]
    if len(diff) != 1:
        return 0
    k = diff[0]
    m = 0
    for step in (1, -1):
        t = ca[k] + step
        if c["per"][k]:
            t %= dims[k]
        if t == cb[k]:
            m += 1
    return m


def oracle(it):
    c, o = it["case"], it["obs"]
    w, h, d = c["w"], c["h"], c["d"]
    n = w * h * d
    name = "index = z*w*h + y*w + x bijection; outside positions raise; one symmetric neighbour relation in all four places; grid_to_graph preserves adjacency"
    probe = list(range(-2 * n, 3 * n))
    for i, rc, ri in zip(probe, o["coords"], o["index_lin"]):
        inside = 0 <= i < n
        if inside != (rc[0] == "ok") or inside != (ri[0] == "ok"):
            return False, name + " [position %d %s]" % (i, "rejected" if inside else "accepted")
        if inside and (rc[1] != [i % w, (i // w) % h, i // (w * h)] or ri[1] != i):
            return False, name + " [coordinates of %d]" % i
    tri = [(x - 1, y - 1, z - 1) for z in range(d + 2) for y in range(h + 2) for x in range(w + 2)]
    for p, r1, r2 in zip(tri, o["index_tri"], o["index_obj"]):
        inside = 0 <= p[0] < w and 0 <= p[1] < h and 0 <= p[2] < d
        for r in (r1, r2):
            if inside != (r[0] == "ok") or (inside and r[1] != p[2] * w * h + p[1] * w + p[0]):
                return False, name + " [triple %s]" % (p,)
    for a in range(n):
        for b in range(n):
            if a == b:
                continue
            m = _adjacent(c, a, b)
            if o["nbrs"][a].count(b) != m or o["are"][a][b] != (m > 0) or o["are"][a][b] != o["are"][b][a]:
                return False, name + " [cells %d,%d]" % (a, b)
            em = sum(1 for e in o["edges"] if {e[0], e[1]} == {a, b})
            if em != (m if a < b else _adjacent(c, b, a)):
                return False, name + " [graph edge %d-%d]" % (a, b)
    x = [8 ** i for i in range(n)]
    for key in ("kin", "eng", "kin_graph", "eng_graph"):
        if isinstance(o[key], str):
            return False, name + " [%s probe raised %s]" % (key, o[key])
        if o[key] is not None:
            for b in range(n):
                exp = sum(_adjacent(c, a, b) * (x[a] - x[b]) for a in range(n) if a != b)
                if o[key][b] != exp:
                    return False, name + " [%s derivative at cell %d]" % (key, b)
    return True, name


def gen_cases(rng, tier):
    cases = []
    max_static = 24 if tier == "quick" else 64
    max_dyn = 8 if tier == "quick" else 12
    for (w, h, d) in shapes(max_static):
        for per in itertools.product([False, True], repeat=3):
            n = w * h * d
            cases.append({"w": w, "h": h, "d": d, "per": list(per), "env": [rng.randrange(2) for _ in range(n)],
                          "edge": 2.0, "h3": 8.0, "dynamic": n <= max_dyn, "history": len(cases) % 3 == 1})
    # two grids above 255 cells with both strides above one (static relations only): narrow coordinate types must not wrap
    for (w, h, d) in ((16, 17, 1), (7, 6, 7)):
        cases.append({"w": w, "h": h, "d": d, "per": [False, True, False], "env": [0] * (w * h * d), "edge": 2.0, "h3": 8.0,
                      "dynamic": False, "history": False})
    return cases


def build_items(cases):
    from . import engine_build
    engine_build.build(False)
    from . import child
    statics = child.map_children("c15", "observe_static", cases, timeout=120, confirm=True)
    jobs = [(k, pr) for k, c in enumerate(cases) if c.get("dynamic", False) for pr in wanted_probes(c)]
    dyn = child.map_children("c15", "observe_probe", [dict(cases[k], probe=pr) for k, pr in jobs], timeout=60, confirm=True)
    items = []
    for c, o in zip(cases, statics):
        if "timeout" in o or "crash" in o or "error" in o:
            raise RuntimeError("static observation failed: %r" % (o,))
    for (k, pr), r in zip(jobs, dyn):
        statics[k][pr] = r["v"] if "v" in r else "raise:" + ("timeout" if "timeout" in r else "crash" if "crash" in r else "error")
    for c, o in zip(cases, statics):
        gc, go = emit(c, o)
        items.append({"case": c, "obs": o, "gcase": gc, "gobs": go})
    return items


def known(it):
    return None


def check(run):
    rng = random.Random(run.seed)
    cases = gen_cases(rng, run.tier)
    items = build_items(cases)
    for c in cases:
        run.count("cells_%02d" % (c["w"] * c["h"] * c["d"]))
        run.count("dynamic" if c["dynamic"] else "static")
    bound = 24 if run.tier == "quick" else 64
    dyn = 8 if run.tier == "quick" else 12
    run.rule = ("exhaustive: every shape with w*h*d <= %d x 8 boundary mixes; per grid: get_cell_coordinates and get_cell_index for "
                "every integer in [-2*size, 3*size), get_cell_index on every triple and x/y/z object in [-1,w]x[-1,h]x[-1,d], "
                "get_neighbors of every cell, are_neighbors of every pair, grid_to_graph nodes and edges; for w*h*d <= %d also the "
                "neighbour relation of kinetics.compute_dstatedt and of one step of the freshly compiled Euler engine, on the grid and "
                "on grid_to_graph(grid), revealed by a pure-diffusion probe state x_c = 8^c; every third grid object is first built with the opposite "
                "boundary setting, fully queried, and then switched with set_boundary_conditions. One case = one grid; non-trivial = more than one cell"
                % (bound, dyn))
    run.exhaustive = True
    run.extra["exhaustive_scope"] = "all grids with w*h*d <= %d (static relations) / <= %d (kinetics and engine)" % (bound, dyn)
    for it in items:
        it["nontrivial"] = it["case"]["w"] * it["case"]["h"] * it["case"]["d"] > 1
    core.decide(run, items, IMPORTS, "accept_C15", oracle, known=known, shard=40)


def replay(run, payload):
    items = build_items([payload["case"]])
    core.decide(run, items, IMPORTS, "accept_C15", oracle, known=known)
