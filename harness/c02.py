"""C02 - every engine conserves every conservation law of the network (all three engines, grid and graph)."""
import math
import random
from fractions import Fraction as Fr

from . import core, si, sysgen, trajgen, engine_build, child
from .core import g_float, g_list, g_z, g_bool

IMPORTS = "Units Grid System Engine EngineBuild AcceptC06 AcceptC05 AcceptC01 AcceptC02"


def usable_laws(c):
    """basis vectors of the null space that involve no chemostated species, plus each unreacting species"""
    desc = c["desc"]
    n, ns = sysgen.ncells(desc), len(desc["species"])
    chem_species = {s for s in range(ns) if any(c["chs"][s * n:(s + 1) * n])}
    laws = []
    for v in trajgen.null_space(desc):
        if not any(v[s] != 0 and s in chem_species for s in range(ns)):
            laws.append(v)
    return laws


def _subsample(samples):
    """first, last and an evenly spread selection"""
    if len(samples) <= 14:
        return samples
    step = (len(samples) - 1) / 13.0
    return [samples[int(round(k * step))] for k in range(14)]


def observe(c):
    """runs in a child: the whole trajectory is screened there by the model-independent oracle; a trajectory it does not object to
    travels on as its 14-sample selection (what Coq is given anyway), one it objects to travels whole"""
    try:
        r = trajgen.run(c)
        o = {"samples": r["samples"], "iterations": r["iterations"], "units": r["data_units"], "nsamples": len(r["samples"])}
    except Exception as e:
        return {"error": "%s: %s" % (type(e).__name__, str(e)[:100])}
    if all(math.isfinite(v) for x in o["samples"] for v in x):
        o["screen"] = oracle({"case": c, "obs": o})[0]
        if o["screen"] is not False:
            o["samples"] = _subsample(o["samples"])
    return o


def emit(c, o):
    desc = c["desc"]
    gc = "{| c2_sys := %s; c2_ue := %s; c2_chs := %s; c2_laws := %s; c2_exact := %s; c2_du := %s |}" % (
        sysgen.g_system(desc), si.g_usys(trajgen.engine_units(c)), g_list([g_bool(b) for b in c["chs"]]),
        g_list([g_list([g_z(v) for v in law]) for law in c["laws"]]), g_bool(c["engine"] != "euler"), si.g_usys(o.get("units", c["units"])))
    samples = _subsample(o.get("samples", [[1e300]]))      # the Python oracle has seen all of them (in the child)
    go = g_list([g_list([g_float(v) for v in row]) for row in samples])
    return "(%s)" % gc, go


def oracle(it):
    c, o = it["case"], it["obs"]
    name = "every integer combination annihilated by all reactions and free of chemostated species has the same total in every sample"
    if "error" in o:
        return False, name + " [engine raised: %s]" % o["error"]
    desc = c["desc"]
    n, ns = sysgen.ncells(desc), len(desc["species"])
    for law in c["laws"]:
        f = Fr(1)
        if c["engine"] != "euler":    # stochastic engines: totals in whole molecules
            f = si.SI_AMOUNT[o["units"][2]]
        samples = [[Fr(v) * f for v in x] for x in o["samples"]]
        if c["engine"] != "euler":
            if any(abs(v - round(v)) > Fr(1, 10**6) * (1 + abs(v)) for x in samples for v in x):
                return False, name + " [a stochastic engine reported a fractional number of molecules]"
            samples = [[Fr(round(v)) for v in x] for x in samples]
        tots = [sum(Fr(law[s]) * sum(x[s * n + i] for i in range(n)) for s in range(ns)) for x in samples]
        mags = [sum(abs(Fr(law[s])) * sum(abs(x[s * n + i]) for i in range(n)) for s in range(ns)) for x in samples]
        for t, m in zip(tots, mags):
            if c["engine"] != "euler":
                if t != tots[0]:
                    return False, name + " [law %s: total %s -> %s]" % (law, tots[0], t)
            elif abs(t - tots[0]) > Fr(1, 10**6) * max(m, mags[0]):
                return False, name + " [law %s drifted]" % (law,)
    return True, name


def gen_cases(rng, tier):
    n = 1500 if tier == "quick" else 30000
    cases = []
    while len(cases) < n:
        c = trajgen.make_sim_case(rng, max_cells=6 if tier == "quick" else 12, max_steps=200 if tier == "quick" else 3000)
        if rng.random() < 0.5:
            trajgen.add_multi_edges(rng, c["desc"])      # self-loops and parallel edges: the engines alone are driven here
        # diffusion-only systems every fourth case
        if len(cases) % 4 == 3:
            c["desc"]["reactions"] = []
        elif len(cases) % 4 in (1, 2):
            # reactions with a non-trivial conservation law: isomerisation, association, dimerisation
            labels = [s["label"] for s in c["desc"]["species"]]
            for r in c["desc"]["reactions"]:
                a, b, d = (rng.choice(labels) for _ in range(3))
                shape = rng.choice(["iso", "assoc", "dimer"])
                if shape == "iso" or len(labels) < 2:
                    r["sub"], r["prod"] = {a: 1}, {b: 1}
                elif shape == "assoc":
                    r["sub"], r["prod"] = ({a: 2} if a == b else {a: 1, b: 1}), {d: 1}
                else:
                    r["sub"], r["prod"] = {a: 2}, {b: 1}
                for key, order in (("kf", sum(r["sub"].values())), ("kr", sum(r["prod"].values()))):
                    r[key] = {"scalar": {"v": rng.choice([0.0, 0.125, 0.5, 1.0]), "sys": ["µm", "s", "molecule"]}}
        trajgen.tune_time_step(c)
        # coarse leaps at low copy numbers: the drawn outflow of a cell may exceed what it holds (amounts may then go negative,
        # totals must not move)
        if c["engine"] == "tauleap" and rng.random() < 0.5:
            k = 2.0 ** rng.randint(3, 6)
            c["dt"] *= k
            c["t_max"] = c["dt"] * rng.randint(3, 12)
            c["interval"] = c["dt"]
            c["t_sample"] = [0.0, c["t_max"]]
            c["policy"] = "on_iteration"
            c["state"] = [float(rng.choice([0, 1, 2, 3, 6, 10])) for _ in c["state"]]
        # coarse explicit Euler steps: a step may take more out of a cell than it holds (amounts overshoot below zero and
        # oscillate), the laws are linear and hold at any step size
        if c["engine"] == "euler" and rng.random() < 0.4:
            c["dt"] *= 2.0 ** rng.randint(3, 5)
            c["t_max"] = c["dt"] * rng.randint(2, 6)
            c["interval"] = c["dt"]
            c["t_sample"] = [0.0, c["t_max"]]
            c["policy"] = "on_iteration"
            c["coarse_euler"] = True
        c["laws"] = usable_laws(c)
        if not c["laws"]:
            continue
        cases.append(c)
    return cases


def build_items(cases, run=None):
    engine_build.build(False)
    items = []
    obs = child.map_children("c02", "observe", cases, timeout=6)
    for c, o in zip(cases, obs):
        if "timeout" in o or "crash" in o:
            # termination and crash-freedom are C10 / C11; here the trajectory is simply not available
            if run:
                run.count("discarded_timeout" if "timeout" in o else "discarded_crash")
            continue
        if not all(math.isfinite(v) for x in o.get("samples", []) for v in x):
            if run:
                run.count("discarded_nonfinite")
            continue
        items.append({"case": c, "obs": o})
    return items


def emit_items(items):
    for it in items:
        it["gcase"], it["gobs"] = emit(it["case"], it["obs"])
    return items


def check(run):
    rng = random.Random(run.seed)
    sysgen.POOLS["space"] = ["cm", "mm", "dmm", "cmm", "µm", "nm", "dm"]
    cases = gen_cases(rng, run.tier)
    items = build_items(cases, run)
    # every trajectory is screened by the model-independent oracle (cheap); the Coq verdict is computed for a
    # fixed-size prefix and for every trajectory the screen objects to
    ncoq = 150 if run.tier == "quick" else 3000
    flagged = [it for it in items[ncoq:] if it["obs"].get("screen", oracle(it)[0]) is False][:20]
    run.extra["screened_by_property_oracle"] = len(items)
    run.extra["screen_objections"] = len(flagged)
    items = emit_items(items[:ncoq] + flagged)
    events = 0
    for it in items:
        c = it["case"]
        run.count("engine:" + c["engine"] + (":coarse_steps" if c.get("coarse_euler") or c.get("style") == "coarse_leap" else ""))
        run.count("space:" + c["desc"]["space"]["type"])
        run.count("laws:%d" % len(c["laws"]))
        run.count("reactions:%d" % len(c["desc"]["reactions"]))
        events += it["obs"].get("iterations", 0)
        it["nontrivial"] = it["obs"].get("nsamples", len(it["obs"].get("samples", []))) > 1
    run.extra["engine_iterations"] = events
    run.rule = ("random systems (as C01, integer molecule counts, random chemostat maps) x {euler, tauleap, gillespie} x {grid, graph} x four "
                "sampling policies, 3-200 (3000) iterations; the harness offers a basis of the integer left null space of the stoichiometric "
                "matrix restricted to laws free of chemostated species (every fourth system is diffusion-only, so each species' own total is "
                "a law); Coq re-checks that each offered vector annihilates every reaction column and avoids chemostated species, then "
                "compares the totals of every sample (exactly for the stochastic engines, 1e-9 x magnitude for Euler). non-trivial = at "
                "least two samples")
    core.decide(run, items, IMPORTS, "accept_C02", oracle, shard=15)


def replay(run, payload):
    sysgen.POOLS["space"] = ["cm", "mm", "dmm", "cmm", "µm", "nm", "dm"]
    items = emit_items(build_items([payload["case"]]))
    core.decide(run, items, IMPORTS, "accept_C02", oracle)
