"""C16 - coarse-graining of grid systems and its inverse on trajectories."""
import math
import random
from fractions import Fraction as Fr

from . import core, si, sysgen, engine_build, child
from .core import g_float, g_list, g_nat, g_bool, g_z

IMPORTS = "Grid Coarse AcceptC05 AcceptC16"


def make_case(rng, tier):
    while True:
        w, h, d = rng.randint(1, 4), rng.randint(1, 4), rng.choice([1, 1, 2, 3])
        if w * h * d <= (16 if tier == "quick" else 48):
            break
    n = w * h * d
    nenv = rng.randint(1, 3)
    env = [rng.randrange(nenv) for _ in range(n)]
    if rng.random() < 0.4:
        env = [env[0]] * n
    edge = rng.randint(1, 12) / 4.0
    ns = rng.randint(1, 3)
    kind = rng.choice(["valid", "valid", "valid", "identity", "invalid"])
    if kind == "identity":
        im = list(range(n))
    else:
        # random partition of the cells of each environment into groups (non-contiguous allowed), some cells dropped
        im = [-1] * n
        g = 0
        for e in range(nenv):
            cs = [c for c in range(n) if env[c] == e]
            rng.shuffle(cs)
            drop = int(len(cs) * rng.choice([0, 0, 0.25, 0.5]))
            keep = cs[drop:]
            while keep:
                k = rng.randint(1, len(keep))
                for c in keep[:k]:
                    im[c] = g
                keep = keep[k:]
                g += 1
        if g == 0:
            im[0] = 0
    fault = None
    if kind == "invalid":
        fault = rng.choice(["length", "below", "gap", "mixed_env", "mixed_env", "mixed_env", "all_dropped", "float"])
        if fault == "length":
            im = im + [0]
        elif fault == "below":
            im[rng.randrange(n)] = -2
        elif fault == "gap":
            m = max(im)
            im = [v + 1 if v == m else v for v in im] if m >= 0 and im.count(m) < n else im
            if sorted(set(v for v in im if v >= 0)) == list(range(max(im) + 1)):
                fault = None
        elif fault == "mixed_env":
            done = False
            for a in range(n):
                for b in range(n):
                    if env[a] != env[b] and im[a] >= 0 and not done:
                        im[b] = im[a]
                        done = True
            if done and rng.random() < 0.6:
                # ... in a map that also drops a cell, the labels kept gap-free: the mixed group is then the map's only fault
                others = [c for c in range(n) if im[c] >= 0 and im.count(im[c]) > 1]
                mixed = [g for g in set(im) if g >= 0 and len(set(env[c] for c in range(n) if im[c] == g)) > 1]
                others = [c for c in others if im[c] not in mixed or im.count(im[c]) > 2]
                if others and -1 not in im:
                    c0 = rng.choice(others)
                    keep = (im[c0], set(env[c] for c in range(n) if im[c] == im[c0] and c != c0))
                    if im[c0] not in mixed or len(keep[1]) > 1:
                        im[c0] = -1
            if not done:
                fault = None
            elif sorted(set(v for v in im if v >= 0)) != list(range(max(im) + 1)):
                fault = "mixed_env+gap"
        elif fault == "all_dropped":
            im = [-1] * n
        elif fault == "float":
            im[0] = float(max(im[0], 0))
    state = [rng.choice([0.0, 1.0, 2.5, 7.0, 0.25, 12.0]) for _ in range(ns * n)]
    chs = [rng.random() < 0.3 for _ in range(ns * n)]
    G = max(im) + 1 if im and max(im) >= 0 else 0
    sample = [rng.choice([0.0, 1.0, 3.0, 4.5, 10.0]) for _ in range(ns * int(G))]
    return {"w": w, "h": h, "d": d, "env": env, "nenv": nenv, "edge": edge, "im": im, "ns": ns, "state": state, "chs": chs, "sample": sample,
            "fault": fault, "kind": kind, "units": sysgen.rand_sys(rng),
            # the state may be stated in another amount unit than the system's, and the system's units need not be the grid's
            "state_units": sysgen.rand_sys(rng) if rng.random() < 0.5 else None, "sys_units": sysgen.rand_sys(rng) if rng.random() < 0.5 else None,
            "traj_units": sysgen.rand_sys(rng) if rng.random() < 0.6 else None}


def observe(c):
    import strengths
    import strengths.coarsegrain as cg
    U = strengths.units
    n = c["w"] * c["h"] * c["d"]
    us = sysgen.py_sys(U, c["units"])
    species = [strengths.Species(label="ABC"[s], D=1.0, density=0.0) for s in range(c["ns"])]
    net = strengths.RDNetwork(species=species, reactions=[], environments=["e%d" % i for i in range(c["nenv"])])
    grid = strengths.RDGridSpace(w=c["w"], h=c["h"], d=c["d"], cell_env=list(c["env"]), cell_vol=U.UnitValue(c["edge"] ** 3, U.Units(us, U.UnitsDimensions(space=3))),
                                 units_system=us)
    state = U.UnitArray(list(c["state"]), U.Units(us, U.UnitsDimensions(quantity=1)))
    if c.get("state_units"):
        state = state.convert(sysgen.py_sys(U, c["state_units"]))       # same amounts, other numbers
    system = strengths.RDSystem(network=net, space=grid, state=state, chemostats=[int(b) for b in c["chs"]],
                                units_system=sysgen.py_sys(U, c["sys_units"]) if c.get("sys_units") else us)
    try:
        cgs = cg.coarsegrain_system(system, list(c["im"]))
    except Exception as e:
        return {"accepted": False, "why": "%s: %s" % (type(e).__name__, str(e)[:80])}
    sp = cgs.space
    out = {"accepted": True,
           "volumes": [float(nd.volume.convert(us).value) for nd in sp.nodes], "envs": [int(nd.environment) for nd in sp.nodes],
           "edges": [[int(e.i), int(e.j), float(e.surface.convert(us).value), float(e.distance.convert(us).value)] for e in sp.edges],
           "state": [float(v) for v in cgs.state.convert(us).value], "flags": [bool(v) for v in cgs.chemostats]}
    # un-coarse-graining of one sample
    G = len(sp.nodes)
    from strengths.rdoutput import RDTrajectory
    data = U.UnitArray(list(c["sample"]), U.Units(us, U.UnitsDimensions(quantity=1)))
    if c.get("traj_units"):
        data = data.convert(sysgen.py_sys(U, c["traj_units"]))          # the trajectory states its amounts in a unit of its own
    tr = RDTrajectory(data=data, t_sample=U.UnitArray([0.0], "s"), system=cgs, script=None, engine_description="x", engine_option="x")
    before = [float(v) for v in tr.data.value]
    out["uncg"] = [float(v) for v in cg.uncoarsegrain_trajectory_data(tr, grid, list(c["im"])).convert(us).value]      # as amounts, not as bare numbers
    # a pure function of the trajectory: the trajectory is left as it was, and asking again gives the same answer
    again = [float(v) for v in cg.uncoarsegrain_trajectory_data(tr, grid, list(c["im"])).convert(us).value]
    if again != out["uncg"] or [float(v) for v in tr.data.value] != before:
        out["uncg"] = again if again != out["uncg"] else [-1.0e300] * len(again)
        out["uncg_impure"] = True
    # simulating with the identity map reproduces the plain simulation (Euler)
    out["identity_ok"] = None
    if c["kind"] == "identity":
        eng = engine_build.engine("euler")
        kw = dict(t_sample=[0.0, 0.25, 0.5], time_step=0.0625, units_system=us)
        t1 = strengths.simulate(system, engine=eng, **kw)
        t2 = strengths.simulate(system, engine=eng, cgmap=list(c["im"]), **kw)
        a, b = [float(v) for v in t1.data.convert(us).value], [float(v) for v in t2.data.convert(us).value]      # amounts, not bare numbers
        out["identity_ok"] = len(a) == len(b) and all(abs(x - y) <= 1e-9 * (abs(x) + abs(y)) for x, y in zip(a, b))
    return out


def g_grid(c):
    return "{| gw := %d; gh := %d; gd := %d; px := false; py := false; pz := false |}" % (c["w"], c["h"], c["d"])


def emit(c, o):
    im = [v if type(v) is int else -5 for v in c["im"]]        # a non-integer entry is as invalid as a value below -1
    gc = ("{| c16_grid := %s; c16_h := %s; c16_env := %s; c16_map := %s; c16_ns := %s; c16_state := %s; c16_flags := %s; c16_cgsample := %s |}" % (
        g_grid(c), g_float(c["edge"]), g_list([g_z(v) for v in c["env"]]), g_list([g_z(v) for v in im]), g_nat(c["ns"]),
        g_list([g_float(v) for v in c["state"]]), g_list([g_bool(b) for b in c["chs"]]), g_list([g_float(v) for v in c["sample"]])))
    if not o["accepted"]:
        go = "{| o16_accepted := false; o16_volumes := []; o16_envs := []; o16_edges := []; o16_state := []; o16_flags := []; o16_uncg := [] |}"
    else:
        go = ("{| o16_accepted := true; o16_volumes := %s; o16_envs := %s; o16_edges := %s; o16_state := %s; o16_flags := %s; o16_uncg := %s |}" % (
            g_list([g_float(v) for v in o["volumes"]]), g_list([g_z(v) for v in o["envs"]]),
            g_list(["(%s, %s, %s, %s)" % (g_z(e[0]), g_z(e[1]), g_float(e[2]), g_float(e[3])) for e in o["edges"]]),
            g_list([g_float(v) for v in o["state"]]), g_list([g_bool(b) for b in o["flags"]]), g_list([g_float(v) for v in o["uncg"]])))
    return "(%s)" % gc, "(%s)" % go


def valid(c):
    im, n = c["im"], c["w"] * c["h"] * c["d"]
    if len(im) != n or any(type(v) != int for v in im) or any(v < -1 for v in im) or max(im) < 0:
        return False
    if sorted(set(v for v in im if v >= 0)) != list(range(max(im) + 1)):
        return False
    for g in range(max(im) + 1):
        if len(set(c["env"][i] for i in range(n) if im[i] == g)) > 1:
            return False
    return True


def oracle(it):
    c, o = it["case"], it["obs"]
    name = ("every index map valid by the documented rules is accepted; volume, per-species amounts, environments and OR-ed chemostat flags are "
            "kept over the retained cells; groups are connected iff member cells share a face (surface = faces x area, distance between "
            "centroids), no self-loop or duplicate; un-coarse-graining preserves group totals; the identity map reproduces the plain simulation")
    v = valid(c)
    if v and not o["accepted"]:
        return False, name + " [a valid map was rejected: %s]" % o.get("why")
    if not v:
        return (not o["accepted"]), name + ("" if not o["accepted"] else " [an invalid map (%s) was accepted]" % c["fault"])
    n, ns, im = c["w"] * c["h"] * c["d"], c["ns"], c["im"]
    G = max(im) + 1
    kept = [i for i in range(n) if im[i] >= 0]
    if abs(sum(o["volumes"]) - len(kept) * c["edge"] ** 3) > 1e-9 * len(kept) * c["edge"] ** 3:
        return False, name + " [total volume]"
    for s in range(ns):
        if abs(sum(o["state"][s * G:(s + 1) * G]) - sum(c["state"][s * n + i] for i in kept)) > 1e-9 * (1 + sum(c["state"])):
            return False, name + " [amount of species %d]" % s
        for g in range(G):
            if o["flags"][s * G + g] != any(c["chs"][s * n + i] for i in range(n) if im[i] == g):
                return False, name + " [chemostat flag]"
    keys = [(e[0], e[1]) for e in o["edges"]]
    if len(set(keys)) != len(keys) or any(a == b for a, b in keys):
        return False, name + " [duplicate edge or self-loop]"
    if o.get("identity_ok") is False:
        return False, name + " [simulate(cgmap=identity) differs from the plain simulation]"
    return None, name


def build_items(cases, run=None):
    core.use_repo()
    engine_build.build(False)
    items = []
    obs = child.map_children("c16", "observe", cases, timeout=120, confirm=True)      # a crash or hang of the engine is an observation
    for c, o in zip(cases, obs):
        if "timeout" in o or "crash" in o or "error" in o:
            o = {"accepted": False, "why": "harness: %s" % (o.get("error") or ("timeout" if "timeout" in o else "crash"))}
        gc, go = emit(c, o)
        items.append({"case": c, "obs": o, "gcase": gc, "gobs": go, "nontrivial": o["accepted"]})
    return items


def check(run):
    rng = random.Random(run.seed)
    n = 400 if run.tier == "quick" else 6000
    cases = [make_case(rng, run.tier) for _ in range(n)]
    items = build_items(cases, run)
    for it in items:
        c = it["case"]
        run.count("map:%s" % (c["fault"] or c["kind"]))
        run.count("dims:%d" % sum(1 for v in (c["w"], c["h"], c["d"]) if v > 1))
        if c["kind"] != "invalid" and -1 in c["im"]:
            run.count("dropped_cells_envs:%d" % len(set(c["env"][i] for i, v in enumerate(c["im"]) if v == -1)))
        run.count("accepted:%s" % it["obs"]["accepted"])
    run.rule = ("random reflecting grids (1-D, 2-D, 3-D, up to 16 (48) cells, cubic cells, 1-3 environments, random units) with index maps built by "
                "partitioning the cells of each environment into random (non-contiguous) groups and dropping a random fraction (so dropped cells span "
                "several environments), identity maps, and invalid maps (wrong length, values below -1, missing index, a group mixing environments, "
                "everything dropped, a float entry); observed: accepted / raised, node volumes and environments, edge list with surfaces and "
                "distances (compared through squared centroid distances), aggregated state and flags, uncoarsegrain_trajectory_data on a random "
                "sample, and for identity maps simulate(cgmap=identity) vs the plain Euler simulation. non-trivial = the map was accepted")
    core.decide(run, items, IMPORTS, "accept_C16", oracle, shard=60)


def replay(run, payload):
    core.decide(run, build_items([payload["case"]]), IMPORTS, "accept_C16", oracle)
