"""Compile the native engine from the working tree of the repository (never the prebuilt .so)."""
import ctypes
import hashlib
import os
import subprocess
from pathlib import Path

from . import core

SRC_REL = "src/strengths/engines/strengths_engine/src"


def _sources():
    d = core.REPO / SRC_REL
    return sorted(d.glob("*.cpp")) + sorted(d.glob("*.hpp"))


def _digest(extra=""):
    h = hashlib.sha1(extra.encode())
    for p in _sources():
        h.update(p.name.encode())
        h.update(p.read_bytes())
    return h.hexdigest()[:16]


def build(sanitize=False):
    """Returns the path of a shared library built from the current sources (cached by content hash)."""
    core.BUILD.mkdir(exist_ok=True)
    flags = (["-O1", "-g", "-fsanitize=address,undefined", "-fno-omit-frame-pointer", "-D_GLIBCXX_ASSERTIONS",
              "-fno-sanitize-recover=undefined"]
             if sanitize else ["-O2"])
    tag = "san" if sanitize else "plain"
    out = core.BUILD / ("engine-%s-%s.so" % (tag, _digest(tag)))
    if out.exists():
        return out
    src = core.REPO / SRC_REL / "engine.cpp"
    tmp = out.with_suffix(".tmp%d.so" % os.getpid())
    cmd = ["g++", "-std=c++11", "-shared", "-fPIC"] + flags + ["-I", str(core.REPO / SRC_REL), str(src), "-o", str(tmp)]
    r = subprocess.run(cmd, capture_output=True, text=True, timeout=600)
    if r.returncode != 0:
        raise RuntimeError("engine does not compile:\n" + r.stderr[-3000:])
    os.replace(tmp, out)
    # drop stale builds
    for p in core.BUILD.glob("engine-%s-*.so" % tag):
        if p != out:
            try:
                p.unlink()
            except OSError:
                pass
    return out


def build_all():
    build(False)
    build(True)


def san_env():
    """Environment for a child process that loads the sanitizer build."""
    def lib(n):
        return subprocess.run(["g++", "-print-file-name=" + n], capture_output=True, text=True).stdout.strip()
    env = dict(os.environ)
    env["LD_PRELOAD"] = lib("libasan.so") + " " + lib("libubsan.so")
    env["ASAN_OPTIONS"] = "detect_leaks=0:abort_on_error=1:halt_on_error=1"
    env["UBSAN_OPTIONS"] = "halt_on_error=1:print_stacktrace=1"
    return env


_ENGINES = {}


def engine(kind, sanitize=False):
    """A LibRDEngine of the package, bound to the freshly compiled library."""
    from strengths.librdengine import LibRDEngine
    path = str(build(sanitize))
    return LibRDEngine(ctypes.CDLL(path), option=kind, description="verif-" + kind,
                       requires_molecules=(kind != "euler"))
