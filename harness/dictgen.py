"""Dictionary descriptions (the JSON-level input format of the package) built from the harness' system descriptions, and the
unit-changing transformations of C04: every level (script > system > network | space > species | reaction | node | edge) carries
its own units system; a quantity is a bare number (read in its owner's units) or an explicit "value units" string."""
import copy
from fractions import Fraction as Fr

from . import si, sysgen

DIMS = sysgen.DIMS


def qstr(q, dim):
    """explicit quantity -> text"""
    return "%r %s" % (float(q["v"]), si.units_str(q["sys"], dim))


def q_out(q, dim):
    return q["bare"] if "bare" in q else qstr(q, dim)


def ev_out(ev, dim, leaf=None):
    leaf = leaf or (lambda q: q_out(q, dim))
    if "scalar" in ev:
        return leaf(ev["scalar"])
    return {k: leaf(q) for k, q in ev["dict"]}


def units_out(sys3, parent, style):
    """how a level declares its units: an explicit dictionary, or nothing at all when it equals its parent's (inherited)"""
    if style == "inherit_when_equal" and parent is not None and tuple(sys3) == tuple(parent):
        return None
    return {"space": sys3[0], "time": sys3[1], "quantity": sys3[2]}


def put_units(d, sys3, parent, style):
    u = units_out(sys3, parent, style)
    if u is not None:
        d["units"] = u
    return d


def species_dict(s, parent, style):
    chs = s["chstt"]
    chs = chs["scalar"] if "scalar" in chs else {k: v for k, v in chs["dict"]}
    return put_units({"label": s["label"], "D": ev_out(s["D"], DIMS["D"]), "density": ev_out(s["dens"], DIMS["dens"]), "chstt": chs},
                     s["units"], parent, style)


def reaction_dict(r, parent, style):
    osub, oprod = sum(r["sub"].values()), sum(r["prod"].values())
    d = {"stoichiometry": [dict(r["sub"]), dict(r["prod"])], "k+": ev_out(r["kf"], sysgen.kdim(osub)), "k-": ev_out(r["kr"], sysgen.kdim(oprod))}
    if r.get("label") is not None:
        d["label"] = r["label"]
    return put_units(d, r["units"], parent, style)


def network_dict(desc, parent, style):
    nu = desc["net_units"]
    return put_units({"species": [species_dict(s, nu, style) for s in desc["species"]],
                      "reactions": [reaction_dict(r, nu, style) for r in desc["reactions"]],
                      "environments": list(desc["envs"])}, nu, parent, style)


def space_dict(sp, parent, style):
    su = sp["units"]
    if sp["type"] == "grid":
        return put_units({"type": "grid", "w": sp["w"], "h": sp["h"], "d": sp["d"], "cell_env": list(sp["env"]),
                          "cell_volume": q_out(sp["vol"], DIMS["vol"]),
                          "boundary_conditions": {a: sysgen.BC[p] for a, p in zip("xyz", sp["per"])}}, su, parent, style)
    nodes = [put_units({"volume": q_out(n["vol"], DIMS["vol"]), "environment": n["env"]}, n["units"], su, style) for n in sp["nodes"]]
    edges = [put_units({"nodes": [e["i"], e["j"]], "surface": q_out(e["surface"], DIMS["surface"]), "distance": q_out(e["distance"], DIMS["distance"])},
                       e["units"], su, style) for e in sp["edges"]]
    return put_units({"type": "graph", "nodes": nodes, "edges": edges}, su, parent, style)


def system_dict(desc, parent=None, style="explicit"):
    su = desc["sys_units"]
    d = {"network": network_dict(desc, su, style), "space": space_dict(desc["space"], su, style)}
    if desc.get("state") is not None:
        st = desc["state"]
        d["state"] = list(st["bare"]) if "bare" in st else {"value": list(st["v"]), "units": si.units_str(st["sys"], DIMS["amount"])}
    if desc.get("chemostats") is not None:
        d["chemostats"] = [int(b) for b in desc["chemostats"]]
    return put_units(d, su, parent, style)


def script_dict(sc, style="explicit"):
    """sc: {"desc":…, "units":…, "dt": q, "t_sample": {"bare": [...]} | {"v": [...], "sys":…}, "t_max": q | None, "interval": q, "policy":…, "seed":…}"""
    u = sc["units"]
    ts = sc["t_sample"]
    d = {"system": system_dict(sc["desc"], u, style),
         "t_sample": list(ts["bare"]) if "bare" in ts else {"value": list(ts["v"]), "units": si.units_str(ts["sys"], DIMS["time"])},
         "time_step": q_out(sc["dt"], DIMS["time"]), "sampling_policy": sc["policy"], "sampling_interval": q_out(sc["interval"], DIMS["time"]),
         "rng_seed": sc["seed"]}
    if sc.get("t_max") is not None:
        d["t_max"] = q_out(sc["t_max"], DIMS["time"])
    return put_units(d, u, None, "explicit")


# ------------------------------------------------------------------------------ transformations that keep the physics
def _factor(old, new, dim):
    return si.si_scale(old, dim) / si.si_scale(new, dim)


def _rescale_q(q, old, new, dim):
    if "bare" in q:
        q["bare"] = float(Fr(q["bare"]) * _factor(old, new, dim))


def _rescale_ev(ev, old, new, dim):
    if "scalar" in ev:
        _rescale_q(ev["scalar"], old, new, dim)
    else:
        for _, q in ev["dict"]:
            _rescale_q(q, old, new, dim)


def _explicit_q(q, owner):
    if "bare" in q:
        v = q.pop("bare")
        q["v"], q["sys"] = v, list(owner)


def _explicit_ev(ev, owner):
    for q in ([ev["scalar"]] if "scalar" in ev else [q for _, q in ev["dict"]]):
        _explicit_q(q, owner)


def _objects(desc):
    """(object, quantity fields with their dimensions) for every unit-carrying object of a description"""
    out = []
    for s in desc["species"]:
        out.append((s, [("D", DIMS["D"], True), ("dens", DIMS["dens"], True)]))
    for r in desc["reactions"]:
        out.append((r, [("kf", sysgen.kdim(sum(r["sub"].values())), True), ("kr", sysgen.kdim(sum(r["prod"].values())), True)]))
    sp = desc["space"]
    if sp["type"] == "grid":
        out.append((sp, [("vol", DIMS["vol"], False)]))
    else:
        out.append((sp, []))
        for n in sp["nodes"]:
            out.append((n, [("vol", DIMS["vol"], False)]))
        for e in sp["edges"]:
            out.append((e, [("surface", DIMS["surface"], False), ("distance", DIMS["distance"], False)]))
    return out


def change_units(desc, pick):
    """every level gets the units system pick(level object) and its bare numbers are re-scaled so that they mean the same"""
    d = copy.deepcopy(desc)
    for obj, fields in _objects(d):
        old, new = obj["units"], pick()
        for name, dim, is_ev in fields:
            (_rescale_ev if is_ev else _rescale_q)(obj[name], old, new, dim)
        obj["units"] = list(new)
    d["net_units"] = list(pick())
    old, new = d["sys_units"], pick()
    if d.get("state") is not None and "bare" in d["state"]:
        f = _factor(old, new, DIMS["amount"])
        d["state"]["bare"] = [float(Fr(v) * f) for v in d["state"]["bare"]]
    d["sys_units"] = list(new)
    return d


def make_explicit(desc, pick):
    """every bare number becomes an explicit quantity in its owner's units; afterwards the declared systems are irrelevant"""
    d = copy.deepcopy(desc)
    for obj, fields in _objects(d):
        for name, dim, is_ev in fields:
            (_explicit_ev if is_ev else _explicit_q)(obj[name], obj["units"])
        obj["units"] = list(pick())
    if d.get("state") is not None and "bare" in d["state"]:
        d["state"] = {"v": d["state"]["bare"], "sys": list(d["sys_units"])}
    d["net_units"] = list(pick())
    d["sys_units"] = list(pick())
    return d


def change_script_units(sc, new):
    s = copy.deepcopy(sc)
    old = s["units"]
    for key in ("dt", "interval", "t_max"):
        if s.get(key) is not None:
            _rescale_q(s[key], old, new, DIMS["time"])
    if "bare" in s["t_sample"]:
        f = _factor(old, new, DIMS["time"])
        s["t_sample"]["bare"] = [float(Fr(v) * f) for v in s["t_sample"]["bare"]]
    s["units"] = list(new)
    return s


def make_script_explicit(sc, new):
    """time step, interval, t_max and requested times become explicit quantities in the old script units; the script then declares `new`"""
    s = copy.deepcopy(sc)
    old = s["units"]
    for key in ("dt", "interval", "t_max"):
        if s.get(key) is not None:
            _explicit_q(s[key], old)
    if "bare" in s["t_sample"]:
        s["t_sample"] = {"v": s["t_sample"]["bare"], "sys": list(old)}
    s["units"] = list(new)
    return s
